import XotModel.Model.Basic
import XotModel.Generated
import XotModel.Model.Entity
import XotModel.Driver.Codec
import XotModel.Driver.Entity
