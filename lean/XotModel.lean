import XotModel.Model.Basic
import XotModel.Generated
import XotModel.Model.Entity
import XotModel.Model.Tree
import XotModel.Model.Env
import XotModel.Lemmas.Entity
import XotModel.Props.C01
import XotModel.Props.C14
