/-
  Driver for the `forest` suite: a stateful session over `Model/Forest` + `Manip`.
  Node arguments are *labels*: numbers given to nodes in order of first appearance in the
  canonical dump (roots by label, then new roots; each root in raw document order), computed
  the same way by the harness from the real `Xot`.
-/
import XotModel.Model.ForestInv
import XotModel.Driver.TreeCodec

namespace XotModel.Driver

structure FState where
  forest : Forest := {}
  /-- (handle, label) -/
  labels : List (Nat × Nat) := []
  nextLabel : Nat := 0
  /-- parentless nodes no handle was ever handed out for (the fresh node a refused `append_text`
      … leaves behind, see `Model/Fcreation.lean`): unreachable for the caller, not shown -/
  hidden : List Nat := []
  deriving Inhabited

namespace FState

def labelOf (s : FState) (h : Nat) : Option Nat := s.labels.lookup h
def handleOf (s : FState) (l : Nat) : Option Nat := (s.labels.find? (fun p => p.2 == l)).map (·.1)

/-- Roots in canonical order: labelled ones by label, then unlabelled ones by handle. -/
def orderedRoots (s : FState) : List HTree :=
  let labelled := s.forest.roots.filterMap (fun r => (s.labelOf r.handle).map (fun l => (l, r)))
  let unl := s.forest.roots.filter (fun r => (s.labelOf r.handle).isNone && !s.hidden.contains r.handle)
  let sorted := labelled.toArray.qsort (fun a b => a.1 < b.1) |>.toList
  let unlSorted := unl.toArray.qsort (fun a b => a.handle < b.handle) |>.toList
  sorted.map (·.2) ++ unlSorted

/-- Give labels to all unlabelled live nodes, in canonical traversal order. -/
def relabel (s : FState) : FState :=
  let hs := HTree.handlesList s.orderedRoots
  hs.foldl (fun st h =>
    match st.labelOf h with
    | some _ => st
    | none => { st with labels := st.labels ++ [(h, st.nextLabel)], nextLabel := st.nextLabel + 1 }) s

partial def showHTree (s : FState) : HTree → String
  | .node h v ks =>
    let l := match s.labelOf h with | some l => toString l | none => "?"
    let head := l ++ " " ++ showValue v
    if ks.isEmpty then head else head ++ " [ " ++ String.intercalate " " (ks.map (showHTree s)) ++ " ]"

def dump (s : FState) : String :=
  let rs := s.orderedRoots.map (fun r => "R " ++ showHTree s r)
  (if s.forest.corrupt then "CORRUPT " else "") ++ String.intercalate " " rs

def removedLabels (s : FState) : String :=
  let ls := (s.labels.filter (fun p => !s.forest.isLive p.1)).map (·.2)
  String.intercalate " " ((ls.toArray.qsort (· < ·)).toList.map toString)

end FState

def showRes : Res → String
  | .ok => "ok"
  | .panic => "panic"
  | .err .invalidOperation => "err:InvalidOperation"
  | .err .nodeError => "err:NodeError"
  | .err .invalidComment => "err:InvalidComment"
  | .err .notElement => "err:NotElement"
  | .err _ => "err:Other"

def parseValue : List String → Option Value
  | ["D"] => some .document
  | ["E", n] => (n.toNat?).map .element
  | ["T", s] => (decStr s).map .text
  | ["C", s] => (decStr s).map .comment
  | ["P", t, "-"] => (t.toNat?).map (fun t => .pi t none)
  | ["P", t, s] => do some (.pi (← t.toNat?) (some (← decStr s)))
  | ["A", n, s] => do some (.attribute (← n.toNat?) (← decStr s))
  | ["N", p, n] => do some (.namespace (← p.toNat?) (← n.toNat?))
  | _ => none

def mapKind? : String → Option Forest.MapKind
  | "attr" => some .attributes
  | "ns" => some .namespaces
  | _ => none

/-- Read-only view of a node map: `n=<len> e=<is_empty> k:v …` (values: string or ns id). -/
def showMap (f : Forest) (k : Forest.MapKind) (h : Nat) : String :=
  match f.get? h with
  | none => "none"
  | some t =>
    let cs := Forest.mapChildren k t
    let items := cs.map fun c => match c.value with
      | .attribute n v => s!"{n}:{encStr v}"
      | .namespace p n => s!"{p}:{n}"
      | _ => "?"
    s!"n={cs.length} e={if cs.isEmpty then 1 else 0} " ++ String.intercalate " " items

/-- One request; returns the new state and the response. -/
def handleForest (s : FState) (ws : List String) : Option (FState × String) :=
  let node (w : String) : Option Nat := do s.handleOf (← w.toNat?)
  let fin (f : Forest) (r : Res) : Option (FState × String) :=
    some (({ s with forest := f }).relabel, showRes r)
  let finNew (f : Forest) (h : Nat) : Option (FState × String) :=
    let s' := ({ s with forest := f }).relabel
    some (s', "ok " ++ (match s'.labelOf h with | some l => toString l | none => "?"))
  let finResNode (f : Forest) (r : Res) (h : Nat) : Option (FState × String) :=
    let s' := ({ s with forest := f }).relabel
    match r with
    | .ok => some (s', "ok " ++ (match s'.labelOf h with | some l => toString l | none => "?"))
    | r => some (s', showRes r)
  match ws with
  | ["reset"] => some ({}, "ok")
  | ["cons", b] => some ({ s with forest := s.forest.setConsolidation (b == "1") }, "ok")
  | "new" :: v => do
      let v ← parseValue v
      let (f, h) := s.forest.newNode v
      finNew f h
  | ["dump"] => some (s, s.dump)
  | ["removed"] => some (s, s.removedLabels)
  | ["inv"] => some (s, if s.forest.inv then "1" else "0")
  | ["append", a, b] => do let (f, r) := s.forest.append (← node a) (← node b); fin f r
  | ["prepend", a, b] => do let (f, r) := s.forest.prepend (← node a) (← node b); fin f r
  | ["insert_after", a, b] => do let (f, r) := s.forest.insertAfter (← node a) (← node b); fin f r
  | ["insert_before", a, b] => do let (f, r) := s.forest.insertBefore (← node a) (← node b); fin f r
  | ["detach", a] => do let (f, r) := s.forest.detach (← node a); fin f r
  | ["remove", a] => do let (f, r) := s.forest.remove (← node a); fin f r
  | ["replace", a, b] => do let (f, r) := s.forest.replace (← node a) (← node b); fin f r
  | ["unwrap", a] => do let (f, r) := s.forest.elementUnwrap (← node a); fin f r
  | ["wrap", a, n] => do
      let (f, r, w) := s.forest.elementWrap (← node a) (← n.toNat?)
      finResNode f r w
  | ["clone", a] => do
      match s.forest.cloneNode (← node a) with
      | (f, some c) => finNew f c
      | (f, none) => fin f .panic
  | ["any_append", a, b] => do
      let (f, r, h) := s.forest.anyAppend (← node a) (← node b)
      finResNode f r h
  | ["append_attr_node", a, b] => do
      let (f, r, h) := s.forest.appendEntryNode .attributes (← node a) (← node b)
      finResNode f r h
  | ["append_ns_node", a, b] => do
      let (f, r, h) := s.forest.appendEntryNode .namespaces (← node a) (← node b)
      finResNode f r h
  | ["map_insert", "attr", a, k, v] => do
      let (f, r) := s.forest.mapInsert .attributes (← node a) (.attribute (← k.toNat?) (← decStr v)); fin f r
  | ["map_insert", "ns", a, k, v] => do
      let (f, r) := s.forest.mapInsert .namespaces (← node a) (.namespace (← k.toNat?) (← v.toNat?)); fin f r
  | ["map_remove", kind, a, k] => do
      let (f, r) := s.forest.mapRemove (← mapKind? kind) (← node a) (← k.toNat?); fin f r
  | ["map_clear", kind, a] => do
      let (f, r) := s.forest.mapClear (← mapKind? kind) (← node a); fin f r
  | ["map_read", kind, a] => do some (s, showMap s.forest (← mapKind? kind) (← node a))
  | ["set_name", a, n] => do let (f, r) := s.forest.setElementName (← node a) (← n.toNat?); fin f r
  | ["set_text", a, v] => do let (f, r) := s.forest.setText (← node a) (← decStr v); fin f r
  | ["set_comment", a, v] => do let (f, r) := s.forest.setComment (← node a) (← decStr v); fin f r
  | ["set_pi_data", a, "-"] => do let (f, r) := s.forest.setPiData (← node a) none; fin f r
  | ["set_pi_data", a, v] => do let (f, r) := s.forest.setPiData (← node a) (some (← decStr v)); fin f r
  | ["text_content_set", a, v] => do let (f, r) := s.forest.textContentSet (← node a) (← decStr v); fin f r
  | ["strip_ws", a] => do fin (s.forest.removeInsignificantWhitespace (← node a)) .ok
  | _ => none

end XotModel.Driver
