/-
  Driver for the `lex` suite: `lex <doc|frag> <s:…>`, answered with the word `lex` followed by
  the token dump in the wire format of `harness/src/build_obs.rs::dump_tokens` (see the header
  of Driver/Parse.lean; `X <pos>` last if the tokenizer failed).
-/
import XotModel.Model.Lex
import XotModel.Driver.Codec

namespace XotModel.Driver

def showSpan (s : StrSpan) : String := s!"{s.start} {encStr s.text}"

def showOptSpan : Option StrSpan → String
  | none => "-"
  | some s => showSpan s

def showToken : Token → String
  | .declaration v e sa sp =>
    let sa := match sa with | some true => "y" | some false => "n" | none => "-"
    s!"D {showSpan v} {showOptSpan e} {sa} {showSpan sp}"
  | .pi t c sp => s!"P {showSpan t} {showOptSpan c} {showSpan sp}"
  | .comment t sp => s!"C {showSpan t} {showSpan sp}"
  | .dtdStart sp => s!"DS {showSpan sp}"
  | .emptyDtd sp => s!"ED {showSpan sp}"
  | .entityDecl sp => s!"EN {showSpan sp}"
  | .dtdEnd sp => s!"DE {showSpan sp}"
  | .elementStart p l sp => s!"ES {showSpan p} {showSpan l} {showSpan sp}"
  | .attribute p l v sp => s!"A {showSpan p} {showSpan l} {showSpan v} {showSpan sp}"
  | .elementEnd .open sp => s!"EO {showSpan sp}"
  | .elementEnd .empty sp => s!"EE {showSpan sp}"
  | .elementEnd (.close p l) sp => s!"EC {showSpan p} {showSpan l} {showSpan sp}"
  | .text t => s!"T {showSpan t}"
  | .cdata t sp => s!"CD {showSpan t} {showSpan sp}"

def showLex (r : List Token × Option Nat) : String :=
  let ws := r.1.map showToken ++ (match r.2 with | some p => [s!"X {p}"] | none => [])
  String.intercalate " " ("lex" :: ws)

def handleLex : List String → Option String
  | ["doc", s] => (decStr s).map fun s => showLex (lexDocument s)
  | ["frag", s] => (decStr s).map fun s => showLex (lexFragment s)
  | _ => none

end XotModel.Driver
