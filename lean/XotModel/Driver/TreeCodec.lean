/-
  Wire format of trees: blank-separated tokens
    D | E <name> | T <str> | C <str> | P <target> <str|-> | A <name> <str> | N <prefix> <ns>
  optionally followed by `[ kid … ]`.
-/
import XotModel.Model.Tree
import XotModel.Driver.Codec

namespace XotModel.Driver

mutual
  partial def parseTree : List String → Option (Tree × List String)
    | "D" :: rest => withKids .document rest
    | "E" :: n :: rest => do withKids (.element (← n.toNat?)) rest
    | "T" :: s :: rest => do withKids (.text (← decStr s)) rest
    | "C" :: s :: rest => do withKids (.comment (← decStr s)) rest
    | "P" :: t :: "-" :: rest => do withKids (.pi (← t.toNat?) none) rest
    | "P" :: t :: s :: rest => do withKids (.pi (← t.toNat?) (some (← decStr s))) rest
    | "A" :: n :: s :: rest => do withKids (.attribute (← n.toNat?) (← decStr s)) rest
    | "N" :: p :: n :: rest => do withKids (.namespace (← p.toNat?) (← n.toNat?)) rest
    | _ => none
  partial def withKids (v : Value) : List String → Option (Tree × List String)
    | "[" :: rest => do
        let (ks, rest') ← parseKids rest
        some (.node v ks, rest')
    | rest => some (.node v [], rest)
  partial def parseKids : List String → Option (List Tree × List String)
    | "]" :: rest => some ([], rest)
    | toks => do
        let (k, rest) ← parseTree toks
        let (ks, rest') ← parseKids rest
        some (k :: ks, rest')
end

def showValue : Value → String
  | .document => "D"
  | .element n => s!"E {n}"
  | .text s => s!"T {encStr s}"
  | .comment s => s!"C {encStr s}"
  | .pi t none => s!"P {t} -"
  | .pi t (some s) => s!"P {t} {encStr s}"
  | .attribute n s => s!"A {n} {encStr s}"
  | .namespace p n => s!"N {p} {n}"

partial def showTree : Tree → String
  | .node v [] => showValue v
  | .node v ks => showValue v ++ " [ " ++ String.intercalate " " (ks.map showTree) ++ " ]"

def showPath (p : Path) : String :=
  if p.isEmpty then "." else String.intercalate "." (p.map toString)

def parsePath (s : String) : Option Path :=
  if s == "." then some [] else
  (s.splitOn ".").foldr (fun w acc => match acc, w.toNat? with
    | some l, some n => some (n :: l)
    | _, _ => none) (some [])

end XotModel.Driver
