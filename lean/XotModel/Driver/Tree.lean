import XotModel.Model.Tree
import XotModel.Model.Env
import XotModel.Model.IdMap
import XotModel.Driver.TreeCodec

namespace XotModel.Driver

/-- Driver state carried from line to line. -/
structure DState where
  env : Env := {}
  /-- suite `idmap`: the interning tables under test (`Xot::new()` until `idmap new`) … -/
  interner : Interner := Interner.new
  /-- … and the second `Xot` made by `idmap clone` (`idmap swap` exchanges the two). -/
  internerOther : Interner := Interner.new

def parseStrList (w : String) : Option (List Str) :=
  if w == "-" then some [] else
  (w.splitOn ",").foldr (fun part acc => match acc, decStr part with
    | some l, some s => some (s :: l)
    | _, _ => none) (some [])

def parseNameList (w : String) : Option (List (Str × Nat)) :=
  if w == "-" then some [] else
  (w.splitOn ",").foldr (fun part acc =>
    match acc, part.splitOn "@" with
    | some l, [s, n] => (match decStr s, n.toNat? with
        | some s, some n => some ((s, n) :: l)
        | _, _ => none)
    | _, _ => none) (some [])

/-- `vocab ns <list> pf <list> nm <list>` -/
def handleVocab (st : DState) : List String → Option (DState × String)
  | ["ns", ns, "pf", pf, "nm", nm] => do
      let ns ← parseStrList ns
      let pf ← parseStrList pf
      let nm ← parseNameList nm
      some ({ st with env := { namespaces := ns, prefixes := pf, names := nm } }, "ok")
  | _ => none

def handleTree : List String → Option String
  | "echo" :: toks => do
      let (t, rest) ← parseTree toks
      if rest.isEmpty then some (showTree t) else none
  | "size" :: toks => do
      let (t, rest) ← parseTree toks
      if rest.isEmpty then some (toString t.size) else none
  | _ => none

end XotModel.Driver
