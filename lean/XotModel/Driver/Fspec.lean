/-
  Driver for the `fspec` suite (C05): `forest spec <op> <labels…>` answers with the CONTENT
  (labels erased, roots in canonical order) of the SPECIFICATION (`Model/FspecSpec.lean`, rule
  `Keep.earlier`) applied to the current session forest; the session state is not changed.
  Since the second round also `clone`, the attribute / namespace map updates, the value setters
  and `text_content_set` (`Model/FspecSpec2.lean`).
  `forest specx <op> <labels…>` answers `1` iff the model's own result of the call is, handle
  for handle, the specification with xot's survivor rule (`Keep.resident`): a model-internal
  cross-check of the statements proved in `Props/C05.lean`.
  `forest specp <op> …` / `specpx`: the PAIR reading (`Model/FspecSpec3.lean`, `FspecSpec4.lean`), defined
  for every forest: the six basic calls, `unwrap`, `wrap`, `replace` (`specReplaceP`; `specpc` = 1 in
  the corner `selfMergeReplace`, where xot differed from it until 609b613).
-/
import XotModel.Model.FspecSpec
import XotModel.Model.FspecSpec2
import XotModel.Model.FspecSpec3
import XotModel.Model.FspecSpec4
import XotModel.Driver.Forest

namespace XotModel.Driver
open XotModel.Spec

/-- Content dump: `R <tree>` per root, canonical root order, handles forgotten. -/
def contentDump (s : FState) (f : Forest) : String :=
  let s' : FState := { s with forest := f }
  (if f.corrupt then "CORRUPT " else "") ++
    String.intercalate " " (s'.orderedRoots.map (fun r => "R " ++ showTree (HTree.erase r)))

partial def showRaw : HTree → String
  | .node h v ks => s!"{h} {showValue v} [ " ++ String.intercalate " " (ks.map showRaw) ++ " ]"

/-- Everything observable of a forest, handles included. -/
def rawDump (f : Forest) : String :=
  s!"{f.next} {f.consolidation} {f.everOff} {f.corrupt} | " ++ String.intercalate " | " (f.roots.map showRaw)

/-- The specification of one call (with survivor rule chosen by `res`), and the model's result. -/
def specOf (s : FState) (ws : List String) (resident : Bool) : Option (Forest × Forest) :=
  let node (w : String) : Option Nat := do s.handleOf (← w.toNat?)
  let f := s.forest
  let keep (n : Nat) : Keep := if resident then Keep.resident n else Keep.earlier
  match ws with
  | ["append", a, b] => do
      let p ← node a; let c ← node b
      some (specMove (keep c) (.lastChildOf p) c f, (f.append p c).1)
  | ["prepend", a, b] => do
      let p ← node a; let c ← node b
      some (specMove (keep c) (.firstNormalChildOf p) c f, (f.prepend p c).1)
  | ["insert_after", a, b] => do
      let r ← node a; let c ← node b
      some (specMove (keep c) (.after r) c f, (f.insertAfter r c).1)
  | ["insert_before", a, b] => do
      let r ← node a; let c ← node b
      some (specMove (keep c) (.before r) c f, (f.insertBefore r c).1)
  | ["remove", a] => do
      let n ← node a
      some (specRemove (keep n) n f, (f.remove n).1)
  | ["detach", a] => do
      let n ← node a
      some (specDetach (keep n) n f, (f.detach n).1)
  | ["unwrap", a] => do
      let n ← node a
      some (specUnwrap (keep n) n f, (f.elementUnwrap n).1)
  | ["wrap", a, nm] => do
      let n ← node a; let nm ← nm.toNat?
      some (specWrap n nm f, (f.elementWrap n nm).1)
  | ["replace", a, b] => do
      let o ← node a; let n ← node b
      some (if resident then specReplaceX o n f else specReplace Keep.earlier o n f, (f.replace o n).1)
  | ["clone", a] => do
      let n ← node a
      some (specClone n f, (f.cloneNode n).1)
  | ["map_insert", "attr", a, k, v] => do
      let e ← node a; let entry := Value.attribute (← k.toNat?) (← decStr v)
      some (specMapInsert .attributes e entry f, (f.mapInsert .attributes e entry).1)
  | ["map_insert", "ns", a, k, v] => do
      let e ← node a; let entry := Value.namespace (← k.toNat?) (← v.toNat?)
      some (specMapInsert .namespaces e entry f, (f.mapInsert .namespaces e entry).1)
  | ["map_remove", kind, a, k] => do
      let e ← node a; let mk ← mapKind? kind; let key ← k.toNat?
      some (specMapRemove mk e key f, (f.mapRemove mk e key).1)
  | ["set_name", a, nm] => do
      let n ← node a; let nm ← nm.toNat?
      some (specSetValue n (.element nm) f, (f.setElementName n nm).1)
  | ["set_text", a, v] => do
      let n ← node a; let t ← decStr v
      some (specSetValue n (.text t) f, (f.setText n t).1)
  | ["set_comment", a, v] => do
      let n ← node a; let t ← decStr v
      some (specSetValue n (.comment t) f, (f.setComment n t).1)
  | ["set_pi_data", a, v] => do
      let n ← node a
      let d ← (if v == "-" then some none else (decStr v).map some)
      match f.value? n with
      | some (.pi tg _) => some (specSetValue n (.pi tg (piData d)) f, (f.setPiData n d).1)
      | _ => none
  | ["text_content_set", a, v] => do
      let n ← node a; let t ← decStr v
      some (specTextContentSet n t f, (f.textContentSet n t).1)
  | _ => none

/-- The PAIR reading (`Model/FspecSpec3.lean`): defined for every forest, also one that already
    holds adjacent text nodes. -/
def specPOf (s : FState) (ws : List String) : Option (Forest × Forest × Bool) :=
  let node (w : String) : Option Nat := do s.handleOf (← w.toNat?)
  let f := s.forest
  match ws with
  | ["append", a, b] => do
      let p ← node a; let c ← node b
      some (specMoveP (.lastChildOf p) c f, (f.append p c).1, selfMerge f (.lastChildOf p) c)
  | ["prepend", a, b] => do
      let p ← node a; let c ← node b
      some (specMoveP (.firstNormalChildOf p) c f, (f.prepend p c).1, false)
  | ["insert_after", a, b] => do
      let r ← node a; let c ← node b
      some (specMoveP (.after r) c f, (f.insertAfter r c).1, false)
  | ["insert_before", a, b] => do
      let r ← node a; let c ← node b
      some (specMoveP (.before r) c f, (f.insertBefore r c).1, selfMerge f (.before r) c)
  | ["remove", a] => do
      let n ← node a
      some (specRemoveP n f, (f.remove n).1, false)
  | ["detach", a] => do
      let n ← node a
      some (specDetachP n f, (f.detach n).1, false)
  -- the composite calls (`Model/FspecSpec4.lean`); `element_wrap` merges nothing: `specWrap` is its
  -- own pair reading.  `replace`: the reading the property demands; the third component tells
  -- the corner `selfMergeReplace`, in which xot differed from it until 609b613
  | ["unwrap", a] => do
      let n ← node a
      some (specUnwrapP n f, (f.elementUnwrap n).1, false)
  | ["wrap", a, nm] => do
      let n ← node a; let nm ← nm.toNat?
      some (specWrap n nm f, (f.elementWrap n nm).1, false)
  | ["replace", a, b] => do
      let o ← node a; let n ← node b
      some (specReplaceP o n f, (f.replace o n).1, selfMergeReplace f o n)
  | _ => none

def handleFspec (s : FState) (ws : List String) : Option String :=
  match ws with
  -- since xot c33de0a the specification is shown in the corner `selfMerge` too (the third
  -- component only tells the harness statistics that the corner was hit: `specpc`)
  | "specp" :: rest => do
      let (sp, _, _) ← specPOf s rest
      some (contentDump s sp)
  | "specpx" :: rest => do
      let (sp, md, _) ← specPOf s rest
      some (if rawDump sp == rawDump md then "1" else "0")
  | "specpc" :: rest => do
      let (_, _, corner) ← specPOf s rest
      some (if corner then "1" else "0")
  | "spec" :: rest => do
      let (sp, _) ← specOf s rest false
      some (contentDump s sp)
  | "specx" :: rest => do
      let (sp, md) ← specOf s rest true
      some (if rawDump sp == rawDump md then "1" else "0")
  | _ => none

end XotModel.Driver
