/-
  Driver for the guards of "accepted ⇒ round trip" (C03, suite `build`):

    accguard <doc|frag> <len> <tokens…>   run the builder on the tokens (as `build` does); answer
                                          `rejected`, or `ok <g> <p>` with g = `NoReservedDecls`,
                                          p = `PlainPiTargets` of the accepted tree (0 / 1)
-/
import XotModel.Model.AcceptedGuard
import XotModel.Driver.Parse

namespace XotModel.Driver

def bit (b : Bool) : String := if b then "1" else "0"

def handleAccGuard (st : DState) : List String → Option String
  | mode :: len :: toks => do
      let m ← (match mode with | "doc" => some Mode.document | "frag" => some Mode.fragment | _ => none)
      let n ← len.toNat?
      let (ts, lexErr) ← parseTokens toks #[]
      match build m n st.env ts lexErr with
      | .ok p => some s!"ok {bit (NoReservedDecls p.env p.tree)} {bit (PlainPiTargets p.env p.tree)}"
      | _ => some "rejected"
  | _ => none

end XotModel.Driver
