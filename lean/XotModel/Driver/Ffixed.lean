/-
  Driver for the `ffixed` suite (C20): `forest fixed <route> <abstract document>` runs one
  construction route of `Model/Fixed.lean` on the driver's forest session and answers
  `ok <label of the document node>` (or `panic`).  The abstract document travels as the wire
  format of `treeOf d` (Driver/TreeCodec.lean): it is the same information; the decoder splits an
  element's children into namespace nodes, attribute nodes and content, and the document's
  children into before / element / after.
-/
import XotModel.Model.Fixed
import XotModel.Driver.Forest

namespace XotModel.Driver

def nsOfTree : Tree → Option (Nat × Nat)
  | .node (.namespace p n) [] => some (p, n)
  | _ => none

def attrOfTree : Tree → Option (Nat × Str)
  | .node (.attribute n v) [] => some (n, v)
  | _ => none

partial def contentOfTree : Tree → Option FContent
  | .node (.text s) [] => some (.text s)
  | .node (.comment s) [] => some (.comment s)
  | .node (.pi t d) [] => some (.pi t d)
  | .node (.element n) kids => do
      let nsK := kids.takeWhile (fun k => k.value.category == .namespace)
      let rest := kids.dropWhile (fun k => k.value.category == .namespace)
      let atK := rest.takeWhile (fun k => k.value.category == .attribute)
      let cs := rest.dropWhile (fun k => k.value.category == .attribute)
      let ps ← nsK.mapM nsOfTree
      let as ← atK.mapM attrOfTree
      let cs ← cs.mapM contentOfTree
      some (.element n ps as cs)
  | _ => none

def docContentOf : FContent → Option FDocContent
  | .comment s => some (.comment s)
  | .pi t d => some (.pi t d)
  | _ => none

def elementOf : FContent → Option FElement
  | .element n ps as cs => some { name := n, prefixes := ps, attributes := as, children := cs }
  | _ => none

/-- Inverse of `treeOf`. -/
def documentOfTree : Tree → Option FDocument
  | .node .document kids => do
      let items ← kids.mapM contentOfTree
      let isEl : FContent → Bool := fun c => match c with | .element .. => true | _ => false
      let before := items.takeWhile (fun c => !isEl c)
      match items.dropWhile (fun c => !isEl c) with
      | el :: after =>
        some { before := ← before.mapM docContentOf, documentElement := ← elementOf el,
               after := ← after.mapM docContentOf }
      | [] => none
  | _ => none

/-- `fixed <route> <tree wire>`. -/
def handleFfixed (s : FState) : List String → Option (FState × String)
  | route :: toks => do
      let (t, rest) ← parseTree toks
      if !rest.isEmpty then none
      let d ← documentOfTree t
      let r ← match route with
        | "xotify" => some (s.forest.xotifyDocument d)
        | "topdown" => some (s.forest.topDownDocument d)
        | "bottomup" => some (s.forest.bottomUpDocument d)
        | "rtl" => some (s.forest.rtlDocument d)
        | _ => none
      match r with
      | none => some (s, "panic")
      | some (f, h) =>
        let s' := ({ s with forest := f }).relabel
        some (s', "ok " ++ (match s'.labelOf h with | some l => toString l | none => "?"))
  | _ => none

end XotModel.Driver
