/-
  Driver for the `build` suite: `build <doc|frag> <len> <token dump>`.

  Token dump (a StrSpan is two words `<start> <s:…>`, an absent optional StrSpan is `-`):
    D <version> <encoding|-> <y|n|-> <span>      P <target> <content|-> <span>
    C <text> <span>      DS|ED|EN|DE <span>      ES <prefix> <local> <span>
    A <prefix> <local> <value> <span>            EO <span> | EC <prefix> <local> <span> | EE <span>
    T <text>             CD <text> <span>        X <pos>   (tokenizer error; last word pair)
  Response:
    ok <tree> ; ids <value=path,…|-> ; spans <path/KIND=start-end,…|-> ; ns … ; pf … ; nm …
    err:<Variant> <start> <end> <payload…> ; ns … ; pf … ; nm …
    panic
  `ns`/`pf`/`nm` list the entries the call added to the interning tables, in id order.
-/
import XotModel.Model.Parse
import XotModel.Driver.TreeCodec
import XotModel.Driver.Tree

namespace XotModel.Driver

def parseSpanWords : List String → Option (StrSpan × List String)
  | st :: s :: rest => do
      let n ← st.toNat?
      let t ← decStr s
      some (⟨t, n⟩, rest)
  | _ => none

def parseOptSpanWords : List String → Option (Option StrSpan × List String)
  | "-" :: rest => some (none, rest)
  | ws => do
      let (s, rest) ← parseSpanWords ws
      some (some s, rest)

/-- One token (or the trailing `X <pos>`); returns the rest of the words. -/
def parseToken : List String → Option (Token × List String)
  | "D" :: ws => do
      let (v, ws) ← parseSpanWords ws
      let (e, ws) ← parseOptSpanWords ws
      match ws with
      | sa :: ws =>
        let sa ← (match sa with
          | "y" => some (some true) | "n" => some (some false) | "-" => some none | _ => none)
        let (sp, ws) ← parseSpanWords ws
        some (.declaration v e sa sp, ws)
      | [] => none
  | "P" :: ws => do
      let (t, ws) ← parseSpanWords ws
      let (c, ws) ← parseOptSpanWords ws
      let (sp, ws) ← parseSpanWords ws
      some (.pi t c sp, ws)
  | "C" :: ws => do
      let (t, ws) ← parseSpanWords ws
      let (sp, ws) ← parseSpanWords ws
      some (.comment t sp, ws)
  | "DS" :: ws => do let (sp, ws) ← parseSpanWords ws; some (.dtdStart sp, ws)
  | "ED" :: ws => do let (sp, ws) ← parseSpanWords ws; some (.emptyDtd sp, ws)
  | "EN" :: ws => do let (sp, ws) ← parseSpanWords ws; some (.entityDecl sp, ws)
  | "DE" :: ws => do let (sp, ws) ← parseSpanWords ws; some (.dtdEnd sp, ws)
  | "ES" :: ws => do
      let (p, ws) ← parseSpanWords ws
      let (l, ws) ← parseSpanWords ws
      let (sp, ws) ← parseSpanWords ws
      some (.elementStart p l sp, ws)
  | "A" :: ws => do
      let (p, ws) ← parseSpanWords ws
      let (l, ws) ← parseSpanWords ws
      let (v, ws) ← parseSpanWords ws
      let (sp, ws) ← parseSpanWords ws
      some (.attribute p l v sp, ws)
  | "EO" :: ws => do let (sp, ws) ← parseSpanWords ws; some (.elementEnd .open sp, ws)
  | "EE" :: ws => do let (sp, ws) ← parseSpanWords ws; some (.elementEnd .empty sp, ws)
  | "EC" :: ws => do
      let (p, ws) ← parseSpanWords ws
      let (l, ws) ← parseSpanWords ws
      let (sp, ws) ← parseSpanWords ws
      some (.elementEnd (.close p l) sp, ws)
  | "T" :: ws => do let (t, ws) ← parseSpanWords ws; some (.text t, ws)
  | "CD" :: ws => do
      let (t, ws) ← parseSpanWords ws
      let (sp, ws) ← parseSpanWords ws
      some (.cdata t sp, ws)
  | _ => none

partial def parseTokens (ws : List String) (acc : Array Token) : Option (List Token × Option Nat) :=
  match ws with
  | [] => some (acc.toList, none)
  | ["X", pos] => pos.toNat?.map fun p => (acc.toList, some p)
  | _ => match parseToken ws with
    | some (t, rest) => parseTokens rest (acc.push t)
    | none => none

/-! ### Canonical printing -/

def strLt : Str → Str → Bool
  | [], [] => false
  | [], _ :: _ => true
  | _ :: _, [] => false
  | a :: as, b :: bs => a.toNat < b.toNat || (a.toNat == b.toNat && strLt as bs)

def pathLt : Path → Path → Bool
  | [], [] => false
  | [], _ :: _ => true
  | _ :: _, [] => false
  | a :: as, b :: bs => a < b || (a == b && pathLt as bs)

def kindRank : SpanKind → Nat × Nat
  | .elementStart => (0, 0)
  | .elementEnd => (1, 0)
  | .text => (2, 0)
  | .comment => (3, 0)
  | .piTarget => (4, 0)
  | .piContent => (5, 0)
  | .attributeName n => (6, n)
  | .attributeValue n => (7, n)

def kindStr : SpanKind → String
  | .elementStart => "ES"
  | .elementEnd => "EE"
  | .text => "T"
  | .comment => "C"
  | .piTarget => "PT"
  | .piContent => "PC"
  | .attributeName n => s!"AN{n}"
  | .attributeValue n => s!"AV{n}"

def keyLe (a b : SpanKey × Span) : Bool :=
  if pathLt a.1.path b.1.path then true
  else if pathLt b.1.path a.1.path then false
  else
    let ra := kindRank a.1.kind
    let rb := kindRank b.1.kind
    ra.1 < rb.1 || (ra.1 == rb.1 && ra.2 ≤ rb.2)

def commaList (l : List String) : String :=
  if l.isEmpty then "-" else String.intercalate "," l

def showSpans (m : SpanMap) : String :=
  commaList ((m.mergeSort keyLe).map fun e =>
    s!"{showPath e.1.path}/{kindStr e.1.kind}={e.2.start}-{e.2.stop}")

def showIdPairs (m : List (Str × Path)) : String :=
  commaList ((m.mergeSort (fun a b => !strLt b.1 a.1)).map fun e => s!"{encStr e.1}={showPath e.2}")

/-- The entries added to the tables by the call. -/
def showEnvDelta (old new : Env) : String :=
  let ns := (new.namespaces.drop old.namespaces.length).map encStr
  let pf := (new.prefixes.drop old.prefixes.length).map encStr
  let nm := (new.names.drop old.names.length).map fun e => s!"{encStr e.1}@{e.2}"
  s!"ns {commaList ns} ; pf {commaList pf} ; nm {commaList nm}"

def showErr : ParseErr → String
  | .unclosedTag sp => s!"err:UnclosedTag {sp.start} {sp.stop}"
  | .invalidCloseTag p n sp => s!"err:InvalidCloseTag {sp.start} {sp.stop} {encStr p} {encStr n}"
  | .unclosedEntity e pos => s!"err:UnclosedEntity {pos} {pos} {encStr e}"
  | .invalidEntity e sp => s!"err:InvalidEntity {sp.start} {sp.stop} {encStr e}"
  | .unknownPrefix p sp => s!"err:UnknownPrefix {sp.start} {sp.stop} {encStr p}"
  | .duplicateAttribute n sp => s!"err:DuplicateAttribute {sp.start} {sp.stop} {encStr n}"
  | .unsupportedVersion v sp => s!"err:UnsupportedVersion {sp.start} {sp.stop} {encStr v}"
  | .dtdUnsupported sp => s!"err:DtdUnsupported {sp.start} {sp.stop}"
  | .noElementAtTopLevel pos => s!"err:NoElementAtTopLevel {pos} {pos}"
  | .multipleElementsAtTopLevel sp => s!"err:MultipleElementsAtTopLevel {sp.start} {sp.stop}"
  | .textAtTopLevel sp => s!"err:TextAtTopLevel {sp.start} {sp.stop}"
  | .duplicateId v sp => s!"err:DuplicateId {sp.start} {sp.stop} {encStr v}"
  | .invalidNamespaceDeclaration n sp => s!"err:InvalidNamespaceDeclaration {sp.start} {sp.stop} {encStr n}"
  | .invalidTarget t sp => s!"err:InvalidTarget {sp.start} {sp.stop} {encStr t}"
  | .xmlParser pos => s!"err:XmlParser {pos} {pos}"

def showBuild (old : Env) : BuildResult → String
  | .panic => "panic"
  | .err e env => s!"{showErr e} ; {showEnvDelta old env}"
  | .ok p =>
    s!"ok {showTree p.tree} ; ids {showIdPairs p.ids} ; spans {showSpans p.spans} ; {showEnvDelta old p.env}"

/-- `parse` / `parse_bytes` return no SpanInfo. -/
def showBuildNoSpans (old : Env) : BuildResult → String
  | .ok p => s!"ok {showTree p.tree} ; ids {showIdPairs p.ids} ; {showEnvDelta old p.env}"
  | r => showBuild old r

def handleBuild (st : DState) : List String → Option String
  | "bytes" :: len :: toks => do
      let n ← len.toNat?
      let (ts, lexErr) ← parseTokens toks #[]
      some (showBuildNoSpans st.env (parseBytes st.env n ts lexErr))
  | mode :: len :: toks => do
      let m ← (match mode with | "doc" => some Mode.document | "frag" => some Mode.fragment | _ => none)
      let n ← len.toNat?
      let (ts, lexErr) ← parseTokens toks #[]
      some (showBuild st.env (build m n st.env ts lexErr))
  | _ => none

end XotModel.Driver
