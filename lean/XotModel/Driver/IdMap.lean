/-
  Suite `idmap` (C08): registration / lookup histories on the interning tables.  Stateful: the
  `Interner` lives in `DState.interner`; `idmap clone` copies it to `DState.internerOther`,
  `idmap swap` exchanges the two.  Ids travel as decimal numbers.

    new                                   -> ok <no_ns> <empty_prefix> <xml_ns> <xml_prefix> <xml_space> <xml_id>
    builtins                              -> ok <id>=<str> … (the six built-ins resolved through the *_str accessors)
    add_name s | add_name_ns s ns | add_namespace s | add_prefix s          -> ok <id>
    name s | name_ns s ns | namespace s | prefix s                          -> some <id> | none
    name_ns_str n -> ok <local> <uri> | panic      local_name_str n | uri_str n -> ok <str> | panic
    namespace_str n | prefix_str n -> ok <str> | panic     namespace_for_name n -> ok <ns> | panic
    implicit ns <strs> pf <strs> nm <local@ns,…>   (registrations observed after parse / html5())
                                          -> ok <ids> <ids> <ids>
    parse <doc|frag> <len> <token dump>   the registrations the PARSER MODEL predicts for these tokens
                                          (`Interner.parse` = `regAll` of `buildRegs`, Model/IdMapParse)
    html5                                 the registrations of `Interner.html5`
                                          -> ok ns <strs> pf <strs> nm <local@ns,…> ids <ids> <ids> <ids>
                                             (entries the call added to each table, in id order, and
                                              the id the read-only lookup now gives for each)
    bulk_names <count> <p> <ns> <i,j,…> | bulk_namespaces <count> <p> <i,…> | bulk_prefixes <count> <p> <i,…>
        registers p0 … p{count-1}          -> ok <ids at the sampled positions>
    clone | swap                          -> ok
-/
import XotModel.Model.IdMap
import XotModel.Model.IdMapParse
import XotModel.Driver.Parse
import XotModel.Driver.Codec
import XotModel.Driver.Tree

namespace XotModel.Driver

def showOptId : Option Nat → String
  | some n => s!"some {n}"
  | none => "none"

def showOkStr : Option Str → String
  | some s => "ok " ++ encStr s
  | none => "panic"

def showIds (ids : List Nat) : String :=
  if ids.isEmpty then "-" else String.intercalate "," (ids.map toString)

def sampleIds (ids : List Nat) (samples : List Nat) : Option (List Nat) :=
  let arr := ids.toArray
  samples.foldr (fun i acc => match acc, arr[i]? with
    | some l, some id => some (id :: l)
    | _, _ => none) (some [])

def showBuiltin (id : Nat) (s : Option String) : String :=
  s!"{id}=" ++ (s.getD "panic")

def showBuiltins (x : Interner) : String :=
  let nm (n : Nat) : Option String := (x.nameNsStr n).map fun p => encStr p.1 ++ "@" ++ encStr p.2
  String.intercalate " " [
    "ok",
    showBuiltin x.noNamespaceId ((x.namespaceStr x.noNamespaceId).map encStr),
    showBuiltin x.emptyPrefixId ((x.prefixStr x.emptyPrefixId).map encStr),
    showBuiltin x.xmlNamespaceId ((x.namespaceStr x.xmlNamespaceId).map encStr),
    showBuiltin x.xmlPrefixId ((x.prefixStr x.xmlPrefixId).map encStr),
    showBuiltin x.xmlSpaceId (nm x.xmlSpaceId),
    showBuiltin x.xmlIdId (nm x.xmlIdId)]

def showStrs (l : List Str) : String :=
  if l.isEmpty then "-" else String.intercalate "," (l.map encStr)

def showNames (l : List NameKey) : String :=
  if l.isEmpty then "-" else String.intercalate "," (l.map fun k => encStr k.1 ++ "@" ++ toString k.2)

def showLookups {α : Type} (f : α → Option Nat) (l : List α) : String :=
  if l.isEmpty then "-" else String.intercalate "," (l.map fun v => match f v with
    | some n => toString n
    | none => "none")

/-- What a call added to the three tables (the tails of the `by_id` vectors) and the ids the
    read-only lookups give for the new entries afterwards. -/
def showDelta (x x' : Interner) : String :=
  let ns := x'.namespaceLookup.byId.drop x.namespaceLookup.byId.length
  let pf := x'.prefixLookup.byId.drop x.prefixLookup.byId.length
  let nm := x'.nameLookup.byId.drop x.nameLookup.byId.length
  s!"ok ns {showStrs ns} pf {showStrs pf} nm {showNames nm} ids {showLookups x'.namespace ns} {showLookups x'.prefix pf} {showLookups (fun k => x'.nameNs k.1 k.2) nm}"

def handleIdMap (st : DState) : List String → Option (DState × String)
  | ["new"] =>
      let x := Interner.new
      some ({ st with interner := x },
        s!"ok {x.noNamespaceId} {x.emptyPrefixId} {x.xmlNamespaceId} {x.xmlPrefixId} {x.xmlSpaceId} {x.xmlIdId}")
  | ["builtins"] => some (st, showBuiltins st.interner)
  | ["add_name", s] => do
      let r := st.interner.addName (← decStr s)
      some ({ st with interner := r.1 }, s!"ok {r.2}")
  | ["add_name_ns", s, ns] => do
      let r := st.interner.addNameNs (← decStr s) (← ns.toNat?)
      some ({ st with interner := r.1 }, s!"ok {r.2}")
  | ["add_namespace", s] => do
      let r := st.interner.addNamespace (← decStr s)
      some ({ st with interner := r.1 }, s!"ok {r.2}")
  | ["add_prefix", s] => do
      let r := st.interner.addPrefix (← decStr s)
      some ({ st with interner := r.1 }, s!"ok {r.2}")
  | ["name", s] => do some (st, showOptId (st.interner.name (← decStr s)))
  | ["name_ns", s, ns] => do some (st, showOptId (st.interner.nameNs (← decStr s) (← ns.toNat?)))
  | ["namespace", s] => do some (st, showOptId (st.interner.namespace (← decStr s)))
  | ["prefix", s] => do some (st, showOptId (st.interner.prefix (← decStr s)))
  | ["name_ns_str", n] => do
      some (st, match st.interner.nameNsStr (← n.toNat?) with
        | some (l, u) => s!"ok {encStr l} {encStr u}"
        | none => "panic")
  | ["local_name_str", n] => do some (st, showOkStr (st.interner.localNameStr (← n.toNat?)))
  | ["uri_str", n] => do some (st, showOkStr (st.interner.uriStr (← n.toNat?)))
  | ["namespace_str", n] => do some (st, showOkStr (st.interner.namespaceStr (← n.toNat?)))
  | ["prefix_str", n] => do some (st, showOkStr (st.interner.prefixStr (← n.toNat?)))
  | ["namespace_for_name", n] => do
      some (st, match st.interner.namespaceForName (← n.toNat?) with
        | some ns => s!"ok {ns}"
        | none => "panic")
  | ["implicit", "ns", ns, "pf", pf, "nm", nm] => do
      let x := st.interner
      let rn := x.namespaceLookup.registerAll Gen.namespaceIdBits (← parseStrList ns)
      let rp := x.prefixLookup.registerAll Gen.prefixIdBits (← parseStrList pf)
      let rm := x.nameLookup.registerAll Gen.nameIdBits (← parseNameList nm)
      some ({ st with interner := { x with namespaceLookup := rn.1, prefixLookup := rp.1, nameLookup := rm.1 } },
        s!"ok {showIds rn.2} {showIds rp.2} {showIds rm.2}")
  | "parse" :: mode :: len :: toks => do
      let _ ← (match mode with | "doc" => some Mode.document | "frag" => some Mode.fragment | _ => none)
      let _ ← len.toNat?
      let (ts, _) ← parseTokens toks #[]
      let x' := st.interner.parse ts
      some ({ st with interner := x' }, showDelta st.interner x')
  | ["html5"] =>
      let x' := st.interner.html5.1
      some ({ st with interner := x' }, showDelta st.interner x')
  | ["bulk_names", count, p, ns, samples] => do
      let x := st.interner
      let p ← decStr p
      let ns ← ns.toNat?
      let r := x.nameLookup.registerRange Gen.nameIdBits (fun i => (bulkValue p i, ns)) (← count.toNat?)
      let ids ← sampleIds r.2 (← parseNatList samples)
      some ({ st with interner := { x with nameLookup := r.1 } }, s!"ok {showIds ids}")
  | ["bulk_namespaces", count, p, samples] => do
      let x := st.interner
      let r := x.namespaceLookup.registerRange Gen.namespaceIdBits (bulkValue (← decStr p)) (← count.toNat?)
      let ids ← sampleIds r.2 (← parseNatList samples)
      some ({ st with interner := { x with namespaceLookup := r.1 } }, s!"ok {showIds ids}")
  | ["bulk_prefixes", count, p, samples] => do
      let x := st.interner
      let r := x.prefixLookup.registerRange Gen.prefixIdBits (bulkValue (← decStr p)) (← count.toNat?)
      let ids ← sampleIds r.2 (← parseNatList samples)
      some ({ st with interner := { x with prefixLookup := r.1 } }, s!"ok {showIds ids}")
  | ["clone"] => some ({ st with internerOther := st.interner.clone }, "ok")
  | ["swap"] => some ({ st with interner := st.internerOther, internerOther := st.interner }, "ok")
  | _ => none

end XotModel.Driver
