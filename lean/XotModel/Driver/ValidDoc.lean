/-
  Driver for suite `validdoc` (property C03, `validate_well_formed_document`):
    validate <path> <tree>      the call at the node `path` of `tree`
  Answers: `ok` / `err:<Variant>`.
-/
import XotModel.Model.ValidDoc
import XotModel.Driver.TreeCodec

namespace XotModel.Driver

def showValidate : Except XotError Unit → String
  | .ok () => "ok"
  | .error .notDocument => "err:NotDocument"
  | .error .textAtTopLevel => "err:TextAtTopLevel"
  | .error .illegalAtTopLevel => "err:IllegalAtTopLevel"
  | .error .noElementAtTopLevel => "err:NoElementAtTopLevel"
  | .error .multipleElementsAtTopLevel => "err:MultipleElementsAtTopLevel"
  | .error _ => "err:other"

def handleValidate : List String → Option String
  | path :: toks => do
      let p ← parsePath path
      let (t, rest) ← parseTree toks
      if !rest.isEmpty then none
      else match t.at? p with
        | none => none
        | some sub => some (showValidate (validateWellFormedDocument sub))
  | _ => none

end XotModel.Driver
