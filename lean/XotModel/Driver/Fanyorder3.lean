/-
  Driver for construction programs WITH NAVIGATION AND INPUTS (C20, `Model/FanyorderSpec3.lean`):

    forest prog3 spec in <label>… ; <step> ; <step> ; …
        the SPECIFICATION's run (`Prog3.runSpec`) started in the current session forest with the
        nodes labelled `<label>…` as inputs: `illformed`, or the CONTENT dump of its final forest
        (labels erased, canonical root order), then ` | ` and the DENOTATION (`Prog3.rootTrees`): for
        every input and result, in order, the root tree it lies in at the end (`-`: the node is gone),
        separated by ` , `
    forest prog3 impl in <label>… ; <step> ; …
        the implementation model's run (`Prog3.runImpl`): outcome, content dump, ` | `, root trees

  Steps: those of `forest prog2` (`Driver/Fanyorder2.lean`) and the navigation steps `child r k` |
  `parent r` | `attr_node r name` | `ns_node r prefix` (each yields a result) and the updates
  `remove_attribute e name` | `remove_namespace e prefix` | `clear_attributes e` | `clear_namespaces e` |
  `ns_set_ns n ns` | `pi_set_target n target`; node arguments are indices into inputs ++ results.
  The session state is not changed.
-/
import XotModel.Model.FanyorderSpec3
import XotModel.Driver.Fanyorder2

namespace XotModel.Driver
open XotModel.Prog3

def parseStep3 : List String → Option Prog3.Step
  | ["child", r, k] => do some (.child (← r.toNat?) (← k.toNat?))
  | ["parent", r] => do some (.parent (← r.toNat?))
  | ["attr_node", r, a] => do some (.attrNode (← r.toNat?) (← a.toNat?))
  | ["ns_node", r, p] => do some (.nsNode (← r.toNat?) (← p.toNat?))
  | ["remove_attribute", e, a] => do some (.removeAttribute (← e.toNat?) (← a.toNat?))
  | ["remove_namespace", e, p] => do some (.removeNamespace (← e.toNat?) (← p.toNat?))
  | ["clear_attributes", e] => do some (.clearAttributes (← e.toNat?))
  | ["clear_namespaces", e] => do some (.clearNamespaces (← e.toNat?))
  | ["ns_set_ns", n, ns] => do some (.nsSetNamespace (← n.toNat?) (← ns.toNat?))
  | ["pi_set_target", n, t] => do some (.piSetTarget (← n.toNat?) (← t.toNat?))
  | ws => (parseStep2 ws).map .old

/-- `in <label>… ; <step> ; …`: inputs (as handles) and program. -/
def parseProgram3 (s : FState) (ws : List String) : Option (List Nat × Prog3.Program) :=
  match splitSteps ws with
  | ("in" :: ls) :: steps => do
      let ins ← ls.mapM (fun w => do s.handleOf (← w.toNat?))
      let P ← steps.mapM parseStep3
      some (ins, P)
  | _ => none

def showDenotation (ts : List (Option Tree)) : String :=
  String.intercalate " , " (ts.map fun
    | some t => showTree t
    | none => "-")

def handleFanyorder3 (s : FState) : List String → Option String
  | "spec" :: rest => do
      let (ins, P) ← parseProgram3 s rest
      match Prog3.runSpec { forest := s.forest, env := ins } P with
      | none => some "illformed"
      | some s' => some (contentDump s s'.forest ++ " | " ++ showDenotation (Prog3.rootTrees s'))
  | "impl" :: rest => do
      let (ins, P) ← parseProgram3 s rest
      let r := Prog3.runImpl { forest := s.forest, env := ins } P
      some (showRes r.2 ++ " " ++ contentDump s r.1.forest ++ " | " ++ showDenotation (Prog3.rootTrees r.1))
  | _ => none

end XotModel.Driver
