/-
  Line-protocol codec shared by all driver suites.
  Strings travel as `s:` + dot-separated hexadecimal code points.
-/
import XotModel.Model.Basic

namespace XotModel.Driver

def hexDigit (n : Nat) : Char :=
  if n < 10 then Char.ofNat (48 + n) else Char.ofNat (87 + n)

def toHexAux : Nat → Nat → List Char → List Char
  | 0, _, acc => acc
  | fuel + 1, n, acc =>
    if n < 16 then hexDigit n :: acc else toHexAux fuel (n / 16) (hexDigit (n % 16) :: acc)

def toHex (n : Nat) : String := String.ofList (toHexAux 16 n [])

def hexVal (c : Char) : Option Nat :=
  let n := c.toNat
  if 48 ≤ n ∧ n ≤ 57 then some (n - 48)
  else if 97 ≤ n ∧ n ≤ 102 then some (n - 87)
  else if 65 ≤ n ∧ n ≤ 70 then some (n - 55)
  else none

def parseHex (s : String) : Option Nat :=
  if s.isEmpty then none else
  s.toList.foldl (fun acc c => match acc, hexVal c with
    | some a, some d => some (a * 16 + d)
    | _, _ => none) (some 0)

def encStr (s : Str) : String :=
  "s:" ++ String.intercalate "." (s.map (fun c => toHex c.toNat))

def decStr (w : String) : Option Str :=
  if w.startsWith "s:" then
    let body := (w.drop 2).toString
    if body.isEmpty then some [] else
    (body.splitOn ".").foldr (fun part acc =>
      match acc, parseHex part with
      | some cs, some n => (charOfNat? n).map (· :: cs)
      | _, _ => none) (some [])
  else none

def parseNatList (w : String) : Option (List Nat) :=
  if w == "-" then some [] else
  (w.splitOn ",").foldr (fun part acc => match acc, part.toNat? with
    | some l, some n => some (n :: l)
    | _, _ => none) (some [])

def words (line : String) : List String :=
  (line.splitOn " ").filter (fun w => !w.isEmpty)

end XotModel.Driver
