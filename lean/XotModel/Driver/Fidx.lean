/-
  Driver for the xml:id index (C04): extra requests of the `forest` session.

    forest parse <tree wire>        (also `parse_fragment`) `Xot::parse` of a text whose tree is the given one, into the
                                    session's store  -> ok <label of the document node> | err:DuplicateId
    forest xml_id <label> <value>   `xml_id_node(document, value)`  -> <label> | none

  The index is carried next to the forest session (`Main.MState.idx`) and cleared by `reset`.
-/
import XotModel.Model.FidIndex
import XotModel.Driver.Forest

namespace XotModel.Driver

abbrev IdIndex := List ((Nat × Str) × Nat)

def handleFidx (s : FState) (idx : IdIndex) (ws : List String) : Option (FState × IdIndex × String) :=
  match ws with
  | "parse" :: rest | "parse_fragment" :: rest =>
    match parseTree rest with
    | some (t, []) =>
      match IdStore.parse { forest := s.forest, index := idx } t with
      | (st, some doc) =>
        let s' := ({ s with forest := st.forest }).relabel
        some (s', st.index, "ok " ++ (match s'.labelOf doc with | some l => toString l | none => "?"))
      | (_, none) => some (s, idx, "err:DuplicateId")
    | _ => none
  | ["xml_id", d, v] => do
    let doc ← s.handleOf (← d.toNat?)
    let v ← decStr v
    match IdStore.xmlIdNode { forest := s.forest, index := idx } doc v with
    | some h => some (s, idx, match s.labelOf h with | some l => toString l | none => "?")
    | none => some (s, idx, "none")
  | _ => none

end XotModel.Driver
