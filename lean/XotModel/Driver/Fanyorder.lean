/-
  Driver for construction programs (C20, `Model/FanyorderSpec.lean`):

    forest prog spec <step> ; <step> ; …    the SPECIFICATION's run (`Prog.runSpec`) of the program,
                                            started in the current session forest with no node
                                            created: `illformed`, or the CONTENT dump of its
                                            final forest (labels erased, canonical root order)
    forest prog impl <step> ; <step> ; …    the implementation model's run (`Prog.runImpl`):
                                            outcome, then the content dump of the state reached

  Steps: `new <value>` | `append p c` | `prepend p c` | `insert_after r n` | `insert_before r n` |
  `any_append p c` | `set_attr e name <str>` | `set_ns e prefix ns`; node arguments are indices of
  the program's own `new` steps.  The session state is not changed.
-/
import XotModel.Model.FanyorderSpec
import XotModel.Driver.Fspec

namespace XotModel.Driver
open XotModel.Prog

/-- Split a token list at the `;` tokens. -/
def splitSteps (ws : List String) : List (List String) :=
  let (cur, acc) := ws.foldl (fun (st : List String × List (List String)) w =>
    if w == ";" then ([], st.2 ++ [st.1]) else (st.1 ++ [w], st.2)) ([], [])
  if cur.isEmpty && acc.isEmpty then [] else acc ++ [cur]

def parseStep : List String → Option Step
  | "new" :: v => (parseValue v).map .create
  | ["append", a, b] => do some (.append (← a.toNat?) (← b.toNat?))
  | ["prepend", a, b] => do some (.prepend (← a.toNat?) (← b.toNat?))
  | ["insert_after", a, b] => do some (.insertAfter (← a.toNat?) (← b.toNat?))
  | ["insert_before", a, b] => do some (.insertBefore (← a.toNat?) (← b.toNat?))
  | ["any_append", a, b] => do some (.anyAppend (← a.toNat?) (← b.toNat?))
  | ["set_attr", e, n, v] => do some (.setAttribute (← e.toNat?) (← n.toNat?) (← decStr v))
  | ["set_ns", e, p, n] => do some (.setNamespace (← e.toNat?) (← p.toNat?) (← n.toNat?))
  | _ => none

def parseProgram (ws : List String) : Option Program := (splitSteps ws).mapM parseStep

def handleFanyorder (s : FState) : List String → Option String
  | "spec" :: rest => do
      let P ← parseProgram rest
      match runSpec { forest := s.forest } P with
      | none => some "illformed"
      | some s' => some (contentDump s s'.forest)
  | "impl" :: rest => do
      let P ← parseProgram rest
      let r := runImpl { forest := s.forest } P
      some (showRes r.2 ++ " " ++ contentDump s r.1.forest)
  | _ => none

end XotModel.Driver
