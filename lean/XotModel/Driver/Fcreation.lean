/-
  Driver for the convenience functions of `Model/Fcreation.lean` inside the `forest` session:
  `forest new_doc_with n`, `forest append_text p s`, … change the session state (full dump, `inv`,
  `removed` compared after every step like every other forest request); `forest spec …` /
  `forest specx …` / `forest specp …` / `forest specpx …` with these calls answer with their
  SPECIFICATION applied to the state before the call (C05), as `Driver/Fspec.lean` does for the
  calls of `Manip.lean`.

  A node the call created and left behind parentless without ever handing it out (refused
  `append_text`, `append_namespace` of an existing prefix) is remembered in `FState.hidden`: the
  caller cannot reach it, the dump does not show it (the real store cannot be asked for it either).
-/
import XotModel.Model.Fcreation
import XotModel.Driver.Fspec

namespace XotModel.Driver
open XotModel.Spec

/-- The state after a call that created the node `c` (handle `f.next` before the call) and
    returned `ret`: `c` is hidden when it is still parentless and is not what the caller got. -/
def afterCreation (s : FState) (f : Forest) (c : Nat) (ret : Option Nat) : FState :=
  let hide := f.isRoot c && ret != some c && c < f.next && !(c < s.forest.next)
  ({ s with forest := f, hidden := if hide then c :: s.hidden else s.hidden }).relabel

def labelStr (s : FState) (h : Nat) : String :=
  match s.labelOf h with | some l => toString l | none => "?"

/-- `data` word of a processing instruction: `-` = none. -/
def optStr? (w : String) : Option (Option Str) :=
  if w == "-" then some none else (decStr w).map some

/-- One request; returns the new state and the response. -/
def handleFcreation (s : FState) (ws : List String) : Option (FState × String) :=
  let node (w : String) : Option Nat := do s.handleOf (← w.toNat?)
  let f := s.forest
  let fin (r : Forest × Res) : Option (FState × String) :=
    some (({ s with forest := r.1 }).relabel, showRes r.2)
  let finNew (r : Forest × Res) : Option (FState × String) :=
    some (afterCreation s r.1 f.next none, showRes r.2)
  match ws with
  | ["new_doc_with", a] => do
      let r := f.newDocumentWithElement (← node a)
      let s' := afterCreation s r.1 f.next (some r.2.2)
      some (s', match r.2.1 with | .ok => "ok " ++ labelStr s' r.2.2 | e => showRes e)
  | ["append_text", p, v] => do finNew (f.appendText (← node p) (← decStr v))
  | ["append_element", p, n] => do finNew (f.appendElement (← node p) (← n.toNat?))
  | ["append_comment", p, v] => do finNew (f.appendComment (← node p) (← decStr v))
  | ["append_pi", p, t, d] => do finNew (f.appendPi (← node p) (← t.toNat?) (← optStr? d))
  | ["append_namespace", e, p, n] => do
      let r := f.appendNamespace (← node e) (← p.toNat?) (← n.toNat?)
      let s' := afterCreation s r.1 f.next (if r.2.1 == .ok then some r.2.2 else none)
      some (s', match r.2.1 with | .ok => "ok " ++ labelStr s' r.2.2 | e => showRes e)
  | ["set_attribute", e, k, v] => do fin (f.setAttribute (← node e) (← k.toNat?) (← decStr v))
  | ["remove_attribute", e, k] => do fin (f.removeAttribute (← node e) (← k.toNat?))
  | ["set_namespace", e, p, n] => do fin (f.setNamespace (← node e) (← p.toNat?) (← n.toNat?))
  | ["remove_namespace", e, p] => do fin (f.removeNamespace (← node e) (← p.toNat?))
  | ["el_set_name", a, n] => do fin (f.elementSetName (← node a) (← n.toNat?))
  | ["attr_set_value", a, v] => do fin (f.attributeSetValue (← node a) (← decStr v))
  | ["ns_set_ns", a, n] => do fin (f.namespaceSetNamespace (← node a) (← n.toNat?))
  | ["pi_set_target", a, t] => do fin (f.piSetTarget (← node a) (← t.toNat?))
  | ["text_push", a, v] => do fin (f.textPush (← node a) (← decStr v))
  | ["value_mut_set", a, v] => do fin (f.valueMutSet (← node a) (← decStr v))
  | _ => none

/-- Has the element `e` an entry with this key in view `k`? -/
def hasEntry (f : Forest) (k : Forest.MapKind) (e key : Nat) : Bool :=
  (f.kidsOf e).any (isEntry k key)

/-- The value a successful setter writes (none = the call refuses). -/
def setterValue (f : Forest) (op : String) (n : Nat) (arg : String) : Option Value :=
  match op, f.value? n with
  | "el_set_name", some (.element _) => arg.toNat?.map .element
  | "attr_set_value", some (.attribute k _) => (decStr arg).map (.attribute k)
  | "ns_set_ns", some (.namespace p _) => arg.toNat?.map (.namespace p)
  | "pi_set_target", some (.pi _ d) => arg.toNat?.map (fun t => .pi t d)
  | "text_push", some (.text old) => (decStr arg).map (fun x => .text (old ++ x))
  | "value_mut_set", some (.text _) => (decStr arg).map .text
  | "value_mut_set", some (.comment _) => (decStr arg).map .comment
  | "value_mut_set", some (.attribute k _) => (decStr arg).map (.attribute k)
  | "value_mut_set", some (.pi t _) => (decStr arg).map (fun x => .pi t (piData (some x)))
  | _, _ => none

/-- Specification (survivor rule chosen by `resident`) and the model's own result. -/
def specCreationOf (s : FState) (ws : List String) (resident : Bool) : Option (Forest × Forest) :=
  let node (w : String) : Option Nat := do s.handleOf (← w.toNat?)
  let f := s.forest
  let keep (n : Nat) : Keep := if resident then Keep.resident n else Keep.earlier
  -- create the node, then MOVE it: `specMove` to the last place under the parent
  let created (v : Value) (p : Nat) : Forest := specMove (keep f.next) (.lastChildOf p) f.next (f.newNode v).1
  match ws with
  | ["new_doc_with", a] => do
      let n ← node a
      some (specMove (keep n) (.lastChildOf f.next) n f.newDocument.1, (f.newDocumentWithElement n).1)
  | ["append_text", p, v] => do
      let p ← node p; let t ← decStr v
      some (created (.text t) p, (f.appendText p t).1)
  | ["append_element", p, n] => do
      let p ← node p; let n ← n.toNat?
      some (created (.element n) p, (f.appendElement p n).1)
  | ["append_comment", p, v] => do
      let p ← node p; let t ← decStr v
      some (created (.comment t) p, (f.appendComment p t).1)
  | ["append_pi", p, t, d] => do
      let p ← node p; let t ← t.toNat?; let d ← optStr? d
      some (created (.pi t d) p, (f.appendPi p t d).1)
  | ["append_namespace", e, p, n] => do
      let e ← node e; let entry := Value.namespace (← p.toNat?) (← n.toNat?)
      let sp := specMapInsert .namespaces e entry f
      -- handle for handle: an existing prefix leaves the fresh node behind as a parentless tree
      let spx := if hasEntry f .namespaces e (Forest.entryKey entry) then (sp.newNode entry).1 else sp
      some (if resident then spx else sp, (f.appendNamespace e (Forest.entryKey entry) (← n.toNat?)).1)
  | ["set_attribute", e, k, v] => do
      let e ← node e; let entry := Value.attribute (← k.toNat?) (← decStr v)
      some (specMapInsert .attributes e entry f, (f.setAttribute e (← k.toNat?) (← decStr v)).1)
  | ["set_namespace", e, p, n] => do
      let e ← node e; let entry := Value.namespace (← p.toNat?) (← n.toNat?)
      some (specMapInsert .namespaces e entry f, (f.setNamespace e (← p.toNat?) (← n.toNat?)).1)
  | ["remove_attribute", e, k] => do
      let e ← node e; let k ← k.toNat?
      some (specMapRemove .attributes e k f, (f.removeAttribute e k).1)
  | ["remove_namespace", e, p] => do
      let e ← node e; let p ← p.toNat?
      some (specMapRemove .namespaces e p f, (f.removeNamespace e p).1)
  | [op, a, arg] => do
      let n ← node a
      let v ← setterValue f op n arg
      let md ← (match op with
        | "el_set_name" => arg.toNat?.map (fun x => (f.elementSetName n x).1)
        | "attr_set_value" => (decStr arg).map (fun x => (f.attributeSetValue n x).1)
        | "ns_set_ns" => arg.toNat?.map (fun x => (f.namespaceSetNamespace n x).1)
        | "pi_set_target" => arg.toNat?.map (fun x => (f.piSetTarget n x).1)
        | "text_push" => (decStr arg).map (fun x => (f.textPush n x).1)
        | "value_mut_set" => (decStr arg).map (fun x => (f.valueMutSet n x).1)
        | _ => none)
      some (specSetValue n v f, md)
  | _ => none

/-- The PAIR reading (`Model/FspecSpec3.lean`) for the calls that move a node. -/
def specCreationPOf (s : FState) (ws : List String) : Option (Forest × Forest) :=
  let node (w : String) : Option Nat := do s.handleOf (← w.toNat?)
  let f := s.forest
  let created (v : Value) (p : Nat) : Forest := specMoveP (.lastChildOf p) f.next (f.newNode v).1
  match ws with
  | ["new_doc_with", a] => do
      let n ← node a
      some (specMoveP (.lastChildOf f.next) n f.newDocument.1, (f.newDocumentWithElement n).1)
  | ["append_text", p, v] => do
      let p ← node p; let t ← decStr v
      some (created (.text t) p, (f.appendText p t).1)
  | ["append_element", p, n] => do
      let p ← node p; let n ← n.toNat?
      some (created (.element n) p, (f.appendElement p n).1)
  | ["append_comment", p, v] => do
      let p ← node p; let t ← decStr v
      some (created (.comment t) p, (f.appendComment p t).1)
  | ["append_pi", p, t, d] => do
      let p ← node p; let t ← t.toNat?; let d ← optStr? d
      some (created (.pi t d) p, (f.appendPi p t d).1)
  | _ => none

def handleFcreationSpec (s : FState) (ws : List String) : Option String :=
  match ws with
  | "spec" :: rest => do
      let (sp, _) ← specCreationOf s rest false
      some (contentDump s sp)
  | "specx" :: rest => do
      let (sp, md) ← specCreationOf s rest true
      some (if rawDump sp == rawDump md then "1" else "0")
  | "specp" :: rest => do
      let (sp, _) ← specCreationPOf s rest
      some (contentDump s sp)
  | "specpx" :: rest => do
      let (sp, md) ← specCreationPOf s rest
      some (if rawDump sp == rawDump md then "1" else "0")
  | _ => none

end XotModel.Driver
