/-
  Driver, suite `arena`, request `arena refine <history>`: the refinement of the pointer-level arena
  to the forest model (`Model/Forest.lean`), CHECKED at run time on every history the suite
  generates — the executable counterpart of `C04_arena_refines_forest` (`Lemmas/ArenaSim.lean`), with
  `Forest.isRemoved` against `NodeId::is_removed` on top, and on the real crate's histories.

  The history is replayed on the arena model and, in parallel, on a `Forest` through the
  primitives `newNode`, `detachRaw`, `checkedAppend`, `checkedPrepend`, `checkedInsertAfter`,
  `checkedInsertBefore`, `spliceOut`, `dropSubtree`, `setValue`; ids are renamed to the forest's
  creation-order handles (`rho`).  After every mutating call with live arguments the forest read
  off the arena's pointers (`absForest`: parentless live slots, children by `first_child` /
  `next_sibling`) must equal the forest model's state up to the order of the roots, the
  refusals must agree, and `Forest.isRemoved` must agree with `NodeId::is_removed` on every id ever
  handed out.  Checking stops (answer so far stands) at the first call that has a non-live
  argument, panics, or sends the forest model to its `corrupt` sink.
  Answer: `ok <number of calls checked>` or `DIFF <step> <what>`.
-/
import XotModel.Driver.Arena
import XotModel.Model.Forest

namespace XotModel.Driver
namespace ArenaD
open XotModel XotModel.Arena

mutual
  def showHTree : HTree → String
    | .node h v ks => "(" ++ toString h ++ ":" ++ (match v with | .element n => toString n | _ => "?") ++
        "[" ++ showHTrees ks ++ "])"
  def showHTrees : List HTree → String
    | [] => ""
    | k :: ks => showHTree k ++ showHTrees ks
end

def rhoOf (rho : List (NodeId × Nat)) (id : NodeId) : Option Nat := (rho.find? (fun p => p.1 == id)).map (·.2)

mutual
  /-- The subtree at a slot, read off the pointers. -/
  def absTree (a : Arena) (rho : List (NodeId × Nat)) (fuel : Nat) (id : NodeId) : Option HTree :=
    match fuel with
    | 0 => none
    | fuel + 1 =>
      match a.nodes[id.index0]?, rhoOf rho id with
      | some s, some h =>
        match s.data with
        | .data v => (absKids a rho fuel a.nodes.length s.first).map (HTree.node h (.element v))
        | .nextFree _ => none
      | _, _ => none
  termination_by (fuel, 0)
  def absKids (a : Arena) (rho : List (NodeId × Nat)) (fuel n : Nat) (cur : Option NodeId) : Option (List HTree) :=
    match n with
    | 0 => if cur.isNone then some [] else none
    | n + 1 =>
      match cur with
      | none => some []
      | some id =>
        match absTree a rho fuel id, a.nodes[id.index0]? with
        | some t, some s => (absKids a rho fuel n s.next).map (t :: ·)
        | _, _ => none
  termination_by (fuel, n + 1)
end

/-- Parentless live slots as trees, in slot order. -/
def absForest (a : Arena) (rho : List (NodeId × Nat)) : Option (List HTree) :=
  (List.range a.nodes.length).foldr (fun i acc =>
    match acc, a.nodes[i]? with
    | some ts, some s =>
      if s.isRemoved || s.parent.isSome then some ts
      else (absTree a rho (a.nodes.length + 1) (a.idAt i)).map (· :: ts)
    | _, _ => none) (some [])

def insertSorted (t : HTree) : List HTree → List HTree
  | [] => [t]
  | x :: xs => if t.handle ≤ x.handle then t :: x :: xs else x :: insertSorted t xs

def sortRoots (ts : List HTree) : List HTree := ts.foldr insertSorted []

structure RState where
  a : Arena := {}
  f : Forest := {}
  rho : List (NodeId × Nat) := []
  checked : Nat := 0
  live : Bool := true   -- still inside the checked fragment

def agree (st : RState) : Option String :=
  match absForest st.a st.rho with
  | none => some "abs"
  | some ts =>
    if showHTrees (sortRoots ts) != showHTrees (sortRoots st.f.roots) then
      some ("forest " ++ showHTrees (sortRoots ts) ++ " vs " ++ showHTrees (sortRoots st.f.roots))
    else if st.f.corrupt then some "corrupt"
    else
      match st.rho.find? (fun p =>
        match isRemoved st.a p.1 with
        | .done _ b => b != st.f.isRemoved p.2
        | _ => true) with
      | some p => some ("is_removed " ++ showId p.1)
      | none => none

/-- One op; `none` = malformed. Returns the new state and an optional difference. -/
def refineOp (st : RState) (ws : List String) : Option (RState × Option String) :=
  let liveArg (x : NodeId) : Bool := st.a.isLiveId x && (rhoOf st.rho x).isSome
  let stop (a' : Arena) : RState := { st with a := a', live := false }
  let finish (a' : Arena) (f' : Forest) (rho' : List (NodeId × Nat)) (ok : Bool) : RState × Option String :=
    let st' : RState := { st with a := a', f := f', rho := rho', checked := st.checked + 1 }
    if !ok then (st', some "outcome") else (st', agree st')
  let binary (x y : NodeId) (s : Step (Except NodeError Unit)) (fop : Forest → Nat → Nat → Forest × Bool) :
      RState × Option String :=
    if !(liveArg x && liveArg y) then (stop s.arena, none) else
    match rhoOf st.rho x, rhoOf st.rho y with
    | some hx, some hy =>
      let (f', accepted) := fop st.f hx hy
      if f'.corrupt then (stop s.arena, none) else
      match s with
      | .done a' (.ok ()) => finish a' f' st.rho accepted
      | .done a' (.error _) => finish a' f' st.rho (!accepted)
      | .panic a' => finish a' f' st.rho true   -- `checked_prepend` of the first child: nothing written, forest unchanged
      | .diverge a' => (stop a', some "diverge")
    | _, _ => (stop s.arena, none)
  let unary (x : NodeId) (s : Step Unit) (fop : Forest → Nat → Forest) : RState × Option String :=
    if !liveArg x then (stop s.arena, none) else
    match rhoOf st.rho x with
    | some hx =>
      let f' := fop st.f hx
      if f'.corrupt then (stop s.arena, none) else
      match s with
      | .done a' () => finish a' f' st.rho true
      | .panic a' => (stop a', some "panic")
      | .diverge a' => (stop a', some "diverge")
    | none => (stop s.arena, none)
  if !st.live then
    -- keep replaying the arena only (the answer so far stands)
    match arenaOp st.a ws with
    | some (a', _) => some ({ st with a := a' }, none)
    | none => none
  else
  match ws with
  | ["new", v] => do
    let v ← v.toNat?
    match newNode st.a v with
    | .done a' id =>
      let (f', h) := st.f.newNode (.element v)
      some (finish a' f' ((id, h) :: st.rho.filter (fun p => p.1 != id)) true)
    | s => some (stop s.arena, some "new_node")
  | ["det", x] => do let x ← parseId x; some (unary x (detach st.a x) Forest.detachRaw)
  | ["rm", x] => do let x ← parseId x; some (unary x (remove st.a x) Forest.spliceOut)
  | ["rms", x] => do let x ← parseId x; some (unary x (removeSubtree st.a x) Forest.dropSubtree)
  | ["app", x, y] | ["uapp", x, y] => do
    let x ← parseId x; let y ← parseId y
    some (binary x y (checkedAppend st.a x y) Forest.checkedAppend)
  | ["pre", x, y] | ["upre", x, y] => do
    let x ← parseId x; let y ← parseId y
    some (binary x y (checkedPrepend st.a x y) Forest.checkedPrepend)
  | ["ia", x, y] | ["uia", x, y] => do
    let x ← parseId x; let y ← parseId y
    some (binary x y (checkedInsertAfter st.a x y) Forest.checkedInsertAfter)
  | ["ib", x, y] | ["uib", x, y] => do
    let x ← parseId x; let y ← parseId y
    some (binary x y (checkedInsertBefore st.a x y) Forest.checkedInsertBefore)
  | ["set", x, v] => do
    let x ← parseId x
    let v ← v.toNat?
    some (unary x (setValue st.a x v) (fun f h => f.setValue h (.element v)))
  | "div" :: _ => some ({ st with live := false }, none)
  | _ =>
    -- read-only ops and `churn`: replay on the arena; `churn` ends the checked fragment
    match arenaOp st.a ws with
    | some (a', _) => some ({ st with a := a', live := st.live && ws.head? != some "churn" }, none)
    | none => none

def runRefine : RState → Nat → List (List String) → Option String
  | st, _, [] => some ("ok " ++ toString st.checked)
  | st, k, op :: ops =>
    match refineOp st op with
    | none => none
    | some (st', some d) => some ("DIFF " ++ toString k ++ " " ++ d ++ " after " ++ toString st'.checked)
    | some (st', none) => runRefine st' (k + 1) ops

end ArenaD
open ArenaD in
def handleArenaRefine (ws : List String) : Option String :=
  match ws with
  | "refine" :: rest => runRefine {} 0 (splitOps rest)
  | _ => none

end XotModel.Driver
