/-
  Driver for suite `axes` (property C07):
    axes <entry> <path> <tree>            one traversal entry point at one node
    axes child_index <parent> <child> <tree>
  Answers: `l p1 p2 …` (lists; edges `S:p` / `E:p`; level order `N:p` / `End`), `none` / `some p`,
  `ok p` / `err:<Variant>` / `panic`.
  The per-node read accessors (Model/ValueAccess.lean): `has_document_parent`, `is_document_element`
  -> `b 0|1`; `get_element_name` -> `ok <name>` | `panic`; `comment_str` -> `none` | `some <str>`;
  `processing_instruction` -> `none` | `some <target> <str|->`; `namespace_node` -> `none` |
  `some <prefix> <ns>`; `attribute_node` -> `none` | `some <name> <str>`; `namespace_declarations` ->
  `l p:ns …` (Vec order); `get_attribute*<n>` / `get_namespace*<n>` -> `l 0=<str|-> 1=…` resp.
  `l 0=<ns|-> …`: the call for every name id / prefix id below `<n>`.
  The child-list accessors (Model/AxesChildLists.lean): `namespace_nodes` (`namespaces(node).nodes()`),
  `attributes_nodes` (`attributes(node).nodes()`), `all_children`, `abnormal_children` -> `l p1 p2 …`.
-/
import XotModel.Model.Axes
import XotModel.Model.ValueAccess
import XotModel.Model.AxesChildLists
import XotModel.Driver.TreeCodec

namespace XotModel.Driver
open XotModel.Axes

def showPaths (l : List Path) : String := String.intercalate " " ("l" :: l.map showPath)

def showOptPath : Option Path → String
  | none => "none"
  | some p => "some " ++ showPath p

def showEdge : Edge → String
  | .start p => "S:" ++ showPath p
  | .stop p => "E:" ++ showPath p

def showEdges (l : List Edge) : String := String.intercalate " " ("l" :: l.map showEdge)

def showOptEdge : Option Edge → String
  | none => "none"
  | some e => "some " ++ showEdge e

def showLevel : LevelOrder → String
  | .node p => "N:" ++ showPath p
  | .stop => "End"

def showAxOutcome : Outcome AxErr Path → String
  | .ok p => "ok " ++ showPath p
  | .err .notDocument => "err:NotDocument"
  | .err .noElementAtTopLevel => "err:NoElementAtTopLevel"
  | .panic => "panic"

def showB01 (b : Bool) : String := if b then "b 1" else "b 0"

def showOptStrAx : Option Str → String
  | none => "-"
  | some s => encStr s

/-- `get_attribute*<n>` / `get_namespace*<n>`: the keyed accessors for every key id below `n`. -/
def keyedEntry (t : Tree) (p : Path) (entry : String) : Option String :=
  match entry.splitOn "*" with
  | ["get_attribute", n] => do
      let n ← n.toNat?
      some (String.intercalate " " ("l" :: (List.range n).map fun k => s!"{k}={showOptStrAx (getAttribute t p k)}"))
  | ["get_namespace", n] => do
      let n ← n.toNat?
      some (String.intercalate " " ("l" :: (List.range n).map fun k =>
        s!"{k}={match getNamespace t p k with | some ns => toString ns | none => "-"}"))
  | _ => none

def parseAxis : String → Option Axis
  | "child" => some .child
  | "descendant" => some .descendant
  | "parent" => some .parent
  | "ancestor" => some .ancestor
  | "following_sibling" => some .followingSibling
  | "preceding_sibling" => some .precedingSibling
  | "following" => some .following
  | "preceding" => some .preceding
  | "attribute" => some .attribute
  | "self" => some .self
  | "descendant_or_self" => some .descendantOrSelf
  | "ancestor_or_self" => some .ancestorOrSelf
  | _ => none

def axesEntry (t : Tree) (p : Path) (entry : String) : Option String :=
  match entry with
  | "first_child" => some (showOptPath (firstChild t p))
  | "last_child" => some (showOptPath (lastChild t p))
  | "next_sibling" => some (showOptPath (nextSibling t p))
  | "previous_sibling" => some (showOptPath (previousSibling t p))
  | "parent" => some (showOptPath (parent p))
  | "ancestors" => some (showPaths (ancestors p))
  | "children" => some (showPaths (children t p))
  | "reverse_children" => some (showPaths (reverseChildren t p))
  | "descendants" => some (showPaths (descendants t p))
  | "all_descendants" => some (showPaths (allDescendants t p))
  | "following_siblings" => some (showPaths (followingSiblings t p))
  | "preceding_siblings" => some (showPaths (precedingSiblings t p))
  | "following" => some (showPaths (following t p))
  | "all_following" => some (showPaths (allFollowing t p))
  | "preceding" => some (showPaths (preceding t p))
  | "reverse_preorder" => some (showPaths (reversePreorder t p))
  | "all_reverse_preorder" => some (showPaths (allReversePreorder t p))
  | "traverse" => some (showEdges (traverse t p))
  | "all_traverse" => some (showEdges (allTraverse t p))
  | "reverse_traverse" => some (showEdges (reverseTraverse t p))
  | "reverse_all_traverse" => some (showEdges (reverseAllTraverse t p))
  | "edge_next_start" => some (showOptEdge (Edge.next t (.start p)))
  | "edge_next_end" => some (showOptEdge (Edge.next t (.stop p)))
  | "edge_prev_start" => some (showOptEdge (Edge.previous t (.start p)))
  | "edge_prev_end" => some (showOptEdge (Edge.previous t (.stop p)))
  | "edge_walk_next" => some (showEdges (edgeWalk (Edge.next t) (2 * t.size + 1) (.start p)))
  | "edge_walk_prev" => some (showEdges (edgeWalk (Edge.previous t) (2 * t.size + 1) (.stop p)))
  | "level_order" => some (String.intercalate " " ("l" :: (levelOrder t p).map showLevel))
  | "root" => some (showAxOutcome (root p))
  | "top_element" => some (showAxOutcome (topElement t p))
  | "document_element" => some (showAxOutcome (documentElement t p))
  | "attribute_nodes" => some (showPaths (attributeNodes t p))
  | "namespace_nodes" => some (showPaths (namespaceNodes t p))
  | "attributes_nodes" => some (showPaths (attributesNodes t p))
  | "all_children" => some (showPaths (allChildrenPaths t p))
  | "abnormal_children" => some (showPaths (abnormalChildrenPaths t p))
  | "has_document_parent" => some (showB01 (hasDocumentParent t p))
  | "is_document_element" => some (showB01 (isDocumentElement t p))
  | "get_element_name" => some (match getElementName t p with | .ok n => s!"ok {n}" | _ => "panic")
  | "comment_str" => some (match commentStr t p with | some s => "some " ++ encStr s | none => "none")
  | "processing_instruction" =>
    some (match processingInstruction t p with
      | some (target, d) => s!"some {target} {showOptStrAx d}"
      | none => "none")
  | "namespace_node" =>
    some (match namespaceNode t p with | some (pf, ns) => s!"some {pf} {ns}" | none => "none")
  | "attribute_node" =>
    some (match attributeNode t p with | some (n, v) => s!"some {n} {encStr v}" | none => "none")
  | "namespace_declarations" =>
    some (String.intercalate " " ("l" :: (namespaceDeclarations t p).map fun (pf, ns) => s!"{pf}:{ns}"))
  | _ =>
    if entry.startsWith "axis_" then
      (parseAxis (entry.drop 5).toString).map fun a => showPaths (axis t a p)
    else keyedEntry t p entry

/-- Entry points in the order of the harness's `all_entries()` (bundled request `axes all`). -/
def allEntries : List String :=
  ["first_child", "last_child", "next_sibling", "previous_sibling", "parent",
   "ancestors", "children", "reverse_children", "descendants", "all_descendants", "following_siblings",
   "preceding_siblings", "following", "all_following", "preceding", "reverse_preorder", "all_reverse_preorder",
   "attribute_nodes",
   "traverse", "all_traverse", "reverse_traverse", "reverse_all_traverse", "edge_walk_next", "edge_walk_prev",
   "edge_next_start", "edge_next_end", "edge_prev_start", "edge_prev_end",
   "level_order", "root", "top_element", "document_element",
   "has_document_parent", "is_document_element", "get_element_name", "comment_str", "processing_instruction",
   "namespace_node", "attribute_node", "namespace_declarations", "get_attribute*20", "get_namespace*7",
   "namespace_nodes", "attributes_nodes", "all_children", "abnormal_children",
   "axis_child", "axis_descendant", "axis_parent", "axis_ancestor", "axis_following_sibling",
   "axis_preceding_sibling", "axis_following", "axis_preceding", "axis_attribute", "axis_self",
   "axis_descendant_or_self", "axis_ancestor_or_self"]

def handleAxes : List String → Option String
  | "child_index" :: par :: child :: toks => do
      let par ← parsePath par
      let child ← parsePath child
      let (t, rest) ← parseTree toks
      if !rest.isEmpty || (t.at? par).isNone || (t.at? child).isNone then none
      else some (match childIndex t par child with | none => "none" | some i => s!"some {i}")
  | entry :: path :: toks => do
      let p ← parsePath path
      let (t, rest) ← parseTree toks
      if !rest.isEmpty || (t.at? p).isNone then none
      else if entry == "all" then
        (allEntries.mapM (axesEntry t p)).map (String.intercalate " | ")
      else axesEntry t p entry
  | _ => none

end XotModel.Driver
