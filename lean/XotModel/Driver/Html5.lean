/-
  Driver for the `html` suite (C19).

    html string <cdata> <indent> <path> <tree>    xot.html5().serialize_string(parameters, node)
    html write  <cdata> <indent> <path> <tree>    xot.html5().serialize_write(parameters, node, &mut buf)
    html string_norm <cdata> <indent> <path> <tree>
        xot.html5().serialize_string_with_normalizer(parameters, node, FullwidthNormalizer) (`fullwidthNorm`)
    html write_norm <cdata> <indent> <path> <tree>
        xot.html5().serialize_write_with_normalizer(parameters, node, w, FullwidthNormalizer) called directly

    html write_fail <k> <cdata> <indent> <path> <tree>
        xot.html5().serialize_write(parameters, node, &mut FailingWriter { fail_at_call: k })
        (`serializeHtmlWriteW (budget (some k))`): outcome (`err:Io` at the refused call) and the bytes the writer holds

    html write_bytes <n> <cdata> <indent> <path> <tree>
        xot.html5().serialize_write(parameters, node, &mut ByteBudgetWriter { remaining: n })
        (`serializeHtmlWriteB (byteBudget n)`): outcome and the BYTES the writer holds (`b:` + hex bytes)

  <cdata>  : `-` or comma-separated name ids (cdata_section_elements)
  <indent> : `-` (no indentation) | `i` (empty suppress list) | `i<ids>`
  Answers: `ok <str>` | `err:<Variant>` | `panic`; for `write`: `<ok|err:…|panic> <bytes written>`.
-/
import XotModel.Model.Normalizer
import XotModel.Driver.Output

namespace XotModel.Driver

def showHtmlError (env : Env) : XotError → String
  | .processingInstructionGtInHtml => "err:ProcessingInstructionGtInHtml"
  | e => showError env e

def showHtmlOutcome (env : Env) (f : α → String) : Outcome XotError α → String
  | .ok a => f a
  | .err e => showHtmlError env e
  | .panic => "panic"

def handleHtml (st : DState) : List String → Option String
  | "string" :: cd :: ind :: path :: toks => do
      let pr : HtmlParams := ⟨← parseIndent ind, ← parseNatList cd⟩
      let (t, p) ← parseTreeAt path toks
      some (showHtmlOutcome (htmlCtx st.env pr).env (fun s => "ok " ++ encStr s) (serializeHtmlString st.env pr t p))
  | "string_norm" :: cd :: ind :: path :: toks => do
      let pr : HtmlParams := ⟨← parseIndent ind, ← parseNatList cd⟩
      let (t, p) ← parseTreeAt path toks
      some (showHtmlOutcome (htmlCtx st.env pr).env (fun s => "ok " ++ encStr s)
        (serializeHtmlStringN fullwidthNorm st.env pr t p))
  | "write_norm" :: cd :: ind :: path :: toks => do
      let pr : HtmlParams := ⟨← parseIndent ind, ← parseNatList cd⟩
      let (t, p) ← parseTreeAt path toks
      let r := serializeHtmlWriteN fullwidthNorm st.env pr t p
      some (showHtmlOutcome (htmlCtx st.env pr).env (fun _ => "ok") r.2 ++ " " ++ encStr r.1)
  | "write_fail" :: k :: cd :: ind :: path :: toks => do
      let k ← k.toNat?
      let pr : HtmlParams := ⟨← parseIndent ind, ← parseNatList cd⟩
      let (t, p) ← parseTreeAt path toks
      let r := serializeHtmlWriteW (.budget (some k)) st.env pr t p
      some (showHtmlOutcome (htmlCtx st.env pr).env (fun _ => "ok") r.2 ++ " " ++ encStr r.1)
  | "write_bytes" :: n :: cd :: ind :: path :: toks => do
      let n ← n.toNat?
      let pr : HtmlParams := ⟨← parseIndent ind, ← parseNatList cd⟩
      let (t, p) ← parseTreeAt path toks
      let r := serializeHtmlWriteB (.byteBudget n) st.env pr t p
      some (showHtmlOutcome (htmlCtx st.env pr).env (fun _ => "ok") r.2 ++ " " ++ encBytes r.1)
  | "write" :: cd :: ind :: path :: toks => do
      let pr : HtmlParams := ⟨← parseIndent ind, ← parseNatList cd⟩
      let (t, p) ← parseTreeAt path toks
      let r := serializeHtmlWrite st.env pr t p
      some (showHtmlOutcome (htmlCtx st.env pr).env (fun _ => "ok") r.2 ++ " " ++ encStr r.1)
  | _ => none

end XotModel.Driver
