/-
  Driver for the `ser` suite.

    ser outputs <path> <tree>
    ser tokens <cdata> <gt> <path> <tree>
    ser pretty_tokens <cdata> <gt> <suppress> <path> <tree>
    ser to_string <path> <tree>
    ser write <path> <tree>
    ser xml_string <cdata> <gt> <indent> <decl> <doctype> <path> <tree>
    ser xml_write  <cdata> <gt> <indent> <decl> <doctype> <path> <tree>
    ser xml_string_norm <cdata> <gt> <indent> <decl> <doctype> <path> <tree>
        `serialize_xml_string_with_normalizer` with the fullwidth-forms normalizer (`fullwidthNorm`)
    ser xml_write_norm <cdata> <gt> <indent> <decl> <doctype> <path> <tree>
        `serialize_xml_write_with_normalizer` called directly, same normalizer: outcome and the bytes written

    ser xml_write_fail <k> <cdata> <gt> <indent> <decl> <doctype> <path> <tree>
        `serialize_xml_write` into `FailingWriter { fail_at_call: k }` (`serializeXmlWriteW (budget (some k))`):
        outcome (`err:Io` at the refused call) and the bytes the writer holds
    ser write_fail <k> <path> <tree>      `Xot::write` into the same writer

    ser xml_write_bytes <n> <cdata> <gt> <indent> <decl> <doctype> <path> <tree>
        `serialize_xml_write` into `ByteBudgetWriter { remaining: n }` (`serializeXmlWriteB (byteBudget n)`):
        outcome and the BYTES the writer holds (`b:` + dot-separated hex bytes; may end inside a character)
    ser write_bytes <n> <path> <tree>     `Xot::write` into the same writer

  <cdata>, <suppress> : `-` or comma-separated name ids;  <gt> : 0 | 1
  <indent>  : `-` (no indentation) | `i` (empty suppress list) | `i<ids>`
  <decl>    : `-` | `d/<enc>/<standalone>` with <enc> = `-` | string, <standalone> = `-` | `y` | `n`
  <doctype> : `-` | `P/<public>/<system>` | `S/<system>`
  Events: `<path>/so/<name>`, `/sc`, `/et/<name>`, `/px/<prefix>/<ns>`, `/at/<name>/<str>`,
  `/tx/<str>`, `/cm/<str>`, `/pi/<target>/<str|->`.
-/
import XotModel.Model.Normalizer
import XotModel.Model.WriterBytes
import XotModel.Driver.Tree

namespace XotModel.Driver

def parseBool01 (w : String) : Option Bool :=
  if w == "0" then some false else if w == "1" then some true else none

def parseIndent (w : String) : Option (Option (List Nat)) :=
  if w == "-" then some none
  else if w == "i" then some (some [])
  else if w.startsWith "i" then (parseNatList (w.drop 1).toString).map some
  else none

def parseDecl (w : String) : Option (Option Declaration) :=
  if w == "-" then some none else
  match w.splitOn "/" with
  | ["d", enc, sa] => do
      let enc ← if enc == "-" then some none else (decStr enc).map some
      let sa ← if sa == "-" then some none else if sa == "y" then some (some true)
               else if sa == "n" then some (some false) else none
      some (some ⟨enc, sa⟩)
  | _ => none

def parseDoctype (w : String) : Option (Option DocType) :=
  if w == "-" then some none else
  match w.splitOn "/" with
  | ["P", p, s] => do some (some (.pub (← decStr p) (← decStr s)))
  | ["S", s] => do some (some (.sys (← decStr s)))
  | _ => none

def showOutput : Output → String
  | .startTagOpen n => s!"so/{n}"
  | .startTagClose => "sc"
  | .endTag n => s!"et/{n}"
  | .pfx p ns => s!"px/{p}/{ns}"
  | .attribute n v => s!"at/{n}/{encStr v}"
  | .text s => s!"tx/{encStr s}"
  | .comment s => s!"cm/{encStr s}"
  | .pi t none => s!"pi/{t}/-"
  | .pi t (some d) => s!"pi/{t}/{encStr d}"

def show01 (b : Bool) : String := if b then "1" else "0"

def showError (env : Env) : XotError → String
  | .missingPrefix ns => s!"err:MissingPrefix {encStr (env.namespaceStr ns)}"
  | .namespaceInProcessingInstruction => "err:NamespaceInProcessingInstruction"
  | .notElement => "err:NotElement"
  | .notDocument => "err:NotDocument"
  | .noElementAtTopLevel => "err:NoElementAtTopLevel"
  | .io => "err:Io"
  | e => s!"err:{repr e}"

def showOutcome (env : Env) (f : α → String) : Outcome XotError α → String
  | .ok a => f a
  | .err e => showError env e
  | .panic => "panic"

def joinOk (items : List String) : String :=
  if items.isEmpty then "ok" else "ok " ++ String.intercalate " " items

/-- Tree and start path: the path must exist. -/
def parseTreeAt (path : String) (toks : List String) : Option (Tree × Path) := do
  let p ← parsePath path
  let (t, rest) ← parseTree toks
  if !rest.isEmpty then none
  let _ ← t.at? p
  some (t, p)

def showWritten (env : Env) (r : Str × Outcome XotError Unit) : String :=
  showOutcome env (fun _ => "ok") r.2 ++ " " ++ encStr r.1

/-- Bytes on the wire: `b:` + dot-separated hex bytes (`b:` = none). -/
def encBytes (b : List UInt8) : String :=
  "b:" ++ String.intercalate "." (b.map (fun x => toHex x.toNat))

def showWrittenBytes (env : Env) (r : List UInt8 × Outcome XotError Unit) : String :=
  showOutcome env (fun _ => "ok") r.2 ++ " " ++ encBytes r.1

def handleSer (st : DState) : List String → Option String
  | "outputs" :: path :: toks => do
      let (t, p) ← parseTreeAt path toks
      some (joinOk ((genOutputs t p).map fun (q, o) => showPath q ++ "/" ++ showOutput o))
  | "tokens" :: cd :: gt :: path :: toks => do
      let pr : TokenParams := ⟨← parseNatList cd, ← parseBool01 gt⟩
      let (t, p) ← parseTreeAt path toks
      some (showOutcome st.env (fun l => joinOk (l.map fun (q, o, k) =>
        showPath q ++ "/" ++ showOutput o ++ "/" ++ show01 k.space ++ "/" ++ encStr k.text))
        (tokens st.env pr t p))
  | "pretty_tokens" :: cd :: gt :: sup :: path :: toks => do
      let pr : TokenParams := ⟨← parseNatList cd, ← parseBool01 gt⟩
      let sup ← parseNatList sup
      let (t, p) ← parseTreeAt path toks
      some (showOutcome st.env (fun l => joinOk (l.map fun (q, o, k) =>
        showPath q ++ "/" ++ showOutput o ++ "/" ++ toString k.indentation ++ "/" ++ show01 k.space
          ++ "/" ++ encStr k.text ++ "/" ++ show01 k.newline))
        (prettyTokens st.env pr sup t p))
  | "to_string" :: path :: toks => do
      let (t, p) ← parseTreeAt path toks
      some (showOutcome st.env (fun s => "ok " ++ encStr s) (toXmlString st.env t p))
  | "write" :: path :: toks => do
      let (t, p) ← parseTreeAt path toks
      some (showWritten st.env (serializeXmlWrite st.env {} t p))
  | "xml_string" :: cd :: gt :: ind :: decl :: dt :: path :: toks => do
      let pr : XmlParams := ⟨← parseIndent ind, ← parseNatList cd, ← parseDecl decl, ← parseDoctype dt,
        ← parseBool01 gt⟩
      let (t, p) ← parseTreeAt path toks
      some (showOutcome st.env (fun s => "ok " ++ encStr s) (serializeXmlString st.env pr t p))
  | "xml_string_norm" :: cd :: gt :: ind :: decl :: dt :: path :: toks => do
      let pr : XmlParams := ⟨← parseIndent ind, ← parseNatList cd, ← parseDecl decl, ← parseDoctype dt,
        ← parseBool01 gt⟩
      let (t, p) ← parseTreeAt path toks
      some (showOutcome st.env (fun s => "ok " ++ encStr s)
        (serializeXmlStringWith (normEscapers fullwidthNorm) st.env pr t p))
  | "xml_write_norm" :: cd :: gt :: ind :: decl :: dt :: path :: toks => do
      let pr : XmlParams := ⟨← parseIndent ind, ← parseNatList cd, ← parseDecl decl, ← parseDoctype dt,
        ← parseBool01 gt⟩
      let (t, p) ← parseTreeAt path toks
      some (showWritten st.env (serializeXmlWriteWith (normEscapers fullwidthNorm) st.env pr t p))
  | "xml_write_fail" :: k :: cd :: gt :: ind :: decl :: dt :: path :: toks => do
      let k ← k.toNat?
      let pr : XmlParams := ⟨← parseIndent ind, ← parseNatList cd, ← parseDecl decl, ← parseDoctype dt,
        ← parseBool01 gt⟩
      let (t, p) ← parseTreeAt path toks
      some (showWritten st.env (serializeXmlWriteW (.budget (some k)) xmlEscapers st.env pr t p))
  | "write_fail" :: k :: path :: toks => do
      let k ← k.toNat?
      let (t, p) ← parseTreeAt path toks
      some (showWritten st.env (serializeWriteW (.budget (some k)) xmlEscapers st.env {} t p))
  | "xml_write_bytes" :: n :: cd :: gt :: ind :: decl :: dt :: path :: toks => do
      let n ← n.toNat?
      let pr : XmlParams := ⟨← parseIndent ind, ← parseNatList cd, ← parseDecl decl, ← parseDoctype dt,
        ← parseBool01 gt⟩
      let (t, p) ← parseTreeAt path toks
      some (showWrittenBytes st.env (serializeXmlWriteB (.byteBudget n) xmlEscapers st.env pr t p))
  | "write_bytes" :: n :: path :: toks => do
      let n ← n.toNat?
      let (t, p) ← parseTreeAt path toks
      some (showWrittenBytes st.env (serializeWriteB (.byteBudget n) xmlEscapers st.env t p))
  | "xml_write" :: cd :: gt :: ind :: decl :: dt :: path :: toks => do
      let pr : XmlParams := ⟨← parseIndent ind, ← parseNatList cd, ← parseDecl decl, ← parseDoctype dt,
        ← parseBool01 gt⟩
      let (t, p) ← parseTreeAt path toks
      some (showWritten st.env (serializeXmlWrite st.env pr t p))
  | _ => none

end XotModel.Driver
