/-
  Driver for the specification side of the tree-level round trip (suite `rt`):

    representable <frag> <tree>    `true` / `false`: `RepresentableFragment` (<frag> = 1) or
                                   `Representable` (<frag> = 0) under the current vocabulary
    sertokens <tree>               `ok <str>` = `renderTokens (serTokensTop tree)`, or the error
    standalone <path> <tree>       `ok <tree>` = `standalone tree path` (Model/InnerStartSpec.lean: the
                                   document `to_string(element at path)` parses back to), or `none`
    paramrt <cdata> <gt> <frag> <tree>
                                   the closed loop under token parameters: `ok <str> <tree>` =
                                   `serialize_xml_string` with CDATA-section elements <cdata> (`-` or ids) and
                                   `unescaped_gt` <gt>, then `parse` (<frag> = 0) / `parse_fragment` (<frag> = 1)
                                   of that string with the reference tokenizer; `ok <str> rejected` when the
                                   parser refuses; the serialiser's error otherwise
-/
import XotModel.Model.SerTokens
import XotModel.Model.InnerStartSpec
import XotModel.Model.ParseString
import XotModel.Driver.Output

namespace XotModel.Driver

def handleRepresentable (st : DState) : List String → Option String
  | frag :: toks => do
      let frag ← parseBool01 frag
      let (t, rest) ← parseTree toks
      if !rest.isEmpty then none
      some (toString (if frag then RepresentableFragment st.env t else Representable st.env t))
  | _ => none

def handleSerTokens (st : DState) (toks : List String) : Option String := do
  let (t, rest) ← parseTree toks
  if !rest.isEmpty then none
  match serTokensTop st.env t with
  | .ok ts => some ("ok " ++ encStr (renderTokens ts))
  | .error e => some (showError st.env e)

def handleStandalone : List String → Option String
  | path :: toks => do
      let q ← parsePath path
      let (t, rest) ← parseTree toks
      if !rest.isEmpty then none
      match standalone t q with
      | some d => some ("ok " ++ showTree d)
      | none => some "none"
  | _ => none

def handleParamRt (st : DState) : List String → Option String
  | cd :: gt :: frag :: toks => do
      let pr : TokenParams := ⟨← parseNatList cd, ← parseBool01 gt⟩
      let frag ← parseBool01 frag
      let (t, rest) ← parseTree toks
      if !rest.isEmpty then none
      match serializeString st.env pr t [] with
      | .ok s =>
        (match parseString (if frag then .fragment else .document) st.env s with
         | .ok p => some ("ok " ++ encStr s ++ " " ++ showTree p.tree)
         | _ => some ("ok " ++ encStr s ++ " rejected"))
      | .err e => some (showError st.env e)
      | .panic => some "panic"
  | _ => none

end XotModel.Driver
