/-
  Driver for suite `repair` (C10, second and third sentence): `create_missing_prefixes`.

    repair <path> <tree>     ok <tree after the call> pf <strings of the prefixes registered by the call | ->
                             | err:NoElementAtTopLevel | err:NotElement | panic
  The vocabulary (`vocab …` line) supplies the interning tables before the call.
-/
import XotModel.Model.Repair
import XotModel.Driver.Output

namespace XotModel.Driver

def handleRepair (st : DState) : List String → Option String
  | path :: toks => do
    let (t, p) ← parseTreeAt path toks
    some (showOutcome st.env (fun (r : Env × Tree) =>
      let added := r.1.prefixes.drop st.env.prefixes.length
      "ok " ++ showTree r.2 ++ " pf " ++
        (if added.isEmpty then "-" else String.intercalate "," (added.map encStr)))
      (createMissingPrefixes st.env t p))
  | _ => none

end XotModel.Driver
