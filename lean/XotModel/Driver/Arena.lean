/-
  Driver for suite `arena` (properties C04 / C06 / C07): one request = one whole history of
  `indextree::Arena` calls, run from the empty arena on the pointer-level model.

    arena hist <op> ; <op> ; …

  ids travel as `index1:stamp`.  Ops (answers in brackets):
    new v                         [ok id]            arena.new_node(v)
    det a | rm a | rms a          [ok]               detach / remove / remove_subtree
    app a b | pre a b | ia a b | ib a b   [ok | err:Kind]   a.checked_append(b) …
    uapp a b | upre | uia | uib   [ok]               append / prepend / insert_after / insert_before
    churn k v                     [ok id]            k × { id = new_node(v); id.remove() }
  each followed by a dump of the arena reached, also after `panic` / `diverge`:
    {first last|slot|slot|…}, slot = parent,prev,next,first,last,stamp,D<v> | F<next> ;
  read-only ops (no dump):
    val a [ok v] | set a v [ok] (dump) | isrem a [ok true/false] | get a [none | some slot]
    idat i [none | some id] | count [ok n]
    it <kind> a                   [ok id,id,… ]      kind ∈ anc pred chi chirev rchi fol prec trav rtrav desc
    iters a b c …                 all kinds for every listed id, `/`-separated
    wf                            [ok true/false]    the executable well-formedness check
    div <mutating op>             [first word of the op's answer]   outcome only: the harness does not run a
                                  call on the arena when a trial run on a clone does not end
  Iterators are `.take(2 * count + 3)`; `desc` is answered `long` when `trav` does not end
  within that bound.
-/
import XotModel.Model.ArenaOps
import XotModel.Model.ArenaIter
import XotModel.Model.ArenaWf
import XotModel.Driver.Codec

namespace XotModel.Driver
namespace ArenaD
open XotModel XotModel.Arena

def parseId (w : String) : Option NodeId :=
  match w.splitOn ":" with
  | [i, s] =>
    match i.toNat?, s.toInt? with
    | some i, some s => if i = 0 then none else some ⟨i, s⟩
    | _, _ => none
  | _ => none

def showId (id : NodeId) : String := toString id.index1 ++ ":" ++ toString id.stamp

def showOptId : Option NodeId → String
  | none => "-"
  | some id => showId id

def showOptNat : Option Nat → String
  | none => "-"
  | some n => toString n

def showSlot (s : Slot) : String :=
  String.intercalate "," [showOptId s.parent, showOptId s.prev, showOptId s.next, showOptId s.first,
    showOptId s.last, toString s.stamp,
    match s.data with
    | .data v => "D" ++ toString v
    | .nextFree n => "F" ++ showOptNat n]

def showArena (a : Arena) : String :=
  "{" ++ String.intercalate "|" ((showOptNat a.firstFree ++ " " ++ showOptNat a.lastFree) :: a.nodes.map showSlot) ++ "}"

def showIds (l : List NodeId) : String :=
  if l.isEmpty then "-" else String.intercalate "," (l.map showId)

def showEdgeA : NodeEdge → String
  | .start n => "S" ++ showId n
  | .end n => "E" ++ showId n

def showEdgesA (l : List NodeEdge) : String :=
  if l.isEmpty then "-" else String.intercalate "," (l.map showEdgeA)

def showNodeError : NodeError → String
  | .appendSelf => "AppendSelf"
  | .prependSelf => "PrependSelf"
  | .insertBeforeSelf => "InsertBeforeSelf"
  | .insertAfterSelf => "InsertAfterSelf"
  | .removed => "Removed"
  | .appendAncestor => "AppendAncestor"
  | .prependAncestor => "PrependAncestor"

/-- Answer of a mutating call: outcome, then the arena reached. -/
def showStep (show_ : α → String) : Step α → String
  | .done a v => show_ v ++ " " ++ showArena a
  | .panic a => "panic " ++ showArena a
  | .diverge a => "diverge " ++ showArena a

/-- Answer of a read-only call. -/
def showRead (show_ : α → String) : Step α → String
  | .done _ v => show_ v
  | .panic _ => "panic"
  | .diverge _ => "diverge"

def showChecked : Except NodeError Unit → String
  | .ok () => "ok"
  | .error e => "err:" ++ showNodeError e

def iterLimit (a : Arena) : Nat := 2 * a.count + 3

def runIter (a : Arena) (kind : String) (id : NodeId) : Option String :=
  let l := iterLimit a
  let ids (s : Step (List NodeId)) := some (showRead (fun l => "ok " ++ showIds l) s)
  let edges (s : Step (List NodeEdge)) := some (showRead (fun l => "ok " ++ showEdgesA l) s)
  match kind with
  | "anc" => ids (ancestors a id l)
  | "pred" => ids (predecessors a id l)
  | "chi" => ids (children a id l)
  | "chirev" => ids (childrenRev a id l)
  | "rchi" => ids (reverseChildren a id l)
  | "fol" => ids (followingSiblings a id l)
  | "prec" => ids (precedingSiblings a id l)
  | "trav" => edges (traverse a id l)
  | "rtrav" => edges (reverseTraverse a id l)
  | "desc" =>
    match traverse a id l with
    | .done _ es => if es.length ≥ l then some "long" else ids (descendants a id l)
    | .panic _ => some "panic"
    | .diverge _ => some "diverge"
  | _ => none

def iterKinds : List String := ["anc", "pred", "chi", "chirev", "rchi", "fol", "prec", "trav", "rtrav", "desc"]

def runIters (a : Arena) (ids : List NodeId) : String :=
  String.intercalate " / " (ids.map fun id =>
    String.intercalate " " (iterKinds.map fun k => (runIter a k id).getD "?"))

/-- `k × { id = new_node(v); id.remove() }`, stopping at the first panic / divergence. -/
def churn : Nat → Arena → Nat → NodeId → Step NodeId
  | 0, a, _, last => .done a last
  | k + 1, a, v, _ =>
    (newNode a v).bind fun a1 id =>
      (remove a1 id).bind fun a2 _ => churn k a2 v id

/-- One op on the current arena: the new arena and the answer. -/
def arenaOp (a : Arena) (ws : List String) : Option (Arena × String) :=
  let mut_ {α : Type} (show_ : α → String) (s : Step α) : Option (Arena × String) := some (s.arena, showStep show_ s)
  let unit : Unit → String := fun _ => "ok"
  match ws with
  | ["new", v] => do
    let v ← v.toNat?
    mut_ (fun id => "ok " ++ showId id) (newNode a v)
  | ["det", x] => do mut_ unit (detach a (← parseId x))
  | ["rm", x] => do mut_ unit (remove a (← parseId x))
  | ["rms", x] => do mut_ unit (removeSubtree a (← parseId x))
  | ["app", x, y] => do mut_ showChecked (checkedAppend a (← parseId x) (← parseId y))
  | ["pre", x, y] => do mut_ showChecked (checkedPrepend a (← parseId x) (← parseId y))
  | ["ia", x, y] => do mut_ showChecked (checkedInsertAfter a (← parseId x) (← parseId y))
  | ["ib", x, y] => do mut_ showChecked (checkedInsertBefore a (← parseId x) (← parseId y))
  | ["uapp", x, y] => do mut_ unit (append a (← parseId x) (← parseId y))
  | ["upre", x, y] => do mut_ unit (prepend a (← parseId x) (← parseId y))
  | ["uia", x, y] => do mut_ unit (insertAfter a (← parseId x) (← parseId y))
  | ["uib", x, y] => do mut_ unit (insertBefore a (← parseId x) (← parseId y))
  | ["churn", k, v] => do
    let k ← k.toNat?
    let v ← v.toNat?
    mut_ (fun id => "ok " ++ showId id) (churn k a v ⟨1, 0⟩)
  | ["set", x, v] => do
    let v ← v.toNat?
    mut_ unit (setValue a (← parseId x) v)
  | ["val", x] => do some (a, showRead (fun v => "ok " ++ toString v) (value a (← parseId x)))
  | ["isrem", x] => do some (a, showRead (fun (b : Bool) => "ok " ++ toString b) (isRemoved a (← parseId x)))
  | ["get", x] => do
    some (a, match a.get (← parseId x) with
      | none => "none"
      | some s => "some " ++ showSlot s)
  | ["idat", i] => do
    let i ← i.toNat?
    if i = 0 then none else
    some (a, match a.getNodeIdAt i with
      | none => "none"
      | some id => "some " ++ showId id)
  | ["count"] => some (a, "ok " ++ toString a.count)
  | ["it", kind, x] => do some (a, ← runIter a kind (← parseId x))
  | "iters" :: ids => do
    let ids ← ids.mapM parseId
    some (a, runIters a ids)
  | ["wf"] => some (a, "ok " ++ toString a.wf)
  | _ => none

/-- Split the words of a history at the `;` separators. -/
def splitOps (ws : List String) : List (List String) :=
  (ws.foldr (fun w (acc : List String × List (List String)) =>
    if w == ";" then ([], acc.1 :: acc.2) else (w :: acc.1, acc.2)) ([], [])) |> fun (cur, rest) => cur :: rest

def runHistory : Arena → List (List String) → List String → Option (List String)
  | _, [], acc => some acc.reverse
  | a, op :: ops, acc =>
    match op with
    | "div" :: op' =>
      match arenaOp a op' with
      | none => none
      | some (a', resp) => runHistory a' ops (((resp.splitOn " ").headD "") :: acc)
    | _ =>
      match arenaOp a op with
      | none => none
      | some (a', resp) => runHistory a' ops (resp :: acc)

end ArenaD
open ArenaD in
def handleArena (ws : List String) : Option String :=
  match ws with
  | "hist" :: rest =>
    match runHistory {} (splitOps rest) [] with
    | some resps => some (String.intercalate " ; " resps)
    | none => none
  | _ => none

end XotModel.Driver
