/-
  Driver for EXTENDED construction programs (C20, `Model/FanyorderSpec2.lean`):

    forest prog2 spec <step> ; <step> ; …    the SPECIFICATION's run (`Prog2.runSpec`) of the program,
                                             started in the current session forest with no node
                                             created: `illformed`, or the CONTENT dump of its final
                                             forest (labels erased, canonical root order)
    forest prog2 impl <step> ; <step> ; …    the implementation model's run (`Prog2.runImpl`):
                                             outcome, then the content dump of the state reached

  Steps: those of `forest prog` (`Driver/Fanyorder.lean`) and `detach n` | `remove n` | `replace old new` |
  `wrap n name` | `unwrap n` | `set_text n <str>` | `set_name n name` | `attr_set_value n <str>` |
  `set_comment n <str>` | `set_pi_data n <str|->` | `clone n`; node arguments are indices of the
  program's own creating steps (`new`, `wrap`, `clone`, in program order).  The session state is not
  changed.
-/
import XotModel.Model.FanyorderSpec2
import XotModel.Driver.Fanyorder

namespace XotModel.Driver
open XotModel.Prog2

def parseStep2 : List String → Option Prog2.Step
  | ["detach", a] => do some (.detach (← a.toNat?))
  | ["remove", a] => do some (.remove (← a.toNat?))
  | ["replace", a, b] => do some (.replace (← a.toNat?) (← b.toNat?))
  | ["wrap", a, n] => do some (.wrap (← a.toNat?) (← n.toNat?))
  | ["unwrap", a] => do some (.unwrap (← a.toNat?))
  | ["set_text", a, v] => do some (.setText (← a.toNat?) (← decStr v))
  | ["set_name", a, n] => do some (.setElementName (← a.toNat?) (← n.toNat?))
  | ["attr_set_value", a, v] => do some (.setAttributeValue (← a.toNat?) (← decStr v))
  | ["set_comment", a, v] => do some (.setComment (← a.toNat?) (← decStr v))
  | ["set_pi_data", a, "-"] => do some (.setPiData (← a.toNat?) none)
  | ["set_pi_data", a, v] => do some (.setPiData (← a.toNat?) (some (← decStr v)))
  | ["clone", a] => do some (.clone (← a.toNat?))
  | ws => (parseStep ws).map .base

def parseProgram2 (ws : List String) : Option Prog2.Program := (splitSteps ws).mapM parseStep2

def handleFanyorder2 (s : FState) : List String → Option String
  | "spec" :: rest => do
      let P ← parseProgram2 rest
      match Prog2.runSpec { forest := s.forest } P with
      | none => some "illformed"
      | some s' => some (contentDump s s'.forest)
  | "impl" :: rest => do
      let P ← parseProgram2 rest
      let r := Prog2.runImpl { forest := s.forest } P
      some (showRes r.2 ++ " " ++ contentDump s r.1.forest)
  | _ => none

end XotModel.Driver
