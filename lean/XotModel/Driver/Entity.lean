import XotModel.Model.Entity
import XotModel.Driver.Codec

namespace XotModel.Driver

def showParse (r : Except ContentErr Str) : String :=
  match r with
  | .ok s => "ok " ++ encStr s
  | .error (.unclosed e pos) => s!"err:unclosed {encStr e} {pos}"
  | .error (.invalid e a b) => s!"err:invalid {encStr e} {a} {b}"

def handleEntity : List String → Option String
  | ["parse_text", base, s] => do
      let b ← base.toNat?
      let s ← decStr s
      some (showParse (parseContentGo false b 0 s))
  | ["parse_attr", base, s] => do
      let b ← base.toNat?
      let s ← decStr s
      some (showParse (parseContentGo true b 0 s))
  | ["ser_text0", s] => (decStr s).map fun s => "ok " ++ encStr (serializeText false s)
  | ["ser_text1", s] => (decStr s).map fun s => "ok " ++ encStr (serializeText true s)
  | ["ser_cdata", s] => (decStr s).map fun s => "ok " ++ encStr (serializeCdata s)
  | ["ser_attr", s] => (decStr s).map fun s => "ok " ++ encStr (serializeAttribute s)
  | ["ser_text_html", s] => (decStr s).map fun s => "ok " ++ encStr (serializeTextHtml s)
  | ["ser_attr_html", s] => (decStr s).map fun s => "ok " ++ encStr (serializeAttributeHtml s)
  | ["norm_id", s] => (decStr s).map fun s => "ok " ++ encStr (normalizeXmlId s)
  | _ => none

end XotModel.Driver
