/-
  Driver for the `fclone` suite (C12): extra requests of the `forest` session.

    forest clone_prefixes <label> <order>   clone_with_prefixes; `<order>` = the prefix ids in the
                                            order the implementation inserted them (`-` = none):
                                            the hash-map iteration order is a parameter of the model
        -> ok <new label> inh=<p:ns,… sorted>          | panic
    forest inherited <label>                inherited_prefixes, sorted
    forest unresolved <label>               unresolved_namespaces, in order
    forest in_scope <label>                 namespaces_in_scope, in yield order
    forest serialises <label>               1 iff to_string(node) is Ok
    forest clone_eq <src> <clone>           1 iff erase clone = expectedClone consolidation (erase src)
    forest store_clone <keep|swap>          Xot::clone(): the identity on the model value
-/
import XotModel.Model.FcloneModel
import XotModel.Model.FcloneSpec
import XotModel.Driver.Forest

namespace XotModel.Driver

namespace Fclone

def showPairs (l : List (Nat × Nat)) : String :=
  String.intercalate "," (l.map fun (p, n) => s!"{p}:{n}")

def sortPairs (l : List (Nat × Nat)) : List (Nat × Nat) :=
  (l.toArray.qsort (fun a b => a.1 < b.1 || (a.1 == b.1 && a.2 < b.2))).toList

def parsePrefixOrder (w : String) : Option (List Nat) :=
  if w == "-" then some [] else
  (w.splitOn ",").foldr (fun part acc => match acc, part.toNat? with
    | some l, some n => some (n :: l)
    | _, _ => none) (some [])

/-- The iteration order handed to the model: the canonical enumeration rearranged so that the
    prefixes the implementation was seen to insert come first, in that order. Always a
    permutation of `canon` when `observed` has no duplicates. -/
def arrange (canon : List (Nat × Nat)) (observed : List Nat) : List (Nat × Nat) :=
  observed.filterMap (fun p => canon.find? (fun e => e.1 == p)) ++
  canon.filter (fun e => !observed.contains e.1)

def treeEq : Tree → Tree → Bool
  | .node v ks, .node w js => v == w && listEq ks js
where
  listEq : List Tree → List Tree → Bool
    | [], [] => true
    | a :: as, b :: bs => treeEq a b && listEq as bs
    | _, _ => false

end Fclone

open Fclone in
def handleFclone (env : Env) (s : FState) (ws : List String) : Option (FState × String) :=
  let node (w : String) : Option Nat := do s.handleOf (← w.toNat?)
  match ws with
  | ["clone_prefixes", a, order] => do
      let h ← node a
      let observed ← parsePrefixOrder order
      let canon := s.forest.inheritedPrefixes env h
      let inh := "inh=" ++ showPairs (sortPairs canon)
      match s.forest.cloneWithPrefixes h (arrange canon observed) with
      | (f, some c) =>
        let s' := ({ s with forest := f }).relabel
        some (s', "ok " ++ (match s'.labelOf c with | some l => toString l | none => "?") ++ " " ++ inh)
      | (f, none) => some (({ s with forest := f }).relabel, "panic")
  | ["inherited", a] => do
      some (s, "inh=" ++ showPairs (sortPairs (s.forest.inheritedPrefixes env (← node a))))
  | ["unresolved", a] => do
      some (s, "unres=" ++ String.intercalate "," ((s.forest.unresolvedNamespaces env (← node a)).map toString))
  | ["in_scope", a] => do
      some (s, "scope=" ++ showPairs (s.forest.prefixesInScope (← node a)))
  | ["clone_eq", a, b] => do
      let ta ← s.forest.get? (← node a)
      let tb ← s.forest.get? (← node b)
      some (s, if treeEq tb.erase (expectedClone s.forest.consolidation ta.erase) then "1" else "0")
  | ["serialises", a] => do
      some (s, if s.forest.serialises env (← node a) then "1" else "0")
  | ["store_clone", _] =>
      let st : Store := { forest := s.forest, env := env }
      some ({ s with forest := st.clone.forest }, "ok")
  | _ => none

end XotModel.Driver
