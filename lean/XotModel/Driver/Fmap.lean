/-
  Driver for the `fmap` suite (C11): requests on the same session as `forest` (`FState`),
  first word `fmap`: the entry API and `get_mut` of the mutable node map, `get` / `get_node`,
  and a full read of a view with the entry nodes' labels.
-/
import XotModel.Model.FmapEntry
import XotModel.Model.FmapSpec2
import XotModel.Driver.Forest

namespace XotModel.Driver

/-- The entry value `A::create(key, value)` from the wire. -/
def entryValue? (k : Forest.MapKind) (key val : String) : Option Value :=
  match k with
  | .attributes => do some (.attribute (← key.toNat?) (← decStr val))
  | .namespaces => do some (.namespace (← key.toNat?) (← val.toNat?))

/-- The closure given to `and_modify`: attributes `|v| v.push_str(arg)`, namespaces `|v| *v = arg`. -/
def modifier? (k : Forest.MapKind) (arg : String) : Option (Value → Value) :=
  match k with
  | .attributes => do
      let sfx ← decStr arg
      some fun v => match v with | .attribute n s => .attribute n (s ++ sfx) | v => v
  | .namespaces => do
      let ns ← arg.toNat?
      some fun v => match v with | .namespace p _ => .namespace p ns | v => v

def showPayload : Value → String
  | .attribute _ v => encStr v
  | .namespace _ n => toString n
  | _ => "?"

/-- `n=<len> e=<is_empty> key:value@label …` — the view with its entry nodes. -/
def showMapFull (s : FState) (k : Forest.MapKind) (h : Nat) : String :=
  match s.forest.get? h with
  | none => "none"
  | some t =>
    let cs := Forest.mapChildren k t
    let items := cs.map fun c =>
      let l := match s.labelOf c.handle with | some l => toString l | none => "?"
      s!"{Forest.entryKey c.value}:{showPayload c.value}@{l}"
    s!"n={cs.length} e={if cs.isEmpty then 1 else 0} " ++ String.intercalate " " items

def showFmapPayload : Fmap.Payload → String
  | .str v => encStr v
  | .ns n => toString n
  | .other => "?"

def showFmapPairs (l : List (Nat × Fmap.Payload)) : String :=
  String.intercalate "," (l.map fun p => s!"{p.1}:{showFmapPayload p.2}")

/-- `iter()`, `to_vec()` and `to_hashmap()` (key-sorted) of a view (Model/FmapSpec2.lean). -/
def showFmapIter (s : FState) (k : Forest.MapKind) (h : Nat) : String :=
  s!"iter={showFmapPairs (Fmap.mapIter s.forest k h)} vec={showFmapPairs (Fmap.mapToVec s.forest k h)} " ++
  s!"hm={showFmapPairs (Fmap.mapToHashmap s.forest k h)}"

def handleFmap (s : FState) (ws : List String) : Option (FState × String) :=
  let node (w : String) : Option Nat := do s.handleOf (← w.toNat?)
  let fin (f : Forest) (r : String) : Option (FState × String) :=
    some (({ s with forest := f }).relabel, r)
  match ws with
  | ["entry_or_insert", kind, a, key, val] => do
      let k ← mapKind? kind
      let (f, r) := s.forest.entryOrInsert k (← node a) (← entryValue? k key val)
      fin f (showRes r)
  | ["entry_or_insert_with", kind, a, key, val] => do
      -- answer: did the closure run, and the value behind the returned `&mut V`
      let k ← mapKind? kind
      let h ← node a
      let d ← entryValue? k key val
      let (f, r, called) := s.forest.entryOrInsertWith k h (Forest.entryKey d) (fun _ => d)
      match r with
      | .ok =>
        let seen := match f.mapGet k h (Forest.entryKey d) with | some v => showPayload v | none => "?"
        fin f s!"ok {if called then 1 else 0} {seen}"
      | r => fin f (showRes r)
  | ["occupied_into_mut", kind, a, key, val] => do
      let k ← mapKind? kind
      let (f, r, found) := s.forest.occupiedIntoMutSet k (← node a) (← key.toNat?) (← entryValue? k key val)
      match r with
      | .ok => fin f (if found then "ok 1" else "ok 0")
      | r => fin f (showRes r)
  | ["entry_peek", kind, a, key] => do
      -- `Entry::key`, then `OccupiedEntry::key` / `get` / `get_mut` (each `…(self.key).unwrap()`) or `VacantEntry::key`
      let k ← mapKind? kind
      let h ← node a
      let key ← key.toNat?
      if !s.forest.isElement h then some (s, "panic") else
      match s.forest.mapEntry k h key with
      | .occupied key' =>
        (match s.forest.occGetMut k h key', s.forest.mapGet k h key' with
         | .ok, some v => some (s, s!"occ {key} {key'} {showPayload v} {showPayload v}")
         | _, _ => some (s, "panic"))
      | .vacant key' => some (s, s!"vac {key} {key'}")
  | ["entry_or_default", a, key] => do
      let (f, r) := s.forest.entryOrDefault (← node a) (← key.toNat?)
      fin f (showRes r)
  | ["entry_and_modify", kind, a, key, arg] => do
      let k ← mapKind? kind
      let (f, r, _) := s.forest.entryAndModify k (← node a) (← key.toNat?) (← modifier? k arg)
      fin f (showRes r)
  | ["entry_and_modify_or_insert", kind, a, key, arg, val] => do
      let k ← mapKind? kind
      let (f, r) := s.forest.entryAndModifyOrInsert k (← node a) (← entryValue? k key val) (← modifier? k arg)
      fin f (showRes r)
  | ["entry_insert", kind, a, key, val] => do
      let k ← mapKind? kind
      let (f, r) := s.forest.entryInsert k (← node a) (← entryValue? k key val)
      fin f (showRes r)
  | ["occupied_insert", kind, a, key, val] => do
      let k ← mapKind? kind
      let (f, r) := s.forest.occupiedInsert k (← node a) (← entryValue? k key val)
      fin f (showRes r)
  | ["vacant_insert", kind, a, key, val] => do
      let k ← mapKind? kind
      let (f, r) := s.forest.vacantInsert k (← node a) (← entryValue? k key val)
      fin f (showRes r)
  | ["map_iter_ro", kind, a] => do some (s, showFmapIter s (← mapKind? kind) (← node a))
  | ["map_iter_mut", kind, a] => do some (s, showFmapIter s (← mapKind? kind) (← node a))
  | ["entry_remove", kind, a, key] => do
      let k ← mapKind? kind
      let (f, r) := s.forest.entryRemove k (← node a) (← key.toNat?)
      fin f (showRes r)
  | ["get_mut_set", kind, a, key, val] => do
      let k ← mapKind? kind
      let (f, r, found) := s.forest.mapGetMutSet k (← node a) (← key.toNat?) (← entryValue? k key val)
      match r with
      | .ok => fin f (if found then "ok 1" else "ok 0")
      | r => fin f (showRes r)
  | ["get", kind, a, key] => do
      let k ← mapKind? kind
      match s.forest.mapGetNode k (← node a) (← key.toNat?) with
      | none => some (s, "none")
      | some n =>
        let l := match s.labelOf n.handle with | some l => toString l | none => "?"
        some (s, s!"{l} {showPayload n.value}")
  | ["map_full", kind, a] => do some (s, showMapFull s (← mapKind? kind) (← node a))
  | _ => none

end XotModel.Driver
