/-
  Driver for the `fmap` suite (C11): requests on the same session as `forest` (`FState`),
  first word `fmap`: the entry API and `get_mut` of the mutable node map, `get` / `get_node`,
  and a full read of a view with the entry nodes' labels.
-/
import XotModel.Model.FmapEntry
import XotModel.Driver.Forest

namespace XotModel.Driver

/-- The entry value `A::create(key, value)` from the wire. -/
def entryValue? (k : Forest.MapKind) (key val : String) : Option Value :=
  match k with
  | .attributes => do some (.attribute (← key.toNat?) (← decStr val))
  | .namespaces => do some (.namespace (← key.toNat?) (← val.toNat?))

/-- The closure given to `and_modify`: attributes `|v| v.push_str(arg)`, namespaces `|v| *v = arg`. -/
def modifier? (k : Forest.MapKind) (arg : String) : Option (Value → Value) :=
  match k with
  | .attributes => do
      let sfx ← decStr arg
      some fun v => match v with | .attribute n s => .attribute n (s ++ sfx) | v => v
  | .namespaces => do
      let ns ← arg.toNat?
      some fun v => match v with | .namespace p _ => .namespace p ns | v => v

def showPayload : Value → String
  | .attribute _ v => encStr v
  | .namespace _ n => toString n
  | _ => "?"

/-- `n=<len> e=<is_empty> key:value@label …` — the view with its entry nodes. -/
def showMapFull (s : FState) (k : Forest.MapKind) (h : Nat) : String :=
  match s.forest.get? h with
  | none => "none"
  | some t =>
    let cs := Forest.mapChildren k t
    let items := cs.map fun c =>
      let l := match s.labelOf c.handle with | some l => toString l | none => "?"
      s!"{Forest.entryKey c.value}:{showPayload c.value}@{l}"
    s!"n={cs.length} e={if cs.isEmpty then 1 else 0} " ++ String.intercalate " " items

def handleFmap (s : FState) (ws : List String) : Option (FState × String) :=
  let node (w : String) : Option Nat := do s.handleOf (← w.toNat?)
  let fin (f : Forest) (r : String) : Option (FState × String) :=
    some (({ s with forest := f }).relabel, r)
  match ws with
  | ["entry_or_insert", kind, a, key, val] => do
      let k ← mapKind? kind
      let (f, r) := s.forest.entryOrInsert k (← node a) (← entryValue? k key val)
      fin f (showRes r)
  | ["entry_or_default", a, key] => do
      let (f, r) := s.forest.entryOrDefault (← node a) (← key.toNat?)
      fin f (showRes r)
  | ["entry_and_modify", kind, a, key, arg] => do
      let k ← mapKind? kind
      let (f, r, _) := s.forest.entryAndModify k (← node a) (← key.toNat?) (← modifier? k arg)
      fin f (showRes r)
  | ["entry_and_modify_or_insert", kind, a, key, arg, val] => do
      let k ← mapKind? kind
      let (f, r) := s.forest.entryAndModifyOrInsert k (← node a) (← entryValue? k key val) (← modifier? k arg)
      fin f (showRes r)
  | ["entry_insert", kind, a, key, val] => do
      let k ← mapKind? kind
      let (f, r) := s.forest.entryInsert k (← node a) (← entryValue? k key val)
      fin f (showRes r)
  | ["entry_remove", kind, a, key] => do
      let k ← mapKind? kind
      let (f, r) := s.forest.entryRemove k (← node a) (← key.toNat?)
      fin f (showRes r)
  | ["get_mut_set", kind, a, key, val] => do
      let k ← mapKind? kind
      let (f, r, found) := s.forest.mapGetMutSet k (← node a) (← key.toNat?) (← entryValue? k key val)
      match r with
      | .ok => fin f (if found then "ok 1" else "ok 0")
      | r => fin f (showRes r)
  | ["get", kind, a, key] => do
      let k ← mapKind? kind
      match s.forest.mapGetNode k (← node a) (← key.toNat?) with
      | none => some (s, "none")
      | some n =>
        let l := match s.labelOf n.handle with | some l => toString l | none => "?"
        some (s, s!"{l} {showPayload n.value}")
  | ["map_full", kind, a] => do some (s, showMapFull s (← mapKind? kind) (← node a))
  | _ => none

end XotModel.Driver
