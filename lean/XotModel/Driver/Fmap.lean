/-
  Driver for the `fmap` suite (C11): requests on the same session as `forest` (`FState`),
  first word `fmap`: `insert` / `remove` / `get_mut` and the entry API of the mutable node map,
  `get` / `get_node` / `contains_key`, and a full read of a view with the entry nodes' labels.

  Every call is executed as a step of the history type of the theorems (`Fmap.MapCall.run`,
  Model/FmapRet.lean) and answered with its outcome followed by the value it RETURNS
  (`Fmap.Ret`, `showRet`), which the harness prints from the real crate.
-/
import XotModel.Model.FmapEntry
import XotModel.Model.FmapSpec2
import XotModel.Model.FmapRet
import XotModel.Driver.Forest

namespace XotModel.Driver

/-- The entry value `A::create(key, value)` from the wire. -/
def entryValue? (k : Forest.MapKind) (key val : String) : Option Value :=
  match k with
  | .attributes => do some (.attribute (← key.toNat?) (← decStr val))
  | .namespaces => do some (.namespace (← key.toNat?) (← val.toNat?))

def showPayload : Value → String
  | .attribute _ v => encStr v
  | .namespace _ n => toString n
  | _ => "?"

/-- `n=<len> e=<is_empty> key:value@label …` — the view with its entry nodes. -/
def showMapFull (s : FState) (k : Forest.MapKind) (h : Nat) : String :=
  match s.forest.get? h with
  | none => "none"
  | some t =>
    let cs := Forest.mapChildren k t
    let items := cs.map fun c =>
      let l := match s.labelOf c.handle with | some l => toString l | none => "?"
      s!"{Forest.entryKey c.value}:{showPayload c.value}@{l}"
    s!"n={cs.length} e={if cs.isEmpty then 1 else 0} " ++ String.intercalate " " items

def showFmapPayload : Fmap.Payload → String
  | .str v => encStr v
  | .ns n => toString n
  | .other => "?"

def showFmapPairs (l : List (Nat × Fmap.Payload)) : String :=
  String.intercalate "," (l.map fun p => s!"{p.1}:{showFmapPayload p.2}")

/-- `iter()`, `to_vec()` and `to_hashmap()` (key-sorted) of a view (Model/FmapSpec2.lean). -/
def showFmapIter (s : FState) (k : Forest.MapKind) (h : Nat) : String :=
  s!"iter={showFmapPairs (Fmap.mapIter s.forest k h)} vec={showFmapPairs (Fmap.mapToVec s.forest k h)} " ++
  s!"hm={showFmapPairs (Fmap.mapToHashmap s.forest k h)}"

/-- The closure given to `and_modify` as a function on the stored `String` / `NamespaceId`
    (`Fmap.liftP` makes it the function on the entry value): attributes `|v| v.push_str(arg)`,
    namespaces `|v| *v = arg`. -/
def modifierP? (k : Forest.MapKind) (arg : String) : Option (Fmap.Payload → Fmap.Payload) :=
  match k with
  | .attributes => do
      let sfx ← decStr arg
      some fun p => match p with | .str s => .str (s ++ sfx) | p => p
  | .namespaces => do
      let ns ← arg.toNat?
      some fun _ => .ns ns

/-- The returned value of a call (`Fmap.Ret`): nothing for `()`, `-` for `None`, a payload, the
    label of a node, `0` / `1`, a key. -/
def showRetW (s : FState) : Fmap.Ret → String
  | .unit => ""
  | .value none => "-"
  | .value (some p) => showFmapPayload p
  | .node none => "-"
  | .node (some h) => (match s.labelOf h with | some l => toString l | none => "?")
  | .bool b => if b then "1" else "0"
  | .key k => toString k

def showRet (s : FState) (r : Fmap.Ret) : String :=
  match r with
  | .unit => ""
  | r => " " ++ showRetW s r

def handleFmap (s : FState) (ws : List String) : Option (FState × String) :=
  let node (w : String) : Option Nat := do s.handleOf (← w.toNat?)
  /- one call of the history type `Fmap.MapCall`: outcome, then the value it returns -/
  let call (c : Fmap.MapCall) : Option (FState × String) :=
    let (f, r, ret) := c.run s.forest
    let s' := ({ s with forest := f }).relabel
    match r with
    | .ok => some (s', "ok" ++ showRet s' ret)
    | r => some (s', showRes r)
  match ws with
  | ["insert", kind, a, key, val] => do
      let k ← mapKind? kind
      call (.base (.insert k (← node a) (← entryValue? k key val)))
  | ["remove", kind, a, key] => do
      call (.base (.remove (← mapKind? kind) (← node a) (← key.toNat?)))
  | ["entry_or_insert", kind, a, key, val] => do
      let k ← mapKind? kind
      call (.base (.entryOrInsert k (← node a) (← entryValue? k key val)))
  | ["entry_or_insert_with", kind, a, key, val] => do
      -- answer: did the closure run, and the value behind the returned `&mut V`
      let k ← mapKind? kind
      let h ← node a
      let d ← entryValue? k key val
      let called := (s.forest.entryOrInsertWith k h (Forest.entryKey d) (fun _ => d)).2.2
      let (f, r, ret) := (Fmap.MapCall.entryOrInsertWith k h (Forest.entryKey d) (fun _ => d)).run s.forest
      let s' := ({ s with forest := f }).relabel
      match r with
      | .ok => some (s', s!"ok {if called then 1 else 0}" ++ showRet s' ret)
      | r => some (s', showRes r)
  | ["occupied_into_mut", kind, a, key, val] => do
      let k ← mapKind? kind
      call (.occupiedIntoMutSet k (← node a) (← key.toNat?) (← entryValue? k key val))
  | ["occupied_get_mut", kind, a, key, val] => do
      let k ← mapKind? kind
      call (.occupiedGetMutSet k (← node a) (← key.toNat?) (← entryValue? k key val))
  | ["entry_peek", kind, a, key] => do
      -- `Entry::key`, then `OccupiedEntry::key` / `get` / `get_mut` (each `…(self.key).unwrap()`) or `VacantEntry::key`
      let k ← mapKind? kind
      let h ← node a
      let key ← key.toNat?
      match (Fmap.MapCall.peekKey k h key).run s.forest, (Fmap.MapCall.occupiedGet k h key).run s.forest with
      | (_, .ok, .key key'), (_, .ok, .value (some p)) =>
        some (s, s!"occ {key'} {key'} {showFmapPayload p} {showFmapPayload p}")
      | (_, .ok, .key key'), (_, .ok, .value none) => some (s, s!"vac {key'} {key'}")
      | _, _ => some (s, "panic")
  | ["entry_or_default", a, key] => do
      call (.base (.entryOrDefault (← node a) (← key.toNat?)))
  | ["entry_and_modify", kind, a, key, arg] => do
      let k ← mapKind? kind
      call (.base (.entryAndModify k (← node a) (← key.toNat?) (← modifierP? k arg)))
  | ["entry_and_modify_or_insert", kind, a, key, arg, val] => do
      let k ← mapKind? kind
      call (.base (.entryAndModifyOrInsert k (← node a) (← entryValue? k key val) (← modifierP? k arg)))
  | ["entry_insert", kind, a, key, val] => do
      let k ← mapKind? kind
      call (.base (.entryInsert k (← node a) (← entryValue? k key val)))
  | ["occupied_insert", kind, a, key, val] => do
      let k ← mapKind? kind
      call (.base (.occupiedInsert k (← node a) (← entryValue? k key val)))
  | ["vacant_insert", kind, a, key, val] => do
      let k ← mapKind? kind
      call (.base (.vacantInsert k (← node a) (← entryValue? k key val)))
  | ["map_iter_ro", kind, a] => do some (s, showFmapIter s (← mapKind? kind) (← node a))
  | ["map_iter_mut", kind, a] => do some (s, showFmapIter s (← mapKind? kind) (← node a))
  | ["entry_remove", kind, a, key] => do
      call (.base (.entryRemove (← mapKind? kind) (← node a) (← key.toNat?)))
  | ["get_mut_set", kind, a, key, val] => do
      let k ← mapKind? kind
      call (.base (.getMutSet k (← node a) (← key.toNat?) (← entryValue? k key val)))
  | ["get", kind, a, key] => do
      -- `get_node(key)`, `get(key)`, `contains_key(key)` of the read-only view
      let k ← mapKind? kind
      let h ← node a
      let key ← key.toNat?
      match (Fmap.MapCall.getNode k h key).run s.forest, (Fmap.MapCall.get k h key).run s.forest,
          (Fmap.MapCall.containsKey k h key).run s.forest with
      | (_, _, r1), (_, _, r2), (_, _, r3) => some (s, String.intercalate " " [showRetW s r1, showRetW s r2, showRetW s r3])
  | ["map_full", kind, a] => do some (s, showMapFull s (← mapKind? kind) (← node a))
  | _ => none

end XotModel.Driver
