/-
  Driver for suite `scope` (C09, C15): one query per line on `tree × path`.

    scope in_scope <path> <tree>     ok p:ns,p:ns,…        (iteration order)
    scope nfp <path> <tree>          ok 0=<ns|->,1=…        namespace_for_prefix for every prefix id
    scope defined <path> <tree>      ok 0=<t|f>,…           is_prefix_defined for every prefix id
    scope pfn <path> <tree>          ok 0=<p|->,…           prefix_for_namespace for every namespace id
    scope inherited <path> <tree>    ok p:ns,…              (sorted by prefix: hash map)
    scope unresolved <path> <tree>   ok ns,ns,…             (Vec order)
    scope names <path> <tree>        ok <id>=<full_name>/<name_ref>,…  for every name id
                                       full_name: s:… | !<ns string>   name_ref: prefix id | !<ns string>
    scope node <path> <tree>         ok name=<n|-> ref=<-|n:p|!<ns string>>
    scope writable <path> <tree>     ok <t|f>               to_string(node) does not fail with MissingPrefix
    scope dedup <path> <tree>        ok <tree>
    scope xmlname <path> <tree>      ok <id>=<item>,… for every name id: the name types of xmlname/*.rs on the
                                       result of name_ref (format: harness scope_names.rs, `xmlname_wire`)
  The vocabulary (`vocab …` line) supplies the id ranges and the strings.
-/
import XotModel.Model.Scope
import XotModel.Model.XmlName
import XotModel.Driver.Tree

namespace XotModel.Driver

def joinOrDash (l : List String) : String := if l.isEmpty then "-" else String.intercalate "," l

def showPairs (l : List (Nat × Nat)) : String := joinOrDash (l.map fun (p, n) => s!"{p}:{n}")

def showOptNat : Option Nat → String
  | some n => toString n
  | none => "-"

def showMissing (env : Env) : XotError → String
  | .missingPrefix ns => "!" ++ encStr (env.namespaceStr ns)
  | _ => "!?"

def showOwned (o : OwnedName) : String :=
  s!"{encStr o.localName}|{encStr o.namespaceStr}|{encStr o.prefixStr}"

def showRefOpt : Option RefName → String
  | some r => s!"{r.nameId}:{r.prefixId}"
  | none => "-"

/-- One item of `scope xmlname`: the calls of harness `xmlname_obs`, in its order, on the scratch tables. -/
def xmlnameItem (env : Env) (chain : List Tree) (n : Nat) : String :=
  match nameRefChain env chain n with
  | .error e => s!"{n}={showMissing env e}"
  | .ok p =>
    let tf (b : Bool) : String := if b then "t" else "f"
    let r : RefName := ⟨n, p⟩
    let o := r.toOwned env
    let full := o.fullName
    let parsed := match OwnedName.parseFullName full (elementLookupStr env chain) with
      | .ok o2 => if o2 == o then "=" else showOwned o2
      | .error s => "!U" ++ encStr s
    let sfx := o.withSuffix
    let before := sfx.maybeToRef env
    let (e1, rr) := o.toRef env
    let (e2, created) := sfx.toCreate e1
    let after := sfx.maybeToRef e2
    let cp := match createParseFullName e2 full (elementLookup env chain) with
      | .ok (_, id) => toString id
      | .error s => "!U" ++ encStr s
    let wd := o.withDefaultNamespace ['u','r','n',':','b']
    s!"{n}={tf (r.hasUnprefixedNamespace env)}{tf o.inDefaultNamespace}/{showOwned o}/{parsed}/{rr.nameId}:{rr.prefixId}/" ++
    s!"{showRefOpt before}>{created}>{showRefOpt after}/{cp}/{encStr wd.namespaceStr}~{tf wd.inDefaultNamespace}"

def scopeQuery (env : Env) (op : String) (t : Tree) (path : Path) : Option String := do
  let chain ← t.ancestorsOrSelf path
  let sub ← t.at? path
  match op with
  | "in_scope" => some ("ok " ++ showPairs (namespacesInScopeChain chain))
  | "nfp" =>
    some ("ok " ++ joinOrDash ((List.range env.prefixes.length).map fun p =>
      s!"{p}={showOptNat (namespaceForPrefixChain chain p)}"))
  | "defined" =>
    some ("ok " ++ joinOrDash ((List.range env.prefixes.length).map fun p =>
      s!"{p}={if isPrefixDefinedChain chain p then "t" else "f"}"))
  | "pfn" =>
    some ("ok " ++ joinOrDash ((List.range env.namespaces.length).map fun ns =>
      s!"{ns}={showOptNat (prefixForNamespaceChain chain ns)}"))
  | "inherited" => do
    let l ← inheritedPrefixes env t path
    some ("ok " ++ showPairs (l.mergeSort (fun a b => a.1 ≤ b.1)))
  | "unresolved" =>
    some ("ok " ++ joinOrDash ((unresolvedNamespacesSub env sub).map toString))
  | "names" =>
    some ("ok " ++ joinOrDash ((List.range env.names.length).map fun n =>
      let f := match fullNameChain env chain n with
        | .ok s => encStr s
        | .error e => showMissing env e
      let r := match nameRefChain env chain n with
        | .ok p => toString p
        | .error e => showMissing env e
      s!"{n}={f}/{r}"))
  | "node" =>
    let nm := showOptNat (nodeName sub.value)
    let r := match nodeNameRefChain env chain with
      | .ok none => "-"
      | .ok (some (n, p)) => s!"{n}:{p}"
      | .error e => showMissing env e
    some s!"ok name={nm} ref={r}"
  | "xmlname" => some ("ok " ++ joinOrDash ((List.range env.names.length).map (xmlnameItem env chain)))
  | "writable" => some ("ok " ++ (if namesWritableChain env chain sub then "t" else "f"))
  | "dedup" => do
    let t' ← deduplicateNamespaces env t path
    some ("ok " ++ showTree t')
  | _ => none

def handleScope (st : DState) : List String → Option String
  | op :: path :: toks => do
    let p ← parsePath path
    let (t, rest) ← parseTree toks
    if rest.isEmpty then scopeQuery st.env op t p else none
  | _ => none

end XotModel.Driver
