/-
  Driver for suite `cmp` (property C13).

    cmp deep        <refA> <refB> <tree>+
    cmp children    <refA> <refB> <tree>+
    cmp xpath <cmp> <refA> <refB> <tree>+
    cmp adv <filter> <cmp> <refA> <refB> <tree>+
    cmp shallow     <refA> <refB> <tree>+
    cmp shallowign <ids|-> <refA> <refB> <tree>+
    cmp canoneq     <refA> <refB> <tree>+        equality of the specification `canon`
    cmp strval | textcontent | textcontentstr | nedges   <ref> <tree>+

  A node reference is `<tree index>/<path>` (`0/.`, `1/0.2`). The text comparisons and filters
  are a fixed menu, the same closures as in `harness/src/suite_cmp.rs`.
-/
import XotModel.Model.Compare
import XotModel.Driver.Tree

namespace XotModel.Driver

def asciiLower (c : Char) : Char :=
  if 'A'.toNat ≤ c.toNat ∧ c.toNat ≤ 'Z'.toNat then Char.ofNat (c.toNat + 32) else c

def isAsciiWs (c : Char) : Bool :=
  c == ' ' || c == '\t' || c == '\n' || c == '\x0c' || c == '\r'

/-- `trim_matches(|c| c.is_ascii_whitespace())`. -/
def trimAsciiWs (s : Str) : Str := ((s.dropWhile isAsciiWs).reverse.dropWhile isAsciiWs).reverse

def isDigits (s : Str) : Bool := !s.isEmpty && s.all fun c => '0'.toNat ≤ c.toNat && c.toNat ≤ '9'.toNat

/-- `num_canon` of `harness/src/suite_cmp.rs`: normal form of a decimal numeral `-?digits(.digits)?`,
    any other string is its own normal form. -/
def numCanon (s : Str) : Str :=
  let neg : Bool := match s with | '-' :: _ => true | _ => false
  let rest : Str := match s with | '-' :: r => r | _ => s
  let int := rest.takeWhile (· != '.')
  let frac? : Option Str := match rest.dropWhile (· != '.') with | [] => none | _ :: f => some f
  if !isDigits int || (match frac? with | some f => !isDigits f | none => false) then s
  else
    let int' := int.dropWhile (· == '0')
    let frac' := ((frac?.getD []).reverse.dropWhile (· == '0')).reverse
    (if neg then ['-'] else []) ++ (if int'.isEmpty then ['0'] else int') ++
      (if frac'.isEmpty then [] else '.' :: frac')

/-- The menu of text comparisons. -/
def textCmpOf : String → Option TextCmp
  | "trim" => some fun a b => trimAsciiWs a == trimAsciiWs b
  | "num" => some fun a b => numCanon a == numCanon b
  | "eq" => some strEq
  | "ci" => some fun a b => a.map asciiLower == b.map asciiLower      -- eq_ignore_ascii_case
  | "ws" => some fun a b => a.filter (!isAsciiWs ·) == b.filter (!isAsciiWs ·)
  | "prefix" => some fun a b => a.isPrefixOf b                         -- b.starts_with(a)
  | "true" => some fun _ _ => true
  | "false" => some fun _ _ => false
  | _ => none

/-- The menu of node filters. -/
def filterOf : String → Option NodeFilter
  | "all" => some fun _ => true
  | "nocp" => some fun n => match n.value with | .comment _ => false | .pi _ _ => false | _ => true
  | "elem" => some fun n => n.value.isElement
  | "xpath" => some xpathFilter
  | "notext" => some fun n => !n.value.isText
  | "nob" => some fun n => match n.value with | .element 3 => false | _ => true
  | "none" => some fun _ => false
  | _ => none

partial def parseTrees : List String → Option (List Tree)
  | [] => some []
  | toks => do
      let (t, rest) ← parseTree toks
      let ts ← parseTrees rest
      some (t :: ts)

/-- `<tree index>/<path>` -/
def resolveRef (trees : List Tree) (w : String) : Option Tree :=
  match w.splitOn "/" with
  | [i, p] => do
      let i ← i.toNat?
      let p ← parsePath p
      let t ← trees[i]?
      t.at? p
  | _ => none

def parseIdList (w : String) : Option (List Nat) :=
  if w == "-" then some [] else
  (w.splitOn ",").foldr (fun part acc => match acc, part.toNat? with
    | some l, some n => some (n :: l)
    | _, _ => none) (some [])

def showCValue : CValue → String
  | .document => "D"
  | .element n as => s!"E {n} " ++ String.intercalate "," (as.map fun (k, v) => s!"{k}={encStr v}")
  | .text s => s!"T {encStr s}"
  | .comment s => s!"C {encStr s}"
  | .pi t none => s!"P {t} -"
  | .pi t (some s) => s!"P {t} {encStr s}"
  | .attribute n s => s!"A {n} {encStr s}"
  | .namespace p n => s!"N {p} {n}"

partial def showCanon : Canon → String
  | .node v ks => showCValue v ++ " [ " ++ String.intercalate " " (ks.map showCanon) ++ " ]"

def showBool (b : Bool) : String := if b then "true" else "false"

def showOptStr : Option Str → String
  | some s => "some " ++ encStr s
  | none => "none"

def binary (f : Tree → Tree → Bool) (ra rb : String) (toks : List String) : Option String := do
  let trees ← parseTrees toks
  let a ← resolveRef trees ra
  let b ← resolveRef trees rb
  some (showBool (f a b))

def unary (f : Tree → String) (r : String) (toks : List String) : Option String := do
  let trees ← parseTrees toks
  let a ← resolveRef trees r
  some (f a)

def handleCmp (st : DState) : List String → Option String
  | "deep" :: ra :: rb :: toks => binary deepEqual ra rb toks
  | "children" :: ra :: rb :: toks => binary deepEqualChildren ra rb toks
  | "xpath" :: c :: ra :: rb :: toks => do binary (deepEqualXpath (← textCmpOf c)) ra rb toks
  | "adv" :: f :: c :: ra :: rb :: toks => do
      binary (advancedDeepEqual (← filterOf f) (← textCmpOf c)) ra rb toks
  | "shallow" :: ra :: rb :: toks => binary shallowEqual ra rb toks
  | "shallowign" :: ids :: ra :: rb :: toks => do
      let ids ← parseIdList ids
      binary (fun a b => shallowEqualIgnoreAttributes a b ids) ra rb toks
  | "canoneq" :: ra :: rb :: toks => binary (fun a b => showCanon (canon a) == showCanon (canon b)) ra rb toks
  | "strval" :: r :: toks => unary (fun a => "ok " ++ encStr (stringValue st.env a)) r toks
  | "textcontent" :: r :: toks => unary (fun a => showOptStr (textContent a)) r toks
  | "textcontentstr" :: r :: toks => unary (fun a => showOptStr (textContentStr a)) r toks
  | "nedges" :: r :: toks => unary (fun a => toString (traverseEdges a).length) r toks
  | _ => none

end XotModel.Driver
