/-
  Driver for the `bytes` suite: `bytes decl|enc|decode b:<hex>` — xot's `xml_declaration`,
  `encoding(..).name()` and `decode` on a byte string (two hexadecimal digits per byte).
-/
import XotModel.Model.Bytes
import XotModel.Driver.Codec

namespace XotModel.Driver

open XotModel.Bytes

def decBytesGo : List Char → Option (List Nat)
  | [] => some []
  | [_] => none
  | a :: b :: rest =>
    match hexVal a, hexVal b, decBytesGo rest with
    | some x, some y, some bs => some ((x * 16 + y) :: bs)
    | _, _, _ => none

def decBytes (w : String) : Option (List Nat) :=
  if w.startsWith "b:" then decBytesGo (w.drop 2).toString.toList else none

def handleBytes : List String → Option String
  | ["decl", b] => (decBytes b).map fun bs =>
      match xmlDeclaration bs with
      | some l => "some " ++ encStr l
      | none => "none"
  | ["enc", b] => (decBytes b).map fun bs =>
      match encodingName bs with
      | some n => "some " ++ String.ofList n
      | none => "none"
  | ["decode", b] => (decBytes b).map fun bs =>
      match decodeBytes bs with
      | some s => "ok " ++ encStr s
      | none => "unmodelled " ++ String.ofList (((encodingOf bs).map Enc.name).getD [])
  | _ => none

end XotModel.Driver
