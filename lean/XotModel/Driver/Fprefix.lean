/-
  Driver: two more requests of the `forest` session (C04 / C06, forest suite).

    forest create_missing_prefixes <label>   -> ok | err:NotElement | err:Other | panic
    forest dedup <label>                     -> ok | panic
  Both need the vocabulary (`vocab …` line before the request); `create_missing_prefixes` hands the
  interning tables back with the prefixes it registered.
-/
import XotModel.Model.FatomSpec2
import XotModel.Driver.Forest

namespace XotModel.Driver

def handleFprefix (env : Env) (s : FState) (ws : List String) : Option (FState × Env × String) :=
  let node (w : String) : Option Nat := do s.handleOf (← w.toNat?)
  match ws with
  | ["create_missing_prefixes", a] => do
      let r := s.forest.createMissingPrefixes env (← node a)
      some (({ s with forest := r.1 }).relabel, r.2.1, showRes r.2.2)
  | ["dedup", a] => do
      let r := s.forest.deduplicateNamespaces env (← node a)
      some (({ s with forest := r.1 }).relabel, env, showRes r.2)
  | _ => none

end XotModel.Driver
