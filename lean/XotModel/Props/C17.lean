/-
  C17 — Source spans and error positions point at the right text.  Property theorems only.

  Proved for every token list satisfying the token-shape contract (no bound):
    C17_errors           every `ParseError` span has both end points in `[0, len]`
    C17_errors_content   positions reported by `parse_content` lie inside the slice it was given,
                         including the `base_position` arithmetic
    C17_inside           every recorded span has both end points in `[0, len]`
    C17_span_*           which token-level span is recorded under each `SpanInfoKey`
    C17_total_top        every element / text child of the document node has its span
  Not proved here (see props.py): spans are ordered (`start ≤ end`) and fall on char boundaries
  (needs the tokens to be in source order: a contract of the tokenizer), every node below the top
  level has its spans, decoding the slice gives the value (character-level part: C02_content).
-/
import XotModel.Lemmas.ParseSpans
import XotModel.Lemmas.ParseSpanKeys
import XotModel.Lemmas.ParseWitnessData
import XotModel.Lemmas.TokenShapeB

namespace XotModel.Props
open XotModel XotModel.Witness

/-- Every error span lies in `[0, len]`. -/
theorem C17_errors {m : Mode} {len : Nat} {env env' : Env} {ts : List Token} {lexErr : Option Nat} {e : ParseErr}
    (hshape : TokenShape len ts lexErr) (h : build m len env ts lexErr = .err e env') :
    e.span.InBounds len := by
  have := build_good m env ts lexErr hshape.inside hshape.lexPos
  rw [h] at this; exact this

/-- Every recorded span lies in `[0, len]`. -/
theorem C17_inside {m : Mode} {len : Nat} {env : Env} {ts : List Token} {lexErr : Option Nat} {p : Parsed}
    (hshape : TokenShape len ts lexErr) (h : build m len env ts lexErr = .ok p) :
    ∀ e ∈ p.spans, e.2.InBounds len := by
  have := build_good m env ts lexErr hshape.inside hshape.lexPos
  rw [h] at this; exact this

/-- Error positions of `parse_content(content, attribute, base_position)` lie within
    `[base_position, base_position + content.len()]`. -/
theorem C17_errors_content (attr : Bool) (base : Nat) (s : Str) (e : ContentErr)
    (h : parseContentGo attr base 0 s = .error e) : e.within base (base + strLen s) := by
  simpa using parseGo_error_within attr base s.length s 0 e rfl h

/-- Non-vacuity: `<a></b>` is rejected with the span of `b` in the end tag, inside `[0, 7]`. -/
example : (build .document mismatchLen Env.fresh mismatch none).errSpan = some ⟨5, 6⟩ := by
  rw [build_eq_buildE]; decide +kernel
example : TokenShape mismatchLen mismatch none := tokenShape_of_B (by decide +kernel)

/-! ### Which span is recorded under which key -/

/-- `ElementStart`: the qualified name as written — from the start of the prefix (of the local
    name when there is none) to the end of the local name. -/
theorem C17_span_element_start (b b' : Builder) (p l sp : StrSpan)
    (h : (b.element p l).openElement = .ok b') :
    b'.spans.get ⟨b.curPath ++ [b.cur.rkids.length], .elementStart⟩ = some (Span.fromPrefixName p l) :=
  openElement_span (b := b.element p l) (eb := ElementBuilder.new p l) rfl h

/-- `ElementEnd`: the end tag `</q>` or the `/>` — the span of the end token. -/
theorem C17_span_element_end (b b' : Builder) (node : Path) (sp : StrSpan) (h : b.leave node sp = .ok b') :
    b'.spans.get ⟨node, .elementEnd⟩ = some sp.span :=
  leave_span node sp h

/-- `AttributeName` / `AttributeValue`: the qualified name as written and the text between the
    quotes, of the LAST attribute of the element that resolves to this name id. -/
theorem C17_span_attribute (node : Path) (m : SpanMap) (l : List (Nat × Span × Span)) (n : Nat) (s1 s2 : Span) :
    (m.addAttributeSpans node (l ++ [(n, s1, s2)])).get ⟨node, .attributeName n⟩ = some s1 ∧
    (m.addAttributeSpans node (l ++ [(n, s1, s2)])).get ⟨node, .attributeValue n⟩ = some s2 :=
  get_addAttributeSpans_last node m l n s1 s2

/-- What `Builder.attribute` stores as the two spans. -/
example (p l v : StrSpan) : (Span.fromPrefixName p l, v.span) = (Span.fromPrefixName p l, ⟨v.start, v.stop⟩) := rfl

/-- `Text`: the first part records its own span; every further merged text / CDATA part keeps
    the start and moves the end to its own end. -/
theorem C17_span_text_first (m : SpanMap) (node : Path) (s : Span) (h : m.get ⟨node, .text⟩ = none) :
    (m.extendText node s).get ⟨node, .text⟩ = some s :=
  extendText_first m node s h

theorem C17_span_text_next (m : SpanMap) (node : Path) (s ex : Span) (h : m.get ⟨node, .text⟩ = some ex) :
    (m.extendText node s).get ⟨node, .text⟩ = some ⟨ex.start, s.stop⟩ :=
  extendText_next m node s ex h

/-- `Comment`: the comment body. -/
theorem C17_span_comment (b : Builder) (t : StrSpan) :
    (b.comment t).spans.get ⟨b.curPath ++ [b.cur.rkids.length], .comment⟩ = some t.span :=
  comment_span b t

/-- `PiTarget` / `PiContent`: target and (if present) content. -/
theorem C17_span_pi (b : Builder) (target : StrSpan) (c : StrSpan) :
    (b.processingInstruction target (some c)).spans.get ⟨b.curPath ++ [b.cur.rkids.length], .piTarget⟩ =
      some target.span ∧
    (b.processingInstruction target (some c)).spans.get ⟨b.curPath ++ [b.cur.rkids.length], .piContent⟩ =
      some c.span :=
  pi_spans b target (some c)

/-- Every element child and every text child of the document node has its span recorded
    (`FwdSpans m i ks`: the children `ks`, numbered from `i`, have their `ElementStart` / `Text` keys). -/
theorem C17_total_top {m : Mode} {len : Nat} {env : Env} {ts : List Token} {lexErr : Option Nat} {p : Parsed}
    (hshape : TokenShape len ts lexErr) (hclose : NoStrayClose 0 ts) (h : build m len env ts lexErr = .ok p) :
    FwdSpans p.spans 0 p.tree.kids :=
  build_total_top hshape.tags hclose h

/-- Non-vacuity on `<p:a xmlns:p='u' b=''><!--c--><![CDATA[t]]></p:a>`: the spans of the element
    name (`p:a`), the end tag, the attribute `b`, the comment body and the CDATA content. -/
example : let r := build .document goodDocLen Env.fresh goodDoc none
    r.spanOf ⟨[0], .elementStart⟩ = some ⟨1, 4⟩ ∧ r.spanOf ⟨[0], .elementEnd⟩ = some ⟨43, 49⟩ ∧
    r.spanOf ⟨[0], .attributeName 3⟩ = some ⟨17, 18⟩ ∧ r.spanOf ⟨[0], .attributeValue 3⟩ = some ⟨20, 20⟩ ∧
    r.spanOf ⟨[0, 2], .comment⟩ = some ⟨26, 27⟩ ∧ r.spanOf ⟨[0, 3], .text⟩ = some ⟨39, 40⟩ := by
  rw [build_eq_buildE]; decide +kernel

end XotModel.Props
