/-
  C17 — Source spans and error positions point at the right text.  Property theorems only.

  Proved for every token list satisfying the token-shape contract (no bound):
    C17_errors           every `ParseError` span has both end points in `[0, len]`
    C17_errors_content   positions reported by `parse_content` lie inside the slice it was given,
                         including the `base_position` arithmetic
    C17_inside           every recorded span has both end points in `[0, len]`
    C17_span_*           which token-level span is recorded under each `SpanInfoKey`
    C17_total            every element, attribute, text, comment and PI of an accepted tree has
                         its spans, at every depth (C17_total_top: the top-level instance used
                         by the epilogues)
    C17_ordered          `start ≤ end` for every recorded span and every error span, when the
                         character-data tokens come in source order
    C17_boundaries       every end point is a char boundary of the source, when the token spans are
                         slices of the source
    C17_error_step_reserved   the two reserved-name errors: `InvalidTarget` is raised by the PI arm with the
                         span of the PI's target, `InvalidNamespaceDeclaration` by a namespace-declaration
                         attribute with the span of its NAME (like `DuplicateAttribute`); both are errors of
                         one token of the list (C17_error_reserved_origin), so C17_errors / C17_ordered /
                         C17_boundaries cover them like every other `ParseErr` (`ParseErr.span`)
  For the reference tokenizer (Model/Lex*.lean: xmlparser 0.13.6 as written; tied to the crate by the
  `lex` suite), on EVERY string:
    C17_lex_slices / _sliceOf   every token span is the slice of the text at its byte offsets
    C17_lex_errpos, C17_lex_shape, C17_lex_ordered   error position, token-shape contract, source order
    C17_string_inside / _boundaries / _ordered       the theorems above with no assumption left
    C17_lex_canonical_positions   canonical spelling ⇒ exactly the positions it implies
  TREE LEVEL ON STRINGS (Lemmas/SpanDesc*.lean: every node is made by a token whose span is the one
  recorded; Lemmas/LexSpell*.lean: what those spans spell; Lemmas/SpanSlice*.lean, SpanDecodeRun.lean):
  for every string accepted by `parse` / `parse_fragment` and every node of the tree,
    C17_names_whole      (/repo a5fafb0) in an accepted text no name is written `:local`: the prefix is absent
                         (offset 0) or non-empty and abuts the colon, so the recorded name span covers the
                         WHOLE name as written (`WholeName`; the two former C17 findings are closed)
    C17_slice_element    `ElementStart` slices the source to the WHOLE qualified name as written, whose local
                         name is the node name's and whose prefix is bound (own declarations first,
                         then the enclosing ones) to the node name's namespace; `ElementEnd` slices to
                         `/>` or to a text `</…>`
    C17_slice_attribute  `AttributeName` slices to the WHOLE qualified name as written, `AttributeValue` to the
                         value text, which decodes (`parse_attribute`, ID-normalised for the name id of
                         xml:id) to the attribute node's value
                         (the value span lies between two equal quote characters of the source)
    C17_slice_comment    `Comment` slices to the body AS WRITTEN; the node's value is `normalizeLineEnds` of
                         that slice (CR LF → LF, then CR → LF: `<!--x\r\ny-->` has the value `x\ny` and a
                         span of 4 bytes)
    C17_slice_pi         `PiTarget` slices to the target = the local name of the node's name (never `xml`
                         in any letter case); `PiContent` slices to the data AS WRITTEN, and the node's data
                         is `normalizeLineEnds` of that slice
    C17_slice_comment_noCr / C17_slice_pi_noCr   when the slice (in particular: the text,
                         `…_noCr_source`) contains no CR, the slice IS the value / the data
    C17_slice_text       `Text` slices to the source of the run of text / CDATA tokens behind the node,
                         from inside the first part to inside the last (`runSlice`), and decoding that
                         slice (`decodeRun`) gives the node's value
    C17_span_of_every_node   all of it, for every path at once
  THE BYTES AROUND THE SPANS (Lemmas/LexDelims*.lean: delimiters of every token of the tokenizer;
  Lemmas/SpanDesc*.lean: the loop invariant links an end tag to the start tag through `open_prefixes`;
  Lemmas/SpanSliceDelims.lean):
    C17_slice_element_end_name   for an element closed by an end tag the `ElementEnd` slice is `</` ++ the
                         qualified name EXACTLY AS THE START TAG WROTE IT (the `ElementStart` slice) ++ white
                         space ++ `>`; for an empty-element tag it is `/>` (_source: on slices only)
    C17_slice_comment_delimiters, C17_slice_pi_delimiters   the source reads `<!--` body `-->` resp. `<?` target,
                         white space, data, `?>` around the recorded spans (as a decomposition of the text
                         and as `str::get` of the bytes directly before / after the spans)
    C17_run_mode_from_source   the run behind a text node starts with a CDATA token iff the nine bytes in front
                         of the `Text` span are `<![CDATA[` (`cdataOpenBefore`, the harness oracle's test)
    C17_decode_text_from_source   hence: decoding the `Text` slice, the start mode read off the source, gives the
                         node's value - a statement about the source, the span and the value only
  AT TOKEN LEVEL, ON EVERY TEXT, accepted or not (Lemmas/LexDelimsLoop.lean):
    C17_token_delims_document / _fragment / C17_token_delims   the delimiters of every comment, PI and end-tag token
                         (`Token.Delims`) and the position of every text token (`TextAdj`, `TextFirst`)
  ERRORS ON STRINGS (Lemmas/SpanDescErr.lean): for every string rejected with
    C17_error_invalidTarget   `InvalidTarget(target, span)`: `span` is the target span of a PI token of the text,
                         slices the text to `target`, and `target` is `xml` in some letter case
    C17_error_invalidNamespaceDeclaration   `InvalidNamespaceDeclaration(name, span)`: `span` is the name span of
                         an attribute token `xmlns:p` / `xmlns`, slices the text to that name as written; the
                         attribute's decoded value is reserved for the prefix (`reservedDecl`)
-/
import XotModel.Lemmas.ParseSpans
import XotModel.Lemmas.ParseSpanKeys
import XotModel.Lemmas.ParseSpanOrder
import XotModel.Lemmas.ParseSpanTotal
import XotModel.Lemmas.ParseSpanEnds
import XotModel.Lemmas.ParseWitnessData
import XotModel.Lemmas.TokenShapeB
import XotModel.Lemmas.LexSlice
import XotModel.Lemmas.LexSliceOrder
import XotModel.Lemmas.LexCanon
import XotModel.Model.ParseString
import XotModel.Lemmas.SpanSliceNode
import XotModel.Lemmas.SpanSliceDelims
import XotModel.Lemmas.SpanDelimWitness
import XotModel.Lemmas.SpanDescErr
import XotModel.Lemmas.SpanDescWitness
import XotModel.Lemmas.ColonWitness
import XotModel.Lemmas.ParseErase
import XotModel.Lemmas.LexDelimsWitness
import XotModel.Lemmas.SpanScopeStr
import XotModel.Lemmas.SpanScopeText
import XotModel.Props.C03

namespace XotModel.Props
open XotModel XotModel.Witness

/-- Every error span lies in `[0, len]`. -/
theorem C17_errors {m : Mode} {len : Nat} {env env' : Env} {ts : List Token} {lexErr : Option Nat} {e : ParseErr}
    (hshape : TokenShape len ts lexErr) (h : build m len env ts lexErr = .err e env') :
    e.span.InBounds len := by
  have := build_good m env ts lexErr hshape.inside hshape.lexPos
  rw [h] at this; exact this

/-- Every recorded span lies in `[0, len]`. -/
theorem C17_inside {m : Mode} {len : Nat} {env : Env} {ts : List Token} {lexErr : Option Nat} {p : Parsed}
    (hshape : TokenShape len ts lexErr) (h : build m len env ts lexErr = .ok p) :
    ∀ e ∈ p.spans, e.2.InBounds len := by
  have := build_good m env ts lexErr hshape.inside hshape.lexPos
  rw [h] at this; exact this

/-- Error positions of `parse_content(content, attribute, base_position)` lie within
    `[base_position, base_position + content.len()]`. -/
theorem C17_errors_content (attr : Bool) (base : Nat) (s : Str) (e : ContentErr)
    (h : parseContentGo attr base 0 s = .error e) : e.within base (base + strLen s) := by
  simpa using parseGo_error_within attr base s.length s 0 e rfl h

/-- Non-vacuity: `<a></b>` is rejected with the span of `b` in the end tag, inside `[0, 7]`. -/
example : (build .document mismatchLen Env.fresh mismatch none).errSpan = some ⟨5, 6⟩ := by
  rw [build_eq_buildE]; decide +kernel
example : TokenShape mismatchLen mismatch none := tokenShape_of_B (by decide +kernel)

/-- The two reserved-name errors (`e.isReservedKind`: `InvalidTarget`, `InvalidNamespaceDeclaration`) and
    the token that raises them.  `InvalidTarget` comes from the PI arm of `_parse` and carries the PI's
    target and the TARGET span; `InvalidNamespaceDeclaration` comes from an attribute that is a namespace
    declaration (`IsNsDecl`: `xmlns:p` declares `p`, `xmlns` the empty prefix) whose DECODED value is
    reserved for that prefix, and carries the span of the attribute NAME as written
    (`Span::from_prefix_name`, the span `DuplicateAttribute` uses). No other arm raises either. -/
theorem C17_error_step_reserved {b : Builder} {t : Token} {e : ParseErr} {env' : Env}
    (h : b.step t = .err e env') (hk : e.isReservedKind = true) :
    (∃ tg c w, t = .pi tg c w ∧ e = .invalidTarget tg.text tg.span ∧ isReservedPiTarget tg.text = true) ∨
    (∃ p l v w pfx, t = .attribute p l v w ∧ IsNsDecl p.text l.text pfx ∧
      e = .invalidNamespaceDeclaration (declDisplayName pfx) (Span.fromPrefixName p l) ∧
      ∃ u, parseContentGo true v.start 0 v.text = .ok u ∧ reservedDecl pfx u = true) :=
  step_err_reserved h hk

/-- … and conversely both are raised whenever their condition holds, whatever the builder state. -/
theorem C17_error_step_invalidTarget (b : Builder) (tg : StrSpan) (c : Option StrSpan) (w : StrSpan)
    (h : isReservedPiTarget tg.text = true) :
    b.step (.pi tg c w) = .err (.invalidTarget tg.text tg.span) b.env := by
  simp only [Builder.step, h, if_true]

theorem C17_error_prefix_reserved (b : Builder) (pfx : Str) (uri : StrSpan) (nameSpan : Span) (u : Str)
    (hu : parseContentGo true uri.start 0 uri.text = .ok u) (h : reservedDecl pfx u = true) :
    b.prefix pfx uri nameSpan = .err (.invalidNamespaceDeclaration (declDisplayName pfx) nameSpan) b.env := by
  unfold Builder.prefix
  rw [hu]
  simp only [h, if_true]

/-- A reserved-name error of `parse` / `parse_fragment` is the error of one arm on one of the tokens
    (neither the end of the loop nor the epilogues raise one). -/
theorem C17_error_reserved_origin {m : Mode} {len : Nat} {env env' : Env} {ts : List Token} {lexErr : Option Nat}
    {e : ParseErr} (h : build m len env ts lexErr = .err e env') (hk : e.isReservedKind = true) :
    ∃ t ∈ ts, ∃ b1 : Builder, b1.step t = .err e env' :=
  build_err_reserved h hk

/-- Non-vacuity: `<?XmL d?><a/>` is rejected with `InvalidTarget("XmL", 2..5)`, the span of the target;
    `<a xmlns:p=""/>` with `InvalidNamespaceDeclaration("xmlns:p", 3..10)`, the span of the attribute name
    (the value `""` lies at 12..12). -/
example : (build .document 13 Env.fresh xmlPiDoc none).err? = some (.invalidTarget ['X', 'm', 'L'] ⟨2, 5⟩) := by
  rw [build_eq_buildE]; decide +kernel
example : (build .document 15 Env.fresh undeclDoc none).err? =
    some (.invalidNamespaceDeclaration ['x', 'm', 'l', 'n', 's', ':', 'p'] ⟨3, 10⟩) := by
  rw [build_eq_buildE]; decide +kernel
example : (ParseErr.invalidTarget ['X', 'm', 'L'] ⟨2, 5⟩).isReservedKind = true ∧
    (ParseErr.invalidNamespaceDeclaration ['x', 'm', 'l', 'n', 's', ':', 'p'] ⟨3, 10⟩).isReservedKind = true ∧
    isReservedPiTarget ['X', 'm', 'L'] = true ∧ reservedDecl ['p'] [] = true ∧
    IsNsDecl ['x', 'm', 'l', 'n', 's'] ['p'] ['p'] := ⟨rfl, rfl, by decide, by decide, .inl ⟨rfl, rfl⟩⟩
example : TokenShape 13 xmlPiDoc none ∧ TokenShape 15 undeclDoc none :=
  ⟨tokenShape_of_B (by decide +kernel), tokenShape_of_B (by decide +kernel)⟩

/-- C17_ordered: every recorded span and every error span satisfies `start ≤ end`, when prefix
    and local-name spans abut the colon (token-shape contract) and the character-data tokens
    come in source order. -/
theorem C17_ordered {m : Mode} {len : Nat} {env : Env} {ts : List Token} {lexErr : Option Nat}
    (hshape : TokenShape len ts lexErr) (hto : TextOrdered ts) :
    (∀ p, build m len env ts lexErr = .ok p → ∀ e ∈ p.spans, e.2.start ≤ e.2.stop) ∧
    (∀ e env', build m len env ts lexErr = .err e env' → e.span.start ≤ e.span.stop) := by
  have h := build_ord m len env ts lexErr hshape.abuts hto
  constructor
  · intro p hp; rw [hp] at h; exact h
  · intro e env' he; rw [he] at h; exact h

example : TextOrdered goodDoc := textOrdered_of_B _ (by decide +kernel)

/-- C17_boundaries: when every token span is a slice of the source text `src` (its text occurs in
    `src` at its byte offset — what a tokenizer returns), every recorded span and every error span
    starts and ends on a CHAR BOUNDARY of `src` (in particular inside `[0, len]`), including the
    positions `parse_content` computes inside a slice. -/
theorem C17_boundaries {m : Mode} {src : Str} {env : Env} {ts : List Token} {lexErr : Option Nat}
    (hts : ∀ t ∈ ts, t.All (StrSpan.SliceOf src)) (hlex : ∀ p, lexErr = some p → IsBoundary src p) :
    (∀ p, build m (strLen src) env ts lexErr = .ok p →
      ∀ e ∈ p.spans, IsBoundary src e.2.start ∧ IsBoundary src e.2.stop) ∧
    (∀ e env', build m (strLen src) env ts lexErr = .err e env' →
      IsBoundary src e.span.start ∧ IsBoundary src e.span.stop) := by
  have h := build_boundaries m src env ts lexErr hts hlex
  constructor
  · intro p hp; rw [hp] at h; exact h
  · intro e env' he; rw [he] at h; exact h

/-- Non-vacuity: the tokens of `<a></b>` are slices of that text. -/
example : ∀ t ∈ mismatch, t.All (StrSpan.SliceOf ['<', 'a', '>', '<', '/', 'b', '>']) := by
  intro t ht
  simp only [mismatch, List.mem_cons, List.not_mem_nil, or_false] at ht
  rcases ht with rfl | rfl | rfl
  · exact ⟨⟨[], ['<', 'a', '>', '<', '/', 'b', '>'], rfl, rfl⟩, ⟨['<'], ['>', '<', '/', 'b', '>'], rfl, rfl⟩,
      ⟨[], ['>', '<', '/', 'b', '>'], rfl, rfl⟩⟩
  · exact ⟨['<', 'a'], ['<', '/', 'b', '>'], rfl, rfl⟩
  · exact ⟨⟨[], ['<', 'a', '>', '<', '/', 'b', '>'], rfl, rfl⟩, ⟨['<', 'a', '>', '<', '/'], ['>'], rfl, rfl⟩,
      ⟨['<', 'a', '>'], [], rfl, rfl⟩⟩

/-! ### Which span is recorded under which key -/

/-- `ElementStart`: the qualified name as written — from the start of the prefix (of the local
    name when there is none) to the end of the local name. -/
theorem C17_span_element_start (b b' : Builder) (p l sp : StrSpan)
    (h : (b.element p l).openElement = .ok b') :
    b'.spans.get ⟨b.curPath ++ [b.cur.rkids.length], .elementStart⟩ = some (Span.fromPrefixName p l) :=
  openElement_span (b := b.element p l) (eb := ElementBuilder.new p l) rfl h

/-- `ElementEnd`: the end tag `</q>` or the `/>` — the span of the end token. -/
theorem C17_span_element_end (b b' : Builder) (node : Path) (sp : StrSpan) (h : b.leave node sp = .ok b') :
    b'.spans.get ⟨node, .elementEnd⟩ = some sp.span :=
  leave_span node sp h

/-- `AttributeName` / `AttributeValue`: the qualified name as written and the text between the
    quotes, of the LAST attribute of the element that resolves to this name id. -/
theorem C17_span_attribute (node : Path) (m : SpanMap) (l : List (Nat × Span × Span)) (n : Nat) (s1 s2 : Span) :
    (m.addAttributeSpans node (l ++ [(n, s1, s2)])).get ⟨node, .attributeName n⟩ = some s1 ∧
    (m.addAttributeSpans node (l ++ [(n, s1, s2)])).get ⟨node, .attributeValue n⟩ = some s2 :=
  get_addAttributeSpans_last node m l n s1 s2

/-- What `Builder.attribute` stores as the two spans. -/
example (p l v : StrSpan) : (Span.fromPrefixName p l, v.span) = (Span.fromPrefixName p l, ⟨v.start, v.stop⟩) := rfl

/-- `Text`: the first part records its own span; every further merged text / CDATA part keeps
    the start and moves the end to its own end. -/
theorem C17_span_text_first (m : SpanMap) (node : Path) (s : Span) (h : m.get ⟨node, .text⟩ = none) :
    (m.extendText node s).get ⟨node, .text⟩ = some s :=
  extendText_first m node s h

theorem C17_span_text_next (m : SpanMap) (node : Path) (s ex : Span) (h : m.get ⟨node, .text⟩ = some ex) :
    (m.extendText node s).get ⟨node, .text⟩ = some ⟨ex.start, s.stop⟩ :=
  extendText_next m node s ex h

/-- `Comment`: the comment body. -/
theorem C17_span_comment (b : Builder) (t : StrSpan) :
    (b.comment t).spans.get ⟨b.curPath ++ [b.cur.rkids.length], .comment⟩ = some t.span :=
  comment_span b t

/-- `PiTarget` / `PiContent`: target and (if present) content. -/
theorem C17_span_pi (b : Builder) (target : StrSpan) (c : StrSpan) :
    (b.processingInstruction target (some c)).spans.get ⟨b.curPath ++ [b.cur.rkids.length], .piTarget⟩ =
      some target.span ∧
    (b.processingInstruction target (some c)).spans.get ⟨b.curPath ++ [b.cur.rkids.length], .piContent⟩ =
      some c.span :=
  pi_spans b target (some c)

/-- Every element child and every text child of the document node has its span recorded
    (`FwdSpans m i ks`: the children `ks`, numbered from `i`, have their `ElementStart` / `Text` keys). -/
theorem C17_total_top {m : Mode} {len : Nat} {env : Env} {ts : List Token} {lexErr : Option Nat} {p : Parsed}
    (hshape : TokenShape len ts lexErr) (h : build m len env ts lexErr = .ok p) :
    FwdSpans p.spans 0 p.tree.kids :=
  build_total_top hshape.tags h

/-- C17_total: in whatever is accepted, EVERY node at every depth has its spans (`Covered`):
    elements `ElementStart`, `ElementEnd` and, per attribute name, `AttributeName` /
    `AttributeValue`; text nodes `Text`; comments `Comment`; PIs `PiTarget` and, when they have
    content, `PiContent`. -/
theorem C17_total {m : Mode} {len : Nat} {env : Env} {ts : List Token} {lexErr : Option Nat} {p : Parsed}
    (h : build m len env ts lexErr = .ok p) : Covered p.spans [] p.tree :=
  build_covered h

/-- Non-vacuity on `<p:a xmlns:p='u' b='x&#10;y'><!--c-->t&lt;<![CDATA[c]]></p:a>`: the spans of the
    element name (`p:a`), the end tag, the attribute `b` (name, and value between the quotes), the
    comment body, and the text run from the start of `t&lt;` to the end of the CDATA content. -/
example : let r := build .document goodDocLen Env.fresh goodDoc none
    r.spanOf ⟨[0], .elementStart⟩ = some ⟨1, 4⟩ ∧ r.spanOf ⟨[0], .elementEnd⟩ = some ⟨55, 61⟩ ∧
    r.spanOf ⟨[0], .attributeName 3⟩ = some ⟨17, 18⟩ ∧ r.spanOf ⟨[0], .attributeValue 3⟩ = some ⟨20, 27⟩ ∧
    r.spanOf ⟨[0, 2], .comment⟩ = some ⟨33, 34⟩ ∧ r.spanOf ⟨[0, 3], .text⟩ = some ⟨37, 52⟩ := by
  rw [build_eq_buildE]; decide +kernel

/-! ### The reference tokenizer (Model/Lex.lean, xmlparser 0.13.6 as written; tied to the crate by
the `lex` suite): the tokenizer side of the contract is a THEOREM, for every input string -/

/-- Every span of every token the reference tokenizer returns — for EVERY text `s`, well-formed
    or not, in document and in fragment mode — is the slice of `s` between the span's byte
    offsets (`sliceBytes` = `str::get(start..end)`: defined only on char boundaries inside `s`). -/
theorem C17_lex_slices (m : Mode) (s : Str) :
    ∀ t ∈ (lexMode m s).1, t.All (fun sp => sliceBytes s sp.start sp.stop = some sp.text) := by
  cases m
  · exact lexDocument_slices s
  · exact lexFragment_slices s

/-- … equivalently: the span's text occurs in `s` at the span's byte offset. -/
theorem C17_lex_sliceOf (m : Mode) (s : Str) : ∀ t ∈ (lexMode m s).1, t.All (StrSpan.SliceOf s) := by
  cases m
  · exact lexDocument_sliceOf s
  · exact lexFragment_sliceOf s

/-- The position reported with a tokenizer error (`ParseError::XmlParser(_, pos)`) is a char
    boundary of `s`, in particular `≤ len`. -/
theorem C17_lex_errpos (m : Mode) (s : Str) (p : Nat) (h : (lexMode m s).2 = some p) :
    IsBoundary s p ∧ p ≤ strLen s := by
  have hb : IsBoundary s p := by
    cases m
    · exact lexDocument_errpos s p h
    · exact lexFragment_errpos s p h
  exact ⟨hb, hb.le⟩

/-- The token-shape contract (the assumption of C17_errors / C17_inside / C17_ordered) holds of
    the reference tokenizer's output on every string. -/
theorem C17_lex_shape (m : Mode) (s : Str) : TokenShape (strLen s) (lexMode m s).1 (lexMode m s).2 := by
  cases m
  · exact lexDocument_shape s
  · exact lexFragment_shape s

/-- String level: for EVERY text, every span recorded by `parse` / `parse_fragment` and every
    error span starts and ends on a char boundary of the text (tokenizer and builder composed;
    no assumption left). -/
theorem C17_string_boundaries (m : Mode) (env : Env) (s : Str) :
    (∀ p, parseString m env s = .ok p →
      ∀ e ∈ p.spans, IsBoundary s e.2.start ∧ IsBoundary s e.2.stop) ∧
    (∀ e env', parseString m env s = .err e env' →
      IsBoundary s e.span.start ∧ IsBoundary s e.span.stop) :=
  C17_boundaries (C17_lex_sliceOf m s) (fun p h => (C17_lex_errpos m s p h).1)

/-- String level: every error span and every recorded span lies in `[0, len]`. -/
theorem C17_string_inside (m : Mode) (env : Env) (s : Str) :
    (∀ p, parseString m env s = .ok p → ∀ e ∈ p.spans, e.2.InBounds (strLen s)) ∧
    (∀ e env', parseString m env s = .err e env' → e.span.InBounds (strLen s)) :=
  ⟨fun _ h => C17_inside (C17_lex_shape m s) h, fun _ _ h => C17_errors (C17_lex_shape m s) h⟩

/-- The character-data tokens of the reference tokenizer come in source order (the assumption
    `TextOrdered` of `C17_ordered`), on every string. -/
theorem C17_lex_ordered (m : Mode) (s : Str) : TextOrdered (lexMode m s).1 := by
  cases m
  · exact lexDocument_textOrdered s
  · exact lexFragment_textOrdered s

/-- String level: `start ≤ end` for every recorded span and every error span of
    `parse` / `parse_fragment`, on every string. -/
theorem C17_string_ordered (m : Mode) (env : Env) (s : Str) :
    (∀ p, parseString m env s = .ok p → ∀ e ∈ p.spans, e.2.start ≤ e.2.stop) ∧
    (∀ e env', parseString m env s = .err e env' → e.span.start ≤ e.span.stop) :=
  C17_ordered (C17_lex_shape m s) (C17_lex_ordered m s)

/-- Canonical spelling: the tokenizer reads `renderTokens ts` back as `ts` with every span at the
    byte offset the spelling implies (`placeTokens`), for token lists of every length and depth
    that meet the lexical side conditions `LexOK`. -/
theorem C17_lex_canonical_positions (ts : List Token) :
    (LexOK true ts = true → lexFragment (renderTokens ts) = (placeTokens 0 ts, none)) ∧
    (LexOK false ts = true → lexDocument (renderTokens ts) = (placeTokens 0 ts, none)) :=
  ⟨lexFragment_render ts, lexDocument_render ts⟩

/-- Non-vacuity of `LexOK`: the tokens of `<p:a b="1">x<!--c--></p:a>`, and the positions the
    theorem gives for them. -/
example : LexOK false lexWitness = true ∧ LexOK true lexWitness = true := by decide
example : renderTokens lexWitness =
    ['<', 'p', ':', 'a', ' ', 'b', '=', '"', '1', '"', '>', 'x', '<', '!', '-', '-', 'c', '-', '-', '>',
     '<', '/', 'p', ':', 'a', '>'] := by decide
example : (lexDocument (renderTokens lexWitness)).1[1]? =
      some (.attribute ⟨[], 0⟩ ⟨['b'], 5⟩ ⟨['1'], 8⟩ ⟨['b', '=', '"', '1', '"'], 5⟩) ∧
    (lexDocument (renderTokens lexWitness)).1[3]? = some (.text ⟨['x'], 11⟩) ∧
    (lexDocument (renderTokens lexWitness)).1[5]? =
      some (.elementEnd (.close ⟨['p'], 22⟩ ⟨['a'], 24⟩) ⟨['<', '/', 'p', ':', 'a', '>'], 20⟩) := by
  rw [lexDocument_render lexWitness (by decide)]; decide

/-! ### The delimiters at TOKEN level, on every input (accepted or not)

`Token.Delims` (Lemmas/LexDelims.lean): a comment token's whole span reads `<!--` body `-->` with the body span 4
bytes in; a PI token's whole span reads `<?` target, white space, content, `?>` with the target span 2 bytes in and
the content span right behind the white space (content empty when the token has none); an end-tag token's whole
span reads `</` name, white space, `>`, the name being `prefix:local` / `local` of the token unless it is written
`:local`.  `TextAdj`: a text token starts where the whole span of the token in front of it ends, and that span ends
with `>` (so never behind `<![CDATA[`); `TextFirst`: a text token at the head of the list starts at byte 0.
The tree-level theorems above (C17_slice_comment_delimiters, C17_slice_pi_delimiters, C17_slice_element_end_name,
C17_run_mode_from_source) are these facts carried to the nodes of an ACCEPTED text; here they are for every text. -/

/-- C17_token_delims_document: every token `parse` sees, on ANY text. -/
theorem C17_token_delims_document (s : Str) :
    (∀ t ∈ (lexDocument s).1, t.Delims) ∧ AdjChain TextAdj (lexDocument s).1 ∧ TextFirst (lexDocument s).1 :=
  lexDocument_delims s

/-- C17_token_delims_fragment: every token `parse_fragment` sees, on ANY text. -/
theorem C17_token_delims_fragment (s : Str) :
    (∀ t ∈ (lexFragment s).1, t.Delims) ∧ AdjChain TextAdj (lexFragment s).1 ∧ TextFirst (lexFragment s).1 :=
  lexFragment_delims s

/-- Both at once, by mode (`lexMode` is what `parseString` tokenizes with). -/
theorem C17_token_delims (m : Mode) (s : Str) :
    (∀ t ∈ (lexMode m s).1, t.Delims) ∧ AdjChain TextAdj (lexMode m s).1 ∧ TextFirst (lexMode m s).1 := by
  cases m
  · exact lexDocument_delims s
  · exact lexFragment_delims s

/-- Non-vacuity OUTSIDE the accepted texts: `<a><!--k--><?pi d?>x</b>` is refused by `parse` (the end tag names
    `b`), its token list holds a comment, a PI with content, a text and an end-tag token, and the theorem's clauses
    for them read: `<!--k-->` = `<!--` ++ `k` ++ `-->` with the body at 3 + 4; `<?pi d?>` = `<?` ++ `pi` ++ SP ++ `d`
    ++ `?>` with the target at 8 + 2 and the content at 8 + 2 + 2 + 1; the text `x` (byte 16) starts where the PI
    (8..16) ends; `</b>` = `</` ++ `b` ++ `>`. -/
example : renderTokens delimsRejected =
    ['<', 'a', '>', '<', '!', '-', '-', 'k', '-', '-', '>', '<', '?', 'p', 'i', ' ', 'd', '?', '>', 'x',
     '<', '/', 'b', '>'] := by decide
example : (parseString .document Env.fresh (renderTokens delimsRejected)).err? =
    some (.invalidCloseTag [] ['b'] ⟨22, 23⟩) := by
  simp only [parseString, lexMode, lexDocument_render delimsRejected (by decide)]; decide +kernel
example : (lexDocument (renderTokens delimsRejected)).1 =
    [.elementStart ⟨[], 0⟩ ⟨['a'], 1⟩ ⟨['<', 'a'], 0⟩, .elementEnd .open ⟨['>'], 2⟩,
     .comment ⟨['k'], 7⟩ ⟨['<', '!', '-', '-', 'k', '-', '-', '>'], 3⟩,
     .pi ⟨['p', 'i'], 13⟩ (some ⟨['d'], 16⟩) ⟨['<', '?', 'p', 'i', ' ', 'd', '?', '>'], 11⟩,
     .text ⟨['x'], 19⟩,
     .elementEnd (.close ⟨[], 0⟩ ⟨['b'], 22⟩) ⟨['<', '/', 'b', '>'], 20⟩] := by
  rw [lexDocument_render delimsRejected (by decide)]; decide
example : ∃ c ∈ (lexDocument (renderTokens delimsRejected)).1, c.isTextTok = true ∧
    ∃ t ∈ (lexDocument (renderTokens delimsRejected)).1, (∃ a b, t = .comment a b) ∧ t.Delims :=
  ⟨.text ⟨['x'], 19⟩, by rw [lexDocument_render delimsRejected (by decide)]; decide, rfl,
   .comment ⟨['k'], 7⟩ ⟨['<', '!', '-', '-', 'k', '-', '-', '>'], 3⟩,
   by rw [lexDocument_render delimsRejected (by decide)]; decide, ⟨_, _, rfl⟩,
   ((C17_token_delims_document _).1 _ (by rw [lexDocument_render delimsRejected (by decide)]; decide))⟩

/-! ### Slicing the source with a recorded span yields the item; decoding the slice yields the value

For every text `s` that `parse` / `parse_fragment` accepts (`parseString m env s = .ok p`: reference
tokenizer + builder) and every node `p.tree.at? q`.  `sliceBytes s a b` is `s.get(a..b)`.
`scopeAt p.tree baseStack q` is the namespace stack in force inside the node at `q`: for every element
on the path (the node itself included) its namespace-node children as (prefix id, namespace id) pairs,
innermost first, above the initial bindings of `xml` and the empty prefix; `lookupPrefix` is the
builder's own lookup, "nearest declaration wins" (C02_scope_nearest, C02_scope_strings). -/

/-- The qualified name of a token is written in full inside the recorded name span: the prefix is
    ABSENT (xmlparser's `"".into()`: empty, offset 0 - the name is `loc`), or it is NOT EMPTY and ends
    one byte - the colon - before the local name (the name is `pfx:loc`).  The third spelling the
    tokenizer lets through, `:loc` (an empty prefix positioned at the colon, the colon outside the
    recorded span), is excluded: xot refuses it since /repo a5fafb0. -/
def WholeName (pfx loc : StrSpan) : Prop :=
  (pfx.text = [] ∧ pfx.start = 0) ∨ (pfx.text ≠ [] ∧ pfx.stop + 1 = loc.start)

/-- C17_names_whole: in an ACCEPTED text every element start, attribute and end tag has its name
    written in full (`WholeName`), so `tokQName pfx loc` IS the name as written, colon included.
    (Formerly the findings C17:element-start-span-is-not-the-whole-written-name and
    C17:attribute-name-span-is-not-the-whole-written-name: `<:a/>`, `<a :b='1'/>` were accepted and
    the recorded span, `a` resp. `b`, missed the colon.) -/
theorem C17_names_whole {m : Mode} {env : Env} {s : Str} {p : Parsed} (h : parseString m env s = .ok p)
    {t : Token} (ht : t ∈ (lexMode m s).1) {pfx loc : StrSpan} (hq : t.qname = some (pfx, loc)) :
    WholeName pfx loc := by
  have hok : t.prefixOk = true := by
    have := build_ok_prefixOk (show build m (strLen s) env (lexMode m s).1 (lexMode m s).2 = .ok p from h)
    simp only [tokensPrefixOk, List.all_eq_true] at this
    exact this t ht
  rw [Token.prefixOk_of_qname hq] at hok
  have hbc : pfx.bareColon = false := by simpa using hok
  have hab : t.Abuts := by
    cases m with
    | document => exact lexDocument_abuts s t ht
    | fragment => exact lexFragment_abuts s t ht
  have hA : Abut pfx loc := by
    rcases Token.qname_elim hq with ⟨v, sp, rfl⟩ | ⟨sp, rfl⟩ | ⟨sp, rfl⟩ <;> exact hab
  rcases hA with h0 | h1
  · exact .inl h0
  · by_cases hp : pfx.text = []
    · left
      refine ⟨hp, ?_⟩
      simp only [StrSpan.bareColon, hp, List.isEmpty_nil, Bool.true_and, bne_eq_false_iff_eq] at hbc
      exact hbc
    · exact .inr ⟨hp, h1⟩

/-- C17_slice_element.  The element at `q` was made by an `ElementStart` token `pfx:loc` of the text
    whose name is written in full (`WholeName`: never `:loc`): the `ElementStart` span slices the text to
    the WHOLE qualified name as written, `pfx:loc` resp. `loc`; `loc` is the local name
    of the node's name, and the namespace of the node's name is what `pfx` is bound to at that place.
    The `ElementEnd` span slices to the whole span of a `/>` or end-tag token: `/>`, or `</` … `>`. -/
theorem C17_slice_element {m : Mode} {env : Env} {s : Str} {p : Parsed} (h : parseString m env s = .ok p)
    {q : Path} {id : Nat} {ks : List Tree} (hat : p.tree.at? q = some (.node (.element id) ks)) :
    (∃ pfx loc wsp, Token.elementStart pfx loc wsp ∈ (lexMode m s).1 ∧ WholeName pfx loc ∧
      (∃ sp, p.spans.get ⟨q, .elementStart⟩ = some sp ∧
        sliceBytes s sp.start sp.stop = some (tokQName pfx.text loc.text)) ∧
      pfx.text ∈ p.env.prefixes ∧
      ∃ ns, p.env.names[id]? = some (loc.text, ns) ∧
        lookupPrefix (scopeAt p.tree baseStack q) (p.env.prefixes.idxOf pfx.text) = some ns) ∧
    ∃ e esp, Token.elementEnd e esp ∈ (lexMode m s).1 ∧ e ≠ .open ∧
      (∃ sp, p.spans.get ⟨q, .elementEnd⟩ = some sp ∧ sliceBytes s sp.start sp.stop = some esp.text) ∧
      (esp.text = ['/', '>'] ∨ ∃ mid, esp.text = '<' :: '/' :: (mid ++ ['>'])) := by
  obtain ⟨⟨pfx, loc, wsp, hmem, hrest⟩, hend⟩ := (parseString_sliced h hat).1
  exact ⟨⟨pfx, loc, wsp, hmem, C17_names_whole h hmem rfl, hrest⟩, hend⟩

/-- C17_slice_attribute.  Every attribute child `(n, v)` of the element at `q` was made by an
    `Attribute` token whose name is written in full (`WholeName`: never `:loc`): `AttributeName n` slices
    to the WHOLE qualified name as written, `AttributeValue n`
    to its value text `val`, which is the text BETWEEN THE QUOTES (the source reads `qc val qc` there,
    `qc` one of `"` `'`, and the span starts one byte after the first `qc`), `parse_attribute(val)` succeeds and — ID-normalised when `n` is the name
    id of xml:id (expanded name, whatever the prefix) — is the node's value; the local name is the
    name's, an attribute whose prefix has id 0 (the empty prefix) is in no namespace, any other
    prefix is bound to the name's namespace. -/
theorem C17_slice_attribute {m : Mode} {env : Env} {s : Str} {p : Parsed} (h : parseString m env s = .ok p)
    {q : Path} {id : Nat} {ks : List Tree} (hat : p.tree.at? q = some (.node (.element id) ks))
    {k : Tree} (hk : k ∈ ks) {n : Nat} {v : Str} (hv : k.value = .attribute n v) :
    ∃ pfx loc val wsp, Token.attribute pfx loc val wsp ∈ (lexMode m s).1 ∧ WholeName pfx loc ∧
      (∃ sp, p.spans.get ⟨q, .attributeName n⟩ = some sp ∧
        sliceBytes s sp.start sp.stop = some (tokQName pfx.text loc.text)) ∧
      (∃ sp, p.spans.get ⟨q, .attributeValue n⟩ = some sp ∧ sliceBytes s sp.start sp.stop = some val.text ∧
        ∃ a b qc, (qc = '"' ∨ qc = '\'') ∧ s = a ++ qc :: (val.text ++ qc :: b) ∧ sp.start = strLen a + 1) ∧
      (∃ raw, parseAttribute val.text = .ok raw ∧
        v = if n == Env.xmlIdName then normalizeXmlId raw else raw) ∧
      pfx.text ∈ p.env.prefixes ∧
      ∃ ns, p.env.names[n]? = some (loc.text, ns) ∧
        if p.env.prefixes.idxOf pfx.text = Env.emptyPrefix then ns = Env.noNamespace
        else lookupPrefix (scopeAt p.tree baseStack q) (p.env.prefixes.idxOf pfx.text) = some ns := by
  obtain ⟨pfx, loc, val, wsp, hmem, hrest⟩ := (parseString_sliced h hat).2 k hk n v hv
  exact ⟨pfx, loc, val, wsp, hmem, C17_names_whole h hmem rfl, hrest⟩

/-- The former witnesses: `<:a/>` and `<a :b='1'/>` are rejected, and the error span slices the text to
    the whole name as written, colon included (`:a`, bytes 1..3; `:b`, bytes 3..5). -/
example : (parseString .document Env.fresh colonElementText).err? = some (.unknownPrefix [] ⟨1, 3⟩) ∧
    sliceBytes colonElementText 1 3 = some [':', 'a'] := by
  refine ⟨?_, by decide⟩
  simp only [parseString, lexMode, lex_colonElement]; rfl
example : (parseString .document Env.fresh colonAttributeText).err? = some (.unknownPrefix [] ⟨3, 5⟩) ∧
    sliceBytes colonAttributeText 3 5 = some [':', 'b'] := by
  refine ⟨?_, by decide⟩
  simp only [parseString, lexMode, lex_colonAttribute]; rfl

/-! ### Scoping at STRING level

`C17_slice_element` / `_attribute` resolve the written prefix by `lookupPrefix` over the prefix / namespace
IDS on `scopeAt p.tree baseStack q`.  When the parse starts from tables reachable from `Xot::new()`
(`Interner.Reachable x`: any sequence of `add_name` / `add_namespace` / `add_prefix` / earlier parses /
`clone`; no other hypothesis on the tables), the tables it leaves are duplicate-free, keep the empty prefix at
id 0 and hold every id of the tree (`build_parsedTables`: `Interner.Inv` is kept by a parse, C08), so the ids
stand for their strings and the lookup is, on STRINGS, "the nearest enclosing declaration of this prefix wins":

`scopeStrAt p q` = one frame per element on the path to `q` (the node itself included), innermost first,
holding (prefix, namespace URI) — both strings — of its namespace-node children in document order (what the
builder makes of the `xmlns:p="…"` / `xmlns="…"` attributes of its start tag: the URI is the DECODED value),
above `xml ↦ http://www.w3.org/XML/1998/namespace` and `"" ↦ ""`;
`lookupStr frames pfx` = the LAST declaration of `pfx` in the first frame that declares it. -/

/-- The frames, by recursion on the path: at the root the root's own (none for a document node); at a child
    `k = ks[i]` of the node at `q`, the declarations of `k` (when an element) on top of those at `q`. -/
theorem C17_scope_frames (p : Parsed) :
    (∀ v ks, p.tree = .node v ks → scopeStrAt p [] = strStack p.env (innerStack v ks baseStack)) ∧
    ∀ (q : Path) (i : Nat) (v : Value) (ks : List Tree) (v' : Value) (ks' : List Tree),
      p.tree.at? q = some (.node v ks) → ks[i]? = some (.node v' ks') →
      scopeStrAt p (q ++ [i]) =
        (match v' with
         | .element _ => [(sdDeclsOf ks').map fun d => (p.env.prefixStr d.1, p.env.namespaceStr d.2)]
         | _ => []) ++ scopeStrAt p q := by
  refine ⟨fun v ks ht => by rw [scopeStrAt, ht]; rfl, fun q i v ks v' ks' hat hk => ?_⟩
  have := scopeAt_snoc q i p.tree baseStack hat hk
  rw [scopeStrAt, this, scopeStrAt]
  cases v' <;> rfl

/-- `xml` and the empty prefix at the bottom of every scope, as strings (tables reachable from `Xot::new()`
    keep the four built-in entries: `Xot::new()` registers them first, ids persist). -/
theorem C17_scope_base_strings {x : Interner} (hx : Interner.Reachable x) :
    strStack x.env baseStack = [[(x.env.prefixStr 0, x.env.namespaceStr 0)], [(x.env.prefixStr 1, x.env.namespaceStr 1)]] ∧
    x.env.prefixStr 0 = [] := by
  refine ⟨rfl, ?_⟩
  have := hx.baseTables.head
  simp only [Env.prefixStr, List.getD_eq_getElem?_getD, this, Option.getD_some]

/-- C17_scope_strings.  For every text accepted from reachable tables: the element at `q` was made by an
    `ElementStart` token written `pfx:loc` (resp. `loc`: `pfx` empty) whose recorded span slices the text to
    exactly that spelling, its name is (`loc`, `ns`), and the namespace URI STRING of `ns` is what the
    written prefix STRING resolves to over the declared strings in force at `q` — the nearest enclosing
    declaration, the element's own start tag first.  Every attribute of it likewise; an unprefixed
    attribute is in no namespace whatever the default namespace is. -/
theorem C17_scope_strings {x : Interner} (hx : Interner.Reachable x) {m : Mode} {s : Str} {p : Parsed}
    (h : parseString m x.env s = .ok p)
    {q : Path} {id : Nat} {ks : List Tree} (hat : p.tree.at? q = some (.node (.element id) ks)) :
    (∃ pfx loc wsp, Token.elementStart pfx loc wsp ∈ (lexMode m s).1 ∧ WholeName pfx loc ∧
      (∃ sp, p.spans.get ⟨q, .elementStart⟩ = some sp ∧
        sliceBytes s sp.start sp.stop = some (tokQName pfx.text loc.text)) ∧
      ∃ ns, p.env.names[id]? = some (loc.text, ns) ∧
        lookupStr (scopeStrAt p q) pfx.text = some (p.env.namespaceStr ns)) ∧
    ∀ k ∈ ks, ∀ n v, k.value = .attribute n v →
      ∃ pfx loc val wsp, Token.attribute pfx loc val wsp ∈ (lexMode m s).1 ∧ WholeName pfx loc ∧
        (∃ sp, p.spans.get ⟨q, .attributeName n⟩ = some sp ∧
          sliceBytes s sp.start sp.stop = some (tokQName pfx.text loc.text)) ∧
        ∃ ns, p.env.names[n]? = some (loc.text, ns) ∧
          (pfx.text = [] → ns = Env.noNamespace) ∧
          (pfx.text ≠ [] → lookupStr (scopeStrAt p q) pfx.text = some (p.env.namespaceStr ns)) := by
  have ht : ParsedTables p := build_parsedTables hx h
  refine ⟨?_, fun k hk n v hv => ?_⟩
  · obtain ⟨⟨pfx, loc, wsp, hmem, hwhole, hsp, _, ns, hn, hl⟩, _⟩ := C17_slice_element h hat
    exact ⟨pfx, loc, wsp, hmem, hwhole, hsp, ns, hn, lookup_scope_str ht q pfx.text hl⟩
  · obtain ⟨pfx, loc, val, wsp, hmem, hwhole, hsp, _, _, hpm, ns, hn, hif⟩ := C17_slice_attribute h hat hk hv
    refine ⟨pfx, loc, val, wsp, hmem, hwhole, hsp, ns, hn, fun he => ?_, fun hne => ?_⟩
    · rw [if_pos ((idxOf_eq_zero_iff ht.base hpm).2 he)] at hif; exact hif
    · rw [if_neg (fun hz => hne ((idxOf_eq_zero_iff ht.base hpm).1 hz))] at hif
      exact lookup_scope_str ht q pfx.text hif

/-- … from `Xot::new()` itself. -/
theorem C17_scope_strings_fresh {m : Mode} {s : Str} {p : Parsed} (h : parseString m Env.fresh s = .ok p)
    {q : Path} {id : Nat} {ks : List Tree} (hat : p.tree.at? q = some (.node (.element id) ks)) :
    ∃ pfx loc wsp, Token.elementStart pfx loc wsp ∈ (lexMode m s).1 ∧ WholeName pfx loc ∧
      (∃ sp, p.spans.get ⟨q, .elementStart⟩ = some sp ∧
        sliceBytes s sp.start sp.stop = some (tokQName pfx.text loc.text)) ∧
      ∃ ns, p.env.names[id]? = some (loc.text, ns) ∧
        lookupStr (scopeStrAt p q) pfx.text = some (p.env.namespaceStr ns) :=
  (C17_scope_strings Interner.Reachable.new (x := Interner.new) (by rw [interner_new_env]; exact h) hat).1

/-- C17_scope_frames_text: the frames, read off the TEXT.  The tokens of an accepted text are (up to a
    version-1.0 XML declaration) the tokens of a well-formed spelling `sns` (`WellNsDoc`; C03_string_accepted_is_denoted),
    and for every element at `q` there is a chain of spelled elements `e₁ ∋ … ∋ e_k` (`NsPath sns chain`, outermost
    first: `e₁` a top-level node of `sns`, each next one a child of the one before) such that the frames in force at
    `q` are, innermost first, what the start tags of `e_k, …, e₁` DECLARE — `declsOf`: for every item `xmlns:p="…"` /
    `xmlns="…"` of the start tag, in the order written, (`p` resp. the empty prefix, the value decoded as an attribute
    value) — above `"" ↦ ""` and `xml ↦ http://www.w3.org/XML/1998/namespace`; the innermost element `e_k` of the
    chain is written with the local name of the node at `q`. -/
theorem C17_scope_frames_text {x : Interner} (hx : Interner.Reachable x) {m : Mode} {s : Str} {p : Parsed}
    (h : parseString m x.env s = .ok p)
    {q : Path} {id : Nat} {ks : List Tree} (hat : p.tree.at? q = some (.node (.element id) ks)) :
    ∃ sns chain, WellNsDoc sns ∧ NSNode.tokens.tokensList sns = dropDecls (lexMode m s).1 ∧
      chain ≠ [] ∧ NsPath sns chain ∧
      scopeStrAt p q = chainFrames chain ++ [[([], [])], [(['x', 'm', 'l'], xmlNsUri)]] ∧
      ∃ e, chain.getLast? = some e ∧ e.nameLoc = p.env.localName id := by
  obtain ⟨sns, hw, _, htok, hval, hdec⟩ := C03_string_accepted_is_denoted hx.envBaseNs m s h
  have hbase := strStack_base (build_envBaseNs hx (show build m (strLen s) x.env (lexMode m s).1 (lexMode m s).2 = .ok p from h))
  cases ht : p.tree with
  | node v kids =>
    rw [ht] at hat hval hdec
    simp only [Tree.value] at hval
    subst hval
    obtain ⟨chain, h1, h2, h3, h4⟩ := scope_frames_document (show decodeNs p.env kids = _ from hdec) hat baseStack
    refine ⟨sns, chain, hw, htok, h1, h2, ?_, h4⟩
    rw [scopeStrAt, ht, h3, hbase]

/-- The scoping clause on the text alone: the namespace URI STRING of the element's name is what its prefix AS
    WRITTEN resolves to over the declarations AS WRITTEN (decoded) of its own and its ancestors' start tags,
    nearest first. -/
theorem C17_scope_strings_text {x : Interner} (hx : Interner.Reachable x) {m : Mode} {s : Str} {p : Parsed}
    (h : parseString m x.env s = .ok p)
    {q : Path} {id : Nat} {ks : List Tree} (hat : p.tree.at? q = some (.node (.element id) ks)) :
    ∃ sns chain pfx loc wsp, WellNsDoc sns ∧ NSNode.tokens.tokensList sns = dropDecls (lexMode m s).1 ∧
      chain ≠ [] ∧ NsPath sns chain ∧ (∃ e, chain.getLast? = some e ∧ e.nameLoc = loc.text) ∧
      Token.elementStart pfx loc wsp ∈ (lexMode m s).1 ∧
      (∃ sp, p.spans.get ⟨q, .elementStart⟩ = some sp ∧
        sliceBytes s sp.start sp.stop = some (tokQName pfx.text loc.text)) ∧
      ∃ ns, p.env.names[id]? = some (loc.text, ns) ∧
        lookupStr (chainFrames chain ++ [[([], [])], [(['x', 'm', 'l'], xmlNsUri)]]) pfx.text =
          some (p.env.namespaceStr ns) := by
  obtain ⟨sns, chain, hw, htok, h1, h2, h3, e, he, hloc⟩ := C17_scope_frames_text hx h hat
  obtain ⟨⟨pfx, loc, wsp, hmem, _, hsp, ns, hn, hl⟩, _⟩ := C17_scope_strings hx h hat
  refine ⟨sns, chain, pfx, loc, wsp, hw, htok, h1, h2, ⟨e, he, ?_⟩, hmem, hsp, ns, hn, by rw [← h3]; exact hl⟩
  rw [hloc, localName_of_get hn]

/-- … and for the attributes of the element at `q`, over the same frames: an unprefixed attribute is in no
    namespace; a prefixed one in the namespace its prefix as written resolves to over the declarations as written. -/
theorem C17_scope_strings_text_attribute {x : Interner} (hx : Interner.Reachable x) {m : Mode} {s : Str} {p : Parsed}
    (h : parseString m x.env s = .ok p)
    {q : Path} {id : Nat} {ks : List Tree} (hat : p.tree.at? q = some (.node (.element id) ks)) :
    ∃ sns chain, WellNsDoc sns ∧ NSNode.tokens.tokensList sns = dropDecls (lexMode m s).1 ∧
      chain ≠ [] ∧ NsPath sns chain ∧ (∃ e, chain.getLast? = some e ∧ e.nameLoc = p.env.localName id) ∧
      ∀ k ∈ ks, ∀ n v, k.value = .attribute n v →
        ∃ pfx loc val wsp, Token.attribute pfx loc val wsp ∈ (lexMode m s).1 ∧
          (∃ sp, p.spans.get ⟨q, .attributeName n⟩ = some sp ∧
            sliceBytes s sp.start sp.stop = some (tokQName pfx.text loc.text)) ∧
          ∃ ns, p.env.names[n]? = some (loc.text, ns) ∧
            (pfx.text = [] → ns = Env.noNamespace) ∧
            (pfx.text ≠ [] →
              lookupStr (chainFrames chain ++ [[([], [])], [(['x', 'm', 'l'], xmlNsUri)]]) pfx.text =
                some (p.env.namespaceStr ns)) := by
  obtain ⟨sns, chain, hw, htok, h1, h2, h3, h4⟩ := C17_scope_frames_text hx h hat
  refine ⟨sns, chain, hw, htok, h1, h2, h4, fun k hk n v hv => ?_⟩
  obtain ⟨pfx, loc, val, wsp, hmem, _, hsp, ns, hn, he, hne⟩ := (C17_scope_strings hx h hat).2 k hk n v hv
  exact ⟨pfx, loc, val, wsp, hmem, hsp, ns, hn, he, fun hp => by rw [← h3]; exact hne hp⟩

/-- Non-vacuity, nearest declaration wins: `<p:a xmlns:p='u'><p:b xmlns:p='w'/><p:c/></p:a>` is accepted from
    `Xot::new()`; the frames at `p:b` are `[p ↦ w]` above `[p ↦ u]` and `p` resolves to `w` there (the name of
    the node is (`b`, `w`)); at `p:c` they are `[]` above `[p ↦ u]` and `p` resolves to `u` (name (`c`, `u`)). -/
example : renderTokens scopeWitness =
    ['<', 'p', ':', 'a', ' ', 'x', 'm', 'l', 'n', 's', ':', 'p', '=', '"', 'u', '"', '>',
     '<', 'p', ':', 'b', ' ', 'x', 'm', 'l', 'n', 's', ':', 'p', '=', '"', 'w', '"', '/', '>',
     '<', 'p', ':', 'c', '/', '>', '<', '/', 'p', ':', 'a', '>'] := by decide
example : scopeWitnessCheck (parseString .document Env.fresh (renderTokens scopeWitness)) = true := by
  have e : lexMode .document (renderTokens scopeWitness) = (placeTokens 0 scopeWitness, none) :=
    lexDocument_render scopeWitness (by decide)
  unfold parseString
  rw [e, build_eq_buildE]
  decide +kernel

/-- … and the frames of `p:b` read off the text by `C17_scope_frames_text`: a chain of spelled elements whose
    start-tag declarations are `[p ↦ w]`, `[p ↦ u]`, the innermost one written with the local name `b`. -/
example : ∃ p, parseString .document Env.fresh (renderTokens scopeWitness) = .ok p ∧
    ∃ sns chain, WellNsDoc sns ∧
      NSNode.tokens.tokensList sns = dropDecls (lexMode .document (renderTokens scopeWitness)).1 ∧
      NsPath sns chain ∧ (chainFrames chain ++ [[([], [])], [(['x', 'm', 'l'], xmlNsUri)]]).take 2 =
        [[(['p'], ['w'])], [(['p'], ['u'])]] ∧
      ∃ e, chain.getLast? = some e ∧ e.nameLoc = ['b'] := by
  have hc : scopeWitnessCheck (parseString .document Env.fresh (renderTokens scopeWitness)) = true := by
    have e : lexMode .document (renderTokens scopeWitness) = (placeTokens 0 scopeWitness, none) :=
      lexDocument_render scopeWitness (by decide)
    unfold parseString
    rw [e, build_eq_buildE]
    decide +kernel
  obtain ⟨p, hp, ⟨id, ks, hat, hloc⟩, hfr⟩ := scopeWitnessCheck_spec hc
  have hp' : parseString .document Interner.new.env (renderTokens scopeWitness) = .ok p := by
    rw [interner_new_env]; exact hp
  obtain ⟨sns, chain, hw, htok, _, h2, h3, e, he, hl⟩ := C17_scope_frames_text Interner.Reachable.new hp' hat
  exact ⟨p, hp, sns, chain, hw, htok, h2, by rw [← h3]; exact hfr, e, he, by rw [hl, hloc]⟩

/-- C17_slice_comment: the `Comment` span slices to the comment's body AS WRITTEN (`w`); the node's
    value is its line-end normalisation (`content.replace("\r\n", "\n").replace('\r', "\n")`). -/
theorem C17_slice_comment {m : Mode} {env : Env} {s : Str} {p : Parsed} (h : parseString m env s = .ok p)
    {q : Path} {v : Str} {ks : List Tree} (hat : p.tree.at? q = some (.node (.comment v) ks)) :
    ∃ w, (∃ sp, p.spans.get ⟨q, .comment⟩ = some sp ∧ sliceBytes s sp.start sp.stop = some w) ∧
      v = normalizeLineEnds w :=
  parseString_sliced h hat

/-- … full strength when the written body has no CR: the slice IS the value. -/
theorem C17_slice_comment_noCr {m : Mode} {env : Env} {s : Str} {p : Parsed} (h : parseString m env s = .ok p)
    {q : Path} {v : Str} {ks : List Tree} (hat : p.tree.at? q = some (.node (.comment v) ks)) :
    ∃ sp w, p.spans.get ⟨q, .comment⟩ = some sp ∧ sliceBytes s sp.start sp.stop = some w ∧
      ('\r' ∉ w → sliceBytes s sp.start sp.stop = some v) := by
  obtain ⟨w, ⟨sp, hg, hs⟩, rfl⟩ := C17_slice_comment h hat
  exact ⟨sp, w, hg, hs, fun hcr => by rw [normalizeLineEnds_noCr w hcr]; exact hs⟩

/-- … in particular for a text without any CR. -/
theorem C17_slice_comment_noCr_source {m : Mode} {env : Env} {s : Str} {p : Parsed}
    (h : parseString m env s = .ok p) (hcr : '\r' ∉ s)
    {q : Path} {v : Str} {ks : List Tree} (hat : p.tree.at? q = some (.node (.comment v) ks)) :
    ∃ sp, p.spans.get ⟨q, .comment⟩ = some sp ∧ sliceBytes s sp.start sp.stop = some v := by
  obtain ⟨w, hw, rfl⟩ := C17_slice_comment h hat
  exact SlicesTo.normalized_of_noCr hcr hw

/-- C17_slice_pi: `PiTarget` slices to the target = the local name of the node's name (a name in no
    namespace; not `xml` in any letter case — that is `InvalidTarget`); `PiContent` slices to the data AS
    WRITTEN (`w`) when the node has data, and the data is the line-end normalisation of `w`. -/
theorem C17_slice_pi {m : Mode} {env : Env} {s : Str} {p : Parsed} (h : parseString m env s = .ok p)
    {q : Path} {id : Nat} {d : Option Str} {ks : List Tree} (hat : p.tree.at? q = some (.node (.pi id d) ks)) :
    ∃ target, (∃ sp, p.spans.get ⟨q, .piTarget⟩ = some sp ∧ sliceBytes s sp.start sp.stop = some target) ∧
      isReservedPiTarget target = false ∧
      p.env.names[id]? = some (target, Env.noNamespace) ∧
      ∀ c, d = some c → ∃ w, (∃ sp, p.spans.get ⟨q, .piContent⟩ = some sp ∧
        sliceBytes s sp.start sp.stop = some w) ∧ c = normalizeLineEnds w :=
  parseString_sliced h hat

/-- … full strength when the written data has no CR: the slice IS the data. -/
theorem C17_slice_pi_noCr {m : Mode} {env : Env} {s : Str} {p : Parsed} (h : parseString m env s = .ok p)
    {q : Path} {id : Nat} {c : Str} {ks : List Tree} (hat : p.tree.at? q = some (.node (.pi id (some c)) ks)) :
    ∃ sp w, p.spans.get ⟨q, .piContent⟩ = some sp ∧ sliceBytes s sp.start sp.stop = some w ∧
      ('\r' ∉ w → sliceBytes s sp.start sp.stop = some c) := by
  obtain ⟨_, _, _, _, hc⟩ := C17_slice_pi h hat
  obtain ⟨w, ⟨sp, hg, hs⟩, rfl⟩ := hc c rfl
  exact ⟨sp, w, hg, hs, fun hcr => by rw [normalizeLineEnds_noCr w hcr]; exact hs⟩

/-- … in particular for a text without any CR: the statement without normalisation. -/
theorem C17_slice_pi_noCr_source {m : Mode} {env : Env} {s : Str} {p : Parsed}
    (h : parseString m env s = .ok p) (hcr : '\r' ∉ s)
    {q : Path} {id : Nat} {d : Option Str} {ks : List Tree} (hat : p.tree.at? q = some (.node (.pi id d) ks)) :
    ∃ target, (∃ sp, p.spans.get ⟨q, .piTarget⟩ = some sp ∧ sliceBytes s sp.start sp.stop = some target) ∧
      p.env.names[id]? = some (target, Env.noNamespace) ∧
      ∀ c, d = some c → ∃ sp, p.spans.get ⟨q, .piContent⟩ = some sp ∧ sliceBytes s sp.start sp.stop = some c := by
  obtain ⟨target, ht, _, hn, hc⟩ := C17_slice_pi h hat
  refine ⟨target, ht, hn, fun c hd => ?_⟩
  obtain ⟨w, hw, rfl⟩ := hc c hd
  exact SlicesTo.normalized_of_noCr hcr hw

/-- C17_slice_text.  Behind the text node at `q` is a run of CONSECUTIVE tokens of the text, all of
    them text or CDATA tokens (`run`; adjacent in the source, empty CDATA sections included).  The
    `Text` span goes from the start of the first part's text to the end of the last part's text, so
    it slices the source to `runSlice run`: text parts as written, CDATA parts as
    `<![CDATA[` content `]]>` — without the `<![CDATA[` of a FIRST part and the `]]>` of a LAST part,
    which lie outside the span (the builder records the CDATA token's inner text span).  The node's
    value is the concatenation of the decoded parts (`runValue`: `parse_content` of a text part, CR LF /
    CR → LF of a CDATA content), and that is what decoding the slice gives: `decodeRun` splits at
    `<` / `<![CDATA[` / `]]>`, starting inside a section iff the first part is a CDATA token. -/
theorem C17_slice_text {m : Mode} {env : Env} {s : Str} {p : Parsed} (h : parseString m env s = .ok p)
    {q : Path} {v : Str} {ks : List Tree} (hat : p.tree.at? q = some (.node (.text v) ks)) :
    ∃ run, run <:+: (lexMode m s).1 ∧ run ≠ [] ∧ (∀ t ∈ run, t.isCharData = true) ∧
      (∃ sp, p.spans.get ⟨q, .text⟩ = some sp ∧ sliceBytes s sp.start sp.stop = some (runSlice run)) ∧
      runValue run = some v ∧ decodeRun (startsInCdata run) (runSlice run) = some v :=
  parseString_sliced h hat

/-- `runSlice` / `runValue` / `decodeRun` on the three shapes of a two-part run. -/
example (a c : StrSpan) (w : StrSpan) :
    runSlice [.text a, .cdata c w] = a.text ++ (['<', '!', '[', 'C', 'D', 'A', 'T', 'A', '['] ++ c.text) ∧
    runSlice [.cdata c w, .text a] = c.text ++ ([']', ']', '>'] ++ a.text) ∧
    runSlice [.cdata c w] = c.text ∧ runSlice [.text a] = a.text := by
  simp [runSlice, runSliceAux, Lex.litCdataOpen, Lex.litCdataClose]

/-! ### The bytes around the spans -/

/-- C17_slice_element_end_name.  The element at `q` was opened by an `ElementStart` token `pfx:loc` (name
    written in full, its span recorded as `ElementStart`, slicing to the qualified name AS WRITTEN) and
    closed by an `ElementEnd` token whose whole span is recorded as `ElementEnd`: either the `/>` of an
    empty-element tag, or an end tag `</pe:le ws>` whose prefix and local name are those of the START
    tag, character for character (`close_element`: same name id and `open_prefixes.last() == prefix`;
    C02_endtag_as_written / C03_reject_endtag_prefix at the level of the accepted string) - so the slice
    reads `</`, the name exactly as the start tag wrote it, optional white space, `>`. -/
theorem C17_slice_element_end_name {m : Mode} {env : Env} {s : Str} {p : Parsed} (h : parseString m env s = .ok p)
    {q : Path} {id : Nat} {ks : List Tree} (hat : p.tree.at? q = some (.node (.element id) ks)) :
    ∃ pfx loc wsp, Token.elementStart pfx loc wsp ∈ (lexMode m s).1 ∧ WholeName pfx loc ∧
      (∃ sp, p.spans.get ⟨q, .elementStart⟩ = some sp ∧
        sliceBytes s sp.start sp.stop = some (tokQName pfx.text loc.text)) ∧
      ∃ e esp, Token.elementEnd e esp ∈ (lexMode m s).1 ∧
        (∃ sp, p.spans.get ⟨q, .elementEnd⟩ = some sp ∧ sliceBytes s sp.start sp.stop = some esp.text) ∧
        ((e = .empty ∧ esp.text = ['/', '>']) ∨
         ∃ pe le ws, e = .close pe le ∧ pe.text = pfx.text ∧ le.text = loc.text ∧
           (∀ c ∈ ws, isXmlSpace c = true) ∧
           esp.text = '<' :: '/' :: (tokQName pfx.text loc.text ++ ws ++ ['>'])) := by
  obtain ⟨pfx, loc, wsp, hmem, hstart, hend⟩ := parseString_element_end h hat
  exact ⟨pfx, loc, wsp, hmem, C17_names_whole h hmem rfl, hstart, hend⟩

/-- … on slices only: what `ElementEnd` slices to, in terms of what `ElementStart` slices to. -/
theorem C17_slice_element_end_name_source {m : Mode} {env : Env} {s : Str} {p : Parsed}
    (h : parseString m env s = .ok p)
    {q : Path} {id : Nat} {ks : List Tree} (hat : p.tree.at? q = some (.node (.element id) ks)) :
    ∃ name spS spE, p.spans.get ⟨q, .elementStart⟩ = some spS ∧ sliceBytes s spS.start spS.stop = some name ∧
      p.spans.get ⟨q, .elementEnd⟩ = some spE ∧
      (sliceBytes s spE.start spE.stop = some ['/', '>'] ∨
       ∃ ws, (∀ c ∈ ws, isXmlSpace c = true) ∧
         sliceBytes s spE.start spE.stop = some ('<' :: '/' :: (name ++ ws ++ ['>']))) := by
  obtain ⟨pfx, loc, wsp, _, _, ⟨spS, hgS, hsS⟩, e, esp, _, ⟨spE, hgE, hsE⟩, hcase⟩ := C17_slice_element_end_name h hat
  refine ⟨_, spS, spE, hgS, hsS, hgE, ?_⟩
  rcases hcase with ⟨_, ht⟩ | ⟨pe, le, ws, _, _, _, hws, ht⟩
  · exact .inl (by rw [hsE, ht])
  · exact .inr ⟨ws, hws, by rw [hsE, ht]⟩

/-- C17_slice_comment_delimiters.  Around the `Comment` span the source reads `<!--` body `-->`: the text is
    `a ++ "<!--" ++ w ++ "-->" ++ b` with the span covering exactly `w` (whose line-end normalisation is
    the node's value); in terms of `str::get`: the four bytes in front of the span are `<!--`, the three
    bytes behind it `-->`. -/
theorem C17_slice_comment_delimiters {m : Mode} {env : Env} {s : Str} {p : Parsed} (h : parseString m env s = .ok p)
    {q : Path} {v : Str} {ks : List Tree} (hat : p.tree.at? q = some (.node (.comment v) ks)) :
    ∃ w sp, p.spans.get ⟨q, .comment⟩ = some sp ∧ sliceBytes s sp.start sp.stop = some w ∧
      v = normalizeLineEnds w ∧
      (∃ a b, s = a ++ ['<', '!', '-', '-'] ++ w ++ ['-', '-', '>'] ++ b ∧ sp.start = strLen a + 4 ∧
        sp.stop = sp.start + strLen w) ∧
      4 ≤ sp.start ∧ sliceBytes s (sp.start - 4) sp.start = some ['<', '!', '-', '-'] ∧
      sliceBytes s sp.stop (sp.stop + 3) = some ['-', '-', '>'] := by
  obtain ⟨w, hb, hv⟩ := parseString_comment_delims h hat
  obtain ⟨sp', hg', hs'⟩ := hb.slicesTo
  obtain ⟨sp, hg, h4, hbefore, hafter⟩ := hb.around
  obtain ⟨sp2, a, b, hg2, hsrc, hst, hstop⟩ := hb
  rw [hg] at hg' hg2
  have e1 : sp = sp' := Option.some.inj hg'
  have e2 : sp = sp2 := Option.some.inj hg2
  subst e1 e2
  have e4 : strLen Lex.litCommentOpen = 4 := by decide
  have e3 : strLen Lex.litCommentClose = 3 := by decide
  rw [e4] at h4 hbefore hst
  rw [e3] at hafter
  exact ⟨w, sp, hg, hs', hv, ⟨a, b, hsrc, hst, hstop⟩, h4, hbefore, hafter⟩

/-- C17_slice_pi_delimiters.  Around the spans of the PI at `q` the source reads `<?`, the target (`PiTarget`),
    white space `ws`, the data as written `body` (`PiContent`, when the node has data: `body` is not empty
    then, and the node's data is its line-end normalisation; without data `body` is empty and `ws` may be),
    `?>`.  In terms of `str::get`: `<?` stands directly in front of the target span; with data, the white
    space fills the gap between the two spans and `?>` follows the content span directly. -/
theorem C17_slice_pi_delimiters {m : Mode} {env : Env} {s : Str} {p : Parsed} (h : parseString m env s = .ok p)
    {q : Path} {id : Nat} {d : Option Str} {ks : List Tree} (hat : p.tree.at? q = some (.node (.pi id d) ks)) :
    ∃ target ws body a b, (∀ c ∈ ws, isXmlSpace c = true) ∧
      s = a ++ ['<', '?'] ++ target ++ ws ++ body ++ ['?', '>'] ++ b ∧
      (∃ sp, p.spans.get ⟨q, .piTarget⟩ = some sp ∧ sp.start = strLen a + 2 ∧ sp.stop = sp.start + strLen target ∧
        sliceBytes s (sp.start - 2) sp.start = some ['<', '?'] ∧
        sliceBytes s sp.stop (sp.stop + strLen ws + strLen body + 2) = some (ws ++ body ++ ['?', '>'])) ∧
      (∀ c, d = some c → c = normalizeLineEnds body ∧
        ∃ sp, p.spans.get ⟨q, .piContent⟩ = some sp ∧ sp.start = strLen a + 2 + strLen target + strLen ws ∧
          sp.stop = sp.start + strLen body ∧ sliceBytes s sp.stop (sp.stop + 2) = some ['?', '>']) ∧
      (d = none → body = []) := by
  obtain ⟨target, ws, body, a, b, hws, hsrc0, ⟨spT, hgT, hT1, hT2⟩, hcont, hnone⟩ := parseString_pi_delims h hat
  have hsrc : s = a ++ ['<', '?'] ++ target ++ ws ++ body ++ ['?', '>'] ++ b := hsrc0
  have e2 : strLen (['<', '?'] : Str) = 2 := by decide
  have e3 : strLen (['?', '>'] : Str) = 2 := by decide
  refine ⟨target, ws, body, a, b, hws, hsrc, ⟨spT, hgT, hT1, hT2, ?_, ?_⟩, fun c hc => ?_, hnone⟩
  · have := sliceBytes_mid a ['<', '?'] (target ++ ws ++ body ++ ['?', '>'] ++ b)
    have e : strLen a + 2 - 2 = strLen a := by omega
    rw [e2] at this
    rw [hT1, e, hsrc]
    simp only [List.append_assoc] at this ⊢
    exact this
  · have := sliceBytes_mid (a ++ ['<', '?'] ++ target) (ws ++ body ++ ['?', '>']) b
    rw [hT2, hT1, hsrc]
    simp only [strLen_append, e2, e3] at this
    simp only [List.append_assoc, Nat.add_assoc] at this ⊢
    exact this
  · obtain ⟨hc1, spC, hgC, hC1, hC2⟩ := hcont c hc
    refine ⟨hc1, spC, hgC, hC1, hC2, ?_⟩
    have := sliceBytes_mid (a ++ ['<', '?'] ++ target ++ ws ++ body) ['?', '>'] b
    rw [hC2, hC1, hsrc]
    simp only [strLen_append, e2, e3] at this
    simp only [List.append_assoc, Nat.add_assoc] at this ⊢
    exact this

/-- C17_run_mode_from_source.  Whether the run behind the text node at `q` starts INSIDE a CDATA section
    (its first token is a CDATA token, whose `<![CDATA[` lies in front of the recorded span) is determined
    by the source: it does iff the nine bytes in front of the `Text` span are `<![CDATA[`
    (`cdataOpenBefore s pos` = `s[..pos].ends_with("<![CDATA[")`, the test of the harness oracle).  A run that
    starts with a text token starts at byte 0 or directly behind the `>` that ends the preceding token. -/
theorem C17_run_mode_from_source {m : Mode} {env : Env} {s : Str} {p : Parsed} (h : parseString m env s = .ok p)
    {q : Path} {v : Str} {ks : List Tree} (hat : p.tree.at? q = some (.node (.text v) ks)) :
    ∃ run sp, run <:+: (lexMode m s).1 ∧ run ≠ [] ∧ (∀ t ∈ run, t.isCharData = true) ∧
      p.spans.get ⟨q, .text⟩ = some sp ∧ sliceBytes s sp.start sp.stop = some (runSlice run) ∧
      runValue run = some v ∧ startsInCdata run = cdataOpenBefore s sp.start := by
  obtain ⟨run, sp, h1, h2, h3, h4, h5, h6, h7, _⟩ := parseString_text_mode h hat
  exact ⟨run, sp, h1, h2, h3, h4, h5, h6, h7⟩

/-- C17_decode_text_from_source: C17_slice_text with the decoder's start mode computed from the source.  A
    statement about the text, the recorded span and the node's value only: slice the text with the `Text`
    span, look whether `<![CDATA[` stands in front of it, decode - that is the value. -/
theorem C17_decode_text_from_source {m : Mode} {env : Env} {s : Str} {p : Parsed} (h : parseString m env s = .ok p)
    {q : Path} {v : Str} {ks : List Tree} (hat : p.tree.at? q = some (.node (.text v) ks)) :
    ∃ sp w, p.spans.get ⟨q, .text⟩ = some sp ∧ sliceBytes s sp.start sp.stop = some w ∧
      decodeRun (cdataOpenBefore s sp.start) w = some v := by
  obtain ⟨run, sp, _, _, _, hg, hs, _, _, hdec⟩ := parseString_text_mode h hat
  exact ⟨sp, runSlice run, hg, hs, hdec⟩

/-- Non-vacuity, on `<p:a xmlns:p="u" b="x&#10;y">t&lt;<![CDATA[c]]><!--k--><?pi d?></p:a>` (accepted, see above):
    `ElementEnd` = 63..69 slices to `</p:a>` = `</` ++ the `ElementStart` slice `p:a` (1..4) ++ `>`; the comment
    body 51..52 stands between `<!--` and `-->`; the PI target 57..59 behind `<?`, the data 60..61 in front of
    `?>`; in front of the `Text` span 29..44 stands `>`, not `<![CDATA[`. -/
example : delimWitnessCheck (parseString .document Env.fresh (renderTokens sliceWitness)) = true := by
  have e : lexMode .document (renderTokens sliceWitness) = (placeTokens 0 sliceWitness, none) :=
    lexDocument_render sliceWitness (by decide)
  unfold parseString
  rw [e, build_eq_buildE]
  decide +kernel

example : sliceBytes (renderTokens sliceWitness) 1 4 = some ['p', ':', 'a'] ∧
    sliceBytes (renderTokens sliceWitness) 63 69 = some ('<' :: '/' :: (['p', ':', 'a'] ++ [] ++ ['>'])) ∧
    sliceBytes (renderTokens sliceWitness) 47 51 = some ['<', '!', '-', '-'] ∧
    sliceBytes (renderTokens sliceWitness) 52 55 = some ['-', '-', '>'] ∧
    sliceBytes (renderTokens sliceWitness) 55 57 = some ['<', '?'] ∧
    sliceBytes (renderTokens sliceWitness) 59 60 = some [' '] ∧
    sliceBytes (renderTokens sliceWitness) 61 63 = some ['?', '>'] ∧
    cdataOpenBefore (renderTokens sliceWitness) 29 = false ∧
    decodeRun false ['t', '&', 'l', 't', ';', '<', '!', '[', 'C', 'D', 'A', 'T', 'A', '[', 'c'] = some ['t', '<', 'c'] := by
  decide +kernel

/-- White space inside the end tag: `<a></a ␣⏎>` is accepted (tokenizer run step by step in the kernel,
    Lemmas/SpanDelimWitness.lean); `ElementEnd` = 3..9 slices to `</` ++ `a` (the `ElementStart` slice 1..2)
    ++ space, line feed ++ `>`. -/
example : wsEndTagCheck (parseString .document Env.fresh wsEndTagText) = true := by
  simp only [parseString, lexMode, lex_wsEndTag]
  rw [build_eq_buildE]
  decide +kernel
example : sliceBytes wsEndTagText 1 2 = some ['a'] ∧
    sliceBytes wsEndTagText 3 9 = some ('<' :: '/' :: (['a'] ++ [' ', '\n'] ++ ['>'])) ∧
    (∀ c ∈ [' ', '\n'], isXmlSpace c = true) := by decide +kernel

/-- … and on `<a><![CDATA[c]]>t</a>`: the text node `ct` has the span 12..17 (`c]]>t`), the nine bytes in front of
    it are `<![CDATA[`, and decoding the slice from inside a section gives `ct`. -/
example : LexOK false cdataFirstWitness = true := by decide
example : cdataFirstCheck (parseString .document Env.fresh (renderTokens cdataFirstWitness)) = true := by
  have e : lexMode .document (renderTokens cdataFirstWitness) = (placeTokens 0 cdataFirstWitness, none) :=
    lexDocument_render cdataFirstWitness (by decide)
  unfold parseString
  rw [e, build_eq_buildE]
  decide +kernel
example : cdataOpenBefore (renderTokens cdataFirstWitness) 12 = true ∧
    sliceBytes (renderTokens cdataFirstWitness) 12 17 = some ['c', ']', ']', '>', 't'] ∧
    decodeRun true ['c', ']', ']', '>', 't'] = some ['c', 't'] := by
  decide +kernel

/-- C17_span_of_every_node: every element, attribute, text, comment and PI of an accepted tree has
    its spans (C17_total), and they satisfy C17_slice_element / _attribute / _text / _comment / _pi —
    `NodeSliced` (Lemmas/SpanSliceNode.lean) is the conjunction of exactly those statements, by kind
    of node. -/
theorem C17_span_of_every_node {m : Mode} {env : Env} {s : Str} {p : Parsed} (h : parseString m env s = .ok p) :
    Covered p.spans [] p.tree ∧
    ∀ (q : Path) (v : Value) (ks : List Tree), p.tree.at? q = some (.node v ks) →
      NodeSliced s (lexMode m s).1 p.spans.get p.env (scopeAt p.tree baseStack q) q v ks :=
  ⟨C17_total h, fun _ _ _ hat => parseString_sliced h hat⟩

/-! ### The reserved-name errors on strings -/

/-- C17_error_invalidTarget.  A text rejected with `InvalidTarget(target, span)` has a PI token whose target
    is `target`, `xml` in some letter case (`eq_ignore_ascii_case`); `span` is the span of that target and
    slices the text to `target`. -/
theorem C17_error_invalidTarget {m : Mode} {env env' : Env} {s : Str} {target : Str} {sp : Span}
    (h : parseString m env s = .err (.invalidTarget target sp) env') :
    ∃ tg c w, Token.pi tg c w ∈ (lexMode m s).1 ∧ target = tg.text ∧ sp = tg.span ∧
      isReservedPiTarget target = true ∧ sliceBytes s sp.start sp.stop = some target :=
  parseString_invalidTarget h

/-- C17_error_invalidNamespaceDeclaration.  A text rejected with `InvalidNamespaceDeclaration(name, span)`
    has an attribute token that is a namespace declaration of the prefix `pfx` (`xmlns:pfx`, or `xmlns` for
    the empty one); `span` is the span of the attribute's NAME and slices the text to it as written;
    `name` is `xmlns:pfx` / `xmlns`; the value decodes (`parse_attribute`) to something reserved for `pfx`. -/
theorem C17_error_invalidNamespaceDeclaration {m : Mode} {env env' : Env} {s : Str} {name : Str} {sp : Span}
    (h : parseString m env s = .err (.invalidNamespaceDeclaration name sp) env') :
    ∃ p l v w pfx, Token.attribute p l v w ∈ (lexMode m s).1 ∧ IsNsDecl p.text l.text pfx ∧
      name = declDisplayName pfx ∧ sp = Span.fromPrefixName p l ∧
      sliceBytes s sp.start sp.stop = some (tokQName p.text l.text) ∧
      ∃ u, parseAttribute v.text = .ok u ∧ reservedDecl pfx u = true :=
  parseString_invalidNamespaceDeclaration h

/-- Non-vacuity on the strings `<?XmL d?><a/>` and `<a xmlns:p=""/>` (tokenizer + builder). -/
example : (parseString .document Env.fresh ['<', '?', 'X', 'm', 'L', ' ', 'd', '?', '>', '<', 'a', '/', '>']).err? =
      some (.invalidTarget ['X', 'm', 'L'] ⟨2, 5⟩) ∧
    sliceBytes ['<', '?', 'X', 'm', 'L', ' ', 'd', '?', '>', '<', 'a', '/', '>'] 2 5 = some ['X', 'm', 'L'] := by
  refine ⟨?_, by decide +kernel⟩
  have e : lexMode .document (renderTokens xmlPiDoc) = (placeTokens 0 xmlPiDoc, none) :=
    lexDocument_render xmlPiDoc (by decide)
  show (parseString .document Env.fresh (renderTokens xmlPiDoc)).err? = _
  unfold parseString
  rw [e, build_eq_buildE]
  decide +kernel

example : (parseString .document Env.fresh
      ['<', 'a', ' ', 'x', 'm', 'l', 'n', 's', ':', 'p', '=', '"', '"', '/', '>']).err? =
      some (.invalidNamespaceDeclaration ['x', 'm', 'l', 'n', 's', ':', 'p'] ⟨3, 10⟩) ∧
    sliceBytes ['<', 'a', ' ', 'x', 'm', 'l', 'n', 's', ':', 'p', '=', '"', '"', '/', '>'] 3 10 =
      some ['x', 'm', 'l', 'n', 's', ':', 'p'] := by
  refine ⟨?_, by decide +kernel⟩
  have e : lexMode .document (renderTokens undeclDoc) = (placeTokens 0 undeclDoc, none) :=
    lexDocument_render undeclDoc (by decide)
  show (parseString .document Env.fresh (renderTokens undeclDoc)).err? = _
  unfold parseString
  rw [e, build_eq_buildE]
  decide +kernel

/-- Non-vacuity, on `<p:a xmlns:p="u" b="x&#10;y">t&lt;<![CDATA[c]]><!--k--><?pi d?></p:a>`: the text is
    accepted; the tree has the element at `[0]` with its attribute `b` (value `x`, LF, `y`), the
    merged text `t<c` at `[0, 2]`, the comment at `[0, 3]` and the PI at `[0, 4]`. -/
example : LexOK false sliceWitness = true := by decide

example : sliceWitnessCheck (parseString .document Env.fresh (renderTokens sliceWitness)) = true := by
  have e : lexMode .document (renderTokens sliceWitness) = (placeTokens 0 sliceWitness, none) :=
    lexDocument_render sliceWitness (by decide)
  unfold parseString
  rw [e, build_eq_buildE]
  decide +kernel

/-- … and the slice of the text node's span `29..44` is `t&lt;<![CDATA[c`, the `runSlice` of its run. -/
example : sliceBytes (renderTokens sliceWitness) 29 44 =
    some (runSlice [.text ⟨['t', '&', 'l', 't', ';'], 29⟩, .cdata ⟨['c'], 43⟩ ⟨[], 34⟩]) := by decide +kernel

/-- Line ends: on `<a><!--x\r\ny--><?p u\rv?></a>` (CR LF inside the comment, a lone CR inside the PI
    data) the comment at `[0, 0]` has the value `x\ny` while its span `7..11` covers the 4 written
    characters `x\r\ny`; the PI at `[0, 1]` has the data `u\nv` while `PiContent` = `18..21` slices to `u\rv`. -/
example : LexOK false crWitness = true := by decide
example : renderTokens crWitness =
    ['<', 'a', '>', '<', '!', '-', '-', 'x', '\r', '\n', 'y', '-', '-', '>', '<', '?', 'p', ' ', 'u', '\r', 'v',
     '?', '>', '<', '/', 'a', '>'] := by decide

example : crWitnessCheck (parseString .document Env.fresh (renderTokens crWitness)) = true := by
  have e : lexMode .document (renderTokens crWitness) = (placeTokens 0 crWitness, none) :=
    lexDocument_render crWitness (by decide)
  unfold parseString
  rw [e, build_eq_buildE]
  decide +kernel

example : sliceBytes (renderTokens crWitness) 7 11 = some ['x', '\r', '\n', 'y'] ∧
    normalizeLineEnds ['x', '\r', '\n', 'y'] = ['x', '\n', 'y'] ∧
    sliceBytes (renderTokens crWitness) 18 21 = some ['u', '\r', 'v'] ∧
    normalizeLineEnds ['u', '\r', 'v'] = ['u', '\n', 'v'] := by decide +kernel

/-- … and the hypothesis of the `_noCr` forms: the slices of `sliceWitness` (`k`, `d`) have no CR. -/
example : '\r' ∉ (['k'] : Str) ∧ '\r' ∉ renderTokens sliceWitness := by decide +kernel

end XotModel.Props
