/-
  C11 — Attribute and namespace views behave as insertion-ordered maps.
  Property theorems only.

  The model has a single definition of a view's content (`Forest.mapChildren`), shared by the
  read-only and the mutable view; that the two Rust copies agree with it and with each other is
  the correspondence check (`map_read`, both views, after every step).
-/
import XotModel.Lemmas.ForestBasic
import XotModel.Lemmas.FmapMove
import XotModel.Lemmas.FmapHistPos
import XotModel.Lemmas.FmapHistSer
import XotModel.Lemmas.FmapRetHist
import XotModel.Lemmas.FmapRefRun
import XotModel.Model.ValueAccess
import XotModel.Lemmas.FmapMix
import XotModel.Lemmas.FframeGeneralMix
import XotModel.Lemmas.ParseWitness
import XotModel.Model.FspecSpec

namespace XotModel.Props
open XotModel

/-- Updating an existing key keeps every node, its position and its handle: only the value of
    the entry node changes. -/
theorem C11_insert_existing_keeps_nodes (f : Forest) (k : Forest.MapKind) (p : Nat) (entry : Value)
    (n : HTree) (he : f.isElement p = true) (hk : f.mapGetNode k p (Forest.entryKey entry) = some n) :
    (f.mapInsert k p entry).1.allHandles = f.allHandles ∧ (f.mapInsert k p entry).2 = .ok := by
  simp [Forest.mapInsert, he, hk, Forest.allHandles_setValue]

/-- Removing an absent key changes nothing. -/
theorem C11_remove_absent (f : Forest) (k : Forest.MapKind) (p key : Nat)
    (he : f.isElement p = true) (hk : f.mapGetNode k p key = none) :
    f.mapRemove k p key = (f, .ok) := by
  simp [Forest.mapRemove, he, hk]

/-- The element-only accessors panic on a non-element and change nothing (the documented panic). -/
theorem C11_nonelement_panics (f : Forest) (k : Forest.MapKind) (p : Nat) (entry : Value)
    (he : f.isElement p = false) : f.mapInsert k p entry = (f, .panic) := by
  simp [Forest.mapInsert, he]

/-! ## Refinement to an insertion-ordered map

  `Fmap.abs k f e` (Model/FmapSpec.lean) is the attribute / namespace view of `e` as an
  association list `(key, payload)` in child order; `omInsert` / `omRemove` / `omClear` are the
  reference ordered map (existing key: value replaced in place; new key: appended at the end).
  All theorems below hold for every forest satisfying `Forest.Inv` and every live element. -/

open Fmap

/-- `insert(key, value)` (`set_attribute`, `set_namespace`): the view becomes `omInsert`; no
    panic, no error. -/
theorem C11_refine_insert (f : Forest) (hi : f.Inv) (k : Forest.MapKind) (e : Nat) (entry : Value)
    (he : f.isElement e = true) (hm : k.matches entry = true) :
    abs k (f.mapInsert k e entry).1 e = omInsert (abs k f e) (Forest.entryKey entry) (payloadOf entry) ∧
    (f.mapInsert k e entry).2 = .ok := by
  obtain ⟨nm, N, A, S, h⟩ := minv_of_inv f e hi he
  obtain ⟨hr, hok⟩ := mapInsert_refines h k entry hm
  exact ⟨hr.abs_same, hok⟩

/-- Updating an existing key keeps every entry node of the view in its position with its
    handle (`nodes()` is unchanged); a new key is carried by a fresh node placed last. -/
theorem C11_insert_nodes (f : Forest) (hi : f.Inv) (k : Forest.MapKind) (e : Nat) (entry : Value)
    (he : f.isElement e = true) (hm : k.matches entry = true) :
    (∀ n, f.mapGetNode k e (Forest.entryKey entry) = some n →
      absNodes k (f.mapInsert k e entry).1 e = absNodes k f e) ∧
    (f.mapGetNode k e (Forest.entryKey entry) = none →
      absNodes k (f.mapInsert k e entry).1 e = absNodes k f e ++ [f.next]) := by
  obtain ⟨nm, N, A, S, h⟩ := minv_of_inv f e hi he
  obtain ⟨s', st, _, _, h1, h2⟩ := mapInsert_step h k entry hm
  constructor
  · intro n hn; rw [st.nodes_same, h1 n hn, h.absNodes_eq]
  · intro hn; rw [st.nodes_same, h2 hn, h.absNodes_eq]

/-- `remove(key)` (`remove_attribute`, `remove_namespace`): the view becomes `omRemove`; the
    remaining entry nodes keep their relative order and handles. -/
theorem C11_refine_remove (f : Forest) (hi : f.Inv) (k : Forest.MapKind) (e key : Nat)
    (he : f.isElement e = true) :
    abs k (f.mapRemove k e key).1 e = omRemove (abs k f e) key ∧
    (f.mapRemove k e key).2 = .ok ∧
    (absNodes k (f.mapRemove k e key).1 e).Sublist (absNodes k f e) := by
  obtain ⟨nm, N, A, S, h⟩ := minv_of_inv f e hi he
  obtain ⟨s', st, hok, hmap, hsub⟩ := mapRemove_step h k key
  refine ⟨?_, hok, ?_⟩
  · rw [st.abs_same, hmap, h.abs_eq]
  · rw [st.nodes_same, h.absNodes_eq]; exact hsub

/-- `clear()`: the view becomes empty. -/
theorem C11_refine_clear (f : Forest) (hi : f.Inv) (k : Forest.MapKind) (e : Nat)
    (he : f.isElement e = true) :
    abs k (f.mapClear k e).1 e = omClear (abs k f e) ∧ (f.mapClear k e).2 = .ok := by
  obtain ⟨nm, N, A, S, h⟩ := minv_of_inv f e hi he
  obtain ⟨st, hok⟩ := mapClear_step h k
  exact ⟨by rw [st.abs_same]; rfl, hok⟩

/-- `append_attribute_node` / `append_namespace_node` of a detached (parentless) entry node
    `nd` with value `v`: the view becomes `omInsert`.  If the key exists, the EXISTING node keeps
    its place and handle, takes the new value and is the node returned, and `nd` stays where it
    was (parentless, same value).  Otherwise `nd` itself becomes the last entry and is returned. -/
theorem C11_refine_insert_node (f : Forest) (hi : f.Inv) (k : Forest.MapKind) (e nd : Nat) (v : Value)
    (he : f.isElement e = true) (hroot : f.isRoot nd = true) (hval : f.value? nd = some v)
    (hm : k.matches v = true) :
    abs k (f.appendEntryNode k e nd).1 e = omInsert (abs k f e) (Forest.entryKey v) (payloadOf v) ∧
    (f.appendEntryNode k e nd).2.1 = .ok ∧
    (∀ n, f.mapGetNode k e (Forest.entryKey v) = some n →
      (f.appendEntryNode k e nd).2.2 = n.handle ∧
      absNodes k (f.appendEntryNode k e nd).1 e = absNodes k f e ∧
      HTree.node nd v [] ∈ (f.appendEntryNode k e nd).1.roots) ∧
    (f.mapGetNode k e (Forest.entryKey v) = none →
      (f.appendEntryNode k e nd).2.2 = nd ∧
      absNodes k (f.appendEntryNode k e nd).1 e = absNodes k f e ++ [nd]) := by
  obtain ⟨nm, N, A, S, h⟩ := minv_of_inv f e hi he
  have hleaf := leafRoot_of_inv f hi k nd v hroot hval hm
  obtain ⟨s', roots0, st, hok, hmap, _, h1, h2⟩ := appendEntryNode_step h k nd v hm hleaf
  refine ⟨by rw [st.abs_same, hmap, h.abs_eq], hok, ?_, ?_⟩
  · intro n hn
    obtain ⟨a, b, c, _⟩ := h1 n hn
    exact ⟨a, by rw [st.nodes_same, b, h.absNodes_eq], c⟩
  · intro hn
    obtain ⟨a, b, _⟩ := h2 hn
    exact ⟨a, by rw [st.nodes_same, b, h.absNodes_eq]⟩

/-- `any_append` of an attribute / namespace node is `append_attribute_node` /
    `append_namespace_node`, so `C11_refine_insert_node` covers it. -/
theorem C11_any_append_entry (f : Forest) (k : Forest.MapKind) (e nd : Nat) (v : Value)
    (hval : f.value? nd = some v) (hm : k.matches v = true) :
    f.anyAppend e nd = f.appendEntryNode k e nd := anyAppend_entry f k e nd v hval hm

/-- An update of one view does not change the other view (content and nodes). -/
theorem C11_other_view_untouched (f : Forest) (hi : f.Inv) (k k' : Forest.MapKind) (e : Nat)
    (he : f.isElement e = true) (hk : k' ≠ k) :
    (∀ entry, k.matches entry = true →
      abs k' (f.mapInsert k e entry).1 e = abs k' f e ∧
      absNodes k' (f.mapInsert k e entry).1 e = absNodes k' f e) ∧
    (∀ key, abs k' (f.mapRemove k e key).1 e = abs k' f e ∧
      absNodes k' (f.mapRemove k e key).1 e = absNodes k' f e) ∧
    (abs k' (f.mapClear k e).1 e = abs k' f e ∧ absNodes k' (f.mapClear k e).1 e = absNodes k' f e) ∧
    (∀ nd v, f.isRoot nd = true → f.value? nd = some v → k.matches v = true →
      abs k' (f.appendEntryNode k e nd).1 e = abs k' f e ∧
      absNodes k' (f.appendEntryNode k e nd).1 e = absNodes k' f e) := by
  obtain ⟨nm, N, A, S, h⟩ := minv_of_inv f e hi he
  refine ⟨?_, ?_, ?_, ?_⟩
  · intro entry hm
    obtain ⟨s', st, _⟩ := mapInsert_step h k entry hm
    exact ⟨st.abs_other h hk, st.nodes_other h hk⟩
  · intro key
    obtain ⟨s', st, _⟩ := mapRemove_step h k key
    exact ⟨st.abs_other h hk, st.nodes_other h hk⟩
  · obtain ⟨st, _⟩ := mapClear_step h k
    exact ⟨st.abs_other h hk, st.nodes_other h hk⟩
  · intro nd v hroot hval hm
    obtain ⟨s', roots0, st, _⟩ :=
      appendEntryNode_step h k nd v hm (leafRoot_of_inv f hi k nd v hroot hval hm)
    exact ⟨st.abs_other h hk, st.nodes_other h hk⟩

/-- Frame.  After `insert` / `remove` / `clear` on view `k` of `e`, the forest is the old
    forest in which only the child list of `e` was replaced (`Fmap.withKids`: every other node,
    every other tree, every handle as before; `next` may have grown), and within that child
    list everything that is not an entry of view `k` — the normal children with their subtrees
    and the other view's nodes — is the same, in the same order. -/
theorem C11_children_untouched (f : Forest) (hi : f.Inv) (k : Forest.MapKind) (e : Nat)
    (he : f.isElement e = true) :
    ∃ nm ks, f.get? e = some (.node e (.element nm) ks) ∧
    ∀ f', ((∃ entry, k.matches entry = true ∧ f' = (f.mapInsert k e entry).1) ∨
           (∃ key, f' = (f.mapRemove k e key).1) ∨ f' = (f.mapClear k e).1) →
      ∃ ks', f' = { f with roots := withKids f.roots e ks', next := f'.next } ∧
        ks'.filter (fun c => !k.matches c.value) = ks.filter (fun c => !k.matches c.value) := by
  obtain ⟨nm, N, A, S, h⟩ := minv_of_inv f e hi he
  refine ⟨nm, _, h.loc.get, ?_⟩
  have fin : ∀ f' s', Fmap.Step f f' e nm N A S k f.roots s' →
      ∃ ks', f' = { f with roots := withKids f.roots e ks', next := f'.next } ∧
        ks'.filter (fun c => !k.matches c.value) =
          (N ++ A ++ S).filter (fun c => !k.matches c.value) := by
    intro f' s' st
    obtain ⟨ks, ks', hg, hst, hfil⟩ := st.frame h
    rw [h.loc.get] at hg
    simp only [Option.some.injEq, HTree.node.injEq, true_and] at hg
    exact ⟨ks', hst, by rw [hfil, hg]⟩
  intro f' hf'
  rcases hf' with ⟨entry, hm, rfl⟩ | ⟨key, rfl⟩ | rfl
  · obtain ⟨s', st, _⟩ := mapInsert_step h k entry hm
    exact fin _ s' st
  · obtain ⟨s', st, _⟩ := mapRemove_step h k key
    exact fin _ s' st
  · obtain ⟨st, _⟩ := mapClear_step h k
    exact fin _ [] st

/-- Frame of the node-style insertion: as above, except that the detached node leaves the
    parentless trees when it is placed (it stays among them when its key already exists). -/
theorem C11_children_untouched_node (f : Forest) (hi : f.Inv) (k : Forest.MapKind) (e nd : Nat)
    (v : Value) (he : f.isElement e = true) (hroot : f.isRoot nd = true)
    (hval : f.value? nd = some v) (hm : k.matches v = true) :
    ∃ nm ks ks' roots0, f.get? e = some (.node e (.element nm) ks) ∧
      (roots0 = f.roots ∨ roots0 = rootsWithout f nd) ∧
      (f.appendEntryNode k e nd).1 = { f with roots := withKids roots0 e ks' } ∧
      ks'.filter (fun c => !k.matches c.value) = ks.filter (fun c => !k.matches c.value) := by
  obtain ⟨nm, N, A, S, h⟩ := minv_of_inv f e hi he
  have hleaf := leafRoot_of_inv f hi k nd v hroot hval hm
  obtain ⟨s', roots0, st, _, _, hnext, h1, h2⟩ := appendEntryNode_step h k nd v hm hleaf
  obtain ⟨ks, ks', hg, hst, hfil⟩ := st.frame h
  refine ⟨nm, ks, ks', roots0, hg, ?_, ?_, hfil⟩
  · cases hn : f.mapGetNode k e (Forest.entryKey v) with
    | none => exact Or.inr (h2 hn).2.2
    | some n => exact Or.inl (h1 n hn).2.2.2
  · rw [hnext] at hst
    exact hst

/-- Node-style removal.  `remove(node)` of an entry node of view `k` of `e` IS `remove(key)` on
    the view, for the key under which `get_node` returns that node (so `C11_refine_remove`
    applies); `detach(node)` has the same effect on the view (`omRemove`), leaves the other view
    alone, and the node becomes a parentless tree keeping its value. -/
theorem C11_refine_remove_node (f : Forest) (hi : f.Inv) (k : Forest.MapKind) (e hd : Nat)
    (he : f.isElement e = true) (hm : hd ∈ absNodes k f e) :
    ∃ n, f.mapGetNode k e (Forest.entryKey n.value) = some n ∧ n.handle = hd ∧
      f.remove hd = f.mapRemove k e (Forest.entryKey n.value) ∧
      abs k (f.detach hd).1 e = omRemove (abs k f e) (Forest.entryKey n.value) ∧
      (f.detach hd).2 = .ok ∧ n ∈ (f.detach hd).1.roots ∧
      (∀ k', k' ≠ k → abs k' (f.detach hd).1 e = abs k' f e) := by
  obtain ⟨nm, N, A, S, h⟩ := minv_of_inv f e hi he
  obtain ⟨n, hg, hh, hrem⟩ := remove_node_eq h k hd hm
  have hn : n ∈ Sect.sec k N A := by
    rw [h.getNode k] at hg
    exact List.mem_of_find?_eq_some hg
  obtain ⟨s', st, hok, hmap, hroot⟩ := detach_node_step h k n hn
  rw [hh] at st hok hroot
  refine ⟨n, hg, hh, hrem, ?_, hok, hroot, fun k' hk => st.abs_other h hk⟩
  rw [st.abs_same, hmap, h.abs_eq k]
  rfl

/-- `append_*_node` / `any_append` of ANY live entry node — detached, or still attached to this
    or another element — whose key the view already has: the view becomes `omInsert`, the
    existing node keeps place and handle, takes the value and is returned, and the forest changes
    by that one value only (the passed node stays where it is). -/
theorem C11_insert_node_existing_key (f : Forest) (hi : f.Inv) (k : Forest.MapKind) (e nd : Nat)
    (v : Value) (n : HTree) (he : f.isElement e = true) (hval : f.value? nd = some v)
    (hm : k.matches v = true) (hn : f.mapGetNode k e (Forest.entryKey v) = some n) :
    f.appendEntryNode k e nd =
      (f.setValue n.handle (Forest.entryUpdate n.value v), .ok, n.handle) ∧
    abs k (f.appendEntryNode k e nd).1 e = omInsert (abs k f e) (Forest.entryKey v) (payloadOf v) ∧
    absNodes k (f.appendEntryNode k e nd).1 e = absNodes k f e ∧
    (f.appendEntryNode k e nd).1.Inv := by
  obtain ⟨nm, N, A, S, h⟩ := minv_of_inv f e hi he
  obtain ⟨s', st, heq, hmap, hnodes⟩ := appendEntryNode_existing h k nd v hval hm n hn
  exact ⟨heq, by rw [st.abs_same, hmap, h.abs_eq], by rw [st.nodes_same, hnodes, h.absNodes_eq],
    inv_of_step_same hi h st⟩

/-- `append_*_node` / `any_append` of an entry node that is still attached to ANOTHER element
    `e2`, when the view of `e` lacks its key: the node moves.  `e` gains the entry at the end,
    carried by the same node, which is returned; `e2` loses it (`omRemove`); the other view of
    both elements is untouched; the invariant is kept.  (With the key present in `e`,
    `C11_insert_node_existing_key` applies and the node does not move.) -/
theorem C11_move_node (f : Forest) (hi : f.Inv) (k : Forest.MapKind) (e e2 hd : Nat)
    (he : f.isElement e = true) (he2 : f.isElement e2 = true) (hne : e ≠ e2)
    (hm : hd ∈ absNodes k f e2) :
    ∃ n, f.mapGetNode k e2 (Forest.entryKey n.value) = some n ∧ n.handle = hd ∧
      (f.mapGetNode k e (Forest.entryKey n.value) = none →
        (f.appendEntryNode k e hd).2 = (.ok, hd) ∧
        abs k (f.appendEntryNode k e hd).1 e =
          omInsert (abs k f e) (Forest.entryKey n.value) (payloadOf n.value) ∧
        absNodes k (f.appendEntryNode k e hd).1 e = absNodes k f e ++ [hd] ∧
        abs k (f.appendEntryNode k e hd).1 e2 = omRemove (abs k f e2) (Forest.entryKey n.value) ∧
        (∀ k', k' ≠ k → abs k' (f.appendEntryNode k e hd).1 e = abs k' f e ∧
          abs k' (f.appendEntryNode k e hd).1 e2 = abs k' f e2) ∧
        (f.appendEntryNode k e hd).1.Inv) :=
  move_node f hi k e e2 hd he he2 hne hm

/-- `append_*_node` / `any_append` of a node that already is an entry of this view of this
    element is the identity and returns that node. -/
theorem C11_append_own_node (f : Forest) (hi : f.Inv) (k : Forest.MapKind) (e hd : Nat)
    (he : f.isElement e = true) (hm : hd ∈ absNodes k f e) :
    f.appendEntryNode k e hd = (f, .ok, hd) := by
  obtain ⟨nm, N, A, S, h⟩ := minv_of_inv f e hi he
  rw [h.absNodes_eq k] at hm
  obtain ⟨n, hn, hh⟩ := List.mem_map.mp hm
  rw [← hh]
  exact appendEntryNode_own h k n hn

/-- Keys are distinct in both views of every node of a forest satisfying the invariant. -/
theorem C11_unique_keys (f : Forest) (hi : f.Inv) (k : Forest.MapKind) (e : Nat) :
    omWf (abs k f e) := unique_keys_of_inv f hi k e

/-- The reference map stays a map: `omInsert` / `omRemove` keep keys distinct, a lookup after an
    update sees exactly that update, and `omRemove` leaves no entry of the key. -/
theorem C11_reference_is_a_map (m : OMap Payload) (key : Nat) (p : Payload) (hw : omWf m) :
    omWf (omInsert m key p) ∧ omWf (omRemove m key) ∧
    omGet (omInsert m key p) key = some p ∧ omGet (omRemove m key) key = none ∧
    (∀ k', k' ≠ key → omGet (omInsert m key p) k' = omGet m k' ∧ omGet (omRemove m key) k' = omGet m k') ∧
    omRemove m key = m.filter (fun q => q.1 != key) ∧
    (omGet m key = none → omInsert m key p = m ++ [(key, p)]) :=
  ⟨omWf_insert m key p hw, omWf_remove m key hw, omGet_insert_self m key p,
    omGet_remove_self m key hw,
    fun k' hk => ⟨omGet_insert_other m key k' p hk, omGet_remove_other m key k' hk⟩,
    omRemove_eq_filter m key hw, omInsert_of_get_none m key p⟩

/-- The reads.  `get_node(key)` finds a node of the view carrying the key; `get`, `contains_key`
    agree with the reference lookup; what the driver's `map_read` prints (`len`, `is_empty`, the
    `iter()` pairs = `keys()` zipped with `values()`, `nodes()`) are the reference map's `omLen`,
    `omIsEmpty`, `omKeys`, `omValues` (no hypothesis needed: one definition of the content). -/
theorem C11_reads (f : Forest) (k : Forest.MapKind) (e key : Nat) :
    (f.mapGetNode k e key).map (fun c => payloadOf c.value) = omGet (abs k f e) key ∧
    (f.mapGetNode k e key).isSome = omContainsKey (abs k f e) key ∧
    (∀ n, f.mapGetNode k e key = some n → n.handle ∈ absNodes k f e ∧ Forest.entryKey n.value = key) ∧
    (∀ t, f.get? e = some t →
      (Forest.mapChildren k t).length = omLen (abs k f e) ∧
      (Forest.mapChildren k t).isEmpty = omIsEmpty (abs k f e) ∧
      (Forest.mapChildren k t).map (fun c => Forest.entryKey c.value) = omKeys (abs k f e) ∧
      (Forest.mapChildren k t).map (fun c => payloadOf c.value) = omValues (abs k f e) ∧
      (Forest.mapChildren k t).map (·.handle) = absNodes k f e) :=
  ⟨get_eq f k e key, containsKey_eq f k e key, getNode_mem f k e key, reads_eq f k e⟩

/-- Histories.  Any sequence of map-style updates (`insert`, `remove`, `clear`) and node-style
    updates (a fresh attribute / namespace node appended with `append_*_node` = `any_append`) of
    both views of one element, from any forest satisfying the invariant: no step panics or
    fails, after the history each view equals the reference map fed the steps addressed to
    it (`specOps`), and the whole invariant holds again. -/
theorem C11_histories (f : Forest) (hi : f.Inv) (e : Nat) (he : f.isElement e = true)
    (ops : List MapOp) (hwf : ∀ op ∈ ops, op.wf = true) :
    (∀ r ∈ (runOps e f ops).2, r = .ok) ∧
    (∀ k, abs k (runOps e f ops).1 e = specOps k (abs k f e) ops) ∧
    (∀ k, omWf (abs k (runOps e f ops).1 e)) ∧
    (runOps e f ops).1.isElement e = true ∧ (runOps e f ops).1.Inv := by
  obtain ⟨nm, N, A, S, h⟩ := minv_of_inv f e hi he
  obtain ⟨N', A', h', hok, hv⟩ := runOps_spec e nm S ops f N A h hwf
  refine ⟨hok, hv, ?_, h'.isElement, runOps_inv e ops f hi he hwf⟩
  intro k
  rw [h'.abs_eq k]
  have := h'.uniq k
  simpa [omWf, omKeys, List.map_map, Function.comp_def, entryPair_fst] using this

/-- One step of a history, for chaining with other operations: the outcome, both views, and that
    the element is still a live element. -/
theorem C11_step (f : Forest) (hi : f.Inv) (e : Nat) (he : f.isElement e = true) (op : MapOp)
    (hwf : op.wf = true) :
    (op.run e f).2 = .ok ∧ (∀ k, abs k (op.run e f).1 e = op.specFor k (abs k f e)) ∧
    (op.run e f).1.isElement e = true ∧ (op.run e f).1.Inv := by
  obtain ⟨nm, N, A, S, h⟩ := minv_of_inv f e hi he
  obtain ⟨N', A', h', hok, hv⟩ := op_step h op hwf
  exact ⟨hok, hv, h'.isElement, op_inv f hi e he op hwf⟩

/-- The map operations preserve the whole invariant of C04 (`Forest.Inv`: distinct handles below
    `next`, every tree structurally valid, …), so they can be chained with any other operation
    proved to preserve it: `insert`, `remove`, `clear`, `append_*_node` of a detached entry node,
    `detach` of an entry node (`remove` of one is `remove(key)`, `C11_refine_remove_node`). -/
theorem C11_preserves_inv (f : Forest) (hi : f.Inv) (k : Forest.MapKind) (e : Nat)
    (he : f.isElement e = true) :
    (∀ entry, k.matches entry = true → (f.mapInsert k e entry).1.Inv) ∧
    (∀ key, (f.mapRemove k e key).1.Inv) ∧ (f.mapClear k e).1.Inv ∧
    (∀ nd v, f.isRoot nd = true → f.value? nd = some v → k.matches v = true →
      (f.appendEntryNode k e nd).1.Inv) ∧
    (∀ hd, hd ∈ absNodes k f e → (f.detach hd).1.Inv) :=
  ⟨fun entry hm => mapInsert_inv f hi k e entry he hm, fun key => mapRemove_inv f hi k e key he,
    mapClear_inv f hi k e he, fun nd v hr hv hm => appendEntryNode_inv f hi k e nd v he hr hv hm,
    fun hd hm => detach_node_inv f hi k e hd he hm⟩

/-! ### The entry API (nodemap/entry.rs, modelled in Model/FmapEntry.lean) and `get_mut` -/

/-- `entry(key).or_insert(default)` / `or_insert_with` / `or_default`: an occupied entry is left
    alone, a vacant one is inserted last; never panics (the `unwrap`s inside are safe). -/
theorem C11_entry_or_insert (f : Forest) (hi : f.Inv) (k : Forest.MapKind) (e : Nat) (default : Value)
    (he : f.isElement e = true) (hm : k.matches default = true) :
    abs k (f.entryOrInsert k e default).1 e =
      (if omContainsKey (abs k f e) (Forest.entryKey default) then abs k f e
       else omInsert (abs k f e) (Forest.entryKey default) (payloadOf default)) ∧
    (f.entryOrInsert k e default).2 = .ok ∧
    (∀ k', k' ≠ k → abs k' (f.entryOrInsert k e default).1 e = abs k' f e) := by
  obtain ⟨nm, N, A, S, h⟩ := minv_of_inv f e hi he
  obtain ⟨hr, hok⟩ := entryOrInsert_refines h k default hm
  exact ⟨hr.abs_same, hok, fun k' hk => hr.abs_other h hk⟩

theorem C11_entry_or_default (f : Forest) (hi : f.Inv) (e name : Nat) (he : f.isElement e = true) :
    abs .attributes (f.entryOrDefault e name).1 e =
      (if omContainsKey (abs .attributes f e) name then abs .attributes f e
       else omInsert (abs .attributes f e) name (.str [])) ∧
    (f.entryOrDefault e name).2 = .ok :=
  let r := C11_entry_or_insert f hi .attributes e (.attribute name []) he rfl
  ⟨r.1, r.2.1⟩

/-- `entry(key).and_modify(g)`: the stored value is rewritten in place, a vacant entry is left. -/
theorem C11_entry_and_modify (f : Forest) (hi : f.Inv) (k : Forest.MapKind) (e key : Nat)
    (g : Value → Value) (he : f.isElement e = true)
    (hg : ∀ v, k.matches v = true → k.matches (g v) = true) :
    abs k (f.entryAndModify k e key g).1 e =
      omModify (abs k f e) key (fun p => payloadOf (g (mkEntry k key p))) ∧
    (f.entryAndModify k e key g).2.1 = .ok ∧
    (∀ k', k' ≠ k → abs k' (f.entryAndModify k e key g).1 e = abs k' f e) := by
  obtain ⟨nm, N, A, S, h⟩ := minv_of_inv f e hi he
  obtain ⟨hr, hok, _⟩ := entryAndModify_refines h k key g hg
  exact ⟨hr.abs_same, hok, fun k' hk => hr.abs_other h hk⟩

/-- `entry(key).and_modify(g).or_insert(default)`. -/
theorem C11_entry_and_modify_or_insert (f : Forest) (hi : f.Inv) (k : Forest.MapKind) (e : Nat)
    (default : Value) (g : Value → Value) (he : f.isElement e = true)
    (hm : k.matches default = true) (hg : ∀ v, k.matches v = true → k.matches (g v) = true) :
    (f.entryAndModifyOrInsert k e default g).2 = .ok ∧
    abs k (f.entryAndModifyOrInsert k e default g).1 e =
      (if omContainsKey (abs k f e) (Forest.entryKey default)
       then omModify (abs k f e) (Forest.entryKey default)
              (fun p => payloadOf (g (mkEntry k (Forest.entryKey default) p)))
       else omInsert (abs k f e) (Forest.entryKey default) (payloadOf default)) ∧
    (∀ k', k' ≠ k → abs k' (f.entryAndModifyOrInsert k e default g).1 e = abs k' f e) := by
  obtain ⟨nm, N, A, S, h⟩ := minv_of_inv f e hi he
  obtain ⟨_, hok, hs, ho⟩ := entryAndModifyOrInsert_spec h k default g hm hg
  exact ⟨hok, hs, ho⟩

/-- `match entry(key) { Occupied(o) => o.insert(v), Vacant(va) => va.insert(v) }` is `omInsert`;
    `if let Occupied(o) = entry(key) { o.remove() }` is `omRemove`; neither `unwrap` panics. -/
theorem C11_entry_insert_remove (f : Forest) (hi : f.Inv) (k : Forest.MapKind) (e : Nat)
    (he : f.isElement e = true) :
    (∀ entry, k.matches entry = true →
      abs k (f.entryInsert k e entry).1 e = omInsert (abs k f e) (Forest.entryKey entry) (payloadOf entry) ∧
      (f.entryInsert k e entry).2 = .ok) ∧
    (∀ key, abs k (f.entryRemove k e key).1 e = omRemove (abs k f e) key ∧
      (f.entryRemove k e key).2 = .ok) := by
  obtain ⟨nm, N, A, S, h⟩ := minv_of_inv f e hi he
  constructor
  · intro entry hm
    obtain ⟨hr, hok⟩ := entryInsert_refines h k entry hm
    exact ⟨hr.abs_same, hok⟩
  · intro key
    obtain ⟨hr, hok⟩ := entryRemove_refines h k key
    exact ⟨hr.abs_same, hok⟩

/-- `get_mut(key)` and a write through the reference: the stored value changes in place; `None`
    exactly when the key is absent. -/
theorem C11_get_mut (f : Forest) (hi : f.Inv) (k : Forest.MapKind) (e key : Nat) (new : Value)
    (he : f.isElement e = true) (hm : k.matches new = true) :
    abs k (f.mapGetMutSet k e key new).1 e = omModify (abs k f e) key (fun _ => payloadOf new) ∧
    (f.mapGetMutSet k e key new).2.1 = .ok ∧
    (f.mapGetMutSet k e key new).2.2 = omContainsKey (abs k f e) key ∧
    (∀ k', k' ≠ k → abs k' (f.mapGetMutSet k e key new).1 e = abs k' f e) := by
  obtain ⟨nm, N, A, S, h⟩ := minv_of_inv f e hi he
  obtain ⟨hr, hok, hb⟩ := mapGetMutSet_refines h k key new hm
  exact ⟨hr.abs_same, hok, hb, fun k' hk => hr.abs_other h hk⟩

/-- The entry API in one statement (the conjunction of the theorems above): every entry-API call
    on a live element of a forest satisfying the invariant returns normally and has its
    reference-map meaning. -/
theorem C11_entry_api (f : Forest) (hi : f.Inv) (k : Forest.MapKind) (e : Nat)
    (he : f.isElement e = true) :
    (∀ d, k.matches d = true →
      (f.entryOrInsert k e d).2 = .ok ∧
      abs k (f.entryOrInsert k e d).1 e =
        (if omContainsKey (abs k f e) (Forest.entryKey d) then abs k f e
         else omInsert (abs k f e) (Forest.entryKey d) (payloadOf d))) ∧
    (∀ key g, (∀ v, k.matches v = true → k.matches (g v) = true) →
      (f.entryAndModify k e key g).2.1 = .ok ∧
      abs k (f.entryAndModify k e key g).1 e =
        omModify (abs k f e) key (fun p => payloadOf (g (mkEntry k key p)))) ∧
    (∀ v, k.matches v = true →
      (f.entryInsert k e v).2 = .ok ∧
      abs k (f.entryInsert k e v).1 e = omInsert (abs k f e) (Forest.entryKey v) (payloadOf v)) ∧
    (∀ key, (f.entryRemove k e key).2 = .ok ∧
      abs k (f.entryRemove k e key).1 e = omRemove (abs k f e) key) :=
  ⟨fun d hm => let r := C11_entry_or_insert f hi k e d he hm; ⟨r.2.1, r.1⟩,
   fun key g hg => let r := C11_entry_and_modify f hi k e key g he hg; ⟨r.2.1, r.1⟩,
   fun v hm => let r := (C11_entry_insert_remove f hi k e he).1 v hm; ⟨r.2, r.1⟩,
   fun key => let r := (C11_entry_insert_remove f hi k e he).2 key; ⟨r.2, r.1⟩⟩

/-- `entry(key).or_insert_with(call)` IS `entry(key).or_insert(call())` (same forest, same outcome,
    no hypothesis), except that the closure is only evaluated for a vacant entry: the flag says
    whether it ran.  (`call ()` is the entry value `A::create(key, call())`, so its key is `key`.) -/
theorem C11_entry_or_insert_with_eq (f : Forest) (k : Forest.MapKind) (e key : Nat)
    (call : Unit → Value) (hk : Forest.entryKey (call ()) = key) :
    (f.entryOrInsertWith k e key call).1 = (f.entryOrInsert k e (call ())).1 ∧
    (f.entryOrInsertWith k e key call).2.1 = (f.entryOrInsert k e (call ())).2 ∧
    (f.entryOrInsertWith k e key call).2.2 =
      (f.isElement e && !(f.mapGetNode k e key).isSome) := by
  unfold Forest.entryOrInsertWith Forest.entryOrInsert
  rw [hk]
  cases he : f.isElement e
  · simp
  · simp only [Bool.not_true, Bool.false_eq_true, if_false, Bool.true_and]
    unfold Forest.mapEntry Forest.mapGet
    cases hn : f.mapGetNode k e key <;> simp

/-- The reference-map meaning of `or_insert_with`: an occupied entry is left alone and the closure
    does not run; a vacant one receives the closure's value, last; no panic; the `&mut V` handed
    back refers to the value now stored under the key (the old one, or the closure's). -/
theorem C11_entry_or_insert_with (f : Forest) (hi : f.Inv) (k : Forest.MapKind) (e key : Nat)
    (call : Unit → Value) (he : f.isElement e = true) (hk : Forest.entryKey (call ()) = key)
    (hm : k.matches (call ()) = true) :
    abs k (f.entryOrInsertWith k e key call).1 e =
      (if omContainsKey (abs k f e) key then abs k f e
       else omInsert (abs k f e) key (payloadOf (call ()))) ∧
    (f.entryOrInsertWith k e key call).2.1 = .ok ∧
    (f.entryOrInsertWith k e key call).2.2 = !omContainsKey (abs k f e) key ∧
    omGet (abs k (f.entryOrInsertWith k e key call).1 e) key =
      (omGet (abs k f e) key).or (some (payloadOf (call ()))) ∧
    (∀ k', k' ≠ k → abs k' (f.entryOrInsertWith k e key call).1 e = abs k' f e) := by
  obtain ⟨h1, h2, h3⟩ := C11_entry_or_insert_with_eq f k e key call hk
  obtain ⟨r1, r2, r3⟩ := C11_entry_or_insert f hi k e (call ()) he hm
  rw [hk] at r1
  have hc : (f.mapGetNode k e key).isSome = omContainsKey (abs k f e) key := containsKey_eq f k e key
  refine ⟨by rw [h1]; exact r1, by rw [h2]; exact r2, by rw [h3, he, hc]; rfl, ?_, ?_⟩
  · rw [h1, r1]
    cases hg : omGet (abs k f e) key with
    | some p => simp [omContainsKey, hg]
    | none => simp [omContainsKey, hg, omGet_insert_self]
  · intro k' hk'; rw [h1]; exact r3 k' hk'

/-- `if let Occupied(o) = entry(key) { *o.into_mut() = v }` IS `if let Some(x) = get_mut(key)
    { *x = v }` (no hypothesis): `into_mut` is `get_mut(key).unwrap()` behind a successful `get`. -/
theorem C11_entry_into_mut_eq (f : Forest) (k : Forest.MapKind) (e key : Nat) (new : Value) :
    f.occupiedIntoMutSet k e key new = f.mapGetMutSet k e key new := by
  unfold Forest.occupiedIntoMutSet Forest.mapGetMutSet Forest.mapEntry Forest.mapGet
  cases f.isElement e
  · simp
  · cases hn : f.mapGetNode k e key <;> simp [hn]

/-- The reference-map meaning of `OccupiedEntry::into_mut` and a write through it: the stored
    value changes in place, nothing happens on a vacant entry, the `unwrap` never panics. -/
theorem C11_entry_into_mut (f : Forest) (hi : f.Inv) (k : Forest.MapKind) (e key : Nat) (new : Value)
    (he : f.isElement e = true) (hm : k.matches new = true) :
    abs k (f.occupiedIntoMutSet k e key new).1 e = omModify (abs k f e) key (fun _ => payloadOf new) ∧
    (f.occupiedIntoMutSet k e key new).2.1 = .ok ∧
    (f.occupiedIntoMutSet k e key new).2.2 = omContainsKey (abs k f e) key ∧
    (∀ k', k' ≠ k → abs k' (f.occupiedIntoMutSet k e key new).1 e = abs k' f e) := by
  rw [C11_entry_into_mut_eq]
  exact C11_get_mut f hi k e key new he hm

/-- The read accessors of the entry API.  `entry(key)` is `Occupied` exactly when the reference map
    contains the key, `Vacant` otherwise, and carries that key (`Entry::key`, `OccupiedEntry::key`,
    `VacantEntry::key`); on an occupied entry `get` / `get_mut` / `into_mut` (`get…(key).unwrap()`) do
    not panic and see the reference value.  No hypothesis. -/
theorem C11_entry_key_get (f : Forest) (k : Forest.MapKind) (e key : Nat) :
    (f.mapEntry k e key = (if omContainsKey (abs k f e) key then .occupied key else .vacant key)) ∧
    (omContainsKey (abs k f e) key = true →
      f.occGetMut k e key = .ok ∧ (f.mapGet k e key).map payloadOf = omGet (abs k f e) key) := by
  have hc := containsKey_eq f k e key
  have hg := get_eq f k e key
  unfold Forest.mapEntry Forest.occGetMut Forest.mapGet
  rw [← hc, ← hg]
  cases hn : f.mapGetNode k e key <;> simp

/-! ### Serialisation order -/

/-- What the serialisers iterate for an element (`gen_outputs`: `xot.namespaces(node)` then
    `xot.attributes(node)`, i.e. `Tree.nsDecls` / `Tree.attrs` of the erased element) lists
    exactly the two views, in `abs` order. -/
theorem C11_order (f : Forest) (e : Nat) (t : HTree) (h : f.get? e = some t) :
    (HTree.erase t).nsDecls = absNs f e ∧ (HTree.erase t).attrs = absAttrs f e := by
  unfold absNs absAttrs Fmap.abs
  rw [h]
  exact ⟨nsDecls_erase t, attrs_erase t⟩

/-- The accessor shortcuts of access.rs.  `get_attribute(n, name)` is `attributes(n).get(name)`,
    `get_namespace(n, prefix)` is `namespaces(n).get(prefix)`, `namespace_declarations(n)` is
    `namespaces(n).iter()` collected: for a forest element whose erasure sits at path `p` of a
    tree `T`, they are the lookups in / the list of the reference views (`absAttrs`, `absNs`). -/
theorem C11_get_attribute (f : Forest) (e : Nat) (t : HTree) (h : f.get? e = some t)
    (T : Tree) (p : Path) (hrel : T.at? p = some (HTree.erase t)) (name pfx : Nat) :
    Axes.getAttribute T p name = (absAttrs f e).lookup name ∧
    Axes.getNamespace T p pfx = (absNs f e).lookup pfx ∧
    Axes.namespaceDeclarations T p = absNs f e := by
  obtain ⟨hn, ha⟩ := C11_order f e t h
  have hs : Axes.subAt T p = HTree.erase t := by simp [Axes.subAt, hrel]
  simp [Axes.getAttribute, Axes.getNamespace, Axes.namespaceDeclarations, Tree.getAttribute,
    Tree.getNamespace, hs, hn, ha]

/-! ### Non-vacuity -/

/-- A concrete forest: a document with an element carrying one declaration, two attributes and
    a text, plus a detached attribute node and a detached namespace node. -/
def c11Example : Forest :=
  { roots := [.node 0 .document [.node 1 (.element 2)
      [.node 2 (.namespace 0 2) [], .node 3 (.attribute 3 ['v']) [], .node 4 (.attribute 5 ['w']) [],
       .node 5 (.text ['x']) []]], .node 6 (.attribute 3 ['n']) [], .node 7 (.namespace 1 3) []],
    next := 8 }

example : c11Example.Inv ∧ c11Example.isElement 1 = true ∧
    c11Example.isRoot 6 = true ∧ c11Example.value? 6 = some (.attribute 3 ['n']) :=
  ⟨(Forest.inv_iff _).mp (by decide), by decide, by decide, by decide⟩

/-- Two elements, for the move. -/
def c11Example2 : Forest :=
  { roots := [.node 0 .document [.node 1 (.element 2)
      [.node 2 (.attribute 3 ['v']) [], .node 3 (.element 4) [.node 4 (.attribute 5 ['w']) []]]]],
    next := 5 }

example : c11Example2.Inv ∧ c11Example2.isElement 1 = true ∧ c11Example2.isElement 3 = true ∧
    2 ∈ absNodes .attributes c11Example2 1 ∧
    abs .attributes (c11Example2.appendEntryNode .attributes 3 2).1 3 = [(5, .str ['w']), (3, .str ['v'])] ∧
    abs .attributes (c11Example2.appendEntryNode .attributes 3 2).1 1 = [] :=
  ⟨(Forest.inv_iff _).mp (by decide), by decide, by decide, by decide, by decide, by decide⟩

example : 3 ∈ absNodes .attributes c11Example 1 ∧ 2 ∈ absNodes .namespaces c11Example 1 := by decide

/-- `or_insert_with` on an occupied key (closure not run, value kept) and on a vacant one (closure
    run, entry last); `into_mut` on an occupied key (written through) and on a vacant one. -/
example :
    (c11Example.entryOrInsertWith .attributes 1 3 (fun _ => .attribute 3 ['z'])).2 = (.ok, false) ∧
    abs .attributes (c11Example.entryOrInsertWith .attributes 1 3 (fun _ => .attribute 3 ['z'])).1 1 =
      [(3, .str ['v']), (5, .str ['w'])] ∧
    (c11Example.entryOrInsertWith .attributes 1 9 (fun _ => .attribute 9 ['z'])).2 = (.ok, true) ∧
    abs .attributes (c11Example.entryOrInsertWith .attributes 1 9 (fun _ => .attribute 9 ['z'])).1 1 =
      [(3, .str ['v']), (5, .str ['w']), (9, .str ['z'])] ∧
    (c11Example.occupiedIntoMutSet .namespaces 1 0 (.namespace 0 4)).2 = (.ok, true) ∧
    abs .namespaces (c11Example.occupiedIntoMutSet .namespaces 1 0 (.namespace 0 4)).1 1 = [(0, .ns 4)] ∧
    (c11Example.occupiedIntoMutSet .namespaces 1 1 (.namespace 1 4)).2 = (.ok, false) ∧
    abs .namespaces (c11Example.occupiedIntoMutSet .namespaces 1 1 (.namespace 1 4)).1 1 = [(0, .ns 2)] := by
  decide

example : abs .attributes c11Example 1 = [(3, .str ['v']), (5, .str ['w'])] ∧
    abs .attributes (c11Example.mapInsert .attributes 1 (.attribute 3 ['z'])).1 1 =
      [(3, .str ['z']), (5, .str ['w'])] ∧
    abs .attributes (c11Example.appendEntryNode .attributes 1 6).1 1 =
      [(3, .str ['n']), (5, .str ['w'])] ∧
    abs .namespaces (c11Example.appendEntryNode .namespaces 1 7).1 1 = [(0, .ns 2), (1, .ns 3)] ∧
    (runOps 1 c11Example [.insert .attributes (.attribute 9 []), .remove .attributes 3,
      .insertNode .namespaces (.namespace 0 5), .clear .attributes]).2 = [.ok, .ok, .ok, .ok] := by
  decide

/-! ## Histories of ALL the updates, on a forest with several elements

  `MapOp2` (Model/FmapSpec2.lean) has one constructor per update the property lists: the
  map-style calls `insert`, `remove`, `clear`, `get_mut` + assignment, the entry API
  (`or_insert`, `or_default`, `and_modify`, `and_modify(..).or_insert`, the `match` on the entry
  with `insert` in both arms, `Occupied::insert`, `Vacant::insert`, `Occupied::remove`), the
  wrappers `set_attribute` / `remove_attribute` / `set_namespace` / `remove_namespace`, and the
  node-style calls `append_attribute_node` / `append_namespace_node` of a new node, of a
  parentless node, of a node that already is an entry of the view, of an entry node of ANOTHER
  element (the move), `any_append` of each of these, `detach` and `remove` of an entry node.
  Each names the element it is addressed to; `MapOp2.ok f op` are the side conditions (live
  elements, entry values of the view's kind, node arguments being what the constructor says),
  evaluated in the state the step starts from.  The reference is a family of ordered maps indexed
  by element and view (`Fam`, `specStep`). -/

/-- One step, every update: it returns `ok`, the invariant holds again, EVERY view of EVERY node
    is the reference family's after `specStep`, elements stay elements (and nothing becomes one),
    and the (key, node) list of every view changes by `KNStep` only. -/
theorem C11_step_all (f : Forest) (hi : f.Inv) (F : Fam) (hF : ∀ x k, abs k f x = F x k)
    (op : MapOp2) (hok : op.ok f = true) :
    (op.run f).2 = .ok ∧ (op.run f).1.Inv ∧
    (∀ x k, abs k (op.run f).1 x = specStep F op x k) ∧
    (∀ x, (op.run f).1.isElement x = f.isElement x) ∧
    (∀ x k, KNStep (absKN k f x) (absKN k (op.run f).1 x)) := by
  obtain ⟨r, s⟩ := step_all hi hF op hok
  exact ⟨r, s.inv, s.agree, s.elem, s.kn⟩

/-- Histories: any interleaving of the updates of `MapOp2`, addressed to any live elements of
    the forest, whose side conditions hold when their turn comes.  No step fails or panics;
    afterwards both views of every node (in particular of every live element) are what the
    reference family gives; keys are distinct; the live elements are those of the start; the
    invariant holds in every state gone through, and consecutive states are `Stable` (every
    view's (key, node) list changes by `KNStep`). -/
theorem C11_histories_all (f : Forest) (hi : f.Inv) (ops : List MapOp2)
    (hok : (runOps2 f ops).2.2 = true) :
    (∀ r ∈ (runOps2 f ops).2.1, r = .ok) ∧
    (∀ e k, abs k (runOps2 f ops).1 e = specOps2 (famOf f) ops e k) ∧
    (∀ e k, omWf (abs k (runOps2 f ops).1 e)) ∧
    (∀ e, (runOps2 f ops).1.isElement e = f.isElement e) ∧
    (runOps2 f ops).1.Inv ∧
    (∀ g ∈ trace2 f ops, g.Inv) ∧ StableTrace (trace2 f ops) := by
  obtain ⟨h1, h2, h3, h4, h5, h6⟩ := history_all ops f (famOf f) hi (fun _ _ => rfl) hok
  exact ⟨h1, h3, fun e k => unique_keys_of_inv _ h2 k e, h4, h2, h5, h6⟩

/-- `absKN` pairs the keys of `abs` with the nodes of `absNodes`. -/
theorem C11_kn_views (f : Forest) (k : Forest.MapKind) (x : Nat) :
    (absKN k f x).map (·.1) = omKeys (abs k f x) ∧ (absKN k f x).map (·.2) = absNodes k f x :=
  ⟨absKN_fst k f x, absKN_snd k f x⟩

/-- Positions and nodes over one step, for every view of every node.  The (key, node) list
    afterwards is a sublist of the one before, or the one before with one new pair at the end.
    Hence: a step that keeps the key list (an update of existing keys) keeps the handle list; an
    entry whose key survives keeps its node; two entries that survive keep their relative
    order. -/
theorem C11_positions_stable (f : Forest) (hi : f.Inv) (op : MapOp2) (hok : op.ok f = true)
    (x : Nat) (k : Forest.MapKind) :
    KNStep (absKN k f x) (absKN k (op.run f).1 x) ∧
    (omKeys (abs k (op.run f).1 x) = omKeys (abs k f x) →
      absNodes k (op.run f).1 x = absNodes k f x) ∧
    (∀ key hd, (key, hd) ∈ absKN k f x → key ∈ omKeys (abs k (op.run f).1 x) →
      (key, hd) ∈ absKN k (op.run f).1 x) ∧
    (∀ p q, p ∈ absKN k f x → q ∈ absKN k f x → p ∈ absKN k (op.run f).1 x →
      q ∈ absKN k (op.run f).1 x →
      ([p, q].Sublist (absKN k f x) ↔ [p, q].Sublist (absKN k (op.run f).1 x))) :=
  positions_stable f hi op hok x k

/-- Positions over a history: two entries (key with its node) that are in the view in every
    state the history goes through — never removed, cleared, detached or moved away — have the
    same relative order at the end as at the start (with `C11_positions_stable`: the same nodes). -/
theorem C11_positions_history (f : Forest) (hi : f.Inv) (ops : List MapOp2)
    (hok : (runOps2 f ops).2.2 = true) (x : Nat) (k : Forest.MapKind) (p q : Nat × Nat)
    (hall : ∀ g ∈ trace2 f ops, p ∈ absKN k g x ∧ q ∈ absKN k g x) :
    [p, q].Sublist (absKN k f x) ↔ [p, q].Sublist (absKN k (runOps2 f ops).1 x) :=
  positions_history f hi ops hok x k p q hall

/-- Nodes over a history: an entry whose key is in the view in every state the history goes
    through (it may be updated, never removed, cleared, detached or moved away) is carried by the
    same node in every state, in particular at the end. -/
theorem C11_history_keeps_node (f : Forest) (hi : f.Inv) (ops : List MapOp2)
    (hok : (runOps2 f ops).2.2 = true) (x : Nat) (k : Forest.MapKind) (key hd : Nat)
    (h0 : (key, hd) ∈ absKN k f x) (hall : ∀ g ∈ trace2 f ops, key ∈ omKeys (abs k g x)) :
    (∀ g ∈ trace2 f ops, (key, hd) ∈ absKN k g x) ∧ (key, hd) ∈ absKN k (runOps2 f ops).1 x :=
  ⟨history_keeps_node f hi ops hok x k key hd h0 hall,
    history_keeps_node f hi ops hok x k key hd h0 hall _ (trace2_last ops f)⟩

/-! ### The remaining reads -/

/-- `iter()` yields the reference map's entries in order, i.e. `keys()` zipped with `values()`;
    `to_vec()` is that list; `to_hashmap()` is the reference's (no hypothesis). -/
theorem C11_reads_iter (f : Forest) (k : Forest.MapKind) (e : Nat) :
    mapIter f k e = abs k f e ∧
    mapIter f k e = (omKeys (abs k f e)).zip (omValues (abs k f e)) ∧
    mapToVec f k e = abs k f e ∧
    mapToHashmap f k e = omToHashmap (abs k f e) :=
  ⟨mapIter_eq f k e, mapIter_zip f k e, mapIter_eq f k e, mapToHashmap_eq f k e⟩

/-- `to_hashmap()` under the invariant IS the reference map as a finite map: shown as the
    key-sorted list, it has strictly increasing keys, the reference's lookup for every key, and
    the reference's size. -/
theorem C11_to_hashmap (f : Forest) (hi : f.Inv) (k : Forest.MapKind) (e : Nat) :
    SortedKeys (mapToHashmap f k e) ∧
    (∀ key, (mapToHashmap f k e).lookup key = omGet (abs k f e) key) ∧
    (mapToHashmap f k e).length = omLen (abs k f e) := by
  rw [mapToHashmap_eq]
  exact omToHashmap_spec _ (unique_keys_of_inv f hi k e)

/-! ### Serialisation order, down to the tokens -/

/-- Every live node of the forest is at some path of the erasure of its tree, so the next theorem
    applies to every live element (with `start = []`, or `start` = any ancestor's path). -/
theorem C11_serialisation_applies (f : Forest) (e : Nat) (t : HTree) (hg : f.get? e = some t) :
    ∃ r ∈ f.roots, ∃ p, (HTree.erase r).at? p = some (HTree.erase t) := by
  obtain ⟨r, hr, hf⟩ := findList?_root e f.roots t hg
  obtain ⟨p, hp⟩ := erase_at_of_find e r t hf
  exact ⟨r, hr, p, hp⟩

/-- Serialisation writes declarations and attributes in view order.  Let the element `e` of the
    forest sit at the path `start ++ rel` of a tree `T` that is serialised from `start`.  In the
    event stream of `gen_outputs` its start tag is one contiguous block: start-tag-open, (if it is
    the top node) the inherited declarations, its declarations in the order of `abs .namespaces`,
    its attributes in the order of `abs .attributes`, start-tag-close (C16_events_element with
    C11_order).  The token stream carries exactly these events in this order, so it has the
    declaration tokens followed by the attribute tokens as one contiguous run, and the string
    serialisation (`to_string`) is the concatenation of the token texts (C16_tokens). -/
theorem C11_serialisation_order (f : Forest) (e name : Nat) (t : HTree) (hg : f.get? e = some t)
    (hv : t.value = .element name) (T : Tree) (start rel : Path) (n : Tree)
    (inScope : List (Nat × Nat)) (hn : T.at? start = some n)
    (hs : namespacesInScope T start = some inScope) (hrel : n.at? rel = some (HTree.erase t)) :
    (∃ pre post, genOutputs T start =
      pre ++ [(start ++ rel, Output.startTagOpen name)]
        ++ (if rel.isEmpty then extraPrefixes inScope (HTree.erase t) else []).map
            (fun o => (start ++ rel, o))
        ++ (absNs f e).map (fun d => (start ++ rel, Output.pfx d.1 d.2))
        ++ (absAttrs f e).map (fun a => (start ++ rel, Output.attribute a.1 a.2))
        ++ [(start ++ rel, Output.startTagClose)] ++ post) ∧
    ∀ (esc : Escapers) (env : Env) (pr : TokenParams) (ks : List (Path × Output × OutputToken)),
      tokensWith esc env pr T start = .ok ks →
      (∃ k1 kd ka k2, ks = k1 ++ kd ++ ka ++ k2 ∧
        kd.map (fun k => (k.1, k.2.1)) = (absNs f e).map (fun d => (start ++ rel, Output.pfx d.1 d.2)) ∧
        ka.map (fun k => (k.1, k.2.1)) =
          (absAttrs f e).map (fun a => (start ++ rel, Output.attribute a.1 a.2))) ∧
      serializeStringWith esc env pr T start =
        .ok (ks.flatMap (fun k => (if k.2.2.space then [' '] else []) ++ k.2.2.text)) :=
  serialisation_order f e name t hg hv T start rel n inScope hn hs hrel

/-! ### Non-vacuity of the history theorems -/

/-- Two elements (1 and its child 5), a parentless attribute node 8. -/
def c11Example3 : Forest :=
  { roots := [.node 0 .document [.node 1 (.element 2)
      [.node 2 (.namespace 0 2) [], .node 3 (.attribute 3 ['v']) [], .node 4 (.attribute 5 ['w']) [],
       .node 5 (.element 4) [.node 6 (.attribute 7 ['x']) []], .node 7 (.text ['t']) []]],
     .node 8 (.attribute 9 ['n']) []],
    next := 9 }

/-- A history with seven different constructors; the third step moves the attribute 5 of
    element 1 to element 5. -/
def c11HistoryA : List MapOp2 :=
  [.setAttribute 1 11 ['a'],
   .entryOrInsert .attributes 5 (.attribute 3 ['q']),
   .appendAttachedNode .attributes 5 1 5,
   .getMutSet .attributes 1 3 (.attribute 3 ['z']),
   .entryAndModify .attributes 5 7 (fun p => match p with | .str s => .str (s ++ ['!']) | p => p),
   .appendDetachedNode .attributes 1 8 (.attribute 9 ['n']),
   .detachEntryNode .namespaces 1 0]

/-- Seven other constructors; the first step moves the attribute 3 of element 1 to element 5
    through `any_append`. -/
def c11HistoryB : List MapOp2 :=
  [.anyAppend 5 (.entry .attributes 1 3),
   .removeEntryNode .attributes 5 7,
   .occupiedInsert .attributes 1 (.attribute 5 ['b']),
   .vacantInsert .namespaces 5 (.namespace 1 3),
   .appendNewNode .namespaces 1 (.namespace 4 4),
   .appendOwnNode .attributes 1 5,
   .clear .attributes 5]

example : c11Example3.Inv ∧ c11Example3.isElement 1 = true ∧ c11Example3.isElement 5 = true ∧
    MapOp2.ok c11Example3 (.appendAttachedNode .attributes 5 1 5) = true :=
  ⟨(Forest.inv_iff _).mp (by decide), by decide, by decide, by decide⟩

example : (runOps2 c11Example3 c11HistoryA).2 = ([.ok, .ok, .ok, .ok, .ok, .ok, .ok], true) := by
  decide

example : (runOps2 c11Example3 c11HistoryB).2 = ([.ok, .ok, .ok, .ok, .ok, .ok, .ok], true) := by
  decide

example : abs .attributes (runOps2 c11Example3 c11HistoryA).1 1 =
      [(3, .str ['z']), (11, .str ['a']), (9, .str ['n'])] ∧
    abs .namespaces (runOps2 c11Example3 c11HistoryA).1 1 = [] ∧
    abs .attributes (runOps2 c11Example3 c11HistoryA).1 5 =
      [(7, .str ['x', '!']), (3, .str ['q']), (5, .str ['w'])] ∧
    absKN .attributes (runOps2 c11Example3 c11HistoryA).1 5 = [(7, 6), (3, 10), (5, 4)] ∧
    absKN .attributes (runOps2 c11Example3 c11HistoryA).1 1 = [(3, 3), (11, 9), (9, 8)] := by
  decide

example : abs .attributes (runOps2 c11Example3 c11HistoryB).1 1 = [(5, .str ['b'])] ∧
    abs .namespaces (runOps2 c11Example3 c11HistoryB).1 1 = [(0, .ns 2), (4, .ns 4)] ∧
    abs .attributes (runOps2 c11Example3 c11HistoryB).1 5 = [] ∧
    abs .namespaces (runOps2 c11Example3 c11HistoryB).1 5 = [(1, .ns 3)] := by
  decide

/-- The hypotheses of `C11_positions_history`: the entries (3, node 3) and (5, node 4) of
    element 1 are there in every state of the first two steps. -/
example : ∀ g ∈ trace2 c11Example3 (c11HistoryA.take 2),
    (3, 3) ∈ absKN .attributes g 1 ∧ (5, 4) ∈ absKN .attributes g 1 := by
  decide

/-- The hypotheses of `C11_history_keeps_node`: key 3 of element 1, carried by node 3, is there in
    every state of history A (its value is rewritten by the fourth step). -/
example : (3, 3) ∈ absKN .attributes c11Example3 1 ∧
    ∀ g ∈ trace2 c11Example3 (c11HistoryA.take 5), 3 ∈ omKeys (abs .attributes g 1) := by
  decide

/-- The hypotheses of `C11_serialisation_order` on the example: element 1 at path `[0]` of the
    erased document, serialised from the document node. -/
example : ∃ t r, c11Example3.get? 1 = some t ∧ t.value = .element 2 ∧ r ∈ c11Example3.roots ∧
    (HTree.erase r).at? [] = some (HTree.erase r) ∧
    (namespacesInScope (HTree.erase r) []).isSome = true ∧
    (HTree.erase r).at? [0] = some (HTree.erase t) :=
  ⟨_, _, rfl, rfl, List.mem_cons_self, rfl, by decide, rfl⟩

/-! ## Histories with the values the calls RETURN, and the whole entry API as history steps

  `Ret` (Model/FmapRet.lean) is what a call hands back: `()`, an `Option<V>` (the old value of
  `insert` / `remove` / `OccupiedEntry::insert` / `remove`, the value behind a returned `&V` /
  `&mut V`), an `Option<Node>` (`get_node`, the node `append_*_node` / `any_append` return), a
  `bool`, a key.  `MapOp2.ret f op` is the value the update returns in the state `f`, obtained the
  way the Rust obtains it.  `MapCall` embeds `MapOp2` (`base`) and adds the remaining calls of
  nodemap/entry.rs as history steps — `or_insert_with`, `OccupiedEntry::into_mut` / `get_mut`
  (written through), `OccupiedEntry::get`, `Entry::key` / `OccupiedEntry::key` /
  `VacantEntry::key` — and the reads `get` / `get_node` / `contains_key`.  `MapCall.run` yields
  forest, outcome and returned value; the reference yields the family of ordered maps
  (`MapCall.spec`) and the returned value (`MapCall.specRet`).  Where a node is returned the
  reference says which one relative to the `NodeView` of the state the call starts in (node
  handles are identities of the forest): the carrier of the key if the reference map has the
  key, else the node passed in (`carrier`, `carrierOf`). -/

/-- One call: it returns `ok`, it returns WHAT THE REFERENCE RETURNS, the invariant holds again,
    every view of every node is the reference family's after the call, elements stay elements,
    every view's (key, node) list changes by `KNStep`. -/
theorem C11_step_returns (f : Forest) (hi : f.Inv) (F : Fam) (hF : ∀ x k, abs k f x = F x k)
    (c : MapCall) (hok : c.ok f = true) :
    (c.run f).2.1 = .ok ∧ (c.run f).2.2 = c.specRet F (nodeView f) ∧ (c.run f).1.Inv ∧
    (∀ x k, abs k (c.run f).1 x = c.spec F x k) ∧
    (∀ x, (c.run f).1.isElement x = f.isElement x) ∧
    (∀ x k, KNStep (absKN k f x) (absKN k (c.run f).1 x)) := by
  obtain ⟨r, hret, s⟩ := call_step hi hF c hok
  exact ⟨r, hret, s.inv, s.agree, s.elem, s.kn⟩

/-- Histories with returned values: any interleaving of the calls of `MapCall` — every update of
    `MapOp2`, every call of the entry API, the reads — addressed to any live elements, whose side
    conditions hold when their turn comes (the hypotheses of `C11_histories_all`).  No step fails
    or panics; EVERY STEP RETURNS WHAT THE REFERENCE MAP RETURNS (`specRets`: the old value of
    `insert` / `remove`, the value behind the `&mut V` of `or_insert` …, `Some` / `None` of
    `get_mut`, the node of `append_*_node`, …); afterwards both views of every node are the
    reference family's; keys are distinct; the live elements are those of the start; the
    invariant holds in every state gone through and consecutive states are `Stable`. -/
theorem C11_histories_returns (f : Forest) (hi : f.Inv) (cs : List MapCall)
    (hok : (runCalls f cs).2.2 = true) :
    (∀ r ∈ (runCalls f cs).2.1, r.1 = .ok) ∧
    (runCalls f cs).2.1.map (·.2) = specRets f (famOf f) cs ∧
    (∀ e k, abs k (runCalls f cs).1 e = specCalls (famOf f) cs e k) ∧
    (∀ e k, omWf (abs k (runCalls f cs).1 e)) ∧
    (∀ e, (runCalls f cs).1.isElement e = f.isElement e) ∧
    (runCalls f cs).1.Inv ∧
    (∀ g ∈ traceCalls f cs, g.Inv) ∧ StableTrace (traceCalls f cs) := by
  obtain ⟨h1, hr, h2, h3, h4, h5, h6⟩ := history_calls cs f (famOf f) hi (fun _ _ => rfl) hok
  exact ⟨h1, hr, h3, fun e k => unique_keys_of_inv _ h2 k e, h4, h2, h5, h6⟩

/-- `MapCall` extends `MapOp2`: a history of `MapOp2` IS the history of its `base` calls — same
    final forest, same outcomes, same side conditions, same states gone through, same reference
    family — so `C11_histories_returns` adds the returned values to `C11_histories_all`. -/
theorem C11_histories_returns_extends (f : Forest) (F : Fam) (ops : List MapOp2) :
    (runCalls f (ops.map .base)).1 = (runOps2 f ops).1 ∧
    (runCalls f (ops.map .base)).2.1.map (·.1) = (runOps2 f ops).2.1 ∧
    (runCalls f (ops.map .base)).2.2 = (runOps2 f ops).2.2 ∧
    traceCalls f (ops.map .base) = trace2 f ops ∧
    specCalls F (ops.map .base) = specOps2 F ops :=
  let r := runCalls_base ops f
  ⟨r.1, r.2.1, r.2.2.1, r.2.2.2, specCalls_base F ops⟩

/-- The reference returns in closed form.  The `&mut V` of `or_insert(d)` / `or_insert_with` /
    `or_default` refers to the old value if there is one, else to the default now stored; that of
    `and_modify(g).or_insert(d)` to the modified old value, else to the default; `insert` into
    the reference map makes a following lookup see the new value; a removed key is gone. -/
theorem C11_returns_closed (m : OMap Payload) (hw : omWf m) (k : Forest.MapKind) (d : Value)
    (g : Payload → Payload) :
    omGet (opOrInsert d m) (Forest.entryKey d) =
      some ((omGet m (Forest.entryKey d)).getD (payloadOf d)) ∧
    omGet (opModifyOrInsert k d g m) (Forest.entryKey d) =
      some (match omGet m (Forest.entryKey d) with
        | some p => modP k (Forest.entryKey d) g p
        | none => payloadOf d) ∧
    omGet (opInsert d m) (Forest.entryKey d) = some (payloadOf d) ∧
    omGet (omRemove m (Forest.entryKey d)) (Forest.entryKey d) = none := by
  refine ⟨?_, ?_, omGet_insert_self _ _ _, omGet_remove_self m _ hw⟩
  · unfold opOrInsert omContainsKey
    cases hg : omGet m (Forest.entryKey d) with
    | some p => simp [hg]
    | none => simp [opInsert, omGet_insert_self]
  · unfold opModifyOrInsert omContainsKey
    cases hg : omGet m (Forest.entryKey d) with
    | some p =>
      simp only [Option.isSome_some, if_true]
      rw [omModify_of_get_some m _ _ p hg, omGet_insert_self]
    | none => simp [opInsert, omGet_insert_self]

/-! ### Non-vacuity of the histories with returned values -/

/-- Twelve calls on `c11Example3`: map-style updates with their old values, `or_insert_with` on an
    occupied and on a vacant key, a parentless node appended where its key already exists (the
    carrier is returned, not the node), the move of an attribute node of element 1 to element 5
    (the node itself is returned), `into_mut`, `get`, `key`, `get_node`, `contains_key`. -/
def c11CallsA : List MapCall :=
  [.base (.insert .attributes 1 (.attribute 3 ['q'])),
   .base (.remove .attributes 1 5),
   .base (.remove .attributes 1 5),
   .entryOrInsertWith .attributes 5 7 (fun _ => .attribute 7 ['c']),
   .entryOrInsertWith .attributes 5 9 (fun _ => .attribute 9 ['c']),
   .base (.appendDetachedNode .attributes 5 8 (.attribute 9 ['n'])),
   .base (.appendAttachedNode .attributes 5 1 3),
   .occupiedIntoMutSet .namespaces 1 0 (.namespace 0 4),
   .peekKey .namespaces 1 7,
   .occupiedGet .namespaces 1 0,
   .getNode .attributes 5 3,
   .containsKey .attributes 1 3]

/-- What the model returns along `c11CallsA`; every side condition holds. -/
example : (runCalls c11Example3 c11CallsA).2 =
    ([(.ok, .value (some (.str ['v']))), (.ok, .value (some (.str ['w']))), (.ok, .value none),
      (.ok, .value (some (.str ['x']))), (.ok, .value (some (.str ['c']))), (.ok, .node (some 9)),
      (.ok, .node (some 3)), (.ok, .value (some (.ns 2))), (.ok, .key 7),
      (.ok, .value (some (.ns 4))), (.ok, .node (some 3)), (.ok, .bool false)], true) := by
  decide

/-- What the reference returns along `c11CallsA`. -/
example : specRets c11Example3 (famOf c11Example3) c11CallsA =
    [.value (some (.str ['v'])), .value (some (.str ['w'])), .value none,
     .value (some (.str ['x'])), .value (some (.str ['c'])), .node (some 9), .node (some 3),
     .value (some (.ns 2)), .key 7, .value (some (.ns 4)), .node (some 3), .bool false] := by
  decide

example : abs .attributes (runCalls c11Example3 c11CallsA).1 1 = [] ∧
    abs .attributes (runCalls c11Example3 c11CallsA).1 5 =
      [(7, .str ['x']), (9, .str ['n']), (3, .str ['q'])] ∧
    absKN .attributes (runCalls c11Example3 c11CallsA).1 5 = [(7, 6), (9, 9), (3, 3)] ∧
    abs .namespaces (runCalls c11Example3 c11CallsA).1 1 = [(0, .ns 4)] := by
  decide

/-- The entry updates of `MapOp2` with their returned values: `or_insert` (vacant: the default),
    `and_modify` (occupied), `and_modify(..).or_insert` (occupied: the modified value),
    `Occupied::insert` (old value), `Vacant::insert` on an occupied key (`None`), `Occupied::remove`,
    `get_mut`, a new node appended where the key is absent (the new node, handle 9, is returned). -/
example : (runCalls c11Example3
    [.base (.entryOrInsert .attributes 1 (.attribute 11 ['d'])),
     .base (.entryAndModify .attributes 1 11 (fun _ => .str ['e'])),
     .base (.entryAndModifyOrInsert .attributes 1 (.attribute 11 ['z']) (fun _ => .str ['f'])),
     .base (.occupiedInsert .attributes 1 (.attribute 11 ['g'])),
     .base (.vacantInsert .attributes 1 (.attribute 11 ['h'])),
     .base (.entryRemove .attributes 1 11),
     .base (.getMutSet .namespaces 1 3 (.namespace 3 4)),
     .base (.appendNewNode .namespaces 5 (.namespace 1 3)),
     .base (.clear .attributes 1)]).2 =
    ([(.ok, .value (some (.str ['d']))), (.ok, .bool true), (.ok, .value (some (.str ['f']))),
      (.ok, .value (some (.str ['f']))), (.ok, .value none), (.ok, .value (some (.str ['g']))),
      (.ok, .value none), (.ok, .node (some 10)), (.ok, .unit)], true) := by
  decide

/-! ## The nodes that carry the entries, exactly

  `NFam` (Model/FmapNodes.lean) is the reference's bookkeeping of WHICH NODE carries which key:
  for every element and view the (key, node) list in order.  It follows the reference maps
  (`knFollow`): after a call the list is the key list of the reference map, each key with the
  node that carried it before, a key that was not there with the node the call GIVES
  (`MapCall.given`: the parentless node passed in, the entry node of the other element, which
  moves, or the node made on the spot, whose handle is the reference's own fresh-handle counter).
  So the reference runs on its own (`RefState`, `refRun`) and returns nodes itself. -/

/-- One call, every view of every node: the (key, node) list afterwards is exactly the
    reference's — the reference map's keys in order, every key that was there carried by the same
    node, a new key by the node the call gives.  In particular every key of the view afterwards
    has its carrier in the view. -/
theorem C11_step_nodes (f : Forest) (hi : f.Inv) (F : Fam) (hF : ∀ x k, abs k f x = F x k)
    (c : MapCall) (hok : c.ok f = true) (x : Nat) (k : Forest.MapKind) :
    absKN k (c.run f).1 x =
      knFollow (absKN k f x) (omKeys (c.spec F x k)) (c.given (nfamOf f) f.next) ∧
    (∀ key ∈ omKeys (c.spec F x k),
      (key, ((absKN k f x).lookup key).getD (c.given (nfamOf f) f.next)) ∈ absKN k (c.run f).1 x) ∧
    (∀ key, getN f k x key = (absKN k f x).lookup key) := by
  have h := call_nodes hi hF c hok x k
  refine ⟨h, ?_, fun key => getN_lookup f k x key⟩
  intro key hkey
  rw [h]
  exact List.mem_map.mpr ⟨key, hkey, rfl⟩

/-- One call on the reference state.  `RefState` = the family of ordered maps, the (key, node)
    lists, the fresh-handle counter; `refOf f` reads it off a forest.  A call whose side
    conditions hold takes the reference state of the forest to the reference state of the new
    forest (`MapCall.refStep`: maps by `MapCall.spec`, nodes by `knFollow`, the counter advanced by
    the number of nodes made), and returns what the reference returns from its own state
    (`MapCall.refRet`). -/
theorem C11_step_reference (f : Forest) (hi : f.Inv) (c : MapCall) (hok : c.ok f = true) :
    refOf (c.run f).1 = c.refStep (refOf f) ∧ (c.run f).2.2 = c.refRet (refOf f) ∧
    (c.run f).1.next = f.next + c.creates (famOf f) :=
  let r := refOf_step hi c hok
  ⟨r.1, r.2, call_next hi (fun _ _ => rfl) c hok⟩

/-- Histories on the reference alone.  Run the history on the reference state of the start
    forest only (`refRun`: no forest is consulted): along every history of calls (the hypotheses
    of `C11_histories_returns`) the model returns, step by step, exactly what that run returns —
    old values, values behind references, NODES — and ends in a forest whose reference state is
    the run's final state: every view of every node (content and order), which node carries
    which key, and the next fresh handle. -/
theorem C11_histories_reference (f : Forest) (hi : f.Inv) (cs : List MapCall)
    (hok : (runCalls f cs).2.2 = true) :
    (runCalls f cs).2.1.map (·.2) = (refRun (refOf f) cs).1 ∧
    (∀ e k, abs k (runCalls f cs).1 e = (refRun (refOf f) cs).2.fam e k) ∧
    (∀ e k, absKN k (runCalls f cs).1 e = (refRun (refOf f) cs).2.nodes e k) ∧
    (runCalls f cs).1.next = (refRun (refOf f) cs).2.fresh := by
  obtain ⟨h1, h2⟩ := history_ref cs f hi hok
  refine ⟨h1, fun e k => ?_, fun e k => ?_, ?_⟩
  · exact congrFun (congrFun (congrArg RefState.fam h2) e) k
  · exact congrFun (congrFun (congrArg RefState.nodes h2) e) k
  · exact congrArg RefState.fresh h2

/-- `knFollow` on its own terms: the keys are the given key list; a key that was there keeps its
    node; a key that was not is carried by `given`. -/
theorem C11_knFollow (old : List (Nat × Nat)) (keys' : List Nat) (given : Nat) :
    (knFollow old keys' given).map (·.1) = keys' ∧
    (∀ key nd, key ∈ keys' → old.lookup key = some nd → (key, nd) ∈ knFollow old keys' given) ∧
    (∀ key, key ∈ keys' → old.lookup key = none → (key, given) ∈ knFollow old keys' given) := by
  unfold knFollow
  refine ⟨by rw [List.map_map]; exact List.map_id' _, ?_, ?_⟩
  · intro key nd hk hl
    exact List.mem_map.mpr ⟨key, hk, by rw [hl]; rfl⟩
  · intro key hk hl
    exact List.mem_map.mpr ⟨key, hk, by rw [hl]; rfl⟩

/-- The history `c11CallsA` run on the reference state of `c11Example3` alone: what it returns,
    nodes included, its node lists at the end, and its counter (one node was made: handle 9). -/
example : (refRun (refOf c11Example3) c11CallsA).1 =
    [.value (some (.str ['v'])), .value (some (.str ['w'])), .value none,
     .value (some (.str ['x'])), .value (some (.str ['c'])), .node (some 9), .node (some 3),
     .value (some (.ns 2)), .key 7, .value (some (.ns 4)), .node (some 3), .bool false] ∧
    (refRun (refOf c11Example3) c11CallsA).2.nodes 5 .attributes = [(7, 6), (9, 9), (3, 3)] ∧
    (refRun (refOf c11Example3) c11CallsA).2.nodes 1 .attributes = [] ∧
    (refRun (refOf c11Example3) c11CallsA).2.fam 5 .attributes =
      [(7, .str ['x']), (9, .str ['n']), (3, .str ['q'])] ∧
    (refRun (refOf c11Example3) c11CallsA).2.fresh = 10 := by
  decide

end XotModel.Props

/-! # ================================================================================================
    # INTERLEAVINGS: map updates interleaved with every other call (branch wt-reach2)
    # ================================================================================================

  The history theorems above (`C11_histories_all`, …) run map updates only.  `Fmap.MixStep`
  (Model/FmapMixSpec.lean) = a map update of `MapOp2` addressed to some element, OR any step of the full histories
  `PCall` (Model/FparseHist.lean): the parse of an ARBITRARY text (accepted or rejected, either mode), or any
  extended API call `Forest.XCall` — append / prepend / insert_after / insert_before / detach / remove / replace /
  element_wrap / element_unwrap / clone_node / the setters / text_content_set / map calls as API calls / node
  creation / set_text_consolidation / remove_insignificant_whitespace / create_missing_prefixes /
  deduplicate_namespaces / clone_with_prefixes.  State: `PStore` (forest + interning tables + xml:id index).

  `C11_histories_interleaved`: for a set `T` of tracked elements, after ANY such history both views of every
  tracked element are what the abstract insertion-ordered maps predict FROM THE MAP STEPS ALONE
  (`specOps2 (famOf start) (mapOpsOf steps)`: the other steps do not occur in the prediction), the invariant holds,
  tracked elements stay elements — given `Fmap.mixOk T`, evaluated step by step in the state the step meets:

    * a map step satisfies its own side conditions `MapOp2.ok` (as in `C11_histories_all`), and `T` is closed
      under it: a move of an attached entry node (`appendAttachedNode`, `anyAppend (.entry …)`) between a tracked
      and an untracked element is excluded (the tracked view would depend on the untracked one) — track both;
    * another step is well-kinded (`PCall.wellKinded`, the one side condition of C04 — so it KEEPS `Forest.Inv`
      by `C04_step_full`; no hypothesis on the invariant is left) and `Fmap.touchesEntries f x c = false` for every
      tracked `x`.

  **Which calls can touch the entries of an element `x`.**  In the code: `remove` / `detach` of an entry node of `x`;
  `replace` of an entry node or by one;
  `append` / `insert_*` / `any_append` that moves an entry node of `x` away or an attribute / namespace node into
  `x`; the map calls on `x` as API calls; `create_missing_prefixes(n)` and `deduplicate_namespaces(n)` for an
  ancestor-or-self `n` of `x` (they add / remove namespace nodes below `n`); `remove` of `x` or of an ancestor
  (the view becomes empty: `x` is no longer live).  EVERY one of these names, as a written argument
  (`Forest.XCall.writeArgs`), a node of the parentless tree that holds `x`.  `touchesEntries f x c` is the decidable
  OVER-approximation "some written node argument of `c` lies in the parentless tree of `f` that holds `x`, or `x`
  is not live" (a parse never touches: it only adds a parentless tree on fresh handles; `clone_node` /
  `clone_with_prefixes` only READ their argument; node creation and `set_text_consolidation` name no node).
  So the theorem covers every call addressed to OTHER parentless trees (other documents, fragments, detached
  subtrees, clones), every creation, every parse.

  NOT covered (`touchesEntries = true` although the entries are in fact untouched): calls addressed to a node
  of the SAME parentless tree outside `x` and its entries — e.g. `append` of a text node to a sibling element.
  What is missing for them is a per-call frame lemma "the child list of every node that is neither the call's
  source parent nor its destination parent (nor inside a removed subtree) is unchanged" for all 30-odd
  constructors; the C05 frame theorems (`C05_pair_frame_*`) give this for the moves, per node shape, but
  not yet in the `get?`-of-the-parent form `abs` needs, and not for the composites.  The statement with the
  sharper predicate is otherwise the same (only `Fmap.abs_step_of_not_touches` would change). -/

namespace XotModel.Props
open XotModel Fmap

/-- ⟦C11_not_touching_frame⟧ One non-map step — a parse, or an extended API call — that does not
    `touchesEntries` of `x`, on a store with the invariant: the subtree at `x` (hence both views, and
    `is_element`) is exactly what it was, and the invariant holds again. -/
theorem C11_not_touching_frame (s : PStore) (hi : s.forest.Inv) (c : PCall) (hw : c.wellKinded) (x : Nat)
    (ht : touchesEntries s.forest x c = false) :
    (s.step c).forest.get? x = s.forest.get? x ∧
    (∀ k, abs k (s.step c).forest x = abs k s.forest x) ∧
    (∀ k, absNodes k (s.step c).forest x = absNodes k s.forest x) ∧
    (s.step c).forest.isElement x = s.forest.isElement x ∧
    (s.step c).forest.Inv := by
  have h := get?_step_of_not_touches hi c hw x ht
  refine ⟨h, fun k => abs_step_of_not_touches hi c hw x ht k, fun k => ?_,
    isElement_step_of_not_touches hi c hw x ht, PStore.fph_step_inv hi c hw⟩
  unfold absNodes; rw [h]

/-- What `touchesEntries = false` says. -/
theorem C11_touchesEntries_iff (f : Forest) (x : Nat) (c : PCall) :
    touchesEntries f x c = false ↔
      match c with
      | .parse _ _ => f.isLive x = true
      | .api y => ∃ r, rootOf? f x = some r ∧ ∀ a ∈ y.writeArgs, a ∉ HTree.handles r := by
  cases c with
  | parse m t => simp [touchesEntries]
  | api y =>
    simp only [touchesEntries]
    cases h : rootOf? f x with
    | none => simp
    | some r => simp

/-- The reference step is local: it changes the maps of `MapOp2.elems` only, and reads only those. -/
theorem C11_specStep_local (F G : Fam) (op : MapOp2) :
    (∀ x k, x ∉ op.elems → specStep F op x k = F x k) ∧
    ((∀ y ∈ op.elems, ∀ k, F y k = G y k) → ∀ x ∈ op.elems, ∀ k, specStep F op x k = specStep G op x k) :=
  ⟨fun x k hx => specStep_off F op x k hx,
   fun h x hx k => specStep_congr_on F G op x k h (h x hx k)⟩

/-- ⟦C11_histories_interleaved⟧ **Map updates interleaved with every other call.**  From any store with the
    invariant, along any history of map updates (`MapOp2`, addressed to any elements) and other steps (parses of
    arbitrary texts, extended API calls) satisfying `mixOk T`: the attribute view and the namespace view of every
    tracked element are the reference family's after the MAP steps of the history alone, keys are distinct,
    tracked elements stay elements, and the invariant holds at the end. -/
theorem C11_histories_interleaved (s : PStore) (hi : s.forest.Inv) (T : List Nat) (steps : List MixStep)
    (hok : mixOk T s steps) :
    (∀ x ∈ T, ∀ k, abs k (mixRun s steps).forest x = specOps2 (famOf s.forest) (mapOpsOf steps) x k) ∧
    (∀ x k, omWf (abs k (mixRun s steps).forest x)) ∧
    (∀ x ∈ T, (mixRun s steps).forest.isElement x = s.forest.isElement x) ∧
    (mixRun s steps).forest.Inv := by
  obtain ⟨h1, h2, h3⟩ := mix_history T steps s (famOf s.forest) hi (fun _ _ _ => rfl) hok
  exact ⟨h2, fun x k => unique_keys_of_inv _ h1 k x, h3, h1⟩

/-- ⟦C11_reachable_histories_interleaved_full⟧ … on every store a history of parses and API calls reaches from
    `Xot::new()`: no hypothesis on the invariant at all (`C04_reach_full`). -/
theorem C11_reachable_histories_interleaved_full (env : Env) (pre : List PCall) (hw : ∀ c ∈ pre, c.wellKinded)
    (T : List Nat) (steps : List MixStep) (hok : mixOk T ((PStore.init env).run pre) steps) :
    let s := (PStore.init env).run pre
    (∀ x ∈ T, ∀ k, abs k (mixRun s steps).forest x = specOps2 (famOf s.forest) (mapOpsOf steps) x k) ∧
    (∀ x k, omWf (abs k (mixRun s steps).forest x)) ∧
    (∀ x ∈ T, (mixRun s steps).forest.isElement x = s.forest.isElement x) ∧
    (mixRun s steps).forest.Inv :=
  C11_histories_interleaved _ (PStore.fph_run_inv pre (PStore.fph_init_inv env) hw) T steps hok

/-- A history of map updates only is an interleaved history (`runOps2` of `C11_histories_all`). -/
theorem C11_interleaved_extends (s : PStore) (ops : List MapOp2) :
    (mixRun s (ops.map .map)).forest = (runOps2 s.forest ops).1 ∧ mapOpsOf (ops.map .map) = ops := by
  induction ops generalizing s with
  | nil => exact ⟨rfl, rfl⟩
  | cons op ops ih =>
    obtain ⟨a, b⟩ := ih (MixStep.run s (.map op))
    refine ⟨?_, by simp only [List.map_cons, mapOpsOf, b]⟩
    show (mixRun (MixStep.run s (.map op)) (ops.map .map)).forest = _
    rw [a]; simp [runOps2, MixStep.run]

/-! ### Non-vacuity: two parsed documents, map updates on `r` and `c` of the first interleaved with calls on the
    second, node creation, parses (one of a fragment, one REJECTED), `create_missing_prefixes` on the second

  `<r a="1"><c/></r>` = document 0, `r` 1, `a` 2, `c` 3; `<q><p b="2"/></q>` = document 4, `q` 5, `p` 6, `b` 7.
  Names: 2 `r`, 3 `a`, 4 `c`, 5 `q`, 6 `p`, 7 `b`.  Tracked: `r` and `c` (the last step moves `c`'s attribute to
  `r`, so tracking `r` alone is refused). -/

def c11MixPre : List PCall :=
  [.parse .document "<r a=\"1\"><c/></r>".toList, .parse .document "<q><p b=\"2\"/></q>".toList]
def c11MixSteps : List MixStep := [
  .map (.setAttribute 1 5 ['v']),
  .other (.api (.newNode (.element 4))),
  .other (.api (.call (.append 5 9))),
  .map (.insert .namespaces 1 (.namespace 0 2)),
  .other (.parse .fragment "x<y/>".toList),
  .other (.api (.call (.remove 7))),
  .map (.setAttribute 3 7 ['w']),
  .other (.api (.createMissingPrefixes 4)),
  .other (.parse .document "<a><b></a>".toList),
  .map (.removeAttribute 1 3),
  .map (.appendAttachedNode .attributes 1 3 7)]

theorem c11MixPre_wellKinded : ∀ c ∈ c11MixPre, c.wellKinded := by decide
theorem c11Mix_ok : mixOk [1, 3] ((PStore.init Env.fresh).run c11MixPre) c11MixSteps := by decide +kernel

example : ¬ mixOk [1] ((PStore.init Env.fresh).run c11MixPre) c11MixSteps := by decide +kernel
example : mapOpsOf c11MixSteps = [.setAttribute 1 5 ['v'], .insert .namespaces 1 (.namespace 0 2),
    .setAttribute 3 7 ['w'], .removeAttribute 1 3, .appendAttachedNode .attributes 1 3 7] := rfl
/-- what the theorem says (the prediction uses the five map steps only) … -/
example : abs .attributes (mixRun ((PStore.init Env.fresh).run c11MixPre) c11MixSteps).forest 1 =
    specOps2 (famOf ((PStore.init Env.fresh).run c11MixPre).forest) (mapOpsOf c11MixSteps) 1 .attributes :=
  (C11_reachable_histories_interleaved_full Env.fresh c11MixPre c11MixPre_wellKinded [1, 3] c11MixSteps c11Mix_ok).1
    1 (by decide) .attributes
/-- … and what model and reference compute. -/
example :
    abs .attributes (mixRun ((PStore.init Env.fresh).run c11MixPre) c11MixSteps).forest 1 = [(5, .str ['v']), (7, .str ['w'])] ∧
    abs .namespaces (mixRun ((PStore.init Env.fresh).run c11MixPre) c11MixSteps).forest 1 = [(0, .ns 2)] ∧
    abs .attributes (mixRun ((PStore.init Env.fresh).run c11MixPre) c11MixSteps).forest 3 = [] ∧
    specOps2 (famOf ((PStore.init Env.fresh).run c11MixPre).forest) (mapOpsOf c11MixSteps) 1 .attributes =
      [(5, .str ['v']), (7, .str ['w'])] ∧
    (mixRun ((PStore.init Env.fresh).run c11MixPre) c11MixSteps).forest.allHandles =
      [0, 1, 10, 8, 14, 3, 4, 5, 6, 9, 11, 12, 13] := by decide +kernel

/-- The hypothesis is needed, and `touchesEntries` sees it: `remove` of the entry node 2, `remove` of `r`,
    `create_missing_prefixes` / `deduplicate_namespaces` on the document of `r`, `replace` of the entry node are
    flagged; after `remove(2)` the view of `r` has changed although no map step was made. -/
example :
    let f := ((PStore.init Env.fresh).run c11MixPre).forest
    touchesEntries f 1 (.api (.call (.remove 2))) = true ∧ touchesEntries f 1 (.api (.call (.remove 1))) = true ∧
    touchesEntries f 1 (.api (.call (.detach 2))) = true ∧ touchesEntries f 1 (.api (.call (.replace 2 7))) = true ∧
    touchesEntries f 1 (.api (.createMissingPrefixes 0)) = true ∧
    touchesEntries f 1 (.api (.deduplicateNamespaces 0)) = true ∧
    touchesEntries f 1 (.api (.call (.remove 7))) = false ∧ touchesEntries f 1 (.api (.createMissingPrefixes 4)) = false ∧
    touchesEntries f 1 (.api (.call (.cloneNode 1))) = false ∧ touchesEntries f 1 (.parse .document []) = false ∧
    abs .attributes (((PStore.init Env.fresh).run c11MixPre).step (.api (.call (.remove 2)))).forest 1 = [] ∧
    abs .attributes f 1 = [(3, .str ['1'])] := by decide +kernel

end XotModel.Props


/-! # ================================================================================================
    # INTERLEAVED HISTORIES, SHARP SIDE CONDITION (branch wt-framegen)
    # ================================================================================================

  `C11_histories_interleaved` refuses another step as soon as one of its written node arguments lies in the same
  parentless tree as a tracked element (`touchesEntries`).  `sharpTouches` (Model/FframeSpec.lean) asks, for the calls
  of the domain of `C05_frame_general` (the nine structural calls, clone_node, map insert / remove made as plain API
  calls, the value setters, node creation, set_text_consolidation) that answer `ok` on live arguments, only that neither the
  tracked element nor one of its children is in `Forest.XCall.writtenParents`, inside the removed subtree or inside
  the moved subtree; ANY extended call on live arguments that answers an error touches nothing (`C06_atomic_ext`: it
  has changed nothing); for every other step it is `touchesEntries`.  So appending a text node to a SIBLING of a
  tracked element, removing a cousin, or a call the crate refuses no longer blocks the prediction. -/

namespace XotModel.Props
open XotModel Fmap

/-- ⟦C11_histories_interleaved_sharp⟧ **Map updates interleaved with every other call, sharp side condition.**
    `C11_histories_interleaved` with `mixOkSharp` (`sharpTouches`) in the place of `mixOk` (`touchesEntries`). -/
theorem C11_histories_interleaved_sharp (s : PStore) (hi : s.forest.Inv) (T : List Nat) (steps : List MixStep)
    (hok : mixOkSharp T s steps) :
    (∀ x ∈ T, ∀ k, abs k (mixRun s steps).forest x = specOps2 (famOf s.forest) (mapOpsOf steps) x k) ∧
    (∀ x k, omWf (abs k (mixRun s steps).forest x)) ∧
    (∀ x ∈ T, (mixRun s steps).forest.isElement x = s.forest.isElement x) ∧
    (mixRun s steps).forest.Inv := by
  obtain ⟨h1, h2, h3⟩ := mix_history_sharp T steps s (famOf s.forest) hi (fun _ _ _ => rfl) hok
  exact ⟨h2, fun x k => unique_keys_of_inv _ h1 k x, h3, h1⟩

/-- ⟦C11_reachable_histories_interleaved_sharp_full⟧ … on every store a history of parses and API calls reaches
    from `Xot::new()`. -/
theorem C11_reachable_histories_interleaved_sharp_full (env : Env) (pre : List PCall)
    (hw : ∀ c ∈ pre, c.wellKinded) (T : List Nat) (steps : List MixStep)
    (hok : mixOkSharp T ((PStore.init env).run pre) steps) :
    let s := (PStore.init env).run pre
    (∀ x ∈ T, ∀ k, abs k (mixRun s steps).forest x = specOps2 (famOf s.forest) (mapOpsOf steps) x k) ∧
    (∀ x k, omWf (abs k (mixRun s steps).forest x)) ∧
    (∀ x ∈ T, (mixRun s steps).forest.isElement x = s.forest.isElement x) ∧
    (mixRun s steps).forest.Inv :=
  C11_histories_interleaved_sharp _ (PStore.fph_run_inv pre (PStore.fph_init_inv env) hw) T steps hok

/-- One step: what `sharpTouches = false` guarantees. -/
theorem C11_step_sharp {s : PStore} (hi : s.forest.Inv) (c : PCall) (hw : c.wellKinded) (x : Nat)
    (ht : sharpTouches s x c = false) :
    (∀ k, abs k (s.step c).forest x = abs k s.forest x) ∧
      (s.step c).forest.isElement x = s.forest.isElement x :=
  sharp_step hi c hw x ht

/-! ### Non-vacuity: `<r a="1"><c/><d/></r>` = document 0, `r` 1, `a` 2, `c` 3, `d` 4.  Tracked: `c`.  A new text node
    (handle 6; 5 is the attribute node the first map step creates) is APPENDED TO THE SIBLING `d`, then `d` is removed: both calls write inside the tree of `c`, so the
    coarse condition refuses the history; the sharp one accepts it, and the prediction from the two map steps alone
    is what the model computes.  The second step, `append(c, document)`, is REFUSED by the crate (invalidOperation):
    it names the tracked element itself and touches nothing. -/

def c11SharpPre : List PCall := [.parse .document "<r a=\"1\"><c/><d/></r>".toList]
def c11SharpSteps : List MixStep := [
  .map (.setAttribute 3 5 ['v']),
  .other (.api (.call (.append 3 0))),
  .other (.api (.newNode (.text ['t']))),
  .other (.api (.call (.append 4 6))),
  .map (.setAttribute 3 3 ['w']),
  .other (.api (.call (.remove 4)))]

theorem c11SharpPre_wellKinded : ∀ c ∈ c11SharpPre, c.wellKinded := by decide
theorem c11Sharp_ok : mixOkSharp [3] ((PStore.init Env.fresh).run c11SharpPre) c11SharpSteps := by decide +kernel

example : ¬ mixOk [3] ((PStore.init Env.fresh).run c11SharpPre) c11SharpSteps := by decide +kernel
example :
    let s := (((PStore.init Env.fresh).run c11SharpPre).step (.api (.newNode (.text ['t']))))
    touchesEntries s.forest 3 (.api (.call (.append 4 5))) = true ∧
    sharpTouches s 3 (.api (.call (.append 4 5))) = false ∧
    (Forest.XCall.call (.append 4 5)).writtenParents s.forest = [4, 5] ∧
    s.forest.kidHandles 1 = [2, 3, 4] ∧
    sharpTouches s 3 (.api (.call (.append 3 5))) = true ∧ sharpTouches s 3 (.api (.call (.remove 1))) = true ∧
    ((PCall.api (.call (.append 3 0))).run s).2 = .api (.err .invalidOperation) ∧
    touchesEntries s.forest 3 (.api (.call (.append 3 0))) = true ∧
    sharpTouches s 3 (.api (.call (.append 3 0))) = false := by
  decide +kernel
example : abs .attributes (mixRun ((PStore.init Env.fresh).run c11SharpPre) c11SharpSteps).forest 3 =
    specOps2 (famOf ((PStore.init Env.fresh).run c11SharpPre).forest) (mapOpsOf c11SharpSteps) 3 .attributes :=
  (C11_reachable_histories_interleaved_sharp_full Env.fresh c11SharpPre c11SharpPre_wellKinded [3] c11SharpSteps
    c11Sharp_ok).1 3 (by decide) .attributes
example :
    abs .attributes (mixRun ((PStore.init Env.fresh).run c11SharpPre) c11SharpSteps).forest 3 =
      [(5, .str ['v']), (3, .str ['w'])] ∧
    specOps2 (famOf ((PStore.init Env.fresh).run c11SharpPre).forest) (mapOpsOf c11SharpSteps) 3 .attributes =
      [(5, .str ['v']), (3, .str ['w'])] ∧
    (mixRun ((PStore.init Env.fresh).run c11SharpPre) c11SharpSteps).forest.kidHandles 1 = [2, 3] := by
  decide +kernel

end XotModel.Props
