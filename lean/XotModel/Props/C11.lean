/-
  C11 — Attribute and namespace views behave as insertion-ordered maps.
  Property theorems only.

  The model has a single definition of a view's content (`Forest.mapChildren`), shared by the
  read-only and the mutable view; that the two Rust copies agree with it and with each other is
  the correspondence check (`map_read`, both views, after every step).
-/
import XotModel.Lemmas.ForestBasic

namespace XotModel.Props
open XotModel

/-- Updating an existing key keeps every node, its position and its handle: only the value of
    the entry node changes. -/
theorem C11_insert_existing_keeps_nodes (f : Forest) (k : Forest.MapKind) (p : Nat) (entry : Value)
    (n : HTree) (he : f.isElement p = true) (hk : f.mapGetNode k p (Forest.entryKey entry) = some n) :
    (f.mapInsert k p entry).1.allHandles = f.allHandles ∧ (f.mapInsert k p entry).2 = .ok := by
  simp [Forest.mapInsert, he, hk, Forest.allHandles_setValue]

/-- Removing an absent key changes nothing. -/
theorem C11_remove_absent (f : Forest) (k : Forest.MapKind) (p key : Nat)
    (he : f.isElement p = true) (hk : f.mapGetNode k p key = none) :
    f.mapRemove k p key = (f, .ok) := by
  simp [Forest.mapRemove, he, hk]

/-- The element-only accessors panic on a non-element and change nothing (the documented panic). -/
theorem C11_nonelement_panics (f : Forest) (k : Forest.MapKind) (p : Nat) (entry : Value)
    (he : f.isElement p = false) : f.mapInsert k p entry = (f, .panic) := by
  simp [Forest.mapInsert, he]

end XotModel.Props
