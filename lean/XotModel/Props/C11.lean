/-
  C11 — Attribute and namespace views behave as insertion-ordered maps.
  Property theorems only.

  The model has a single definition of a view's content (`Forest.mapChildren`), shared by the
  read-only and the mutable view; that the two Rust copies agree with it and with each other is
  the correspondence check (`map_read`, both views, after every step).
-/
import XotModel.Lemmas.ForestBasic
import XotModel.Lemmas.FmapEntry

namespace XotModel.Props
open XotModel

/-- Updating an existing key keeps every node, its position and its handle: only the value of
    the entry node changes. -/
theorem C11_insert_existing_keeps_nodes (f : Forest) (k : Forest.MapKind) (p : Nat) (entry : Value)
    (n : HTree) (he : f.isElement p = true) (hk : f.mapGetNode k p (Forest.entryKey entry) = some n) :
    (f.mapInsert k p entry).1.allHandles = f.allHandles ∧ (f.mapInsert k p entry).2 = .ok := by
  simp [Forest.mapInsert, he, hk, Forest.allHandles_setValue]

/-- Removing an absent key changes nothing. -/
theorem C11_remove_absent (f : Forest) (k : Forest.MapKind) (p key : Nat)
    (he : f.isElement p = true) (hk : f.mapGetNode k p key = none) :
    f.mapRemove k p key = (f, .ok) := by
  simp [Forest.mapRemove, he, hk]

/-- The element-only accessors panic on a non-element and change nothing (the documented panic). -/
theorem C11_nonelement_panics (f : Forest) (k : Forest.MapKind) (p : Nat) (entry : Value)
    (he : f.isElement p = false) : f.mapInsert k p entry = (f, .panic) := by
  simp [Forest.mapInsert, he]

/-! ## Refinement to an insertion-ordered map

  `Fmap.abs k f e` (Model/FmapSpec.lean) is the attribute / namespace view of `e` as an
  association list `(key, payload)` in child order; `omInsert` / `omRemove` / `omClear` are the
  reference ordered map (existing key: value replaced in place; new key: appended at the end).
  All theorems below hold for every forest satisfying `Forest.Inv` and every live element. -/

open Fmap

/-- `insert(key, value)` (`set_attribute`, `set_namespace`): the view becomes `omInsert`; no
    panic, no error. -/
theorem C11_refine_insert (f : Forest) (hi : f.Inv) (k : Forest.MapKind) (e : Nat) (entry : Value)
    (he : f.isElement e = true) (hm : k.matches entry = true) :
    abs k (f.mapInsert k e entry).1 e = omInsert (abs k f e) (Forest.entryKey entry) (payloadOf entry) ∧
    (f.mapInsert k e entry).2 = .ok := by
  obtain ⟨nm, N, A, S, h⟩ := minv_of_inv f e hi he
  obtain ⟨hr, hok⟩ := mapInsert_refines h k entry hm
  exact ⟨hr.abs_same, hok⟩

/-- Updating an existing key keeps every entry node of the view in its position with its
    handle (`nodes()` is unchanged); a new key is carried by a fresh node placed last. -/
theorem C11_insert_nodes (f : Forest) (hi : f.Inv) (k : Forest.MapKind) (e : Nat) (entry : Value)
    (he : f.isElement e = true) (hm : k.matches entry = true) :
    (∀ n, f.mapGetNode k e (Forest.entryKey entry) = some n →
      absNodes k (f.mapInsert k e entry).1 e = absNodes k f e) ∧
    (f.mapGetNode k e (Forest.entryKey entry) = none →
      absNodes k (f.mapInsert k e entry).1 e = absNodes k f e ++ [f.next]) := by
  obtain ⟨nm, N, A, S, h⟩ := minv_of_inv f e hi he
  obtain ⟨s', st, _, _, h1, h2⟩ := mapInsert_step h k entry hm
  constructor
  · intro n hn; rw [st.nodes_same, h1 n hn, h.absNodes_eq]
  · intro hn; rw [st.nodes_same, h2 hn, h.absNodes_eq]

/-- `remove(key)` (`remove_attribute`, `remove_namespace`): the view becomes `omRemove`; the
    remaining entry nodes keep their relative order and handles. -/
theorem C11_refine_remove (f : Forest) (hi : f.Inv) (k : Forest.MapKind) (e key : Nat)
    (he : f.isElement e = true) :
    abs k (f.mapRemove k e key).1 e = omRemove (abs k f e) key ∧
    (f.mapRemove k e key).2 = .ok ∧
    (absNodes k (f.mapRemove k e key).1 e).Sublist (absNodes k f e) := by
  obtain ⟨nm, N, A, S, h⟩ := minv_of_inv f e hi he
  obtain ⟨s', st, hok, hmap, hsub⟩ := mapRemove_step h k key
  refine ⟨?_, hok, ?_⟩
  · rw [st.abs_same, hmap, h.abs_eq]
  · rw [st.nodes_same, h.absNodes_eq]; exact hsub

/-- `clear()`: the view becomes empty. -/
theorem C11_refine_clear (f : Forest) (hi : f.Inv) (k : Forest.MapKind) (e : Nat)
    (he : f.isElement e = true) :
    abs k (f.mapClear k e).1 e = omClear (abs k f e) ∧ (f.mapClear k e).2 = .ok := by
  obtain ⟨nm, N, A, S, h⟩ := minv_of_inv f e hi he
  obtain ⟨st, hok⟩ := mapClear_step h k
  exact ⟨by rw [st.abs_same]; rfl, hok⟩

/-- `append_attribute_node` / `append_namespace_node` of a detached (parentless) entry node
    `nd` with value `v`: the view becomes `omInsert`.  If the key exists, the EXISTING node keeps
    its place and handle, takes the new value and is the node returned, and `nd` stays where it
    was (parentless, same value).  Otherwise `nd` itself becomes the last entry and is returned. -/
theorem C11_refine_insert_node (f : Forest) (hi : f.Inv) (k : Forest.MapKind) (e nd : Nat) (v : Value)
    (he : f.isElement e = true) (hroot : f.isRoot nd = true) (hval : f.value? nd = some v)
    (hm : k.matches v = true) :
    abs k (f.appendEntryNode k e nd).1 e = omInsert (abs k f e) (Forest.entryKey v) (payloadOf v) ∧
    (f.appendEntryNode k e nd).2.1 = .ok ∧
    (∀ n, f.mapGetNode k e (Forest.entryKey v) = some n →
      (f.appendEntryNode k e nd).2.2 = n.handle ∧
      absNodes k (f.appendEntryNode k e nd).1 e = absNodes k f e ∧
      HTree.node nd v [] ∈ (f.appendEntryNode k e nd).1.roots) ∧
    (f.mapGetNode k e (Forest.entryKey v) = none →
      (f.appendEntryNode k e nd).2.2 = nd ∧
      absNodes k (f.appendEntryNode k e nd).1 e = absNodes k f e ++ [nd]) := by
  obtain ⟨nm, N, A, S, h⟩ := minv_of_inv f e hi he
  have hleaf := leafRoot_of_inv f hi k nd v hroot hval hm
  obtain ⟨s', roots0, st, hok, hmap, _, h1, h2⟩ := appendEntryNode_step h k nd v hm hleaf
  refine ⟨by rw [st.abs_same, hmap, h.abs_eq], hok, ?_, ?_⟩
  · intro n hn
    obtain ⟨a, b, c, _⟩ := h1 n hn
    exact ⟨a, by rw [st.nodes_same, b, h.absNodes_eq], c⟩
  · intro hn
    obtain ⟨a, b, _⟩ := h2 hn
    exact ⟨a, by rw [st.nodes_same, b, h.absNodes_eq]⟩

/-- `any_append` of an attribute / namespace node is `append_attribute_node` /
    `append_namespace_node`, so `C11_refine_insert_node` covers it. -/
theorem C11_any_append_entry (f : Forest) (k : Forest.MapKind) (e nd : Nat) (v : Value)
    (hval : f.value? nd = some v) (hm : k.matches v = true) :
    f.anyAppend e nd = f.appendEntryNode k e nd := anyAppend_entry f k e nd v hval hm

/-- An update of one view does not change the other view (content and nodes). -/
theorem C11_other_view_untouched (f : Forest) (hi : f.Inv) (k k' : Forest.MapKind) (e : Nat)
    (he : f.isElement e = true) (hk : k' ≠ k) :
    (∀ entry, k.matches entry = true →
      abs k' (f.mapInsert k e entry).1 e = abs k' f e ∧
      absNodes k' (f.mapInsert k e entry).1 e = absNodes k' f e) ∧
    (∀ key, abs k' (f.mapRemove k e key).1 e = abs k' f e ∧
      absNodes k' (f.mapRemove k e key).1 e = absNodes k' f e) ∧
    (abs k' (f.mapClear k e).1 e = abs k' f e ∧ absNodes k' (f.mapClear k e).1 e = absNodes k' f e) ∧
    (∀ nd v, f.isRoot nd = true → f.value? nd = some v → k.matches v = true →
      abs k' (f.appendEntryNode k e nd).1 e = abs k' f e ∧
      absNodes k' (f.appendEntryNode k e nd).1 e = absNodes k' f e) := by
  obtain ⟨nm, N, A, S, h⟩ := minv_of_inv f e hi he
  refine ⟨?_, ?_, ?_, ?_⟩
  · intro entry hm
    obtain ⟨s', st, _⟩ := mapInsert_step h k entry hm
    exact ⟨st.abs_other h hk, st.nodes_other h hk⟩
  · intro key
    obtain ⟨s', st, _⟩ := mapRemove_step h k key
    exact ⟨st.abs_other h hk, st.nodes_other h hk⟩
  · obtain ⟨st, _⟩ := mapClear_step h k
    exact ⟨st.abs_other h hk, st.nodes_other h hk⟩
  · intro nd v hroot hval hm
    obtain ⟨s', roots0, st, _⟩ :=
      appendEntryNode_step h k nd v hm (leafRoot_of_inv f hi k nd v hroot hval hm)
    exact ⟨st.abs_other h hk, st.nodes_other h hk⟩

/-- Frame.  After `insert` / `remove` / `clear` on view `k` of `e`, the forest is the old
    forest in which only the child list of `e` was replaced (`Fmap.withKids`: every other node,
    every other tree, every handle as before; `next` may have grown), and within that child
    list everything that is not an entry of view `k` — the normal children with their subtrees
    and the other view's nodes — is the same, in the same order. -/
theorem C11_children_untouched (f : Forest) (hi : f.Inv) (k : Forest.MapKind) (e : Nat)
    (he : f.isElement e = true) :
    ∃ nm ks, f.get? e = some (.node e (.element nm) ks) ∧
    ∀ f', ((∃ entry, k.matches entry = true ∧ f' = (f.mapInsert k e entry).1) ∨
           (∃ key, f' = (f.mapRemove k e key).1) ∨ f' = (f.mapClear k e).1) →
      ∃ ks', f' = { f with roots := withKids f.roots e ks', next := f'.next } ∧
        ks'.filter (fun c => !k.matches c.value) = ks.filter (fun c => !k.matches c.value) := by
  obtain ⟨nm, N, A, S, h⟩ := minv_of_inv f e hi he
  refine ⟨nm, _, h.loc.get, ?_⟩
  have fin : ∀ f' s', Step f f' e nm N A S k f.roots s' →
      ∃ ks', f' = { f with roots := withKids f.roots e ks', next := f'.next } ∧
        ks'.filter (fun c => !k.matches c.value) =
          (N ++ A ++ S).filter (fun c => !k.matches c.value) := by
    intro f' s' st
    obtain ⟨ks, ks', hg, hst, hfil⟩ := st.frame h
    rw [h.loc.get] at hg
    simp only [Option.some.injEq, HTree.node.injEq, true_and] at hg
    exact ⟨ks', hst, by rw [hfil, hg]⟩
  intro f' hf'
  rcases hf' with ⟨entry, hm, rfl⟩ | ⟨key, rfl⟩ | rfl
  · obtain ⟨s', st, _⟩ := mapInsert_step h k entry hm
    exact fin _ s' st
  · obtain ⟨s', st, _⟩ := mapRemove_step h k key
    exact fin _ s' st
  · obtain ⟨st, _⟩ := mapClear_step h k
    exact fin _ [] st

/-- Frame of the node-style insertion: as above, except that the detached node leaves the
    parentless trees when it is placed (it stays among them when its key already exists). -/
theorem C11_children_untouched_node (f : Forest) (hi : f.Inv) (k : Forest.MapKind) (e nd : Nat)
    (v : Value) (he : f.isElement e = true) (hroot : f.isRoot nd = true)
    (hval : f.value? nd = some v) (hm : k.matches v = true) :
    ∃ nm ks ks' roots0, f.get? e = some (.node e (.element nm) ks) ∧
      (roots0 = f.roots ∨ roots0 = rootsWithout f nd) ∧
      (f.appendEntryNode k e nd).1 = { f with roots := withKids roots0 e ks' } ∧
      ks'.filter (fun c => !k.matches c.value) = ks.filter (fun c => !k.matches c.value) := by
  obtain ⟨nm, N, A, S, h⟩ := minv_of_inv f e hi he
  have hleaf := leafRoot_of_inv f hi k nd v hroot hval hm
  obtain ⟨s', roots0, st, _, _, hnext, h1, h2⟩ := appendEntryNode_step h k nd v hm hleaf
  obtain ⟨ks, ks', hg, hst, hfil⟩ := st.frame h
  refine ⟨nm, ks, ks', roots0, hg, ?_, ?_, hfil⟩
  · cases hn : f.mapGetNode k e (Forest.entryKey v) with
    | none => exact Or.inr (h2 hn).2.2
    | some n => exact Or.inl (h1 n hn).2.2.2
  · rw [hnext] at hst
    exact hst

end XotModel.Props
