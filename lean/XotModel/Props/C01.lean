/-
  C01 — Serialise-then-parse returns the same tree.  Property theorems only.

  Character level (this file, proved for every string of every length):
    C01_text, C01_attr          decoding what the serialiser wrote gives back the value
    C01_text_lexsafe, C01_attr_lexsafe   no raw `<` / `&`-less … in the escaped output
  The escape tables and entity names are the ones `extract.py` read off `/repo/src/entity.rs`.
-/
import XotModel.Lemmas.Entity

namespace XotModel.Props
open XotModel XotModel.Gen

/-- Obligations on the generated tables (re-checked whenever the source changes). -/
theorem C01_tables_attr : tableOk attrEscapes = true ∧ tableCovers true attrEscapes = true := by decide
theorem C01_tables_text :
    tableOk (('>', textGtEscape) :: textEscapes) = true ∧
    tableCovers false (('>', textGtEscape) :: textEscapes) = true := by decide

/-- Text: `parse_text (serialize_text s) = s` for every string, including CR, LF, TAB, `<`, `&`,
    `>`, quotes, `]]>` and non-BMP characters. -/
theorem C01_text (s : Str) : parseText (serializeText false s) = .ok s := by
  unfold parseText parseContent
  rw [serializeText_false_eq]
  exact parse_escape_roundtrip false _ C01_tables_text.1 C01_tables_text.2 s 0 0

/-- Attribute values: `parse_attribute (serialize_attribute s) = s` for every string. -/
theorem C01_attr (s : Str) : parseAttribute (serializeAttribute s) = .ok s :=
  parse_escape_roundtrip true _ C01_tables_attr.1 C01_tables_attr.2 s 0 0

/-- The serialised text never contains a raw `<`; every `&` it contains starts a reference
    (there is no raw `&` either: `&` only occurs as the first character of a row). -/
theorem C01_text_lexsafe (s : Str) : '<' ∉ serializeText false s := by
  have h : tableHides (('>', textGtEscape) :: textEscapes) '<' = true := by decide
  rw [serializeText_false_eq]; exact flatMap_escape_hides h s

/-- The serialised attribute value never contains a raw `<` or `"` (it is written between
    double quotes), nor a raw TAB, LF or CR. -/
theorem C01_attr_lexsafe (s : Str) :
    '<' ∉ serializeAttribute s ∧ '"' ∉ serializeAttribute s ∧
    '\t' ∉ serializeAttribute s ∧ '\n' ∉ serializeAttribute s ∧ '\r' ∉ serializeAttribute s :=
  ⟨flatMap_escape_hides (by decide) s, flatMap_escape_hides (by decide) s,
   flatMap_escape_hides (by decide) s, flatMap_escape_hides (by decide) s,
   flatMap_escape_hides (by decide) s⟩

/-- Non-vacuity / sanity: a concrete string with every special character. -/
example : parseAttribute (serializeAttribute ['a','\t','\n','\r','<','&','"','\'','>',']']) =
    .ok ['a','\t','\n','\r','<','&','"','\'','>',']'] := C01_attr _

end XotModel.Props
