/-
  C01 — Serialise-then-parse returns the same tree.  Property theorems only.

  Character level (this file, proved for every string of every length):
    C01_text, C01_attr          decoding what the serialiser wrote gives back the value
    C01_text_lexsafe, C01_attr_lexsafe   no raw `<` / `&`-less … in the escaped output
  The escape tables and entity names are the ones `extract.py` read off `/repo/src/entity.rs`.

  Tree level, the serialiser's side:
    C01_serialised_is_rendering (+ _ok, _conv, _fails_iff, _at, _representable)
        `to_string` of a tree IS `renderTokens (serTokens tree)` (Model/SerTokens.lean), one
        equation covering success, the converse and the errors
    C01_rendering_lexok, C01_rendering_lexok_fragment
        for a `Representable` / `RepresentableFragment` tree the token list satisfies `LexOK`
    C01_rendering_decodes, C01_value_spelling
        values and text decode back / as well-spelled `Piece` lists
    C01_serialises   `to_string` succeeds iff `namesWritable` (the serialiser's MissingPrefix checks)
  Tree level, the round trip (Lemmas/RoundTrip*.lean; `spellTop` = the tree as a spelling `NSNode`):
    C01_spelling_tokens / _denotes / _well     lemmas A / B / C: tokens of the spelling = serTokens;
        it denotes (XML-Namespaces scoping on strings) what the tree reads back as; the builder admits it
    C01_build, C01_build_fragment      builder on serTokens returns the ORIGINAL tree, tables unchanged
    C01_main, C01_main_fragment        serialise, tokenize (any tokenizer meeting `LexCanon`), build:
        the reparsed document reads back as the abstract document of the original
    C01_main_identical (+ _fragment_identical, _writable), C01_main_deep_equal (+ _fragment_…)
        the reparsed tree IS the original tree (ids, declarations, prefixes), hence deep_equal
    C01_roundtrip, C01_roundtrip_identical, _fragment, _fragment_identical, _writable
        THE CLOSED LOOP on strings: `parseString` (reference tokenizer, Model/Lex.lean, feeding the builder)
        of `to_string tree` returns the tree; no tokenizer hypothesis (C01_lexCanon_document / _fragment)
  The `LexCanon`-parametric versions (C01_main*) hold for ANY tokenizer meeting the contract.
-/
import XotModel.Lemmas.Entity
import XotModel.Lemmas.SerTokensLexTop
import XotModel.Lemmas.SerTokensDecode
import XotModel.Lemmas.SerTokensPieces
import XotModel.Lemmas.RoundTripTokens
import XotModel.Lemmas.RoundTripEncode
import XotModel.Lemmas.RoundTripSerialises
import XotModel.Lemmas.RoundTripDeepEqual
import XotModel.Lemmas.LexCanon
import XotModel.Model.ParseString
import XotModel.Props.C02

namespace XotModel.Props
open XotModel XotModel.Gen

/-- Obligations on the generated tables (re-checked whenever the source changes). -/
theorem C01_tables_attr : tableOk attrEscapes = true ∧ tableCovers true attrEscapes = true := by decide
theorem C01_tables_text :
    tableOk (('>', textGtEscape) :: textEscapes) = true ∧
    tableCovers false (('>', textGtEscape) :: textEscapes) = true := by decide

/-- Text: `parse_text (serialize_text s) = s` for every string, including CR, LF, TAB, `<`, `&`,
    `>`, quotes, `]]>` and non-BMP characters. -/
theorem C01_text (s : Str) : parseText (serializeText false s) = .ok s := by
  unfold parseText parseContent
  rw [serializeText_false_eq]
  exact parse_escape_roundtrip false _ C01_tables_text.1 C01_tables_text.2 s 0 0

/-- Attribute values: `parse_attribute (serialize_attribute s) = s` for every string. -/
theorem C01_attr (s : Str) : parseAttribute (serializeAttribute s) = .ok s :=
  parse_escape_roundtrip true _ C01_tables_attr.1 C01_tables_attr.2 s 0 0

/-- The serialised text never contains a raw `<`; every `&` it contains starts a reference
    (there is no raw `&` either: `&` only occurs as the first character of a row). -/
theorem C01_text_lexsafe (s : Str) : '<' ∉ serializeText false s := by
  have h : tableHides (('>', textGtEscape) :: textEscapes) '<' = true := by decide
  rw [serializeText_false_eq]; exact flatMap_escape_hides h s

/-- The serialised attribute value never contains a raw `<` or `"` (it is written between
    double quotes), nor a raw TAB, LF or CR. -/
theorem C01_attr_lexsafe (s : Str) :
    '<' ∉ serializeAttribute s ∧ '"' ∉ serializeAttribute s ∧
    '\t' ∉ serializeAttribute s ∧ '\n' ∉ serializeAttribute s ∧ '\r' ∉ serializeAttribute s :=
  ⟨flatMap_escape_hides (by decide) s, flatMap_escape_hides (by decide) s,
   flatMap_escape_hides (by decide) s, flatMap_escape_hides (by decide) s,
   flatMap_escape_hides (by decide) s⟩

/-- Non-vacuity / sanity: a concrete string with every special character. -/
example : parseAttribute (serializeAttribute ['a','\t','\n','\r','<','&','"','\'','>',']']) =
    .ok ['a','\t','\n','\r','<','&','"','\'','>',']'] := C01_attr _

/-! ### Tree level: the serialised string is the canonical rendering of `serTokens` -/

/-- `Xot::to_string(root)` is the canonical rendering (`renderTokens`, Model/TokenRender.lean) of
    the token list `serTokensTop` reads off the tree, and fails exactly where that fails, with
    the same error; it never panics.  For every table set in which `xml` and the prefixes the
    tree declares have a non-empty spelling (`declsNamed`; implied by `Representable`; needed:
    see the counterexample below), every tree, sound or not. -/
theorem C01_serialised_is_rendering (env : Env) (t : Tree) (hx : env.prefixStr Env.xmlPrefix ≠ [])
    (ht : t.allNodes (declsNamed env) = true) :
    toXmlString env t [] =
      (match serTokensTop env t with
       | .ok ts => .ok (renderTokens ts)
       | .error e => .err e) :=
  toXmlString_serTokensTop env t hx ht

theorem C01_serialised_is_rendering_ok (env : Env) (t : Tree) (hx : env.prefixStr Env.xmlPrefix ≠ [])
    (ht : t.allNodes (declsNamed env) = true) (s : Str) (h : toXmlString env t [] = .ok s) :
    ∃ ts, serTokensTop env t = .ok ts ∧ s = renderTokens ts := by
  rw [C01_serialised_is_rendering env t hx ht] at h
  cases hts : serTokensTop env t with
  | ok ts => rw [hts] at h; cases h; exact ⟨ts, rfl, rfl⟩
  | error e => rw [hts] at h; cases h

theorem C01_serialised_is_rendering_conv (env : Env) (t : Tree) (hx : env.prefixStr Env.xmlPrefix ≠ [])
    (ht : t.allNodes (declsNamed env) = true) (ts : List Token) (h : serTokensTop env t = .ok ts) :
    toXmlString env t [] = .ok (renderTokens ts) := by
  rw [C01_serialised_is_rendering env t hx ht, h]

theorem C01_serialised_fails_iff (env : Env) (t : Tree) (hx : env.prefixStr Env.xmlPrefix ≠ [])
    (ht : t.allNodes (declsNamed env) = true) (e : XotError) :
    toXmlString env t [] = .err e ↔ serTokensTop env t = .error e := by
  rw [C01_serialised_is_rendering env t hx ht]
  cases serTokensTop env t <;> simp

/-- Any start node, `unescaped_gt` on or off (no CDATA-section elements): `serialize_xml_string`
    is the rendering of `serTokensAt`; a start element also writes the declarations in scope. -/
theorem C01_serialised_is_rendering_at (env : Env) (pr : TokenParams) (t : Tree) (start : Path)
    (hcd : pr.cdataSectionElements = []) (hx : env.prefixStr Env.xmlPrefix ≠ [])
    (ht : t.allNodes (declsNamed env) = true) :
    serializeString env pr t start =
      (match serTokensAt env pr.unescapedGt t start with
       | .ok ts => .ok (renderTokens ts)
       | .error e => .err e) :=
  serializeString_serTokensAt env pr t hcd start hx ht

/-- On the round-trip domain no side condition is left. -/
theorem C01_serialised_is_rendering_representable (env : Env) (t : Tree)
    (hr : RepresentableFragment env t = true) :
    toXmlString env t [] =
      (match serTokensTop env t with
       | .ok ts => .ok (renderTokens ts)
       | .error e => .err e) := by
  obtain ⟨henv, _, hn, _⟩ := (representableFragment_iff env t).mp hr
  apply C01_serialised_is_rendering env t
  · rw [envOK_xmlPrefix env henv]; simp
  · exact nodeOK_declsNamed env t hn

/-- The tokens of a representable document whose serialisation succeeds satisfy the side
    conditions of the tokenizer contract in document mode: NCName prefixes and local names,
    attribute values without `<` and `"`, non-empty text without `<` and `]]>`, XML Chars only,
    comment and PI conditions, attributes only inside start tags, balanced tags, no two text
    tokens in a row, comments / PIs around exactly one top-level element. -/
theorem C01_rendering_lexok (env : Env) (t : Tree) (hr : Representable env t = true)
    (ts : List Token) (h : serTokensTop env t = .ok ts) : LexOK false ts = true :=
  lexOK_document env t hr ts h

/-- Fragment mode (`parse_fragment`): any well-formed content under the document node. -/
theorem C01_rendering_lexok_fragment (env : Env) (t : Tree) (hr : RepresentableFragment env t = true)
    (ts : List Token) (h : serTokensTop env t = .ok ts) : LexOK true ts = true :=
  lexOK_fragment env t hr ts h

/-- Every attribute token (namespace declarations included) carries `serialize_attribute x` for a
    string `x` and `parse_attribute` gives `x` back; every text token carries
    `serialize_text x` and `parse_text` gives `x` back (C01_attr, C01_text inside the token list;
    no side condition). -/
theorem C01_rendering_decodes (env : Env) (t : Tree) (ts : List Token)
    (h : serTokensTop env t = .ok ts) : ∀ k ∈ ts, k.Decodes :=
  serTokensTop_decodes env t ts h

/-- The escaped strings as spellings-as-data (`Piece`, the vocabulary of the builder theorems
    C02_spelled*): one piece per character — literal, predefined entity or upper-case hexadecimal
    reference — rendering to what the serialiser writes, denoting the value, well spelled. -/
theorem C01_value_spelling (v : Str) :
    (renderPieces (attrPieces v) = serializeAttribute v ∧ valueOf true (attrPieces v) = v ∧
      WellSpelled (attrPieces v)) ∧
    (renderPieces (textPieces v) = serializeText false v ∧ valueOf false (textPieces v) = v ∧
      WellSpelled (textPieces v)) :=
  ⟨⟨renderPieces_attrPieces v, valueOf_attrPieces v, wellSpelled_attrPieces v⟩,
   ⟨renderPieces_textPieces v, valueOf_textPieces v, wellSpelled_textPieces v⟩⟩

/-! Non-vacuity: a document with a default namespace, a prefixed child, an attribute value
    `<&"` TAB, a text `]]>` CR, a comment and two PIs. -/

def c01Env : Env where
  namespaces := [[], xmlNamespaceUri, ['u', 'r', 'n', ':', 'a'], ['u', 'r', 'n', ':', 'b']]
  prefixes := [[], ['x', 'm', 'l'], ['p']]
  names := [(['s', 'p', 'a', 'c', 'e'], 1), (['i', 'd'], 1), (['r'], 2), (['c'], 3), (['k'], 0), (['t'], 0)]

def c01Doc : Tree :=
  .node .document [
    .node (.comment ['h', 'i']) [],
    .node (.element 2) [
      .node (.namespace 0 2) [], .node (.namespace 2 3) [],
      .node (.attribute 4 ['<', '&', '"', '\t']) [],
      .node (.element 3) [],
      .node (.text [']', ']', '>', '\r']) [],
      .node (.pi 5 (some ['d'])) []],
    .node (.pi 5 none) []]

/-- `<!--hi--><r xmlns="urn:a" xmlns:p="urn:b" k="&lt;&amp;&quot;&#x9;"><p:c/>]]&gt;&#xD;<?t d?></r><?t?>` -/
def c01Text : Str :=
  "<!--hi--><r xmlns=\"urn:a\" xmlns:p=\"urn:b\" k=\"&lt;&amp;&quot;&#x9;\"><p:c/>]]&gt;&#xD;<?t d?></r><?t?>".toList

example : Representable c01Env c01Doc = true := by decide
example : toXmlString c01Env c01Doc [] = .ok c01Text := by decide
example : ∃ ts, serTokensTop c01Env c01Doc = .ok ts ∧ renderTokens ts = c01Text ∧ LexOK false ts = true := by
  obtain ⟨ts, h1, h2⟩ := C01_serialised_is_rendering_ok c01Env c01Doc (by decide) (by decide) c01Text
    (by decide)
  exact ⟨ts, h1, h2.symm, C01_rendering_lexok c01Env c01Doc (by decide) ts h1⟩

/-- The side condition of `C01_serialised_is_rendering` is needed: with a declared prefix whose
    spelling is empty (impossible for the tables of a real `Xot`: ids are a one-to-one interning,
    C08) the serialiser writes `<:a xmlns:="u"/>`, which is no canonical rendering of
    (prefix, local name) tokens. -/
example :
    let env : Env := { namespaces := [[], xmlNamespaceUri, ['u']], prefixes := [[], ['x', 'm', 'l'], []],
                       names := [([], 0), ([], 0), (['a'], 2)] }
    let t : Tree := .node .document [.node (.element 2) [.node (.namespace 2 2) []]]
    toXmlString env t [] = .ok "<:a xmlns:=\"u\"/>".toList ∧
    (serTokensTop env t).toOption.map renderTokens = some "<a xmlns:=\"u\"/>".toList := by
  decide

/-! ### Tree level: the round trip

The three thirds glued.  `spellTop env t` (Lemmas/RoundTripDefs.lean) is the SPELLING of the tree: the
`NSNode`s (vocabulary of C02_spelled_ns) with the serialiser's prefix choices, one `Piece` per character.
  A  `C01_spelling_tokens`   its tokens are the tokens `to_string` renders (`serTokensTop`)
  B  `C01_spelling_denotes`  what it denotes by XML-Namespaces scoping over the declarations as written
                             (strings) is what the ORIGINAL tree reads back as through its tables
                             (the bridge from the id-level scoping of C10 to strings)
  C  `C01_spelling_well`     the builder admits it (`WellNsDoc`)
`LexCanon` is the tokenizer contract: on the canonical rendering of a `LexOK` token list the
tokenizer returns that list up to byte positions (to be discharged by the reference tokenizer). -/

/-- A: the tokens of the spelling are the serialiser's tokens (every tree, sound or not). -/
theorem C01_spelling_tokens (env : Env) (t : Tree) (ts : List Token) (h : serTokensTop env t = .ok ts) :
    NSNode.tokens.tokensList (spellTop env t) = ts :=
  spell_tokens env t ts h

/-- B: the spelling denotes, in the base scope, the abstract document the tree reads back as. -/
theorem C01_spelling_denotes (env : Env) (t : Tree) (hr : RepresentableFragment env t = true)
    (ts : List Token) (h : serTokensTop env t = .ok ts) :
    decodeNs env t.kids = some (NSNode.denote.denoteList baseScope (spellTop env t)) := by
  obtain ⟨ks, rfl, hf⟩ := topFacts hr h
  exact (spellTop_denote hf).1

/-- C: the builder admits the spelling. -/
theorem C01_spelling_well (env : Env) (t : Tree) (hr : RepresentableFragment env t = true)
    (ts : List Token) (h : serTokensTop env t = .ok ts) : WellNsDoc (spellTop env t) := by
  obtain ⟨ks, rfl, hf⟩ := topFacts hr h
  exact spellTop_well hf

/-- `envOK` (part of `Representable`) implies the hypothesis of the builder theorems. -/
theorem C01_envBaseNs (env : Env) (h : envOK env = true) : EnvBaseNs env :=
  (envFacts_of_envOK h).envBaseNs

theorem C01_serialised_ok_representable {env : Env} {t : Tree} (hr : RepresentableFragment env t = true) {s : Str}
    (hs : toXmlString env t [] = .ok s) : ∃ ts, serTokensTop env t = .ok ts ∧ s = renderTokens ts := by
  rw [C01_serialised_is_rendering_representable env t hr] at hs
  cases hts : serTokensTop env t with
  | ok ts => rw [hts] at hs; cases hs; exact ⟨ts, rfl, rfl⟩
  | error e => rw [hts] at hs; cases hs

/-- **C01_main** (`parse`): for every representable document whose default serialisation succeeds
    (every namespaced name has a usable prefix in scope), and every tokenizer meeting the contract:
    the serialised text is tokenized without error, the builder accepts the tokens, and the reparsed
    document reads back — through the interning tables the parse leaves — as exactly the abstract
    document the original tree reads back as: node kinds and order, expanded names (namespace URI
    and local name as strings), per element the declarations (prefix, URI) in order, the
    attributes in order with their values, text, comments, processing instructions. -/
theorem C01_main (env : Env) (t : Tree) (hr : Representable env t = true)
    (lex : Str → List Token × Option Nat) (hlex : LexCanon false lex) (s : Str)
    (hs : toXmlString env t [] = .ok s) :
    ∃ ts p, lex s = (ts, none) ∧ build .document (strLen s) env ts none = .ok p ∧
      p.tree.value = .document ∧ decodeNs p.env p.tree.kids = decodeNs env t.kids := by
  have hr' := hr
  simp only [Representable, Bool.and_eq_true] at hr'
  obtain ⟨hfrag, hsingle⟩ := hr'
  obtain ⟨ts0, hser, rfl⟩ := C01_serialised_ok_representable hfrag hs
  obtain ⟨ts, hl, her⟩ := hlex ts0 (C01_rendering_lexok env t hr ts0 hser)
  obtain ⟨ks, rfl, hf⟩ := topFacts hfrag hser
  have hA := spell_tokens env _ ts0 hser
  obtain ⟨p0, hb, hv, hd⟩ := C02_spelled_ns_document hf.he.envBaseNs (strLen (renderTokens ts0))
    (spellTop env (.node .document ks)) (spellTop_well hf) (spellTop_abstractTop hf hsingle)
  rw [hA] at hb
  obtain ⟨p, hp, h1, h2, _⟩ := C02_positions_irrelevant_ok .document _ (strLen (renderTokens ts0)) env ts0 ts
    her.1.symm her.2 p0 hb
  refine ⟨ts, p, hl, hp, by rw [h1]; exact hv, ?_⟩
  rw [h1, h2, hd]
  exact (spellTop_denote hf).1.symm

/-- **C01_main_fragment** (`parse_fragment`): the same for any well-formed content under the
    document node (several top-level elements, top-level text). -/
theorem C01_main_fragment (env : Env) (t : Tree) (hr : RepresentableFragment env t = true)
    (lex : Str → List Token × Option Nat) (hlex : LexCanon true lex) (s : Str)
    (hs : toXmlString env t [] = .ok s) :
    ∃ ts p, lex s = (ts, none) ∧ build .fragment (strLen s) env ts none = .ok p ∧
      p.tree.value = .document ∧ decodeNs p.env p.tree.kids = decodeNs env t.kids := by
  obtain ⟨ts0, hser, rfl⟩ := C01_serialised_ok_representable hr hs
  obtain ⟨ts, hl, her⟩ := hlex ts0 (C01_rendering_lexok_fragment env t hr ts0 hser)
  obtain ⟨ks, rfl, hf⟩ := topFacts hr hser
  have hA := spell_tokens env _ ts0 hser
  obtain ⟨p0, hb, hv, hd⟩ := C02_spelled_ns_fragment hf.he.envBaseNs (strLen (renderTokens ts0))
    (spellTop env (.node .document ks)) (spellTop_well hf)
  rw [hA] at hb
  obtain ⟨p, hp, h1, h2, _⟩ := C02_positions_irrelevant_ok .fragment _ (strLen (renderTokens ts0)) env ts0 ts
    her.1.symm her.2 p0 hb
  refine ⟨ts, p, hl, hp, by rw [h1]; exact hv, ?_⟩
  rw [h1, h2, hd]
  exact (spellTop_denote hf).1.symm

/-! ### Strengthening: the reparsed tree IS the original tree

Every string of `t` is interned in `env` already (an id outside the tables cannot occur in a
`Representable` tree the serialiser accepts), so reparsing into the same `Xot` interns nothing and
every id comes back: literal equality of the id trees, declarations and prefixes included. -/

/-- Encoding the abstract document `t` reads back as (ids interned in document order, as the
    parser does) gives `t` back and leaves the tables alone. -/
theorem C01_encode_decode (env : Env) (t : Tree) (hr : RepresentableFragment env t = true)
    (ts : List Token) (h : serTokensTop env t = .ok ts) :
    NPNode.encode.encodeList env (NSNode.denote.denoteList baseScope (spellTop env t)) = (env, t.kids) := by
  obtain ⟨ks, rfl, hf⟩ := topFacts hr h
  exact spellTop_encode hf

/-- **C01_build** (`parse` without the tokenizer): the builder, run on the tokens `to_string` renders
    (any source length, any byte positions: `C02_positions_irrelevant`), returns the original tree
    and leaves the interning tables unchanged. -/
theorem C01_build (env : Env) (t : Tree) (hr : Representable env t = true) (ts : List Token)
    (h : serTokensTop env t = .ok ts) (len : Nat) :
    ∃ p, build .document len env ts none = .ok p ∧ p.tree = t ∧ p.env = env := by
  simp only [Representable, Bool.and_eq_true] at hr
  obtain ⟨hfrag, hsingle⟩ := hr
  obtain ⟨ks, rfl, hf⟩ := topFacts hfrag h
  obtain ⟨p0, hb, ht, he⟩ := build_document_spelled_ns hf.he.envBaseNs len
    (spellTop env (.node .document ks)) (spellTop_well hf)
    (wellFormedTop_of_abstractNs (spellTop_abstractTop hf hsingle))
  rw [spell_tokens env _ ts h] at hb
  rw [spellTop_encode hf] at ht he
  exact ⟨p0, hb, ht, he⟩

/-- `parse_fragment` without the tokenizer. -/
theorem C01_build_fragment (env : Env) (t : Tree) (hr : RepresentableFragment env t = true)
    (ts : List Token) (h : serTokensTop env t = .ok ts) (len : Nat) :
    ∃ p, build .fragment len env ts none = .ok p ∧ p.tree = t ∧ p.env = env := by
  obtain ⟨ks, rfl, hf⟩ := topFacts hr h
  obtain ⟨p0, hb, ht, he⟩ := build_fragment_spelled_ns hf.he.envBaseNs len
    (spellTop env (.node .document ks)) (spellTop_well hf)
  rw [spell_tokens env _ ts h] at hb
  rw [spellTop_encode hf] at ht he
  exact ⟨p0, hb, ht, he⟩

/-- **C01_main, strong form** (`parse`): the reparsed tree is the original tree, node for node and id
    for id — names, attribute sets and values, character data, comments, PIs, namespace declarations
    on the same elements with the same prefix-to-URI bindings — and the interning tables are
    unchanged. -/
theorem C01_main_identical (env : Env) (t : Tree) (hr : Representable env t = true)
    (lex : Str → List Token × Option Nat) (hlex : LexCanon false lex) (s : Str)
    (hs : toXmlString env t [] = .ok s) :
    ∃ ts p, lex s = (ts, none) ∧ build .document (strLen s) env ts none = .ok p ∧
      p.tree = t ∧ p.env = env := by
  have hfrag : RepresentableFragment env t = true := by
    simp only [Representable, Bool.and_eq_true] at hr; exact hr.1
  obtain ⟨ts0, hser, rfl⟩ := C01_serialised_ok_representable hfrag hs
  obtain ⟨ts, hl, her⟩ := hlex ts0 (C01_rendering_lexok env t hr ts0 hser)
  obtain ⟨p0, hb, ht, he⟩ := C01_build env t hr ts0 hser (strLen (renderTokens ts0))
  obtain ⟨p, hp, h1, h2, _⟩ := C02_positions_irrelevant_ok .document _ (strLen (renderTokens ts0)) env ts0 ts
    her.1.symm her.2 p0 hb
  exact ⟨ts, p, hl, hp, by rw [h1, ht], by rw [h2, he]⟩

/-- **C01_main_fragment, strong form** (`parse_fragment`). -/
theorem C01_main_fragment_identical (env : Env) (t : Tree) (hr : RepresentableFragment env t = true)
    (lex : Str → List Token × Option Nat) (hlex : LexCanon true lex) (s : Str)
    (hs : toXmlString env t [] = .ok s) :
    ∃ ts p, lex s = (ts, none) ∧ build .fragment (strLen s) env ts none = .ok p ∧
      p.tree = t ∧ p.env = env := by
  obtain ⟨ts0, hser, rfl⟩ := C01_serialised_ok_representable hr hs
  obtain ⟨ts, hl, her⟩ := hlex ts0 (C01_rendering_lexok_fragment env t hr ts0 hser)
  obtain ⟨p0, hb, ht, he⟩ := C01_build_fragment env t hr ts0 hser (strLen (renderTokens ts0))
  obtain ⟨p, hp, h1, h2, _⟩ := C02_positions_irrelevant_ok .fragment _ (strLen (renderTokens ts0)) env ts0 ts
    her.1.symm her.2 p0 hb
  exact ⟨ts, p, hl, hp, by rw [h1, ht], by rw [h2, he]⟩

/-! Non-vacuity (the document `c01Doc` above: default namespace, prefixed child, attribute value with
    `<&"` TAB, text `]]>` CR, comment, PIs): the hypotheses hold by `decide`; it reads back as the
    abstract document below; the builder on its tokens returns it; so does `parse` with any tokenizer
    meeting the contract. -/

example : decodeNs c01Env c01Doc.kids = some
    [.comment ['h', 'i'],
     .elem ['u', 'r', 'n', ':', 'a'] ['r'] [([], ['u', 'r', 'n', ':', 'a']), (['p'], ['u', 'r', 'n', ':', 'b'])]
       [(([], ['k']), ['<', '&', '"', '\t'])]
       [.elem ['u', 'r', 'n', ':', 'b'] ['c'] [] [] [], .text [']', ']', '>', '\r'], .pi ['t'] (some ['d'])],
     .pi ['t'] none] := rfl

example : ∃ ts p, serTokensTop c01Env c01Doc = .ok ts ∧ renderTokens ts = c01Text ∧
    build .document (strLen c01Text) c01Env ts none = .ok p ∧ p.tree = c01Doc ∧ p.env = c01Env := by
  obtain ⟨ts, h1, h2⟩ := C01_serialised_is_rendering_ok c01Env c01Doc (by decide) (by decide) c01Text
    (by decide)
  obtain ⟨p, h3, h4, h5⟩ := C01_build c01Env c01Doc (by decide) ts h1 (strLen c01Text)
  exact ⟨ts, p, h1, h2.symm, h3, h4, h5⟩

example (lex : Str → List Token × Option Nat) (hlex : LexCanon false lex) :
    ∃ ts p, lex c01Text = (ts, none) ∧ build .document (strLen c01Text) c01Env ts none = .ok p ∧
      p.tree = c01Doc ∧ p.env = c01Env :=
  C01_main_identical c01Env c01Doc (by decide) lex hlex c01Text (by decide)

example : WellNsDoc (spellTop c01Env c01Doc) := by
  obtain ⟨ts, h1, _⟩ := C01_serialised_is_rendering_ok c01Env c01Doc (by decide) (by decide) c01Text
    (by decide)
  exact C01_spelling_well c01Env c01Doc (by decide) ts h1

/-! ### When does serialisation succeed? -/

/-- **C01_serialises**: for a representable document or fragment, `to_string` succeeds exactly when
    every namespaced name has a usable prefix in scope — `namesWritable` (Model/Scope.lean), the
    serialiser's own `MissingPrefix` checks run over the tree with the name stack
    `XmlSerializer::new` builds: no element in no namespace under a default namespace,
    `element_fullname` and every `attribute_fullname` answer (C10_error_element / _attribute say when;
    `create_missing_prefixes` establishes it: C10_repair_document_writable).  The hypothesis
    `toXmlString … = .ok s` of C01_main is therefore this decidable condition on the tree. -/
theorem C01_serialises (env : Env) (t : Tree) (hr : RepresentableFragment env t = true) :
    (∃ s, toXmlString env t [] = .ok s) ↔ namesWritable env t [] = some true := by
  rw [← serTokensTop_ok_iff hr, C01_serialised_is_rendering_representable env t hr]
  cases serTokensTop env t <;> simp [exceptIsOk]

/-- C01_main with the decidable condition in place of "serialisation succeeds". -/
theorem C01_main_writable (env : Env) (t : Tree) (hr : Representable env t = true)
    (hw : namesWritable env t [] = some true)
    (lex : Str → List Token × Option Nat) (hlex : LexCanon false lex) :
    ∃ s ts p, toXmlString env t [] = .ok s ∧ lex s = (ts, none) ∧
      build .document (strLen s) env ts none = .ok p ∧ p.tree = t ∧ p.env = env := by
  have hfrag : RepresentableFragment env t = true := by
    simp only [Representable, Bool.and_eq_true] at hr; exact hr.1
  obtain ⟨s, hs⟩ := (C01_serialises env t hfrag).mpr hw
  obtain ⟨ts, p, h1, h2, h3, h4⟩ := C01_main_identical env t hr lex hlex s hs
  exact ⟨s, ts, p, hs, h1, h2, h3, h4⟩

example : namesWritable c01Env c01Doc [] = some true := by decide

/-! ### `deep_equal` -/

/-- **C01_main as the property words it**: the reparsed tree is `deep_equal` (Model/Compare.lean,
    the crate's own comparison; canonical-form equality by C13_iff) to the original.  A corollary of
    the literal equality `C01_main_identical`, which says more (declarations and prefixes too). -/
theorem C01_main_deep_equal (env : Env) (t : Tree) (hr : Representable env t = true)
    (lex : Str → List Token × Option Nat) (hlex : LexCanon false lex) (s : Str)
    (hs : toXmlString env t [] = .ok s) :
    ∃ ts p, lex s = (ts, none) ∧ build .document (strLen s) env ts none = .ok p ∧
      deepEqual p.tree t = true := by
  obtain ⟨ts, p, h1, h2, h3, _⟩ := C01_main_identical env t hr lex hlex s hs
  refine ⟨ts, p, h1, h2, ?_⟩
  have hfrag : RepresentableFragment env t = true := by
    simp only [Representable, Bool.and_eq_true] at hr; exact hr.1
  obtain ⟨_, _, hn, _⟩ := (representableFragment_iff env t).mp hfrag
  have hv := valid_of_nodeOK t hn
  rw [h3]
  exact (deepEqual_iff_canon t t hv hv).mpr rfl

theorem C01_main_fragment_deep_equal (env : Env) (t : Tree) (hr : RepresentableFragment env t = true)
    (lex : Str → List Token × Option Nat) (hlex : LexCanon true lex) (s : Str)
    (hs : toXmlString env t [] = .ok s) :
    ∃ ts p, lex s = (ts, none) ∧ build .fragment (strLen s) env ts none = .ok p ∧
      deepEqual p.tree t = true := by
  obtain ⟨ts, p, h1, h2, h3, _⟩ := C01_main_fragment_identical env t hr lex hlex s hs
  refine ⟨ts, p, h1, h2, ?_⟩
  obtain ⟨_, _, hn, _⟩ := (representableFragment_iff env t).mp hr
  have hv := valid_of_nodeOK t hn
  rw [h3]
  exact (deepEqual_iff_canon t t hv hv).mpr rfl

/-! ### The closed loop: `parse (to_string tree)` on STRINGS

`parseString` (Model/ParseString.lean) = the reference tokenizer (Model/Lex.lean: the Lean model of
xmlparser, correspondence-checked against the crate's tokenizer by the lex suite) feeding the builder,
as `Xot::_parse` wires them.  It meets the contract `LexCanon` (Lemmas/LexCanon.lean), so the theorems
above hold for it without hypothesis. -/

/-- The reference tokenizer meets the contract, in both modes. -/
theorem C01_lexCanon_document : LexCanon false lexDocument := fun ts h => lexDocument_render_erase ts h
theorem C01_lexCanon_fragment : LexCanon true lexFragment := fun ts h => lexFragment_render_erase ts h

/-- **C01_roundtrip** (`parse(to_string(doc))`): for every representable document whose default
    serialisation succeeds, parsing the serialised STRING succeeds and the reparsed document reads
    back, through the tables the parse leaves, as exactly the abstract document the original reads
    back as. -/
theorem C01_roundtrip (env : Env) (t : Tree) (hr : Representable env t = true) (s : Str)
    (hs : toXmlString env t [] = .ok s) :
    ∃ p, parseString .document env s = .ok p ∧ p.tree.value = .document ∧
      decodeNs p.env p.tree.kids = decodeNs env t.kids := by
  obtain ⟨ts, p, h1, h2, h3, h4⟩ := C01_main env t hr lexDocument C01_lexCanon_document s hs
  refine ⟨p, ?_, h3, h4⟩
  simp only [parseString, lexMode, h1]
  exact h2

/-- **C01_roundtrip_identical**: the reparsed tree IS the original tree — node kinds and order, name
    ids (expanded names), attribute sets and values, character data, comments, PIs, namespace
    declarations on the same elements with the same prefix-to-URI bindings — the interning tables are
    unchanged, and `deep_equal` answers `true`. -/
theorem C01_roundtrip_identical (env : Env) (t : Tree) (hr : Representable env t = true) (s : Str)
    (hs : toXmlString env t [] = .ok s) :
    ∃ p, parseString .document env s = .ok p ∧ p.tree = t ∧ p.env = env ∧ deepEqual p.tree t = true := by
  obtain ⟨ts, p, h1, h2, h3, h4⟩ := C01_main_identical env t hr lexDocument C01_lexCanon_document s hs
  obtain ⟨ts', p', k1, k2, k3⟩ := C01_main_deep_equal env t hr lexDocument C01_lexCanon_document s hs
  rw [h1] at k1
  cases k1
  rw [h2] at k2
  cases k2
  refine ⟨p, ?_, h3, h4, k3⟩
  simp only [parseString, lexMode, h1]
  exact h2

/-- `parse_fragment(to_string(doc))`. -/
theorem C01_roundtrip_fragment (env : Env) (t : Tree) (hr : RepresentableFragment env t = true) (s : Str)
    (hs : toXmlString env t [] = .ok s) :
    ∃ p, parseString .fragment env s = .ok p ∧ p.tree.value = .document ∧
      decodeNs p.env p.tree.kids = decodeNs env t.kids := by
  obtain ⟨ts, p, h1, h2, h3, h4⟩ := C01_main_fragment env t hr lexFragment C01_lexCanon_fragment s hs
  refine ⟨p, ?_, h3, h4⟩
  simp only [parseString, lexMode, h1]
  exact h2

theorem C01_roundtrip_fragment_identical (env : Env) (t : Tree) (hr : RepresentableFragment env t = true)
    (s : Str) (hs : toXmlString env t [] = .ok s) :
    ∃ p, parseString .fragment env s = .ok p ∧ p.tree = t ∧ p.env = env ∧ deepEqual p.tree t = true := by
  obtain ⟨ts, p, h1, h2, h3, h4⟩ :=
    C01_main_fragment_identical env t hr lexFragment C01_lexCanon_fragment s hs
  obtain ⟨ts', p', k1, k2, k3⟩ := C01_main_fragment_deep_equal env t hr lexFragment C01_lexCanon_fragment s hs
  rw [h1] at k1
  cases k1
  rw [h2] at k2
  cases k2
  refine ⟨p, ?_, h3, h4, k3⟩
  simp only [parseString, lexMode, h1]
  exact h2

/-- The property as one statement on the tree: a representable document every namespaced name of which
    has a usable prefix in scope serialises, and the text parses back to the same tree. -/
theorem C01_roundtrip_writable (env : Env) (t : Tree) (hr : Representable env t = true)
    (hw : namesWritable env t [] = some true) :
    ∃ s p, toXmlString env t [] = .ok s ∧ parseString .document env s = .ok p ∧ p.tree = t ∧ p.env = env ∧
      deepEqual p.tree t = true := by
  have hfrag : RepresentableFragment env t = true := by
    simp only [Representable, Bool.and_eq_true] at hr; exact hr.1
  obtain ⟨s, hs⟩ := (C01_serialises env t hfrag).mpr hw
  obtain ⟨p, h1, h2, h3, h4⟩ := C01_roundtrip_identical env t hr s hs
  exact ⟨s, p, hs, h1, h2, h3, h4⟩

/-- Non-vacuity, closed: the document `c01Doc` meets the hypotheses by `decide`, so its serialisation
    `c01Text` parses back to it. -/
example : ∃ p, parseString .document c01Env c01Text = .ok p ∧ p.tree = c01Doc ∧ p.env = c01Env ∧
    deepEqual p.tree c01Doc = true :=
  C01_roundtrip_identical c01Env c01Doc (by decide) c01Text (by decide)

end XotModel.Props
