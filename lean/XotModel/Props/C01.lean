/-
  C01 — Serialise-then-parse returns the same tree.  Property theorems only.

  Character level (this file, proved for every string of every length):
    C01_text, C01_attr          decoding what the serialiser wrote gives back the value
    C01_text_lexsafe, C01_attr_lexsafe   no raw `<` / `&`-less … in the escaped output
  The escape tables and entity names are the ones `extract.py` read off `/repo/src/entity.rs`.

  Tree level, serialiser third (the other two thirds: tokenizer contract `lex (renderTokens ts) = ts`
  under `LexOK`, Model/LexOK.lean; builder on a namespace-aware spelling, Lemmas/ParseNs*):
    C01_serialised_is_rendering (+ _ok, _conv, _fails_iff, _at, _representable)
        `to_string` of a tree IS `renderTokens (serTokens tree)` (Model/SerTokens.lean), one
        equation covering success, the converse and the errors
    C01_rendering_lexok, C01_rendering_lexok_fragment
        for a `Representable` / `RepresentableFragment` tree the token list satisfies `LexOK`
    C01_rendering_decodes
        attribute / declaration values and text tokens decode back to the strings of the tree
    C01_value_spelling
        the same strings as well-spelled `Piece` lists (bridge to the builder theorems)
  The names the tags and attributes are written with resolve, nearest declaration first, to the
  names' namespaces: C10_sound_tree, C10_sound_tree_endtag, C10_sound_tree_attribute (Props/C10).
-/
import XotModel.Lemmas.Entity
import XotModel.Lemmas.SerTokensLexTop
import XotModel.Lemmas.SerTokensDecode
import XotModel.Lemmas.SerTokensPieces

namespace XotModel.Props
open XotModel XotModel.Gen

/-- Obligations on the generated tables (re-checked whenever the source changes). -/
theorem C01_tables_attr : tableOk attrEscapes = true ∧ tableCovers true attrEscapes = true := by decide
theorem C01_tables_text :
    tableOk (('>', textGtEscape) :: textEscapes) = true ∧
    tableCovers false (('>', textGtEscape) :: textEscapes) = true := by decide

/-- Text: `parse_text (serialize_text s) = s` for every string, including CR, LF, TAB, `<`, `&`,
    `>`, quotes, `]]>` and non-BMP characters. -/
theorem C01_text (s : Str) : parseText (serializeText false s) = .ok s := by
  unfold parseText parseContent
  rw [serializeText_false_eq]
  exact parse_escape_roundtrip false _ C01_tables_text.1 C01_tables_text.2 s 0 0

/-- Attribute values: `parse_attribute (serialize_attribute s) = s` for every string. -/
theorem C01_attr (s : Str) : parseAttribute (serializeAttribute s) = .ok s :=
  parse_escape_roundtrip true _ C01_tables_attr.1 C01_tables_attr.2 s 0 0

/-- The serialised text never contains a raw `<`; every `&` it contains starts a reference
    (there is no raw `&` either: `&` only occurs as the first character of a row). -/
theorem C01_text_lexsafe (s : Str) : '<' ∉ serializeText false s := by
  have h : tableHides (('>', textGtEscape) :: textEscapes) '<' = true := by decide
  rw [serializeText_false_eq]; exact flatMap_escape_hides h s

/-- The serialised attribute value never contains a raw `<` or `"` (it is written between
    double quotes), nor a raw TAB, LF or CR. -/
theorem C01_attr_lexsafe (s : Str) :
    '<' ∉ serializeAttribute s ∧ '"' ∉ serializeAttribute s ∧
    '\t' ∉ serializeAttribute s ∧ '\n' ∉ serializeAttribute s ∧ '\r' ∉ serializeAttribute s :=
  ⟨flatMap_escape_hides (by decide) s, flatMap_escape_hides (by decide) s,
   flatMap_escape_hides (by decide) s, flatMap_escape_hides (by decide) s,
   flatMap_escape_hides (by decide) s⟩

/-- Non-vacuity / sanity: a concrete string with every special character. -/
example : parseAttribute (serializeAttribute ['a','\t','\n','\r','<','&','"','\'','>',']']) =
    .ok ['a','\t','\n','\r','<','&','"','\'','>',']'] := C01_attr _

/-! ### Tree level: the serialised string is the canonical rendering of `serTokens` -/

/-- `Xot::to_string(root)` is the canonical rendering (`renderTokens`, Model/TokenRender.lean) of
    the token list `serTokensTop` reads off the tree, and fails exactly where that fails, with
    the same error; it never panics.  For every table set in which `xml` and the prefixes the
    tree declares have a non-empty spelling (`declsNamed`; implied by `Representable`; needed:
    see the counterexample below), every tree, sound or not. -/
theorem C01_serialised_is_rendering (env : Env) (t : Tree) (hx : env.prefixStr Env.xmlPrefix ≠ [])
    (ht : t.allNodes (declsNamed env) = true) :
    toXmlString env t [] =
      (match serTokensTop env t with
       | .ok ts => .ok (renderTokens ts)
       | .error e => .err e) :=
  toXmlString_serTokensTop env t hx ht

theorem C01_serialised_is_rendering_ok (env : Env) (t : Tree) (hx : env.prefixStr Env.xmlPrefix ≠ [])
    (ht : t.allNodes (declsNamed env) = true) (s : Str) (h : toXmlString env t [] = .ok s) :
    ∃ ts, serTokensTop env t = .ok ts ∧ s = renderTokens ts := by
  rw [C01_serialised_is_rendering env t hx ht] at h
  cases hts : serTokensTop env t with
  | ok ts => rw [hts] at h; cases h; exact ⟨ts, rfl, rfl⟩
  | error e => rw [hts] at h; cases h

theorem C01_serialised_is_rendering_conv (env : Env) (t : Tree) (hx : env.prefixStr Env.xmlPrefix ≠ [])
    (ht : t.allNodes (declsNamed env) = true) (ts : List Token) (h : serTokensTop env t = .ok ts) :
    toXmlString env t [] = .ok (renderTokens ts) := by
  rw [C01_serialised_is_rendering env t hx ht, h]

theorem C01_serialised_fails_iff (env : Env) (t : Tree) (hx : env.prefixStr Env.xmlPrefix ≠ [])
    (ht : t.allNodes (declsNamed env) = true) (e : XotError) :
    toXmlString env t [] = .err e ↔ serTokensTop env t = .error e := by
  rw [C01_serialised_is_rendering env t hx ht]
  cases serTokensTop env t <;> simp

/-- Any start node, `unescaped_gt` on or off (no CDATA-section elements): `serialize_xml_string`
    is the rendering of `serTokensAt`; a start element also writes the declarations in scope. -/
theorem C01_serialised_is_rendering_at (env : Env) (pr : TokenParams) (t : Tree) (start : Path)
    (hcd : pr.cdataSectionElements = []) (hx : env.prefixStr Env.xmlPrefix ≠ [])
    (ht : t.allNodes (declsNamed env) = true) :
    serializeString env pr t start =
      (match serTokensAt env pr.unescapedGt t start with
       | .ok ts => .ok (renderTokens ts)
       | .error e => .err e) :=
  serializeString_serTokensAt env pr t hcd start hx ht

/-- On the round-trip domain no side condition is left. -/
theorem C01_serialised_is_rendering_representable (env : Env) (t : Tree)
    (hr : RepresentableFragment env t = true) :
    toXmlString env t [] =
      (match serTokensTop env t with
       | .ok ts => .ok (renderTokens ts)
       | .error e => .err e) := by
  obtain ⟨henv, _, hn, _⟩ := (representableFragment_iff env t).mp hr
  apply C01_serialised_is_rendering env t
  · rw [envOK_xmlPrefix env henv]; simp
  · exact nodeOK_declsNamed env t hn

/-- The tokens of a representable document whose serialisation succeeds satisfy the side
    conditions of the tokenizer contract in document mode: NCName prefixes and local names,
    attribute values without `<` and `"`, non-empty text without `<` and `]]>`, XML Chars only,
    comment and PI conditions, attributes only inside start tags, balanced tags, no two text
    tokens in a row, comments / PIs around exactly one top-level element. -/
theorem C01_rendering_lexok (env : Env) (t : Tree) (hr : Representable env t = true)
    (ts : List Token) (h : serTokensTop env t = .ok ts) : LexOK false ts = true :=
  lexOK_document env t hr ts h

/-- Fragment mode (`parse_fragment`): any well-formed content under the document node. -/
theorem C01_rendering_lexok_fragment (env : Env) (t : Tree) (hr : RepresentableFragment env t = true)
    (ts : List Token) (h : serTokensTop env t = .ok ts) : LexOK true ts = true :=
  lexOK_fragment env t hr ts h

/-- Every attribute token (namespace declarations included) carries `serialize_attribute x` for a
    string `x` and `parse_attribute` gives `x` back; every text token carries
    `serialize_text x` and `parse_text` gives `x` back (C01_attr, C01_text inside the token list;
    no side condition). -/
theorem C01_rendering_decodes (env : Env) (t : Tree) (ts : List Token)
    (h : serTokensTop env t = .ok ts) : ∀ k ∈ ts, k.Decodes :=
  serTokensTop_decodes env t ts h

/-- The escaped strings as spellings-as-data (`Piece`, the vocabulary of the builder theorems
    C02_spelled*): one piece per character — literal, predefined entity or upper-case hexadecimal
    reference — rendering to what the serialiser writes, denoting the value, well spelled. -/
theorem C01_value_spelling (v : Str) :
    (renderPieces (attrPieces v) = serializeAttribute v ∧ valueOf true (attrPieces v) = v ∧
      WellSpelled (attrPieces v)) ∧
    (renderPieces (textPieces v) = serializeText false v ∧ valueOf false (textPieces v) = v ∧
      WellSpelled (textPieces v)) :=
  ⟨⟨renderPieces_attrPieces v, valueOf_attrPieces v, wellSpelled_attrPieces v⟩,
   ⟨renderPieces_textPieces v, valueOf_textPieces v, wellSpelled_textPieces v⟩⟩

/-! Non-vacuity: a document with a default namespace, a prefixed child, an attribute value
    `<&"` TAB, a text `]]>` CR, a comment and two PIs. -/

def c01Env : Env where
  namespaces := [[], xmlNamespaceUri, ['u', 'r', 'n', ':', 'a'], ['u', 'r', 'n', ':', 'b']]
  prefixes := [[], ['x', 'm', 'l'], ['p']]
  names := [(['s', 'p', 'a', 'c', 'e'], 1), (['i', 'd'], 1), (['r'], 2), (['c'], 3), (['k'], 0), (['t'], 0)]

def c01Doc : Tree :=
  .node .document [
    .node (.comment ['h', 'i']) [],
    .node (.element 2) [
      .node (.namespace 0 2) [], .node (.namespace 2 3) [],
      .node (.attribute 4 ['<', '&', '"', '\t']) [],
      .node (.element 3) [],
      .node (.text [']', ']', '>', '\r']) [],
      .node (.pi 5 (some ['d'])) []],
    .node (.pi 5 none) []]

/-- `<!--hi--><r xmlns="urn:a" xmlns:p="urn:b" k="&lt;&amp;&quot;&#x9;"><p:c/>]]&gt;&#xD;<?t d?></r><?t?>` -/
def c01Text : Str :=
  "<!--hi--><r xmlns=\"urn:a\" xmlns:p=\"urn:b\" k=\"&lt;&amp;&quot;&#x9;\"><p:c/>]]&gt;&#xD;<?t d?></r><?t?>".toList

example : Representable c01Env c01Doc = true := by decide
example : toXmlString c01Env c01Doc [] = .ok c01Text := by decide
example : ∃ ts, serTokensTop c01Env c01Doc = .ok ts ∧ renderTokens ts = c01Text ∧ LexOK false ts = true := by
  obtain ⟨ts, h1, h2⟩ := C01_serialised_is_rendering_ok c01Env c01Doc (by decide) (by decide) c01Text
    (by decide)
  exact ⟨ts, h1, h2.symm, C01_rendering_lexok c01Env c01Doc (by decide) ts h1⟩

/-- The side condition of `C01_serialised_is_rendering` is needed: with a declared prefix whose
    spelling is empty (impossible for the tables of a real `Xot`: ids are a one-to-one interning,
    C08) the serialiser writes `<:a xmlns:="u"/>`, which is no canonical rendering of
    (prefix, local name) tokens. -/
example :
    let env : Env := { namespaces := [[], xmlNamespaceUri, ['u']], prefixes := [[], ['x', 'm', 'l'], []],
                       names := [([], 0), ([], 0), (['a'], 2)] }
    let t : Tree := .node .document [.node (.element 2) [.node (.namespace 2 2) []]]
    toXmlString env t [] = .ok "<:a xmlns:=\"u\"/>".toList ∧
    (serTokensTop env t).toOption.map renderTokens = some "<a xmlns:=\"u\"/>".toList := by
  decide

end XotModel.Props
