/-
  C01 — Serialise-then-parse returns the same tree.  Property theorems only.

  Character level (this file, proved for every string of every length):
    C01_text, C01_attr          decoding what the serialiser wrote gives back the value
    C01_text_lexsafe, C01_attr_lexsafe   no raw `<` / `&`-less … in the escaped output
  The escape tables and entity names are the ones `extract.py` read off `/repo/src/entity.rs`.

  Tree level, the serialiser's side:
    C01_serialised_is_rendering (+ _ok, _conv, _fails_iff, _at, _representable)
        `to_string` of a tree IS `renderTokens (serTokens tree)` (Model/SerTokens.lean), one
        equation covering success, the converse and the errors
    C01_rendering_lexok, C01_rendering_lexok_fragment
        for a `Representable` / `RepresentableFragment` tree the token list satisfies `LexOK`
    C01_rendering_decodes, C01_value_spelling
        values and text decode back / as well-spelled `Piece` lists
    C01_serialises   `to_string` succeeds iff `namesWritable` (the serialiser's MissingPrefix checks)
  Tree level, the round trip (Lemmas/RoundTrip*.lean; `spellTop` = the tree as a spelling `NSNode`):
    C01_spelling_tokens / _denotes / _well     lemmas A / B / C: tokens of the spelling = serTokens;
        it denotes (XML-Namespaces scoping on strings) what the tree reads back as; the builder admits it
    C01_build, C01_build_fragment      builder on serTokens returns the ORIGINAL tree, tables unchanged
    C01_main, C01_main_fragment        serialise, tokenize (any tokenizer meeting `LexCanon`), build:
        the reparsed document reads back as the abstract document of the original
    C01_main_identical (+ _fragment_identical, _writable), C01_main_deep_equal (+ _fragment_…)
        the reparsed tree IS the original tree (ids, declarations, prefixes), hence deep_equal
    C01_roundtrip, C01_roundtrip_identical, _fragment, _fragment_identical, _writable
        THE CLOSED LOOP on strings: `parseString` (reference tokenizer, Model/Lex.lean, feeding the builder)
        of `to_string tree` returns the tree; no tokenizer hypothesis (C01_lexCanon_document / _fragment)
  A start node INSIDE the tree (`standalone`, Model/InnerStartSpec.lean; Lemmas/InnerStart*.lean):
    C01_inner_tokens, C01_inner_serialisation (+ _params)   `to_string(inner element)` IS `to_string` of the
        standalone document (the element with the inherited declarations as namespace nodes in front)
    C01_inner_standalone_representable, C01_inner_serialises
    C01_roundtrip_inner (+ _nodes, _writable)   parsing it gives the standalone document; its document
        element is deep_equal to the inner element
  The `LexCanon`-parametric versions (C01_main*) hold for ANY tokenizer meeting the contract.
  END TO END (last section; the forest lemma families are imported through Props/C04):
    C01_reachable_roundtrip (+ _fragment, _store)   for EVERY tree an API history can build: value-level
        conditions + writable names => `to_string` succeeds and `parse` gives back exactly that tree
  NON-DEFAULT TOKEN PARAMETERS (very last section; Lemmas/RoundTripParams.lean, Lemmas/SerOpt*.lean):
    C01_text_unescaped_gt (+ _lexsafe, _spelling, _input)   `unescaped_gt`: `>` raw except right after `]]`; decodes back
    C01_cdata_run, C01_cdata_sections_carry, C01_cdata_nonXmlChar_unwritable   `serialize_cdata` as a token run
    C01_serialised_is_rendering_params, C01_text_node_tokens   the tokens under any parameters
    C01_roundtrip_unescaped_gt, C01_roundtrip_cdata, C01_roundtrip_params (+ _fragment, _writable)
        the closed loop for `unescaped_gt = true`, for CDATA-section elements, for every parameter set
    C01_reachable_roundtrip_params   the same for every tree an API history can build
-/
import XotModel.Lemmas.Entity
import XotModel.Lemmas.SerTokensLexTop
import XotModel.Lemmas.SerTokensDecode
import XotModel.Lemmas.SerTokensPieces
import XotModel.Lemmas.RoundTripTokens
import XotModel.Lemmas.RoundTripEncode
import XotModel.Lemmas.RoundTripSerialises
import XotModel.Lemmas.RoundTripDeepEqual
import XotModel.Lemmas.LexCanon
import XotModel.Lemmas.InnerStartSerialises
import XotModel.Model.ParseString
import XotModel.Props.C02
import XotModel.Props.C04
import XotModel.Lemmas.ReachE2E
import XotModel.Lemmas.FparseHistReach
import XotModel.Lemmas.FparseValsReach
import XotModel.Lemmas.RepairRoundTrip
import XotModel.Lemmas.RoundTripParams
import XotModel.Lemmas.PiColonAcceptedMain
import XotModel.Lemmas.PiColonWitness

namespace XotModel.Props
open XotModel XotModel.Gen

/-- Obligations on the generated tables (re-checked whenever the source changes). -/
theorem C01_tables_attr : tableOk attrEscapes = true ∧ tableCovers true attrEscapes = true := by decide
theorem C01_tables_text :
    tableOk (('>', textGtEscape) :: textEscapes) = true ∧
    tableCovers false (('>', textGtEscape) :: textEscapes) = true := by decide

/-- Text: `parse_text (serialize_text s) = s` for every string, including CR, LF, TAB, `<`, `&`,
    `>`, quotes, `]]>` and non-BMP characters. -/
theorem C01_text (s : Str) : parseText (serializeText false s) = .ok s := by
  unfold parseText parseContent
  rw [serializeText_false_eq]
  exact parse_escape_roundtrip false _ C01_tables_text.1 C01_tables_text.2 s 0 0

/-- Attribute values: `parse_attribute (serialize_attribute s) = s` for every string. -/
theorem C01_attr (s : Str) : parseAttribute (serializeAttribute s) = .ok s :=
  parse_escape_roundtrip true _ C01_tables_attr.1 C01_tables_attr.2 s 0 0

/-- The serialised text never contains a raw `<`; every `&` it contains starts a reference
    (there is no raw `&` either: `&` only occurs as the first character of a row). -/
theorem C01_text_lexsafe (s : Str) : '<' ∉ serializeText false s := by
  have h : tableHides (('>', textGtEscape) :: textEscapes) '<' = true := by decide
  rw [serializeText_false_eq]; exact flatMap_escape_hides h s

/-- The serialised attribute value never contains a raw `<` or `"` (it is written between
    double quotes), nor a raw TAB, LF or CR. -/
theorem C01_attr_lexsafe (s : Str) :
    '<' ∉ serializeAttribute s ∧ '"' ∉ serializeAttribute s ∧
    '\t' ∉ serializeAttribute s ∧ '\n' ∉ serializeAttribute s ∧ '\r' ∉ serializeAttribute s :=
  ⟨flatMap_escape_hides (by decide) s, flatMap_escape_hides (by decide) s,
   flatMap_escape_hides (by decide) s, flatMap_escape_hides (by decide) s,
   flatMap_escape_hides (by decide) s⟩

/-- Non-vacuity / sanity: a concrete string with every special character. -/
example : parseAttribute (serializeAttribute ['a','\t','\n','\r','<','&','"','\'','>',']']) =
    .ok ['a','\t','\n','\r','<','&','"','\'','>',']'] := C01_attr _

/-! ### Tree level: the serialised string is the canonical rendering of `serTokens` -/

/-- `Xot::to_string(root)` is the canonical rendering (`renderTokens`, Model/TokenRender.lean) of
    the token list `serTokensTop` reads off the tree, and fails exactly where that fails, with
    the same error; it never panics.  For every table set in which `xml` and the prefixes the
    tree declares have a non-empty spelling (`declsNamed`; implied by `Representable`; needed:
    see the counterexample below), every tree, sound or not. -/
theorem C01_serialised_is_rendering (env : Env) (t : Tree) (hx : env.prefixStr Env.xmlPrefix ≠ [])
    (ht : t.allNodes (declsNamed env) = true) :
    toXmlString env t [] =
      (match serTokensTop env t with
       | .ok ts => .ok (renderTokens ts)
       | .error e => .err e) :=
  toXmlString_serTokensTop env t hx ht

theorem C01_serialised_is_rendering_ok (env : Env) (t : Tree) (hx : env.prefixStr Env.xmlPrefix ≠ [])
    (ht : t.allNodes (declsNamed env) = true) (s : Str) (h : toXmlString env t [] = .ok s) :
    ∃ ts, serTokensTop env t = .ok ts ∧ s = renderTokens ts := by
  rw [C01_serialised_is_rendering env t hx ht] at h
  cases hts : serTokensTop env t with
  | ok ts => rw [hts] at h; cases h; exact ⟨ts, rfl, rfl⟩
  | error e => rw [hts] at h; cases h

theorem C01_serialised_is_rendering_conv (env : Env) (t : Tree) (hx : env.prefixStr Env.xmlPrefix ≠ [])
    (ht : t.allNodes (declsNamed env) = true) (ts : List Token) (h : serTokensTop env t = .ok ts) :
    toXmlString env t [] = .ok (renderTokens ts) := by
  rw [C01_serialised_is_rendering env t hx ht, h]

theorem C01_serialised_fails_iff (env : Env) (t : Tree) (hx : env.prefixStr Env.xmlPrefix ≠ [])
    (ht : t.allNodes (declsNamed env) = true) (e : XotError) :
    toXmlString env t [] = .err e ↔ serTokensTop env t = .error e := by
  rw [C01_serialised_is_rendering env t hx ht]
  cases serTokensTop env t <;> simp

/-- Any start node, `unescaped_gt` on or off (no CDATA-section elements): `serialize_xml_string`
    is the rendering of `serTokensAt`; a start element also writes the declarations in scope. -/
theorem C01_serialised_is_rendering_at (env : Env) (pr : TokenParams) (t : Tree) (start : Path)
    (hcd : pr.cdataSectionElements = []) (hx : env.prefixStr Env.xmlPrefix ≠ [])
    (ht : t.allNodes (declsNamed env) = true) :
    serializeString env pr t start =
      (match serTokensAt env pr.unescapedGt t start with
       | .ok ts => .ok (renderTokens ts)
       | .error e => .err e) :=
  serializeString_serTokensAt env pr t hcd start hx ht

/-- On the round-trip domain no side condition is left. -/
theorem C01_serialised_is_rendering_representable (env : Env) (t : Tree)
    (hr : RepresentableFragment env t = true) :
    toXmlString env t [] =
      (match serTokensTop env t with
       | .ok ts => .ok (renderTokens ts)
       | .error e => .err e) := by
  obtain ⟨henv, _, hn, _⟩ := (representableFragment_iff env t).mp hr
  apply C01_serialised_is_rendering env t
  · rw [envOK_xmlPrefix env henv]; simp
  · exact nodeOK_declsNamed env t hn

/-- The tokens of a representable document whose serialisation succeeds satisfy the side
    conditions of the tokenizer contract in document mode: NCName prefixes and local names,
    attribute values without `<` and `"`, non-empty text without `<` and `]]>`, XML Chars only,
    comment and PI conditions, attributes only inside start tags, balanced tags, no two text
    tokens in a row, comments / PIs around exactly one top-level element. -/
theorem C01_rendering_lexok (env : Env) (t : Tree) (hr : Representable env t = true)
    (ts : List Token) (h : serTokensTop env t = .ok ts) : LexOK false ts = true :=
  lexOK_document env t hr ts h

/-- Fragment mode (`parse_fragment`): any well-formed content under the document node. -/
theorem C01_rendering_lexok_fragment (env : Env) (t : Tree) (hr : RepresentableFragment env t = true)
    (ts : List Token) (h : serTokensTop env t = .ok ts) : LexOK true ts = true :=
  lexOK_fragment env t hr ts h

/-- Every attribute token (namespace declarations included) carries `serialize_attribute x` for a
    string `x` and `parse_attribute` gives `x` back; every text token carries
    `serialize_text x` and `parse_text` gives `x` back (C01_attr, C01_text inside the token list;
    no side condition). -/
theorem C01_rendering_decodes (env : Env) (t : Tree) (ts : List Token)
    (h : serTokensTop env t = .ok ts) : ∀ k ∈ ts, k.Decodes :=
  serTokensTop_decodes env t ts h

/-- The escaped strings as spellings-as-data (`Piece`, the vocabulary of the builder theorems
    C02_spelled*): one piece per character — literal, predefined entity or upper-case hexadecimal
    reference — rendering to what the serialiser writes, denoting the value, well spelled. -/
theorem C01_value_spelling (v : Str) :
    (renderPieces (attrPieces v) = serializeAttribute v ∧ valueOf true (attrPieces v) = v ∧
      WellSpelled (attrPieces v)) ∧
    (renderPieces (textPieces v) = serializeText false v ∧ valueOf false (textPieces v) = v ∧
      WellSpelled (textPieces v)) :=
  ⟨⟨renderPieces_attrPieces v, valueOf_attrPieces v, wellSpelled_attrPieces v⟩,
   ⟨renderPieces_textPieces v, valueOf_textPieces v, wellSpelled_textPieces v⟩⟩

/-! Non-vacuity: a document with a default namespace, a prefixed child, an attribute value
    `<&"` TAB, a text `]]>` CR, a comment and two PIs. -/

def c01Env : Env where
  namespaces := [[], xmlNamespaceUri, ['u', 'r', 'n', ':', 'a'], ['u', 'r', 'n', ':', 'b']]
  prefixes := [[], ['x', 'm', 'l'], ['p']]
  names := [(['s', 'p', 'a', 'c', 'e'], 1), (['i', 'd'], 1), (['r'], 2), (['c'], 3), (['k'], 0), (['t'], 0)]

def c01Doc : Tree :=
  .node .document [
    .node (.comment ['h', 'i']) [],
    .node (.element 2) [
      .node (.namespace 0 2) [], .node (.namespace 2 3) [],
      .node (.attribute 4 ['<', '&', '"', '\t']) [],
      .node (.element 3) [],
      .node (.text [']', ']', '>', '\r']) [],
      .node (.pi 5 (some ['d'])) []],
    .node (.pi 5 none) []]

/-- `<!--hi--><r xmlns="urn:a" xmlns:p="urn:b" k="&lt;&amp;&quot;&#x9;"><p:c/>]]&gt;&#xD;<?t d?></r><?t?>` -/
def c01Text : Str :=
  "<!--hi--><r xmlns=\"urn:a\" xmlns:p=\"urn:b\" k=\"&lt;&amp;&quot;&#x9;\"><p:c/>]]&gt;&#xD;<?t d?></r><?t?>".toList

example : Representable c01Env c01Doc = true := by decide
example : toXmlString c01Env c01Doc [] = .ok c01Text := by decide
example : ∃ ts, serTokensTop c01Env c01Doc = .ok ts ∧ renderTokens ts = c01Text ∧ LexOK false ts = true := by
  obtain ⟨ts, h1, h2⟩ := C01_serialised_is_rendering_ok c01Env c01Doc (by decide) (by decide) c01Text
    (by decide)
  exact ⟨ts, h1, h2.symm, C01_rendering_lexok c01Env c01Doc (by decide) ts h1⟩

/-- The side condition of `C01_serialised_is_rendering` is needed: with a declared prefix whose
    spelling is empty (impossible for the tables of a real `Xot`: ids are a one-to-one interning,
    C08) the serialiser writes `<:a xmlns:="u"/>`, which is no canonical rendering of
    (prefix, local name) tokens. -/
example :
    let env : Env := { namespaces := [[], xmlNamespaceUri, ['u']], prefixes := [[], ['x', 'm', 'l'], []],
                       names := [([], 0), ([], 0), (['a'], 2)] }
    let t : Tree := .node .document [.node (.element 2) [.node (.namespace 2 2) []]]
    toXmlString env t [] = .ok "<:a xmlns:=\"u\"/>".toList ∧
    (serTokensTop env t).toOption.map renderTokens = some "<a xmlns:=\"u\"/>".toList := by
  decide

/-! ### Tree level: the round trip

The three thirds glued.  `spellTop env t` (Lemmas/RoundTripDefs.lean) is the SPELLING of the tree: the
`NSNode`s (vocabulary of C02_spelled_ns) with the serialiser's prefix choices, one `Piece` per character.
  A  `C01_spelling_tokens`   its tokens are the tokens `to_string` renders (`serTokensTop`)
  B  `C01_spelling_denotes`  what it denotes by XML-Namespaces scoping over the declarations as written
                             (strings) is what the ORIGINAL tree reads back as through its tables
                             (the bridge from the id-level scoping of C10 to strings)
  C  `C01_spelling_well`     the builder admits it (`WellNsDoc`)
`LexCanon` is the tokenizer contract: on the canonical rendering of a `LexOK` token list the
tokenizer returns that list up to byte positions (to be discharged by the reference tokenizer). -/

/-- A: the tokens of the spelling are the serialiser's tokens (every tree, sound or not). -/
theorem C01_spelling_tokens (env : Env) (t : Tree) (ts : List Token) (h : serTokensTop env t = .ok ts) :
    NSNode.tokens.tokensList (spellTop env t) = ts :=
  spell_tokens env t ts h

/-- B: the spelling denotes, in the base scope, the abstract document the tree reads back as. -/
theorem C01_spelling_denotes (env : Env) (t : Tree) (hr : RepresentableFragment env t = true)
    (ts : List Token) (h : serTokensTop env t = .ok ts) :
    decodeNs env t.kids = some (NSNode.denote.denoteList baseScope (spellTop env t)) := by
  obtain ⟨ks, rfl, hf⟩ := topFacts hr h
  exact (spellTop_denote hf).1

/-- C: the builder admits the spelling. -/
theorem C01_spelling_well (env : Env) (t : Tree) (hr : RepresentableFragment env t = true)
    (ts : List Token) (h : serTokensTop env t = .ok ts) : WellNsDoc (spellTop env t) := by
  obtain ⟨ks, rfl, hf⟩ := topFacts hr h
  exact spellTop_well hf

/-- `envOK` (part of `Representable`) implies the hypothesis of the builder theorems. -/
theorem C01_envBaseNs (env : Env) (h : envOK env = true) : EnvBaseNs env :=
  (envFacts_of_envOK h).envBaseNs

theorem C01_serialised_ok_representable {env : Env} {t : Tree} (hr : RepresentableFragment env t = true) {s : Str}
    (hs : toXmlString env t [] = .ok s) : ∃ ts, serTokensTop env t = .ok ts ∧ s = renderTokens ts := by
  rw [C01_serialised_is_rendering_representable env t hr] at hs
  cases hts : serTokensTop env t with
  | ok ts => rw [hts] at hs; cases hs; exact ⟨ts, rfl, rfl⟩
  | error e => rw [hts] at hs; cases hs

/-- **C01_main** (`parse`): for every representable document whose default serialisation succeeds
    (every namespaced name has a usable prefix in scope), and every tokenizer meeting the contract:
    the serialised text is tokenized without error, the builder accepts the tokens, and the reparsed
    document reads back — through the interning tables the parse leaves — as exactly the abstract
    document the original tree reads back as: node kinds and order, expanded names (namespace URI
    and local name as strings), per element the declarations (prefix, URI) in order, the
    attributes in order with their values, text, comments, processing instructions. -/
theorem C01_main (env : Env) (t : Tree) (hr : Representable env t = true)
    (lex : Str → List Token × Option Nat) (hlex : LexCanon false lex) (s : Str)
    (hs : toXmlString env t [] = .ok s) :
    ∃ ts p, lex s = (ts, none) ∧ build .document (strLen s) env ts none = .ok p ∧
      p.tree.value = .document ∧ decodeNs p.env p.tree.kids = decodeNs env t.kids := by
  have hr' := hr
  simp only [Representable, Bool.and_eq_true] at hr'
  obtain ⟨hfrag, hsingle⟩ := hr'
  obtain ⟨ts0, hser, rfl⟩ := C01_serialised_ok_representable hfrag hs
  obtain ⟨ts, hl, her⟩ := hlex ts0 (C01_rendering_lexok env t hr ts0 hser)
  obtain ⟨ks, rfl, hf⟩ := topFacts hfrag hser
  have hA := spell_tokens env _ ts0 hser
  obtain ⟨p0, hb, hv, hd⟩ := C02_spelled_ns_document hf.he.envBaseNs (strLen (renderTokens ts0))
    (spellTop env (.node .document ks)) (spellTop_well hf) (spellTop_abstractTop hf hsingle)
  rw [hA] at hb
  obtain ⟨p, hp, h1, h2, _⟩ := C02_positions_irrelevant_ok .document _ (strLen (renderTokens ts0)) env ts0 ts
    her.1.symm her.2 p0 hb
  refine ⟨ts, p, hl, hp, by rw [h1]; exact hv, ?_⟩
  rw [h1, h2, hd]
  exact (spellTop_denote hf).1.symm

/-- **C01_main_fragment** (`parse_fragment`): the same for any well-formed content under the
    document node (several top-level elements, top-level text). -/
theorem C01_main_fragment (env : Env) (t : Tree) (hr : RepresentableFragment env t = true)
    (lex : Str → List Token × Option Nat) (hlex : LexCanon true lex) (s : Str)
    (hs : toXmlString env t [] = .ok s) :
    ∃ ts p, lex s = (ts, none) ∧ build .fragment (strLen s) env ts none = .ok p ∧
      p.tree.value = .document ∧ decodeNs p.env p.tree.kids = decodeNs env t.kids := by
  obtain ⟨ts0, hser, rfl⟩ := C01_serialised_ok_representable hr hs
  obtain ⟨ts, hl, her⟩ := hlex ts0 (C01_rendering_lexok_fragment env t hr ts0 hser)
  obtain ⟨ks, rfl, hf⟩ := topFacts hr hser
  have hA := spell_tokens env _ ts0 hser
  obtain ⟨p0, hb, hv, hd⟩ := C02_spelled_ns_fragment hf.he.envBaseNs (strLen (renderTokens ts0))
    (spellTop env (.node .document ks)) (spellTop_well hf)
  rw [hA] at hb
  obtain ⟨p, hp, h1, h2, _⟩ := C02_positions_irrelevant_ok .fragment _ (strLen (renderTokens ts0)) env ts0 ts
    her.1.symm her.2 p0 hb
  refine ⟨ts, p, hl, hp, by rw [h1]; exact hv, ?_⟩
  rw [h1, h2, hd]
  exact (spellTop_denote hf).1.symm

/-! ### Strengthening: the reparsed tree IS the original tree

Every string of `t` is interned in `env` already (an id outside the tables cannot occur in a
`Representable` tree the serialiser accepts), so reparsing into the same `Xot` interns nothing and
every id comes back: literal equality of the id trees, declarations and prefixes included. -/

/-- Encoding the abstract document `t` reads back as (ids interned in document order, as the
    parser does) gives `t` back and leaves the tables alone. -/
theorem C01_encode_decode (env : Env) (t : Tree) (hr : RepresentableFragment env t = true)
    (ts : List Token) (h : serTokensTop env t = .ok ts) :
    NPNode.encode.encodeList env (NSNode.denote.denoteList baseScope (spellTop env t)) = (env, t.kids) := by
  obtain ⟨ks, rfl, hf⟩ := topFacts hr h
  exact spellTop_encode hf

/-- **C01_build** (`parse` without the tokenizer): the builder, run on the tokens `to_string` renders
    (any source length, any byte positions: `C02_positions_irrelevant`), returns the original tree
    and leaves the interning tables unchanged. -/
theorem C01_build (env : Env) (t : Tree) (hr : Representable env t = true) (ts : List Token)
    (h : serTokensTop env t = .ok ts) (len : Nat) :
    ∃ p, build .document len env ts none = .ok p ∧ p.tree = t ∧ p.env = env := by
  simp only [Representable, Bool.and_eq_true] at hr
  obtain ⟨hfrag, hsingle⟩ := hr
  obtain ⟨ks, rfl, hf⟩ := topFacts hfrag h
  obtain ⟨p0, hb, ht, he⟩ := build_document_spelled_ns hf.he.envBaseNs len
    (spellTop env (.node .document ks)) (spellTop_well hf)
    (wellFormedTop_of_abstractNs (spellTop_abstractTop hf hsingle))
  rw [spell_tokens env _ ts h] at hb
  rw [spellTop_encode hf] at ht he
  exact ⟨p0, hb, ht, he⟩

/-- `parse_fragment` without the tokenizer. -/
theorem C01_build_fragment (env : Env) (t : Tree) (hr : RepresentableFragment env t = true)
    (ts : List Token) (h : serTokensTop env t = .ok ts) (len : Nat) :
    ∃ p, build .fragment len env ts none = .ok p ∧ p.tree = t ∧ p.env = env := by
  obtain ⟨ks, rfl, hf⟩ := topFacts hr h
  obtain ⟨p0, hb, ht, he⟩ := build_fragment_spelled_ns hf.he.envBaseNs len
    (spellTop env (.node .document ks)) (spellTop_well hf)
  rw [spell_tokens env _ ts h] at hb
  rw [spellTop_encode hf] at ht he
  exact ⟨p0, hb, ht, he⟩

/-- **C01_main, strong form** (`parse`): the reparsed tree is the original tree, node for node and id
    for id — names, attribute sets and values, character data, comments, PIs, namespace declarations
    on the same elements with the same prefix-to-URI bindings — and the interning tables are
    unchanged. -/
theorem C01_main_identical (env : Env) (t : Tree) (hr : Representable env t = true)
    (lex : Str → List Token × Option Nat) (hlex : LexCanon false lex) (s : Str)
    (hs : toXmlString env t [] = .ok s) :
    ∃ ts p, lex s = (ts, none) ∧ build .document (strLen s) env ts none = .ok p ∧
      p.tree = t ∧ p.env = env := by
  have hfrag : RepresentableFragment env t = true := by
    simp only [Representable, Bool.and_eq_true] at hr; exact hr.1
  obtain ⟨ts0, hser, rfl⟩ := C01_serialised_ok_representable hfrag hs
  obtain ⟨ts, hl, her⟩ := hlex ts0 (C01_rendering_lexok env t hr ts0 hser)
  obtain ⟨p0, hb, ht, he⟩ := C01_build env t hr ts0 hser (strLen (renderTokens ts0))
  obtain ⟨p, hp, h1, h2, _⟩ := C02_positions_irrelevant_ok .document _ (strLen (renderTokens ts0)) env ts0 ts
    her.1.symm her.2 p0 hb
  exact ⟨ts, p, hl, hp, by rw [h1, ht], by rw [h2, he]⟩

/-- **C01_main_fragment, strong form** (`parse_fragment`). -/
theorem C01_main_fragment_identical (env : Env) (t : Tree) (hr : RepresentableFragment env t = true)
    (lex : Str → List Token × Option Nat) (hlex : LexCanon true lex) (s : Str)
    (hs : toXmlString env t [] = .ok s) :
    ∃ ts p, lex s = (ts, none) ∧ build .fragment (strLen s) env ts none = .ok p ∧
      p.tree = t ∧ p.env = env := by
  obtain ⟨ts0, hser, rfl⟩ := C01_serialised_ok_representable hr hs
  obtain ⟨ts, hl, her⟩ := hlex ts0 (C01_rendering_lexok_fragment env t hr ts0 hser)
  obtain ⟨p0, hb, ht, he⟩ := C01_build_fragment env t hr ts0 hser (strLen (renderTokens ts0))
  obtain ⟨p, hp, h1, h2, _⟩ := C02_positions_irrelevant_ok .fragment _ (strLen (renderTokens ts0)) env ts0 ts
    her.1.symm her.2 p0 hb
  exact ⟨ts, p, hl, hp, by rw [h1, ht], by rw [h2, he]⟩

/-! Non-vacuity (the document `c01Doc` above: default namespace, prefixed child, attribute value with
    `<&"` TAB, text `]]>` CR, comment, PIs): the hypotheses hold by `decide`; it reads back as the
    abstract document below; the builder on its tokens returns it; so does `parse` with any tokenizer
    meeting the contract. -/

example : decodeNs c01Env c01Doc.kids = some
    [.comment ['h', 'i'],
     .elem ['u', 'r', 'n', ':', 'a'] ['r'] [([], ['u', 'r', 'n', ':', 'a']), (['p'], ['u', 'r', 'n', ':', 'b'])]
       [(([], ['k']), ['<', '&', '"', '\t'])]
       [.elem ['u', 'r', 'n', ':', 'b'] ['c'] [] [] [], .text [']', ']', '>', '\r'], .pi ['t'] (some ['d'])],
     .pi ['t'] none] := rfl

example : ∃ ts p, serTokensTop c01Env c01Doc = .ok ts ∧ renderTokens ts = c01Text ∧
    build .document (strLen c01Text) c01Env ts none = .ok p ∧ p.tree = c01Doc ∧ p.env = c01Env := by
  obtain ⟨ts, h1, h2⟩ := C01_serialised_is_rendering_ok c01Env c01Doc (by decide) (by decide) c01Text
    (by decide)
  obtain ⟨p, h3, h4, h5⟩ := C01_build c01Env c01Doc (by decide) ts h1 (strLen c01Text)
  exact ⟨ts, p, h1, h2.symm, h3, h4, h5⟩

example (lex : Str → List Token × Option Nat) (hlex : LexCanon false lex) :
    ∃ ts p, lex c01Text = (ts, none) ∧ build .document (strLen c01Text) c01Env ts none = .ok p ∧
      p.tree = c01Doc ∧ p.env = c01Env :=
  C01_main_identical c01Env c01Doc (by decide) lex hlex c01Text (by decide)

example : WellNsDoc (spellTop c01Env c01Doc) := by
  obtain ⟨ts, h1, _⟩ := C01_serialised_is_rendering_ok c01Env c01Doc (by decide) (by decide) c01Text
    (by decide)
  exact C01_spelling_well c01Env c01Doc (by decide) ts h1

/-! ### When does serialisation succeed? -/

/-- **C01_serialises**: for a representable document or fragment, `to_string` succeeds exactly when
    every namespaced name has a usable prefix in scope — `namesWritable` (Model/Scope.lean), the
    serialiser's own `MissingPrefix` checks run over the tree with the name stack
    `XmlSerializer::new` builds: no element in no namespace under a default namespace,
    `element_fullname` and every `attribute_fullname` answer (C10_error_element / _attribute say when;
    `create_missing_prefixes` establishes it: C10_repair_document_writable).  The hypothesis
    `toXmlString … = .ok s` of C01_main is therefore this decidable condition on the tree. -/
theorem C01_serialises (env : Env) (t : Tree) (hr : RepresentableFragment env t = true) :
    (∃ s, toXmlString env t [] = .ok s) ↔ namesWritable env t [] = some true := by
  rw [← serTokensTop_ok_iff hr, C01_serialised_is_rendering_representable env t hr]
  cases serTokensTop env t <;> simp [exceptIsOk]

/-- C01_main with the decidable condition in place of "serialisation succeeds". -/
theorem C01_main_writable (env : Env) (t : Tree) (hr : Representable env t = true)
    (hw : namesWritable env t [] = some true)
    (lex : Str → List Token × Option Nat) (hlex : LexCanon false lex) :
    ∃ s ts p, toXmlString env t [] = .ok s ∧ lex s = (ts, none) ∧
      build .document (strLen s) env ts none = .ok p ∧ p.tree = t ∧ p.env = env := by
  have hfrag : RepresentableFragment env t = true := by
    simp only [Representable, Bool.and_eq_true] at hr; exact hr.1
  obtain ⟨s, hs⟩ := (C01_serialises env t hfrag).mpr hw
  obtain ⟨ts, p, h1, h2, h3, h4⟩ := C01_main_identical env t hr lex hlex s hs
  exact ⟨s, ts, p, hs, h1, h2, h3, h4⟩

example : namesWritable c01Env c01Doc [] = some true := by decide

/-! ### `deep_equal` -/

/-- **C01_main as the property words it**: the reparsed tree is `deep_equal` (Model/Compare.lean,
    the crate's own comparison; canonical-form equality by C13_iff) to the original.  A corollary of
    the literal equality `C01_main_identical`, which says more (declarations and prefixes too). -/
theorem C01_main_deep_equal (env : Env) (t : Tree) (hr : Representable env t = true)
    (lex : Str → List Token × Option Nat) (hlex : LexCanon false lex) (s : Str)
    (hs : toXmlString env t [] = .ok s) :
    ∃ ts p, lex s = (ts, none) ∧ build .document (strLen s) env ts none = .ok p ∧
      deepEqual p.tree t = true := by
  obtain ⟨ts, p, h1, h2, h3, _⟩ := C01_main_identical env t hr lex hlex s hs
  refine ⟨ts, p, h1, h2, ?_⟩
  have hfrag : RepresentableFragment env t = true := by
    simp only [Representable, Bool.and_eq_true] at hr; exact hr.1
  obtain ⟨_, _, hn, _⟩ := (representableFragment_iff env t).mp hfrag
  have hv := valid_of_nodeOK t hn
  rw [h3]
  exact (deepEqual_iff_canon t t hv hv).mpr rfl

theorem C01_main_fragment_deep_equal (env : Env) (t : Tree) (hr : RepresentableFragment env t = true)
    (lex : Str → List Token × Option Nat) (hlex : LexCanon true lex) (s : Str)
    (hs : toXmlString env t [] = .ok s) :
    ∃ ts p, lex s = (ts, none) ∧ build .fragment (strLen s) env ts none = .ok p ∧
      deepEqual p.tree t = true := by
  obtain ⟨ts, p, h1, h2, h3, _⟩ := C01_main_fragment_identical env t hr lex hlex s hs
  refine ⟨ts, p, h1, h2, ?_⟩
  obtain ⟨_, _, hn, _⟩ := (representableFragment_iff env t).mp hr
  have hv := valid_of_nodeOK t hn
  rw [h3]
  exact (deepEqual_iff_canon t t hv hv).mpr rfl

/-! ### The closed loop: `parse (to_string tree)` on STRINGS

`parseString` (Model/ParseString.lean) = the reference tokenizer (Model/Lex.lean: the Lean model of
xmlparser, correspondence-checked against the crate's tokenizer by the lex suite) feeding the builder,
as `Xot::_parse` wires them.  It meets the contract `LexCanon` (Lemmas/LexCanon.lean), so the theorems
above hold for it without hypothesis. -/

/-- The reference tokenizer meets the contract, in both modes. -/
theorem C01_lexCanon_document : LexCanon false lexDocument := fun ts h => lexDocument_render_erase ts h
theorem C01_lexCanon_fragment : LexCanon true lexFragment := fun ts h => lexFragment_render_erase ts h

/-- **C01_roundtrip** (`parse(to_string(doc))`): for every representable document whose default
    serialisation succeeds, parsing the serialised STRING succeeds and the reparsed document reads
    back, through the tables the parse leaves, as exactly the abstract document the original reads
    back as. -/
theorem C01_roundtrip (env : Env) (t : Tree) (hr : Representable env t = true) (s : Str)
    (hs : toXmlString env t [] = .ok s) :
    ∃ p, parseString .document env s = .ok p ∧ p.tree.value = .document ∧
      decodeNs p.env p.tree.kids = decodeNs env t.kids := by
  obtain ⟨ts, p, h1, h2, h3, h4⟩ := C01_main env t hr lexDocument C01_lexCanon_document s hs
  refine ⟨p, ?_, h3, h4⟩
  simp only [parseString, lexMode, h1]
  exact h2

/-- **C01_roundtrip_identical**: the reparsed tree IS the original tree — node kinds and order, name
    ids (expanded names), attribute sets and values, character data, comments, PIs, namespace
    declarations on the same elements with the same prefix-to-URI bindings — the interning tables are
    unchanged, and `deep_equal` answers `true`. -/
theorem C01_roundtrip_identical (env : Env) (t : Tree) (hr : Representable env t = true) (s : Str)
    (hs : toXmlString env t [] = .ok s) :
    ∃ p, parseString .document env s = .ok p ∧ p.tree = t ∧ p.env = env ∧ deepEqual p.tree t = true := by
  obtain ⟨ts, p, h1, h2, h3, h4⟩ := C01_main_identical env t hr lexDocument C01_lexCanon_document s hs
  obtain ⟨ts', p', k1, k2, k3⟩ := C01_main_deep_equal env t hr lexDocument C01_lexCanon_document s hs
  rw [h1] at k1
  cases k1
  rw [h2] at k2
  cases k2
  refine ⟨p, ?_, h3, h4, k3⟩
  simp only [parseString, lexMode, h1]
  exact h2

/-- `parse_fragment(to_string(doc))`. -/
theorem C01_roundtrip_fragment (env : Env) (t : Tree) (hr : RepresentableFragment env t = true) (s : Str)
    (hs : toXmlString env t [] = .ok s) :
    ∃ p, parseString .fragment env s = .ok p ∧ p.tree.value = .document ∧
      decodeNs p.env p.tree.kids = decodeNs env t.kids := by
  obtain ⟨ts, p, h1, h2, h3, h4⟩ := C01_main_fragment env t hr lexFragment C01_lexCanon_fragment s hs
  refine ⟨p, ?_, h3, h4⟩
  simp only [parseString, lexMode, h1]
  exact h2

theorem C01_roundtrip_fragment_identical (env : Env) (t : Tree) (hr : RepresentableFragment env t = true)
    (s : Str) (hs : toXmlString env t [] = .ok s) :
    ∃ p, parseString .fragment env s = .ok p ∧ p.tree = t ∧ p.env = env ∧ deepEqual p.tree t = true := by
  obtain ⟨ts, p, h1, h2, h3, h4⟩ :=
    C01_main_fragment_identical env t hr lexFragment C01_lexCanon_fragment s hs
  obtain ⟨ts', p', k1, k2, k3⟩ := C01_main_fragment_deep_equal env t hr lexFragment C01_lexCanon_fragment s hs
  rw [h1] at k1
  cases k1
  rw [h2] at k2
  cases k2
  refine ⟨p, ?_, h3, h4, k3⟩
  simp only [parseString, lexMode, h1]
  exact h2

/-- The property as one statement on the tree: a representable document every namespaced name of which
    has a usable prefix in scope serialises, and the text parses back to the same tree. -/
theorem C01_roundtrip_writable (env : Env) (t : Tree) (hr : Representable env t = true)
    (hw : namesWritable env t [] = some true) :
    ∃ s p, toXmlString env t [] = .ok s ∧ parseString .document env s = .ok p ∧ p.tree = t ∧ p.env = env ∧
      deepEqual p.tree t = true := by
  have hfrag : RepresentableFragment env t = true := by
    simp only [Representable, Bool.and_eq_true] at hr; exact hr.1
  obtain ⟨s, hs⟩ := (C01_serialises env t hfrag).mpr hw
  obtain ⟨p, h1, h2, h3, h4⟩ := C01_roundtrip_identical env t hr s hs
  exact ⟨s, p, hs, h1, h2, h3, h4⟩

/-- Non-vacuity, closed: the document `c01Doc` meets the hypotheses by `decide`, so its serialisation
    `c01Text` parses back to it. -/
example : ∃ p, parseString .document c01Env c01Text = .ok p ∧ p.tree = c01Doc ∧ p.env = c01Env ∧
    deepEqual p.tree c01Doc = true :=
  C01_roundtrip_identical c01Env c01Doc (by decide) c01Text (by decide)

/-! ### A start node INSIDE the tree: `to_string(element)` for an element that has ancestors

`XmlSerializer::new` seeds the name stack with `namespaces_in_scope(node)` and `gen_edge_start` writes, on the
start element, one declaration per in-scope binding the element does not declare itself — before its own
declarations, nearest ancestor first.  `standalone t q` (Model/InnerStartSpec.lean) is the document this text
stands for: `D [ e' ]`, `e'` = the element at `q` with one namespace node per inherited declaration in front
of its children (all in-scope bindings not declared by the element, except the built-in `xml` binding). -/

/-- **Theorem A, tokens**: the tokens `to_string(node at q)` renders are the tokens of the standalone
    document serialised from its root — for EVERY tree (sound or not), every path to an element,
    `unescaped_gt` on or off; the two fail together, with the same error. -/
theorem C01_inner_tokens (env : Env) (ugt : Bool) (t : Tree) (q : Path) (name : Nat) (ks : List Tree)
    (hat : t.at? q = some (.node (.element name) ks)) :
    ∃ t', standalone t q = some t' ∧ serTokensAt env ugt t q = serTokensAt env ugt t' [] :=
  serTokensAt_standalone ugt t q name ks hat

/-- **Theorem A** (`C01_inner_serialisation`): `to_string(inner element)` IS `to_string(standalone document)`
    — the same text, or the same error.  Side condition as in `C01_serialised_is_rendering`: `xml` and the
    prefixes the tree declares have a non-empty spelling (implied by `nodeOK` everywhere). -/
theorem C01_inner_serialisation (env : Env) (t : Tree) (q : Path) (name : Nat) (ks : List Tree)
    (hx : env.prefixStr Env.xmlPrefix ≠ []) (ht : t.allNodes (declsNamed env) = true)
    (hat : t.at? q = some (.node (.element name) ks)) :
    ∃ t', standalone t q = some t' ∧ toXmlString env t q = toXmlString env t' [] :=
  serializeString_standalone {} rfl t q name ks hx ht hat

/-- … for any token parameters without CDATA-section elements (`unescaped_gt`). -/
theorem C01_inner_serialisation_params (env : Env) (pr : TokenParams) (hcd : pr.cdataSectionElements = [])
    (t : Tree) (q : Path) (name : Nat) (ks : List Tree)
    (hx : env.prefixStr Env.xmlPrefix ≠ []) (ht : t.allNodes (declsNamed env) = true)
    (hat : t.at? q = some (.node (.element name) ks)) :
    ∃ t', standalone t q = some t' ∧ serializeString env pr t q = serializeString env pr t' [] :=
  serializeString_standalone pr hcd t q name ks hx ht hat

/-- The standalone document of an element of a tree that is `nodeOK` everywhere (ancestors included: the
    inherited declarations are their namespace nodes) is in the C01 domain: the inherited declarations
    are well-formed, their prefixes pairwise distinct and not declared by the element. -/
theorem C01_inner_standalone_representable (env : Env) (t : Tree) (q : Path) (name : Nat) (ks : List Tree)
    (henv : envOK env = true) (hok : t.allNodes (nodeOK env) = true)
    (hat : t.at? q = some (.node (.element name) ks))
    (hids : (xmlIdValues env (.node (.element name) ks)).Nodup) :
    ∃ X, standalone t q = some (.node .document [.node (.element name) (nsLeaves X ++ ks)]) ∧
      Representable env (.node .document [.node (.element name) (nsLeaves X ++ ks)]) = true :=
  standalone_representable henv t q name ks hok hat hids

/-- `to_string(node at q)` succeeds exactly when every namespaced name below the node has a usable prefix
    in scope (`namesWritable env t q`: the serialiser's `MissingPrefix` checks with the name stack started
    from `namespaces_in_scope(node)`) — any node kind, any path that exists. -/
theorem C01_inner_serialises (env : Env) (t : Tree) (q : Path) (sub : Tree) (henv : envOK env = true)
    (hok : t.allNodes (nodeOK env) = true) (hat : t.at? q = some sub) :
    (∃ s, toXmlString env t q = .ok s) ↔ namesWritable env t q = some true := by
  rw [← serTokensAt_ok_iff henv false t q sub hok hat]
  have hx : env.prefixStr Env.xmlPrefix ≠ [] := by rw [envOK_xmlPrefix env henv]; simp
  have h := C01_serialised_is_rendering_at env {} t q rfl hx (nodeOK_declsNamed env t hok)
  show (∃ s, serializeString env {} t q = .ok s) ↔ _
  rw [h]
  cases serTokensAt env false t q <;> simp [exceptIsOk]

/-- **Theorem B, general form**: `t` any tree that is `nodeOK` everywhere (a document, a fragment, or a
    parentless element with the start node below it), sane tables, no repeated `xml:id` value below the start
    element.  If `to_string(element at q)` succeeds, parsing the text succeeds and gives — id for id, tables
    unchanged — the standalone document; its document element is the start element with the inherited
    declarations in front, and `deep_equal` to the start element. -/
theorem C01_roundtrip_inner_nodes (env : Env) (t : Tree) (q : Path) (name : Nat) (ks : List Tree)
    (henv : envOK env = true) (hok : t.allNodes (nodeOK env) = true)
    (hat : t.at? q = some (.node (.element name) ks))
    (hids : (xmlIdValues env (.node (.element name) ks)).Nodup) (s : Str)
    (hs : toXmlString env t q = .ok s) :
    ∃ p X, standalone t q = some (.node .document [.node (.element name) (nsLeaves X ++ ks)]) ∧
      Representable env (.node .document [.node (.element name) (nsLeaves X ++ ks)]) = true ∧
      parseString .document env s = .ok p ∧
      p.tree = .node .document [.node (.element name) (nsLeaves X ++ ks)] ∧ p.env = env ∧
      deepEqual (.node (.element name) (nsLeaves X ++ ks)) (.node (.element name) ks) = true := by
  obtain ⟨X, h1, hr⟩ := standalone_representable henv t q name ks hok hat hids
  have hx : env.prefixStr Env.xmlPrefix ≠ [] := by rw [envOK_xmlPrefix env henv]; simp
  obtain ⟨t', h2, h3⟩ := C01_inner_serialisation env t q name ks hx (nodeOK_declsNamed env t hok) hat
  rw [h1, Option.some.injEq] at h2
  subst h2
  rw [h3] at hs
  obtain ⟨p, k1, k2, k3, _⟩ := C01_roundtrip_identical env _ hr s hs
  refine ⟨p, X, h1, hr, k1, k2, k3, ?_⟩
  have hfrag : RepresentableFragment env (.node .document [.node (.element name) (nsLeaves X ++ ks)]) = true := by
    simp only [Representable, Bool.and_eq_true] at hr; exact hr.1
  obtain ⟨_, _, hn, _⟩ := (representableFragment_iff env _).mp hfrag
  exact deepEqual_prepend_ns name ks X (allNodes_kid hn (by simp)) (ist_allNodes_at? q t _ hok hat)

/-- **Theorem B** (`C01_roundtrip_inner`): for an element anywhere inside a representable document or
    fragment: if `to_string(element)` succeeds, parsing the text gives the standalone document, and the
    reparsed document element is `deep_equal` to the inner element (deep equality does not see
    declarations). -/
theorem C01_roundtrip_inner (env : Env) (t : Tree) (hr : RepresentableFragment env t = true) (q : Path)
    (name : Nat) (ks : List Tree) (hat : t.at? q = some (.node (.element name) ks)) (s : Str)
    (hs : toXmlString env t q = .ok s) :
    ∃ p X, standalone t q = some (.node .document [.node (.element name) (nsLeaves X ++ ks)]) ∧
      Representable env (.node .document [.node (.element name) (nsLeaves X ++ ks)]) = true ∧
      parseString .document env s = .ok p ∧
      p.tree = .node .document [.node (.element name) (nsLeaves X ++ ks)] ∧ p.env = env ∧
      deepEqual (.node (.element name) (nsLeaves X ++ ks)) (.node (.element name) ks) = true := by
  obtain ⟨henv, _, hn, hid⟩ := (representableFragment_iff env t).mp hr
  exact C01_roundtrip_inner_nodes env t q name ks henv hn hat
    (hid.sublist (xmlIdValues_at?_sublist q t _ hat)) s hs

/-- The same from the decidable condition: an element of a representable document every namespaced name
    below which has a usable prefix in scope serialises on its own, and the text parses back to the
    standalone document. -/
theorem C01_roundtrip_inner_writable (env : Env) (t : Tree) (hr : RepresentableFragment env t = true)
    (q : Path) (name : Nat) (ks : List Tree) (hat : t.at? q = some (.node (.element name) ks))
    (hw : namesWritable env t q = some true) :
    ∃ s p X, toXmlString env t q = .ok s ∧
      standalone t q = some (.node .document [.node (.element name) (nsLeaves X ++ ks)]) ∧
      Representable env (.node .document [.node (.element name) (nsLeaves X ++ ks)]) = true ∧
      parseString .document env s = .ok p ∧
      p.tree = .node .document [.node (.element name) (nsLeaves X ++ ks)] ∧ p.env = env ∧
      deepEqual (.node (.element name) (nsLeaves X ++ ks)) (.node (.element name) ks) = true := by
  obtain ⟨henv, _, hn, _⟩ := (representableFragment_iff env t).mp hr
  obtain ⟨s, hs⟩ := (C01_inner_serialises env t q _ henv hn hat).mpr hw
  obtain ⟨p, X, h1, h0, h2, h3, h4, h5⟩ := C01_roundtrip_inner env t hr q name ks hat s hs
  exact ⟨s, p, X, hs, h1, h0, h2, h3, h4, h5⟩

/-! Non-vacuity: `<r xmlns="urn:a" xmlns:p="urn:b" xmlns:q="urn:b">x<m xmlns:p="urn:a" q:w="v"><q:c/></m></r>`;
    the inner element `m` inherits the default namespace and `q` and RE-DECLARES `p`: `to_string(m)` writes
    `xmlns="urn:a" xmlns:q="urn:b"` (inherited, in scope order) before its own `xmlns:p="urn:a"`. -/

def c01InnerEnv : Env where
  namespaces := [[], xmlNamespaceUri, ['u', 'r', 'n', ':', 'a'], ['u', 'r', 'n', ':', 'b']]
  prefixes := [[], ['x', 'm', 'l'], ['p'], ['q']]
  names := [(['s', 'p', 'a', 'c', 'e'], 1), (['i', 'd'], 1), (['r'], 2), (['c'], 3), (['m'], 2), (['w'], 3)]

def c01InnerDoc : Tree :=
  .node .document [
    .node (.element 2) [
      .node (.namespace 0 2) [], .node (.namespace 2 3) [], .node (.namespace 3 3) [],
      .node (.text ['x']) [],
      .node (.element 4) [
        .node (.namespace 2 2) [],
        .node (.attribute 5 ['v']) [],
        .node (.element 3) []]]]

/-- The standalone document of `m` (path `[0, 4]`). -/
def c01InnerStandalone : Tree :=
  .node .document [
    .node (.element 4) [
      .node (.namespace 0 2) [], .node (.namespace 3 3) [],
      .node (.namespace 2 2) [],
      .node (.attribute 5 ['v']) [],
      .node (.element 3) []]]

def c01InnerText : Str :=
  "<m xmlns=\"urn:a\" xmlns:q=\"urn:b\" xmlns:p=\"urn:a\" q:w=\"v\"><q:c/></m>".toList

example : Representable c01InnerEnv c01InnerDoc = true := by decide
example : namespacesInScope c01InnerDoc [0, 4] = some [(2, 2), (0, 2), (3, 3), (1, 1)] := by decide
example : standalone c01InnerDoc [0, 4] = some c01InnerStandalone := rfl
example : toXmlString c01InnerEnv c01InnerDoc [0, 4] = .ok c01InnerText := by decide
example : toXmlString c01InnerEnv c01InnerStandalone [] = .ok c01InnerText := by decide
example : namesWritable c01InnerEnv c01InnerDoc [0, 4] = some true := by decide

/-- Closed: the text of the inner element parses to its standalone document. -/
example : ∃ p, parseString .document c01InnerEnv c01InnerText = .ok p ∧ p.tree = c01InnerStandalone ∧
    p.env = c01InnerEnv ∧
    deepEqual (.node (.element 4) c01InnerStandalone.kids.head!.kids)
      (.node (.element 4) [.node (.namespace 2 2) [], .node (.attribute 5 ['v']) [], .node (.element 3) []]) = true := by
  obtain ⟨p, X, h1, _, h2, h3, h4, h5⟩ := C01_roundtrip_inner c01InnerEnv c01InnerDoc (by decide) [0, 4] 4 _ rfl
    c01InnerText (by decide)
  have hX : standalone c01InnerDoc [0, 4] = some c01InnerStandalone := rfl
  rw [hX, Option.some.injEq] at h1
  rw [← h1] at h3
  exact ⟨p, h2, h3, h4, by decide⟩

/-- The whole document, for comparison: in place `m` writes only its own declaration. -/
example : toXmlString c01InnerEnv c01InnerDoc [] =
    .ok "<r xmlns=\"urn:a\" xmlns:p=\"urn:b\" xmlns:q=\"urn:b\">x<m xmlns:p=\"urn:a\" q:w=\"v\"><q:c/></m></r>".toList := by
  decide

/-! ## END TO END: API histories ∘ serialise ∘ parse

Everything above is about a plain `Tree` inside the domain `Representable` (Model/SerTokens.lean), whose
STRUCTURAL clauses (namespace nodes, then attribute nodes, then the rest; leaves; unique attribute names
and prefixes per element; no two adjacent text nodes; documents only at the root) are hypotheses there.
For the trees that the public API can build they are THEOREMS: Props/C04.lean proves the forest invariant
for every extended history (`C04_reach_ext`: the whole mutating API on nodes, node creation,
`set_text_consolidation`, `remove_insignificant_whitespace`, `create_missing_prefixes`,
`deduplicate_namespaces`, `clone_with_prefixes`) and reduces `Representable` of a reachable tree to
conditions on its VALUES (`C01_reachable_representable`).  This section composes the two halves of the
development (they could not be imported together before the helper lemma names were made unique):

    history of API calls  —erase→  tree  —to_string→  text  —parse→  the same tree.

`env'` is any pair of interning tables; the intended instance is the tables of the store itself
(`C01_reachable_roundtrip_store`). -/

section EndToEnd

/-- ⟦C01_reachable_roundtrip⟧ **Every document the API can build round-trips.**  For every extended
    history `cs` from the empty store, every step well-kinded (`C04_reach_ext`; a condition on map
    insertions as DATA that the Rust API cannot violate), text consolidation never switched off, and every
    parentless tree `r` of the resulting forest whose root is a document node: if
      * the tables are well formed (`envOK`),
      * every node's own VALUE is in the XML domain (`valueOK`: names are NCNames, text / comment / PI /
        attribute values are XML characters without the forbidden sequences, text is not empty, …),
      * the `xml:id` values are pairwise different,
      * there is exactly one top-level element and no top-level text (`singleRoot`), and
      * every namespaced name has a usable prefix in scope (`namesWritable`: the serialiser's own
        `MissingPrefix` checks),
    then `to_string` of the tree succeeds, and `parse` of the text succeeds and returns EXACTLY that
    tree — node kinds and order, name ids, attributes, character data, comments, PIs, namespace nodes —,
    the interning tables unchanged, `deep_equal`.  No structural hypothesis on the tree. -/
theorem C01_reachable_roundtrip (env : Env) (cs : List Forest.XCall) (hw : ∀ c ∈ cs, c.wellKinded)
    (hoff : ((⟨Forest.init, env⟩ : Store).xrun cs).forest.everOff = false)
    (r : HTree) (hr : r ∈ ((⟨Forest.init, env⟩ : Store).xrun cs).forest.roots)
    (hdoc : r.value.isDocument = true) (env' : Env) (henv : envOK env' = true)
    (hval : r.erase.allNodes (fun v _ => valueOK env' v) = true)
    (hid : (xmlIdValues env' r.erase).Nodup) (hone : singleRoot r.erase = true)
    (hwr : namesWritable env' r.erase [] = some true) :
    ∃ s p, toXmlString env' r.erase [] = .ok s ∧ parseString .document env' s = .ok p ∧
      p.tree = r.erase ∧ p.env = env' ∧ deepEqual p.tree r.erase = true := by
  have hrep : Representable env' r.erase = true := by
    rw [(C01_reachable_representable env cs hw hoff r hr env').2]
    simp [henv, hdoc, hval, hid, hone]
  exact C01_roundtrip_writable env' r.erase hrep hwr

/-- The same for `parse_fragment`: any number of top-level elements, top-level text allowed. -/
theorem C01_reachable_roundtrip_fragment (env : Env) (cs : List Forest.XCall) (hw : ∀ c ∈ cs, c.wellKinded)
    (hoff : ((⟨Forest.init, env⟩ : Store).xrun cs).forest.everOff = false)
    (r : HTree) (hr : r ∈ ((⟨Forest.init, env⟩ : Store).xrun cs).forest.roots)
    (hdoc : r.value.isDocument = true) (env' : Env) (henv : envOK env' = true)
    (hval : r.erase.allNodes (fun v _ => valueOK env' v) = true)
    (hid : (xmlIdValues env' r.erase).Nodup)
    (hwr : namesWritable env' r.erase [] = some true) :
    ∃ s p, toXmlString env' r.erase [] = .ok s ∧ parseString .fragment env' s = .ok p ∧
      p.tree = r.erase ∧ p.env = env' ∧ deepEqual p.tree r.erase = true := by
  have hrep : RepresentableFragment env' r.erase = true := by
    rw [(C01_reachable_representable env cs hw hoff r hr env').1]
    simp [henv, hdoc, hval, hid]
  obtain ⟨s, hs⟩ := (C01_serialises env' r.erase hrep).mpr hwr
  obtain ⟨p, h1, h2, h3, h4⟩ := C01_roundtrip_fragment_identical env' r.erase hrep s hs
  exact ⟨s, p, hs, h1, h2, h3, h4⟩

/-- ⟦C01_reachable_roundtrip_store⟧ The instance the property talks about: the tables are the ones the
    history itself leaves in the store (`create_missing_prefixes` steps may have added prefixes). -/
theorem C01_reachable_roundtrip_store (env : Env) (cs : List Forest.XCall) (hw : ∀ c ∈ cs, c.wellKinded)
    (S : Store) (hS : S = (⟨Forest.init, env⟩ : Store).xrun cs) (hoff : S.forest.everOff = false)
    (r : HTree) (hr : r ∈ S.forest.roots) (hdoc : r.value.isDocument = true) (henv : envOK S.env = true)
    (hval : r.erase.allNodes (fun v _ => valueOK S.env v) = true)
    (hid : (xmlIdValues S.env r.erase).Nodup) (hone : singleRoot r.erase = true)
    (hwr : namesWritable S.env r.erase [] = some true) :
    ∃ s p, toXmlString S.env r.erase [] = .ok s ∧ parseString .document S.env s = .ok p ∧
      p.tree = r.erase ∧ p.env = S.env ∧ deepEqual p.tree r.erase = true := by
  subst hS
  exact C01_reachable_roundtrip env cs hw hoff r hr hdoc _ henv hval hid hone hwr

/-! Non-vacuity, closed: the 8-step history `reachDocCalls` of Props/C04.lean (`new_document`, `new_element`,
    `new_text`, `new_comment`, three `append`s, one `attributes_mut().insert`) from the empty store builds
    `<!--c--><e a="v">x</e>`; every hypothesis of `C01_reachable_roundtrip` holds by evaluation, the
    text is the one below, and it parses back to the erased tree. -/

def c01ReachText : Str := "<!--c--><e a=\"v\">x</e>".toList

example : (∀ c ∈ reachDocCalls, c.wellKinded) ∧
    ((⟨Forest.init, reachDocEnv⟩ : Store).xrun reachDocCalls).forest.everOff = false ∧
    ((⟨Forest.init, reachDocEnv⟩ : Store).xrun reachDocCalls).forest.roots = [reachDocRoot] ∧
    reachDocRoot.value.isDocument = true ∧ envOK reachDocEnv = true ∧
    reachDocRoot.erase.allNodes (fun v _ => valueOK reachDocEnv v) = true ∧
    (xmlIdValues reachDocEnv reachDocRoot.erase).Nodup ∧ singleRoot reachDocRoot.erase = true ∧
    namesWritable reachDocEnv reachDocRoot.erase [] = some true ∧
    toXmlString reachDocEnv reachDocRoot.erase [] = .ok c01ReachText := by decide +kernel

/-- No step of this history touches the interning tables. -/
example : ((⟨Forest.init, reachDocEnv⟩ : Store).xrun reachDocCalls).env = reachDocEnv := rfl

example : ∃ p, parseString .document reachDocEnv c01ReachText = .ok p ∧ p.tree = reachDocRoot.erase ∧
    p.env = reachDocEnv ∧ deepEqual p.tree reachDocRoot.erase = true := by
  obtain ⟨s, p, h1, h2, h3, h4, h5⟩ := C01_reachable_roundtrip reachDocEnv reachDocCalls (by decide)
    (by decide +kernel) reachDocRoot reachDocRoot_mem rfl reachDocEnv (by decide +kernel) (by decide +kernel)
    (by decide +kernel) (by decide +kernel) (by decide +kernel)
  have hs : s = c01ReachText := by
    have : toXmlString reachDocEnv reachDocRoot.erase [] = .ok c01ReachText := by decide +kernel
    rw [this] at h1; cases h1; rfl
  subst hs
  exact ⟨p, h2, h3, h4, h5⟩

end EndToEnd

/-! ## END TO END, with the parser in the history: parse ∘ API edits ∘ serialise ∘ parse

The commonest use of the crate: parse a text, edit the tree through the API, serialise.  `PCall`
(Model/FparseHist.lean) is the history type that has BOTH kinds of step — `parse mode text` (reference tokenizer
+ builder on the interning tables of the store, the accepted tree installed as a new parentless tree,
`IdStore.parseInto`) and every extended API call.  Props/C04.lean proves the forest invariant for every such
history (`C04_reach_full`: the tree an accepted text installs IS valid, `C04_parsed_valid`) and reduces
`Representable` of every reachable tree to conditions on its values (`C01_reachable_representable_full`).
Composed with the round trip:

    parse(text), API calls  —erase→  tree  —to_string→  text'  —parse→  the same tree.

What remains as hypotheses are the VALUE-level conditions on the tree that is serialised (`envOK`, `valueOK`
at every node, distinct `xml:id` values, `singleRoot`, `namesWritable`).  For the UNEDITED document they are
consequences of acceptance outside the two recorded guards (`C01_parse_serialise`).  For EDITED trees:
`singleRoot`, distinct `xml:id`s and `namesWritable` can be destroyed by edits (append a second element to
the document node; copy an attribute `xml:id`; remove a declaration — `create_missing_prefixes` restores the
last one, `C10_reachable_repair_roundtrip`), so they are conditions on the result by nature.  `envOK` and
`valueOK` at every node are THEOREMS when "the values handed to the API are in the XML domain"
(`Forest.XCall.argValuesOK`, Model/FparseHist.lean, for the tables at the time of each call:
`Store.argValuesOKAlong`) — `C01_edited_values`: every value of the edited store is a value of the parsed tree,
a value handed to a call, a concatenation of text values (consolidation) or a declaration generated by
`create_missing_prefixes` (a namespace of a registered name under a generated NCName; needs `nameTableOK`:
every such namespace is declarable); value provenance for EVERY call of the forest model, Lemmas/FparseVals*.lean.
`C01_parse_edit_serialise_values` is the composition: acceptance outside the guards + arguments in the domain +
`singleRoot`, distinct `xml:id`s, `namesWritable` of the edited document ⇒ it round-trips. -/

section ParseEditSerialise
open XotModel.Repair

/-- ⟦C01_reachable_roundtrip_full⟧ **Every document a history of parses and API calls can build
    round-trips.**  For every history `cs` from `Xot::new()` — `parse` / `parse_fragment` of arbitrary texts
    and well-kinded extended API calls in any order (`C04_reach_full`) —, text consolidation never switched
    off, and every parentless tree `r` of the resulting forest whose root is a document node (a parsed
    document, edited or not; a document built by hand): if the tables are well formed (`envOK`), every
    node's own VALUE is in the XML domain (`valueOK`), the `xml:id` values are pairwise different, there is
    exactly one top-level element and no top-level text (`singleRoot`), and every namespaced name has a
    usable prefix in scope (`namesWritable`), then `to_string` succeeds, and `parse` of the text succeeds
    and returns EXACTLY that tree, the interning tables unchanged, `deep_equal`.  No structural
    hypothesis on the tree. -/
theorem C01_reachable_roundtrip_full (env : Env) (cs : List PCall) (hw : ∀ c ∈ cs, c.wellKinded)
    (hoff : ((PStore.init env).run cs).forest.everOff = false)
    (r : HTree) (hr : r ∈ ((PStore.init env).run cs).forest.roots)
    (hdoc : r.value.isDocument = true) (env' : Env) (henv : envOK env' = true)
    (hval : r.erase.allNodes (fun v _ => valueOK env' v) = true)
    (hid : (xmlIdValues env' r.erase).Nodup) (hone : singleRoot r.erase = true)
    (hwr : namesWritable env' r.erase [] = some true) :
    ∃ s p, toXmlString env' r.erase [] = .ok s ∧ parseString .document env' s = .ok p ∧
      p.tree = r.erase ∧ p.env = env' ∧ deepEqual p.tree r.erase = true := by
  have hrep : Representable env' r.erase = true := by
    rw [(C01_reachable_representable_full env cs hw hoff r hr env').2]
    simp [henv, hdoc, hval, hid, hone]
  exact C01_roundtrip_writable env' r.erase hrep hwr

/-- The same for `parse_fragment`: any number of top-level elements, top-level text allowed. -/
theorem C01_reachable_roundtrip_full_fragment (env : Env) (cs : List PCall) (hw : ∀ c ∈ cs, c.wellKinded)
    (hoff : ((PStore.init env).run cs).forest.everOff = false)
    (r : HTree) (hr : r ∈ ((PStore.init env).run cs).forest.roots)
    (hdoc : r.value.isDocument = true) (env' : Env) (henv : envOK env' = true)
    (hval : r.erase.allNodes (fun v _ => valueOK env' v) = true)
    (hid : (xmlIdValues env' r.erase).Nodup)
    (hwr : namesWritable env' r.erase [] = some true) :
    ∃ s p, toXmlString env' r.erase [] = .ok s ∧ parseString .fragment env' s = .ok p ∧
      p.tree = r.erase ∧ p.env = env' ∧ deepEqual p.tree r.erase = true := by
  have hrep : RepresentableFragment env' r.erase = true := by
    rw [(C01_reachable_representable_full env cs hw hoff r hr env').1]
    simp [henv, hdoc, hval, hid]
  obtain ⟨s, hs⟩ := (C01_serialises env' r.erase hrep).mpr hwr
  obtain ⟨p, h1, h2, h3, h4⟩ := C01_roundtrip_fragment_identical env' r.erase hrep s hs
  exact ⟨s, p, hs, h1, h2, h3, h4⟩

/-- ⟦C01_reachable_roundtrip_full_store⟧ The instance the property talks about: the tables are the ones the
    history itself leaves in the store (parses intern names, prefixes and namespaces;
    `create_missing_prefixes` steps may add prefixes). -/
theorem C01_reachable_roundtrip_full_store (env : Env) (cs : List PCall) (hw : ∀ c ∈ cs, c.wellKinded)
    (S : PStore) (hS : S = (PStore.init env).run cs) (hoff : S.forest.everOff = false)
    (r : HTree) (hr : r ∈ S.forest.roots) (hdoc : r.value.isDocument = true) (henv : envOK S.env = true)
    (hval : r.erase.allNodes (fun v _ => valueOK S.env v) = true)
    (hid : (xmlIdValues S.env r.erase).Nodup) (hone : singleRoot r.erase = true)
    (hwr : namesWritable S.env r.erase [] = some true) :
    ∃ s p, toXmlString S.env r.erase [] = .ok s ∧ parseString .document S.env s = .ok p ∧
      p.tree = r.erase ∧ p.env = S.env ∧ deepEqual p.tree r.erase = true := by
  subst hS
  exact C01_reachable_roundtrip_full env cs hw hoff r hr hdoc _ henv hval hid hone hwr

/-- ⟦C01_parse_edit_serialise⟧ **Parse, edit, serialise.**  Parse an accepted text into `Xot::new()`, apply ANY
    well-kinded history of extended API calls to the store (arbitrary arguments, whatever the calls
    answer), serialise a document of the resulting store — in particular the parsed, now edited one —
    with the tables the store has by then: if the value-level conditions hold of the EDITED tree, the text
    parses back to exactly the edited tree.  (Acceptance of `text` is not even needed: a rejected text
    installs nothing, and the theorem is then about the documents the API calls built.) -/
theorem C01_parse_edit_serialise (env : Env) (text : Str) (cs : List Forest.XCall) (hw : ∀ c ∈ cs, c.wellKinded)
    (S : PStore) (hS : S = (PStore.init env).run (.parse .document text :: cs.map .api))
    (hoff : S.forest.everOff = false)
    (r : HTree) (hr : r ∈ S.forest.roots) (hdoc : r.value.isDocument = true) (henv : envOK S.env = true)
    (hval : r.erase.allNodes (fun v _ => valueOK S.env v) = true)
    (hid : (xmlIdValues S.env r.erase).Nodup) (hone : singleRoot r.erase = true)
    (hwr : namesWritable S.env r.erase [] = some true) :
    ∃ s p, toXmlString S.env r.erase [] = .ok s ∧ parseString .document S.env s = .ok p ∧
      p.tree = r.erase ∧ p.env = S.env ∧ deepEqual p.tree r.erase = true := by
  refine C01_reachable_roundtrip_full_store env _ ?_ S hS hoff r hr hdoc henv hval hid hone hwr
  intro c hc
  rcases List.mem_cons.mp hc with rfl | hc
  · trivial
  · obtain ⟨x, hx, rfl⟩ := List.mem_map.mp hc
    exact hw x hx

/-- What the parse step of `C01_parse_edit_serialise` contributes: for an ACCEPTED text the store the edits start
    from holds exactly the parsed document — handle 0, erasing to the builder's tree —, the builder's
    tables, consolidation on. -/
theorem C01_parse_edit_start (env : Env) (text : Str) (p : Parsed) (h : parseString .document env text = .ok p) :
    ((PStore.init env).run [.parse .document text]).forest.roots = [HTree.ofTree 0 p.tree] ∧
    (HTree.ofTree 0 p.tree).erase = p.tree ∧ (HTree.ofTree 0 p.tree).handle = 0 ∧
    ((PStore.init env).run [.parse .document text]).forest.everOff = false ∧
    ((PStore.init env).run [.parse .document text]).env = p.env ∧
    ∀ cs : List Forest.XCall, (PStore.init env).run (.parse .document text :: cs.map .api) =
      ((PStore.init env).run [.parse .document text]).run (cs.map .api) := by
  obtain ⟨h1, h2, h3⟩ := PStore.fph_parse_init env h
  exact ⟨h1, fph_erase_ofTree _ _, HTree.handle_ofTree _ _, h2, h3, fun _ => rfl⟩

/-- ⟦C01_parse_serialise⟧ **The unedited document: no value-level hypothesis is left.**  A text accepted by
    `parse` on well-formed tables, outside the two recorded guards (`NoReservedDecls`: no declaration of
    the prefix `xml`, the known findings C03:xml-prefix-rebound-accepted / C03:not-representable-xml-prefix-
    rebound; `PlainPiTargets`: no colon in a PI target): the store then holds one document; its
    serialisation succeeds and parses back to exactly that tree (`C03_accepted_roundtrip`, here through the
    store). -/
theorem C01_parse_serialise (env : Env) (henv : envOK env = true) (text : Str) (p : Parsed)
    (h : parseString .document env text = .ok p) (hg : NoReservedDecls p.env p.tree = true)
    (hpi : PlainPiTargets p.env p.tree = true)
    (S : PStore) (hS : S = (PStore.init env).run [.parse .document text]) :
    ∃ r, S.forest.roots = [r] ∧ r.erase = p.tree ∧ S.env = p.env ∧
      ∃ s p', toXmlString S.env r.erase [] = .ok s ∧ parseString .document S.env s = .ok p' ∧
        p'.tree = r.erase ∧ p'.env = S.env ∧ deepEqual p'.tree r.erase = true := by
  obtain ⟨h1, h2, h3⟩ := PStore.fph_parse_init env h
  obtain ⟨c1, c2, c3, c4, c5⟩ := fph_accepted_value_conditions henv h hg hpi
  subst hS
  refine ⟨HTree.ofTree 0 p.tree, h1, fph_erase_ofTree _ _, h3, ?_⟩
  have hd : (HTree.ofTree 0 p.tree).value.isDocument = true := by
    rw [HTree.value_ofTree, fph_parsed_document h]; rfl
  refine C01_reachable_roundtrip_full env [.parse .document text] (fun _ _ => ?_) h2 _ (by rw [h1]; simp) hd _
    (by rw [h3]; exact c1) (by rw [h3, fph_erase_ofTree]; exact c2) (by rw [h3, fph_erase_ofTree]; exact c3)
    (by rw [fph_erase_ofTree]; exact c4) (by rw [h3, fph_erase_ofTree]; exact c5)
  rename_i c hc
  rcases List.mem_singleton.mp hc with rfl
  trivial

/-- ⟦C01_edited_values⟧ **The values of an edited tree are in the XML domain when the values handed to the API
    are.**  A text accepted by `parse` on well-formed tables outside the two guards, every namespace of a
    registered name declarable (`nameTableOK` of the tables after the parse: what `create_missing_prefixes`
    may have to declare), then ANY well-kinded history of extended API calls whose argument values are in
    the domain of the tables at the time of the call (`Store.argValuesOKAlong`: the value of a created node,
    the entry of a map insertion, the strings of `set_text` / `set_comment` / `set_pi_data` / `set_text_content`,
    the names of `element_wrap` / `set_element_name`, the declarations handed to `clone_with_prefixes`):
    the tables of the resulting store are well formed (`envOK`; only the prefix table has grown since the
    parse) and EVERY node of EVERY tree of the store has a value in the domain of those tables — the
    hypotheses `henv`, `hval` of `C01_parse_edit_serialise`. -/
theorem C01_edited_values (env : Env) (henv : envOK env = true) (text : Str) (p : Parsed)
    (h : parseString .document env text = .ok p) (hg : NoReservedDecls p.env p.tree = true)
    (hpi : PlainPiTargets p.env p.tree = true) (htab : nameTableOK p.env = true)
    (cs : List Forest.XCall) (hw : ∀ c ∈ cs, c.wellKinded)
    (ha : ((PStore.init env).run [.parse .document text]).store.argValuesOKAlong cs)
    (S : PStore) (hS : S = (PStore.init env).run (.parse .document text :: cs.map .api)) :
    envOK S.env = true ∧ PrefixExt p.env S.env ∧
      ∀ r ∈ S.forest.roots, r.erase.allNodes (fun v _ => valueOK S.env v) = true := by
  subst hS
  exact fpvd_parse_then_edit henv h hg hpi htab cs hw ha

/-- Without `create_missing_prefixes` steps the tables stay the parser's: the condition on the arguments
    is a condition for those tables, stated once. -/
theorem C01_edited_values_static (env : Env) (henv : envOK env = true) (text : Str) (p : Parsed)
    (h : parseString .document env text = .ok p) (hg : NoReservedDecls p.env p.tree = true)
    (hpi : PlainPiTargets p.env p.tree = true) (htab : nameTableOK p.env = true)
    (cs : List Forest.XCall) (hw : ∀ c ∈ cs, c.wellKinded)
    (hne : ∀ c ∈ cs, ∀ n, c ≠ .createMissingPrefixes n) (ha : ∀ c ∈ cs, c.argValuesOK p.env)
    (S : PStore) (hS : S = (PStore.init env).run (.parse .document text :: cs.map .api)) :
    envOK S.env = true ∧ ∀ r ∈ S.forest.roots, r.erase.allNodes (fun v _ => valueOK S.env v) = true := by
  have h3 : ((PStore.init env).run [.parse .document text]).store.env = p.env := (PStore.fph_parse_init env h).2.2
  obtain ⟨h1, _, h2⟩ := C01_edited_values env henv text p h hg hpi htab cs hw
    (Store.fpvd_argValuesOKAlong_static cs _ hne (by rw [h3]; exact ha)) S hS
  exact ⟨h1, h2⟩

/-- ⟦C01_parse_edit_serialise_values⟧ **Parse, edit with values of the XML domain, serialise.**  What is left as
    hypothesis on the EDITED document `r` is what edits can destroy and no argument condition can
    guarantee: one top-level element and no top-level text (`singleRoot`), pairwise different `xml:id`
    values, a usable prefix in scope for every namespaced name (`namesWritable`; `create_missing_prefixes`
    as last step establishes it) — and that consolidation was never switched off.  Then `to_string`
    succeeds and `parse` returns exactly the edited tree. -/
theorem C01_parse_edit_serialise_values (env : Env) (henv : envOK env = true) (text : Str) (p : Parsed)
    (h : parseString .document env text = .ok p) (hg : NoReservedDecls p.env p.tree = true)
    (hpi : PlainPiTargets p.env p.tree = true) (htab : nameTableOK p.env = true)
    (cs : List Forest.XCall) (hw : ∀ c ∈ cs, c.wellKinded)
    (ha : ((PStore.init env).run [.parse .document text]).store.argValuesOKAlong cs)
    (S : PStore) (hS : S = (PStore.init env).run (.parse .document text :: cs.map .api))
    (hoff : S.forest.everOff = false)
    (r : HTree) (hr : r ∈ S.forest.roots) (hdoc : r.value.isDocument = true)
    (hid : (xmlIdValues S.env r.erase).Nodup) (hone : singleRoot r.erase = true)
    (hwr : namesWritable S.env r.erase [] = some true) :
    ∃ s p', toXmlString S.env r.erase [] = .ok s ∧ parseString .document S.env s = .ok p' ∧
      p'.tree = r.erase ∧ p'.env = S.env ∧ deepEqual p'.tree r.erase = true := by
  obtain ⟨h1, _, h2⟩ := C01_edited_values env henv text p h hg hpi htab cs hw ha S hS
  exact C01_parse_edit_serialise env text cs hw S hS hoff r hr hdoc h1 (h2 r hr) hid hone hwr

/-! Non-vacuity, closed (`decide +kernel`), from the tables of `Xot::new()` (`Env.fresh`): the histories `fullCalls`
    / `fullCallsB` of Props/C04.lean.  PARSE `<r xmlns:p="urn:a"><p:a>t</p:a></r>`, create a NEW ELEMENT `{urn:a}a`
    and APPEND it to `r`, SET AN ATTRIBUTE `p:a="v"` on it, `CREATE_MISSING_PREFIXES` on the document, SERIALISE,
    REPARSE.  In `fullCallsB` the declaration of `p` is removed first (and a rejected text is parsed in
    between): the repair invents `n0`, the text differs, the round trip holds all the same.  Every hypothesis
    of `C01_parse_edit_serialise` holds by evaluation. -/

def c01FullText : Str := "<r xmlns:p=\"urn:a\"><p:a>t</p:a><p:a p:a=\"v\"/></r>".toList
def c01FullTextB : Str := "<r xmlns:n0=\"urn:a\"><n0:a>t</n0:a><n0:a n0:a=\"v\"/></r>".toList
def c01FullEdits : List Forest.XCall :=
  [.newNode (.element 3), .call (.append 1 5), .call (.mapInsert .attributes 5 (.attribute 3 ['v'])),
   .createMissingPrefixes 0]

example : fullCalls = .parse .document fullText :: c01FullEdits.map .api := rfl

example :
    let S := (PStore.init Env.fresh).run fullCalls
    (∀ c ∈ c01FullEdits, c.wellKinded) ∧ S.forest.everOff = false ∧ S.forest.roots = [fullRoot] ∧
    fullRoot.value.isDocument = true ∧ envOK S.env = true ∧
    fullRoot.erase.allNodes (fun v _ => valueOK S.env v) = true ∧
    (xmlIdValues S.env fullRoot.erase).Nodup ∧ singleRoot fullRoot.erase = true ∧
    namesWritable S.env fullRoot.erase [] = some true ∧
    toXmlString S.env fullRoot.erase [] = .ok c01FullText := by decide +kernel

/-- The edited document parses back to exactly the edited tree: `C01_parse_edit_serialise` instantiated. -/
example : ∃ p, parseString .document ((PStore.init Env.fresh).run fullCalls).env c01FullText = .ok p ∧
    p.tree = fullRoot.erase ∧ p.env = ((PStore.init Env.fresh).run fullCalls).env ∧
    deepEqual p.tree fullRoot.erase = true := by
  obtain ⟨s, p, h1, h2, h3, h4, h5⟩ := C01_parse_edit_serialise Env.fresh fullText c01FullEdits (by decide)
    ((PStore.init Env.fresh).run fullCalls) rfl (by decide +kernel) fullRoot fullRoot_mem rfl (by decide +kernel)
    (by decide +kernel) (by decide +kernel) (by decide +kernel) (by decide +kernel)
  have hs : s = c01FullText := by
    have : toXmlString ((PStore.init Env.fresh).run fullCalls).env fullRoot.erase [] = .ok c01FullText := by
      decide +kernel
    rw [this] at h1; cases h1; rfl
  subst hs
  exact ⟨p, h2, h3, h4, h5⟩

/-- … and by evaluation of the parser on the serialised text. -/
example : (match parseString .document ((PStore.init Env.fresh).run fullCalls).env c01FullText with
    | .ok p => p.tree == fullRoot.erase | _ => false) = true := by
  decide +kernel

/-- `fullCallsB`: declaration removed, a rejected parse in between, the repair invents `n0`. -/
example :
    let S := (PStore.init Env.fresh).run fullCallsB
    (∀ c ∈ fullCallsB, c.wellKinded) ∧ S.forest.everOff = false ∧ S.forest.roots = [fullRootB] ∧
    envOK S.env = true ∧ fullRootB.erase.allNodes (fun v _ => valueOK S.env v) = true ∧
    (xmlIdValues S.env fullRootB.erase).Nodup ∧ singleRoot fullRootB.erase = true ∧
    namesWritable S.env fullRootB.erase [] = some true ∧
    toXmlString S.env fullRootB.erase [] = .ok c01FullTextB := by decide +kernel

example : ∃ p, parseString .document ((PStore.init Env.fresh).run fullCallsB).env c01FullTextB = .ok p ∧
    p.tree = fullRootB.erase ∧ deepEqual p.tree fullRootB.erase = true := by
  obtain ⟨s, p, h1, h2, h3, _, h5⟩ := C01_reachable_roundtrip_full_store Env.fresh fullCallsB fullCallsB_wellKinded
    ((PStore.init Env.fresh).run fullCallsB) rfl (by decide +kernel) fullRootB fullRootB_mem rfl (by decide +kernel)
    (by decide +kernel) (by decide +kernel) (by decide +kernel) (by decide +kernel)
  have hs : s = c01FullTextB := by
    have : toXmlString ((PStore.init Env.fresh).run fullCallsB).env fullRootB.erase [] = .ok c01FullTextB := by
      decide +kernel
    rw [this] at h1; cases h1; rfl
  subst hs
  exact ⟨p, h2, h3, h5⟩

/-- The unedited document (`C01_parse_serialise`): `fullText` is accepted from `Xot::new()`'s tables inside both
    guards; no value-level hypothesis is left. -/
example : ∃ p, parseString .document Env.fresh fullText = .ok p ∧ NoReservedDecls p.env p.tree = true ∧
    PlainPiTargets p.env p.tree = true ∧ envOK Env.fresh = true := by
  have h : (match parseString .document Env.fresh fullText with
      | .ok p => NoReservedDecls p.env p.tree && PlainPiTargets p.env p.tree | _ => false) = true := by decide +kernel
  cases hp : parseString .document Env.fresh fullText with
  | ok p =>
    rw [hp] at h
    simp only [Bool.and_eq_true] at h
    exact ⟨p, rfl, h.1, h.2, by decide +kernel⟩
  | err e env' => rw [hp] at h; cases h
  | panic => rw [hp] at h; cases h

/-- `C01_parse_edit_serialise_values` instantiated at `fullCalls` (parse, new element, append, set attribute,
    `create_missing_prefixes`): the text is accepted inside the guards, the tables after the parse are
    `nameTableOK`, the values handed to the three editing calls are in the domain of the tables at the time
    (`Store.argValuesOKAlong`), consolidation was never off, the edited document has one root, no `xml:id`
    twice, writable names — so it serialises and parses back to itself.  No `valueOK` / `envOK` hypothesis
    on the edited tree is evaluated. -/
example : ∃ s p', toXmlString ((PStore.init Env.fresh).run fullCalls).env fullRoot.erase [] = .ok s ∧
    parseString .document ((PStore.init Env.fresh).run fullCalls).env s = .ok p' ∧ p'.tree = fullRoot.erase := by
  have hacc : (match parseString .document Env.fresh fullText with
      | .ok p => NoReservedDecls p.env p.tree && PlainPiTargets p.env p.tree && nameTableOK p.env
      | _ => false) = true := by decide +kernel
  cases hp : parseString .document Env.fresh fullText with
  | err e env' => rw [hp] at hacc; cases hacc
  | panic => rw [hp] at hacc; cases hacc
  | ok p =>
    rw [hp] at hacc
    simp only [Bool.and_eq_true] at hacc
    have ha : ((PStore.init Env.fresh).run [.parse .document fullText]).store.argValuesOKAlong c01FullEdits := by
      refine ⟨?_, trivial, ?_, trivial, trivial⟩
      · show valueOK _ (.element 3) = true; decide +kernel
      · show valueOK _ (.attribute 3 ['v']) = true; decide +kernel
    obtain ⟨s, p', h1, h2, h3, _, _⟩ := C01_parse_edit_serialise_values Env.fresh (by decide +kernel) fullText p hp
      hacc.1.1 hacc.1.2 hacc.2 c01FullEdits (by decide) ha ((PStore.init Env.fresh).run fullCalls) rfl
      (by decide +kernel) fullRoot fullRoot_mem rfl (by decide +kernel) (by decide +kernel) (by decide +kernel)
    exact ⟨s, p', h1, h2, h3⟩

end ParseEditSerialise

/-! ## NON-DEFAULT TOKEN PARAMETERS: `unescaped_gt`, CDATA-section elements

`xml::Parameters { cdata_section_elements, unescaped_gt, .. }` change how TEXT NODES are written and nothing
else (`XmlSerializer::render_output`, `Output::Text` arm): a text child of a listed element is written by
`serialize_cdata` — one or more `<![CDATA[…]]>` sections, cut between `]]` and `>` of every `]]>` and at every
carriage return, which stands BETWEEN two sections as the reference `&#xD;` —, any other text node by
`serialize_text(unescaped_gt)`.  The tokenizer returns several CDATA (and `&#xD;` text) tokens for such a run;
the builder (`Cdata` / `Text` arms of `Xot::_parse`: CDATA content becomes text, neighbouring character data
is consolidated) makes ONE text node of it.  The proof transports the default round trip along "same spelling
up to the character data runs" (`NSNode.Resp`, Lemmas/SerOptDefs.lean); pretty printing, XML declaration and
doctype are C14's. -/

section Params

/-! ### Character level -/

/-- `unescaped_gt = true`: the text still decodes to the value — a raw `>` is read back as `>`. -/
theorem C01_text_unescaped_gt (s : Str) : parseText (serializeText true s) = .ok s :=
  gt_text_roundtrip s

/-- … and the output contains neither a raw `<` nor the sequence `]]>`: the `>` of a `]]>` IS escaped. -/
theorem C01_text_unescaped_gt_lexsafe (s : Str) :
    '<' ∉ serializeText true s ∧ hasCdataEnd (serializeText true s) = false := by
  refine ⟨?_, gt_no_cdata_end s⟩
  unfold serializeText
  simp only [if_true]
  rw [serializeTextGtGo_eq]
  simpa using gtOut_hides (c := '<') (by decide) (by decide) (by decide) s []

/-- What `serialize_text(unescaped_gt = true)` writes, as a spelling: one piece per character
    (`gtPieces`, Lemmas/SerOptDefs.lean) — a `>` is the literal `>` unless the OUTPUT written so far ends with
    `]]` (the code's `result.chars().rev().take(2)`), in which case it is `&gt;`; every other character as
    without the flag.  It renders to the serialised text, denotes the value and is well spelled. -/
theorem C01_text_unescaped_gt_spelling (s : Str) :
    renderPieces (gtPieces [] s) = serializeText true s ∧ valueOf false (gtPieces [] s) = s ∧
      WellSpelled (gtPieces [] s) :=
  ⟨renderPieces_txtPieces true s, valueOf_gtPieces s [], wellSpelled_gtPieces s []⟩

/-- The same rule on the INPUT (`gtIn`, Lemmas/RoundTripParams.lean: `rin` = the characters read so far,
    reversed): a `>` is written `&gt;` exactly when the two characters of the text before it are `]]`, raw
    otherwise — the output ends with `]]` iff the input read so far does. -/
theorem C01_text_unescaped_gt_input (s : Str) : serializeText true s = gtIn [] s :=
  serializeText_true_input s

example : serializeText true "a]]>b>c".toList = "a]]&gt;b>c".toList := by decide
example : serializeText true "]>]]]>>".toList = "]>]]]&gt;>".toList := by decide
example : serializeText false "a]]>b>c".toList = "a]]&gt;b&gt;c".toList := by decide

/-- `serialize_cdata s` is the canonical rendering of the token run `cdataTokens s`: CDATA tokens and
    `&#xD;` text tokens, beginning with a CDATA token, no two text tokens in a row; for a text of XML
    characters every token meets the tokenizer's side condition, and the run denotes `s` for the builder. -/
theorem C01_cdata_run (s : Str) (hs : s.all isXmlChar = true) :
    renderTokens (cdataTokens s) = serializeCdata s ∧ GoodRun (cdataTokens s) ∧
    (∃ t rest, cdataPartsGo [] s = .cd t noSpan :: rest) ∧
    partsValue (cdataPartsGo [] s) = s ∧ (∀ p ∈ cdataPartsGo [] s, p.Well) ∧
    (∀ ps st, SPart.txt ps st ∈ cdataPartsGo [] s → SPart.txt ps st = crPart) :=
  ⟨renderTokens_cdataTokens s, cdataTokens_goodRun s hs, cdataPartsGo_head [] s,
   by simpa using partsValue_cdataPartsGo s [] (by simp), cdataPartsGo_well s [], cdataPartsGo_txt s []⟩

/-- **Which characters a section carries**: XML characters of the text, written as they are (no escaping
    exists inside a section), never the sequence `]]>` (the run is cut inside it), never a carriage return
    (it would be read back as a line feed: it is the reference between two sections). -/
theorem C01_cdata_sections_carry (s : Str) (hs : s.all isXmlChar = true) (t j : StrSpan)
    (hm : SPart.cd t j ∈ cdataPartsGo [] s) :
    t.text.all isXmlChar = true ∧ hasCdataEnd t.text = false ∧ '\r' ∉ t.text ∧ ∀ c ∈ t.text, c ∈ s :=
  cdata_sections_carry s hs t j hm

/-- A character that is no XML character cannot be written: `serialize_cdata` puts it raw into a section
    (as `serialize_text` puts it raw into the text), and that token violates the tokenizer's side condition
    (`Representable` excludes such texts; the rt suite's `non-xml-char` mutation shows the reparse fail). -/
theorem C01_cdata_nonXmlChar_unwritable (s : Str) (c : Char) (hc : c ∈ s) (hx : isXmlChar c = false) :
    ∃ k ∈ cdataTokens s, k.lexOK = false :=
  cdata_nonXmlChar_unwritable s c hc hx

example : serializeCdata "a]]>b>c".toList = "<![CDATA[a]]]]><![CDATA[>b>c]]>".toList := by decide
example : cdataTokens "a]]>b>c".toList =
    [.cdata (sp0 "a]]".toList) noSpan, .cdata (sp0 ">b>c".toList) noSpan] := by decide
example : cdataTokens "]]\r>".toList =
    [.cdata (sp0 "]]".toList) noSpan, .text (sp0 "&#xD;".toList), .cdata (sp0 ">".toList) noSpan] := by decide

/-! ### Tree level -/

/-- `serialize_xml_string` under ANY token parameters, any start node, is the canonical rendering of
    `serTokensAtO` (Lemmas/SerOptDefs.lean), failing together with the same error — the extension of
    `C01_serialised_is_rendering_at` to CDATA-section elements. -/
theorem C01_serialised_is_rendering_params (env : Env) (pr : TokenParams) (t : Tree) (start : Path)
    (hx : env.prefixStr Env.xmlPrefix ≠ []) (ht : t.allNodes (declsNamed env) = true) :
    serializeString env pr t start =
      (match serTokensAtO env pr t start with
       | .ok ts => .ok (renderTokens ts)
       | .error e => .err e) :=
  serializeString_serTokensAtO env pr t start hx ht

/-- `serTokensAtO` differs from `serTokensAt` in the text nodes only: a text leaf whose parent is a listed
    element (`cd = true`) contributes the run `cdataTokens`, any other ONE text token
    `serialize_text(unescaped_gt)`. -/
theorem C01_text_node_tokens (env : Env) (pr : TokenParams) (inScope : List (Nat × Nat)) (isTop : Bool)
    (s : FStack) (str : Str) :
    serNodeO env pr inScope isTop s true (.node (.text str) []) = .ok (cdataTokens str) ∧
    serNodeO env pr inScope isTop s false (.node (.text str) []) =
      .ok [.text (sp0 (serializeText pr.unescapedGt str))] := by
  rw [serNodeO_text_leaf, serNodeO_text_leaf, textTokens_cdata, textTokens_plain]
  exact ⟨rfl, rfl⟩

/-- **C01_roundtrip_params** (`parse`): for EVERY token parameter set, every table set and every
    representable document: if `serialize_xml_string` succeeds, `parse` of the string succeeds and returns
    the ORIGINAL tree, id for id — in particular ONE text node with the original content where several
    CDATA sections were written —, tables unchanged, `deep_equal`. -/
theorem C01_roundtrip_params (env : Env) (pr : TokenParams) (t : Tree) (hr : Representable env t = true)
    (s : Str) (hs : serializeString env pr t [] = .ok s) :
    ∃ p, parseString .document env s = .ok p ∧ p.tree = t ∧ p.env = env ∧ deepEqual p.tree t = true := by
  obtain ⟨_, _, p, _, _, _, _, _, h1, h2, h3, h4⟩ := params_roundtrip_full env pr hr hs
  exact ⟨p, h1, h2, h3, h4⟩

/-- `parse_fragment` (several top-level elements, top-level text — never CDATA: a text node directly under
    the document node has no element parent). -/
theorem C01_roundtrip_params_fragment (env : Env) (pr : TokenParams) (t : Tree)
    (hr : RepresentableFragment env t = true) (s : Str) (hs : serializeString env pr t [] = .ok s) :
    ∃ p, parseString .fragment env s = .ok p ∧ p.tree = t ∧ p.env = env ∧ deepEqual p.tree t = true := by
  obtain ⟨_, _, p, _, _, _, _, _, h1, h2, h3, h4⟩ := params_roundtrip_full_fragment env pr hr hs
  exact ⟨p, h1, h2, h3, h4⟩

/-- **C01_roundtrip_unescaped_gt**: `unescaped_gt = true`. -/
theorem C01_roundtrip_unescaped_gt (env : Env) (t : Tree) (hr : Representable env t = true) (s : Str)
    (hs : serializeString env { unescapedGt := true } t [] = .ok s) :
    ∃ p, parseString .document env s = .ok p ∧ p.tree = t ∧ p.env = env ∧ deepEqual p.tree t = true :=
  C01_roundtrip_params env _ t hr s hs

/-- **C01_roundtrip_cdata**: any list `cd` of CDATA-section elements (`unescaped_gt` on or off).  With the
    intermediate stations: the string is the rendering of `serTokensAtO` (text children of listed elements
    = `cdataTokens`); the reference tokenizer returns exactly these tokens, several CDATA tokens per such
    text node, up to byte positions; the builder gives back the original tree. -/
theorem C01_roundtrip_cdata (env : Env) (cd : List Nat) (ugt : Bool) (t : Tree)
    (hr : Representable env t = true) (s : Str)
    (hs : serializeString env { cdataSectionElements := cd, unescapedGt := ugt } t [] = .ok s) :
    ∃ ts ts' p, serTokensAtO env { cdataSectionElements := cd, unescapedGt := ugt } t [] = .ok ts ∧
      s = renderTokens ts ∧ lexDocument s = (ts', none) ∧ ts'.map Token.erase = ts.map Token.erase ∧
      parseString .document env s = .ok p ∧ p.tree = t ∧ p.env = env ∧ deepEqual p.tree t = true := by
  obtain ⟨ts, ts', p, h1, h2, _, h4, h5, h6, h7, h8, h9⟩ := params_roundtrip_full env _ hr hs
  exact ⟨ts, ts', p, h1, h2, h4, h5, h6, h7, h8, h9⟩

/-- The parameters never decide about success: `serialize_xml_string` succeeds iff `to_string` does, iff
    every namespaced name has a usable prefix in scope. -/
theorem C01_params_serialises (env : Env) (pr : TokenParams) (t : Tree)
    (hr : RepresentableFragment env t = true) :
    (∃ s, serializeString env pr t [] = .ok s) ↔ namesWritable env t [] = some true :=
  options_serialises env pr hr

/-- The property as one statement on the tree, for every parameter set. -/
theorem C01_roundtrip_params_writable (env : Env) (pr : TokenParams) (t : Tree)
    (hr : Representable env t = true) (hw : namesWritable env t [] = some true) :
    ∃ s p, serializeString env pr t [] = .ok s ∧ parseString .document env s = .ok p ∧ p.tree = t ∧
      p.env = env ∧ deepEqual p.tree t = true := by
  have hfrag : RepresentableFragment env t = true := by
    simp only [Representable, Bool.and_eq_true] at hr; exact hr.1
  obtain ⟨s, hs⟩ := (C01_params_serialises env pr t hfrag).mpr hw
  obtain ⟨p, h1, h2, h3, h4⟩ := C01_roundtrip_params env pr t hr s hs
  exact ⟨s, p, hs, h1, h2, h3, h4⟩

/-- END TO END under any token parameters: every document an API history can build (hypotheses as in
    `C01_reachable_roundtrip`: value-level conditions and writable names only) serialises, and the text
    parses back to exactly that tree. -/
theorem C01_reachable_roundtrip_params (env : Env) (pr : TokenParams) (cs : List Forest.XCall)
    (hw : ∀ c ∈ cs, c.wellKinded)
    (hoff : ((⟨Forest.init, env⟩ : Store).xrun cs).forest.everOff = false)
    (r : HTree) (hr : r ∈ ((⟨Forest.init, env⟩ : Store).xrun cs).forest.roots)
    (hdoc : r.value.isDocument = true) (env' : Env) (henv : envOK env' = true)
    (hval : r.erase.allNodes (fun v _ => valueOK env' v) = true)
    (hid : (xmlIdValues env' r.erase).Nodup) (hone : singleRoot r.erase = true)
    (hwr : namesWritable env' r.erase [] = some true) :
    ∃ s p, serializeString env' pr r.erase [] = .ok s ∧ parseString .document env' s = .ok p ∧
      p.tree = r.erase ∧ p.env = env' ∧ deepEqual p.tree r.erase = true := by
  have hrep : Representable env' r.erase = true := by
    rw [(C01_reachable_representable env cs hw hoff r hr env').2]
    simp [henv, hdoc, hval, hid, hone]
  exact C01_roundtrip_params_writable env' pr r.erase hrep hwr

/-! Non-vacuity, closed (tables `c01Env`: name 4 = `k`, name 5 = `t`, both in no namespace): the text
    `a]]>b>c` under the listed element `k` and under the unlisted element `t`. -/

def c01ParamDoc : Tree :=
  .node .document [.node (.element 5) [
    .node (.element 4) [.node (.text ['a', ']', ']', '>', 'b', '>', 'c']) []],
    .node (.element 5) [.node (.text ['a', ']', ']', '>', 'b', '>', 'c']) []]]]

def c01Params : TokenParams := { cdataSectionElements := [4], unescapedGt := true }

/-- listed: two sections, cut between `]]` and `>`; unlisted with `unescaped_gt`: only the `>` of `]]>`
    is escaped. -/
def c01ParamText : Str := "<t><k><![CDATA[a]]]]><![CDATA[>b>c]]></k><t>a]]&gt;b>c</t></t>".toList

example : Representable c01Env c01ParamDoc = true := by decide
example : serializeString c01Env c01Params c01ParamDoc [] = .ok c01ParamText := by decide
example : serializeString c01Env { cdataSectionElements := [4] } c01ParamDoc [] =
    .ok "<t><k><![CDATA[a]]]]><![CDATA[>b>c]]></k><t>a]]&gt;b&gt;c</t></t>".toList := by decide
example : serializeString c01Env { unescapedGt := true } c01ParamDoc [] =
    .ok "<t><k>a]]&gt;b>c</k><t>a]]&gt;b>c</t></t>".toList := by decide
example : toXmlString c01Env c01ParamDoc [] =
    .ok "<t><k>a]]&gt;b&gt;c</k><t>a]]&gt;b&gt;c</t></t>".toList := by decide

/-- The tokens: two CDATA tokens for the text under `k`, one text token for the text under `t`. -/
example : (serTokensAtO c01Env c01Params c01ParamDoc []).toOption = some
    [.elementStart (sp0 []) (sp0 ['t']) noSpan, .elementEnd .open noSpan,
     .elementStart (sp0 []) (sp0 ['k']) noSpan, .elementEnd .open noSpan,
     .cdata (sp0 "a]]".toList) noSpan, .cdata (sp0 ">b>c".toList) noSpan,
     .elementEnd (.close (sp0 []) (sp0 ['k'])) noSpan,
     .elementStart (sp0 []) (sp0 ['t']) noSpan, .elementEnd .open noSpan,
     .text (sp0 "a]]&gt;b>c".toList),
     .elementEnd (.close (sp0 []) (sp0 ['t'])) noSpan,
     .elementEnd (.close (sp0 []) (sp0 ['t'])) noSpan] := by decide

/-- Closed: the text parses back to the document — ONE text node `a]]>b>c` under `k`. -/
example : ∃ p, parseString .document c01Env c01ParamText = .ok p ∧ p.tree = c01ParamDoc ∧ p.env = c01Env ∧
    deepEqual p.tree c01ParamDoc = true :=
  C01_roundtrip_params c01Env c01Params c01ParamDoc (by decide) c01ParamText (by decide)

example : ∃ p, parseString .document c01Env "<t><k>a]]&gt;b>c</k><t>a]]&gt;b>c</t></t>".toList = .ok p ∧
    p.tree = c01ParamDoc ∧ p.env = c01Env ∧ deepEqual p.tree c01ParamDoc = true :=
  C01_roundtrip_unescaped_gt c01Env c01ParamDoc (by decide) _ (by decide)

example : ∃ ts ts' p, serTokensAtO c01Env { cdataSectionElements := [4], unescapedGt := false } c01ParamDoc [] = .ok ts ∧
    "<t><k><![CDATA[a]]]]><![CDATA[>b>c]]></k><t>a]]&gt;b&gt;c</t></t>".toList = renderTokens ts ∧
    lexDocument "<t><k><![CDATA[a]]]]><![CDATA[>b>c]]></k><t>a]]&gt;b&gt;c</t></t>".toList = (ts', none) ∧
    ts'.map Token.erase = ts.map Token.erase ∧
    parseString .document c01Env "<t><k><![CDATA[a]]]]><![CDATA[>b>c]]></k><t>a]]&gt;b&gt;c</t></t>".toList = .ok p ∧
    p.tree = c01ParamDoc ∧ p.env = c01Env ∧ deepEqual p.tree c01ParamDoc = true :=
  C01_roundtrip_cdata c01Env [4] false c01ParamDoc (by decide) _ (by decide)

end Params

end XotModel.Props

/-! # ================================================================================================
    # PI TARGETS WITH A COLON: the round trip on the widened domain (branch wt-wrap04)
    # ================================================================================================

  The tokenizer's `consume_name` accepts a colon in a PI target (`<?a:b x?>`), and `Representable` asks an NCName of
  it: such a tree is accepted by the parser (C03) but lies outside the domain of the theorems above.  The widened
  domain `RepresentablePi` / `RepresentableFragmentPi` (Lemmas/PiColonDefs.lean: `valueOK` asks of a PI target what
  `consume_name` accepts, `nameOK`; every other clause as before; it contains `Representable`:
  `C03_representable_pi_of_representable`) carries the same round trip.  The proofs are GENERATED COPIES
  (`extract/picolon/gen.py`: the declarations below `C03_accepted_roundtrip` that depend on `valueOK`, copied into the
  namespace `XotModel.PiColon`, Lemmas/PiColon*.lean).  `Lemmas/PiColonC01.lean` - the copy of THIS file's theorems, used
  by Props/C03 - imports this file, so the twins cannot be taken from there: the generator writes the same proof texts
  a second time between the two markers below, in the namespace `XotModel.Props`, `C01_x` renamed `C01_x_pi_colon`
  (`extract/picolon/check.sh` regenerates and diffs both).  After the markers, by hand: the property as one statement
  (`C01_roundtrip_pi_colon`, `_fragment`) and the closed witness `<?a:b x?><r><?c:d?></r>`. -/

-- BEGIN GENERATED picolon (extract/picolon/gen.py; do not edit between the markers)
namespace XotModel.Props
open XotModel XotModel.Gen

/-- On the round-trip domain no side condition is left. -/
theorem C01_serialised_is_rendering_representable_pi_colon (env : Env) (t : Tree)
    (hr : PiColon.RepresentableFragment env t = true) :
    toXmlString env t [] =
      (match serTokensTop env t with
       | .ok ts => .ok (renderTokens ts)
       | .error e => .err e) := by
  obtain ⟨henv, _, hn, _⟩ := (PiColon.representableFragment_iff env t).mp hr
  apply C01_serialised_is_rendering env t
  · rw [envOK_xmlPrefix env henv]; simp
  · exact PiColon.nodeOK_declsNamed env t hn
/-- The tokens of a representable document whose serialisation succeeds satisfy the side
    conditions of the tokenizer contract in document mode: NCName prefixes and local names,
    attribute values without `<` and `"`, non-empty text without `<` and `]]>`, XML Chars only,
    comment and PI conditions, attributes only inside start tags, balanced tags, no two text
    tokens in a row, comments / PIs around exactly one top-level element. -/
theorem C01_rendering_lexok_pi_colon (env : Env) (t : Tree) (hr : PiColon.Representable env t = true)
    (ts : List Token) (h : serTokensTop env t = .ok ts) : LexOK false ts = true :=
  PiColon.lexOK_document env t hr ts h
/-- Fragment mode (`parse_fragment`): any well-formed content under the document node. -/
theorem C01_rendering_lexok_fragment_pi_colon (env : Env) (t : Tree) (hr : PiColon.RepresentableFragment env t = true)
    (ts : List Token) (h : serTokensTop env t = .ok ts) : LexOK true ts = true :=
  PiColon.lexOK_fragment env t hr ts h
theorem C01_serialised_ok_representable_pi_colon {env : Env} {t : Tree} (hr : PiColon.RepresentableFragment env t = true) {s : Str}
    (hs : toXmlString env t [] = .ok s) : ∃ ts, serTokensTop env t = .ok ts ∧ s = renderTokens ts := by
  rw [C01_serialised_is_rendering_representable_pi_colon env t hr] at hs
  cases hts : serTokensTop env t with
  | ok ts => rw [hts] at hs; cases hs; exact ⟨ts, rfl, rfl⟩
  | error e => rw [hts] at hs; cases hs
/-- **C01_build_pi_colon** (`parse` without the tokenizer): the builder, run on the tokens `to_string` renders
    (any source length, any byte positions: `C02_positions_irrelevant`), returns the original tree
    and leaves the interning tables unchanged. -/
theorem C01_build_pi_colon (env : Env) (t : Tree) (hr : PiColon.Representable env t = true) (ts : List Token)
    (h : serTokensTop env t = .ok ts) (len : Nat) :
    ∃ p, build .document len env ts none = .ok p ∧ p.tree = t ∧ p.env = env := by
  simp only [PiColon.Representable, Bool.and_eq_true] at hr
  obtain ⟨hfrag, hsingle⟩ := hr
  obtain ⟨ks, rfl, hf⟩ := PiColon.topFacts hfrag h
  obtain ⟨p0, hb, ht, he⟩ := build_document_spelled_ns hf.he.envBaseNs len
    (spellTop env (.node .document ks)) (PiColon.spellTop_well hf)
    (wellFormedTop_of_abstractNs (PiColon.spellTop_abstractTop hf hsingle))
  rw [spell_tokens env _ ts h] at hb
  rw [PiColon.spellTop_encode hf] at ht he
  exact ⟨p0, hb, ht, he⟩
/-- `parse_fragment` without the tokenizer. -/
theorem C01_build_fragment_pi_colon (env : Env) (t : Tree) (hr : PiColon.RepresentableFragment env t = true)
    (ts : List Token) (h : serTokensTop env t = .ok ts) (len : Nat) :
    ∃ p, build .fragment len env ts none = .ok p ∧ p.tree = t ∧ p.env = env := by
  obtain ⟨ks, rfl, hf⟩ := PiColon.topFacts hr h
  obtain ⟨p0, hb, ht, he⟩ := build_fragment_spelled_ns hf.he.envBaseNs len
    (spellTop env (.node .document ks)) (PiColon.spellTop_well hf)
  rw [spell_tokens env _ ts h] at hb
  rw [PiColon.spellTop_encode hf] at ht he
  exact ⟨p0, hb, ht, he⟩
/-- **C01_main, strong form** (`parse`): the reparsed tree is the original tree, node for node and id
    for id — names, attribute sets and values, character data, comments, PIs, namespace declarations
    on the same elements with the same prefix-to-URI bindings — and the interning tables are
    unchanged. -/
theorem C01_main_identical_pi_colon (env : Env) (t : Tree) (hr : PiColon.Representable env t = true)
    (lex : Str → List Token × Option Nat) (hlex : LexCanon false lex) (s : Str)
    (hs : toXmlString env t [] = .ok s) :
    ∃ ts p, lex s = (ts, none) ∧ build .document (strLen s) env ts none = .ok p ∧
      p.tree = t ∧ p.env = env := by
  have hfrag : PiColon.RepresentableFragment env t = true := by
    simp only [PiColon.Representable, Bool.and_eq_true] at hr; exact hr.1
  obtain ⟨ts0, hser, rfl⟩ := C01_serialised_ok_representable_pi_colon hfrag hs
  obtain ⟨ts, hl, her⟩ := hlex ts0 (C01_rendering_lexok_pi_colon env t hr ts0 hser)
  obtain ⟨p0, hb, ht, he⟩ := C01_build_pi_colon env t hr ts0 hser (strLen (renderTokens ts0))
  obtain ⟨p, hp, h1, h2, _⟩ := C02_positions_irrelevant_ok .document _ (strLen (renderTokens ts0)) env ts0 ts
    her.1.symm her.2 p0 hb
  exact ⟨ts, p, hl, hp, by rw [h1, ht], by rw [h2, he]⟩
/-- **C01_main_fragment, strong form** (`parse_fragment`). -/
theorem C01_main_fragment_identical_pi_colon (env : Env) (t : Tree) (hr : PiColon.RepresentableFragment env t = true)
    (lex : Str → List Token × Option Nat) (hlex : LexCanon true lex) (s : Str)
    (hs : toXmlString env t [] = .ok s) :
    ∃ ts p, lex s = (ts, none) ∧ build .fragment (strLen s) env ts none = .ok p ∧
      p.tree = t ∧ p.env = env := by
  obtain ⟨ts0, hser, rfl⟩ := C01_serialised_ok_representable_pi_colon hr hs
  obtain ⟨ts, hl, her⟩ := hlex ts0 (C01_rendering_lexok_fragment_pi_colon env t hr ts0 hser)
  obtain ⟨p0, hb, ht, he⟩ := C01_build_fragment_pi_colon env t hr ts0 hser (strLen (renderTokens ts0))
  obtain ⟨p, hp, h1, h2, _⟩ := C02_positions_irrelevant_ok .fragment _ (strLen (renderTokens ts0)) env ts0 ts
    her.1.symm her.2 p0 hb
  exact ⟨ts, p, hl, hp, by rw [h1, ht], by rw [h2, he]⟩
/-- **C01_serialises_pi_colon**: for a representable document or fragment, `to_string` succeeds exactly when
    every namespaced name has a usable prefix in scope — `namesWritable` (Model/Scope.lean), the
    serialiser's own `MissingPrefix` checks run over the tree with the name stack
    `XmlSerializer::new` builds: no element in no namespace under a default namespace,
    `element_fullname` and every `attribute_fullname` answer (C10_error_element / _attribute say when;
    `create_missing_prefixes` establishes it: C10_repair_document_writable).  The hypothesis
    `toXmlString … = .ok s` of C01_main is therefore this decidable condition on the tree. -/
theorem C01_serialises_pi_colon (env : Env) (t : Tree) (hr : PiColon.RepresentableFragment env t = true) :
    (∃ s, toXmlString env t [] = .ok s) ↔ namesWritable env t [] = some true := by
  rw [← PiColon.serTokensTop_ok_iff hr, C01_serialised_is_rendering_representable_pi_colon env t hr]
  cases serTokensTop env t <;> simp [exceptIsOk]
/-- **C01_main as the property words it**: the reparsed tree is `deep_equal` (Model/Compare.lean,
    the crate's own comparison; canonical-form equality by C13_iff) to the original.  A corollary of
    the literal equality `C01_main_identical_pi_colon`, which says more (declarations and prefixes too). -/
theorem C01_main_deep_equal_pi_colon (env : Env) (t : Tree) (hr : PiColon.Representable env t = true)
    (lex : Str → List Token × Option Nat) (hlex : LexCanon false lex) (s : Str)
    (hs : toXmlString env t [] = .ok s) :
    ∃ ts p, lex s = (ts, none) ∧ build .document (strLen s) env ts none = .ok p ∧
      deepEqual p.tree t = true := by
  obtain ⟨ts, p, h1, h2, h3, _⟩ := C01_main_identical_pi_colon env t hr lex hlex s hs
  refine ⟨ts, p, h1, h2, ?_⟩
  have hfrag : PiColon.RepresentableFragment env t = true := by
    simp only [PiColon.Representable, Bool.and_eq_true] at hr; exact hr.1
  obtain ⟨_, _, hn, _⟩ := (PiColon.representableFragment_iff env t).mp hfrag
  have hv := PiColon.valid_of_nodeOK t hn
  rw [h3]
  exact (deepEqual_iff_canon t t hv hv).mpr rfl
theorem C01_main_fragment_deep_equal_pi_colon (env : Env) (t : Tree) (hr : PiColon.RepresentableFragment env t = true)
    (lex : Str → List Token × Option Nat) (hlex : LexCanon true lex) (s : Str)
    (hs : toXmlString env t [] = .ok s) :
    ∃ ts p, lex s = (ts, none) ∧ build .fragment (strLen s) env ts none = .ok p ∧
      deepEqual p.tree t = true := by
  obtain ⟨ts, p, h1, h2, h3, _⟩ := C01_main_fragment_identical_pi_colon env t hr lex hlex s hs
  refine ⟨ts, p, h1, h2, ?_⟩
  obtain ⟨_, _, hn, _⟩ := (PiColon.representableFragment_iff env t).mp hr
  have hv := PiColon.valid_of_nodeOK t hn
  rw [h3]
  exact (deepEqual_iff_canon t t hv hv).mpr rfl
/-- **C01_roundtrip_identical_pi_colon**: the reparsed tree IS the original tree — node kinds and order, name
    ids (expanded names), attribute sets and values, character data, comments, PIs, namespace
    declarations on the same elements with the same prefix-to-URI bindings — the interning tables are
    unchanged, and `deep_equal` answers `true`. -/
theorem C01_roundtrip_identical_pi_colon (env : Env) (t : Tree) (hr : PiColon.Representable env t = true) (s : Str)
    (hs : toXmlString env t [] = .ok s) :
    ∃ p, parseString .document env s = .ok p ∧ p.tree = t ∧ p.env = env ∧ deepEqual p.tree t = true := by
  obtain ⟨ts, p, h1, h2, h3, h4⟩ := C01_main_identical_pi_colon env t hr lexDocument C01_lexCanon_document s hs
  obtain ⟨ts', p', k1, k2, k3⟩ := C01_main_deep_equal_pi_colon env t hr lexDocument C01_lexCanon_document s hs
  rw [h1] at k1
  cases k1
  rw [h2] at k2
  cases k2
  refine ⟨p, ?_, h3, h4, k3⟩
  simp only [parseString, lexMode, h1]
  exact h2
theorem C01_roundtrip_fragment_identical_pi_colon (env : Env) (t : Tree) (hr : PiColon.RepresentableFragment env t = true)
    (s : Str) (hs : toXmlString env t [] = .ok s) :
    ∃ p, parseString .fragment env s = .ok p ∧ p.tree = t ∧ p.env = env ∧ deepEqual p.tree t = true := by
  obtain ⟨ts, p, h1, h2, h3, h4⟩ :=
    C01_main_fragment_identical_pi_colon env t hr lexFragment C01_lexCanon_fragment s hs
  obtain ⟨ts', p', k1, k2, k3⟩ := C01_main_fragment_deep_equal_pi_colon env t hr lexFragment C01_lexCanon_fragment s hs
  rw [h1] at k1
  cases k1
  rw [h2] at k2
  cases k2
  refine ⟨p, ?_, h3, h4, k3⟩
  simp only [parseString, lexMode, h1]
  exact h2
/-- The property as one statement on the tree: a representable document every namespaced name of which
    has a usable prefix in scope serialises, and the text parses back to the same tree. -/
theorem C01_roundtrip_writable_pi_colon (env : Env) (t : Tree) (hr : PiColon.Representable env t = true)
    (hw : namesWritable env t [] = some true) :
    ∃ s p, toXmlString env t [] = .ok s ∧ parseString .document env s = .ok p ∧ p.tree = t ∧ p.env = env ∧
      deepEqual p.tree t = true := by
  have hfrag : PiColon.RepresentableFragment env t = true := by
    simp only [PiColon.Representable, Bool.and_eq_true] at hr; exact hr.1
  obtain ⟨s, hs⟩ := (C01_serialises_pi_colon env t hfrag).mpr hw
  obtain ⟨p, h1, h2, h3, h4⟩ := C01_roundtrip_identical_pi_colon env t hr s hs
  exact ⟨s, p, hs, h1, h2, h3, h4⟩

end XotModel.Props
-- END GENERATED picolon

namespace XotModel.Props
open XotModel XotModel.Gen XotModel.Witness

/-- ⟦C01_roundtrip_pi_colon⟧ (`parse`) A document of the widened domain - PI targets with a colon allowed - every
    namespaced name of which has a usable prefix in scope serialises, and the text parses back to the SAME tree,
    tables unchanged; `deep_equal`.  (Twin of `C01_roundtrip_writable`.) -/
theorem C01_roundtrip_pi_colon (env : Env) (t : Tree) (hr : RepresentablePi env t = true)
    (hw : namesWritable env t [] = some true) :
    ∃ s p, toXmlString env t [] = .ok s ∧ parseString .document env s = .ok p ∧ p.tree = t ∧ p.env = env ∧
      deepEqual p.tree t = true :=
  C01_roundtrip_writable_pi_colon env t hr hw

/-- ⟦C01_roundtrip_pi_colon_fragment⟧ (`parse_fragment`) The same for any well-formed content under the document
    node. -/
theorem C01_roundtrip_pi_colon_fragment (env : Env) (t : Tree) (hr : RepresentableFragmentPi env t = true)
    (hw : namesWritable env t [] = some true) :
    ∃ s p, toXmlString env t [] = .ok s ∧ parseString .fragment env s = .ok p ∧ p.tree = t ∧ p.env = env ∧
      deepEqual p.tree t = true := by
  obtain ⟨s, hs⟩ := (C01_serialises_pi_colon env t hr).mpr hw
  obtain ⟨p, h1, h2, h3, h4⟩ := C01_roundtrip_fragment_identical_pi_colon env t hr s hs
  exact ⟨s, p, hs, h1, h2, h3, h4⟩

/-- The widened domain contains the original one (so the twins say at least what the originals say). -/
theorem C01_representable_pi_of_representable (env : Env) (t : Tree) (h : Representable env t = true) :
    RepresentablePi env t = true := by
  simp only [Representable, RepresentablePi, PiColon.Representable, RepresentableFragment,
    PiColon.RepresentableFragment, Bool.and_eq_true] at h ⊢
  exact ⟨⟨⟨h.1.1.1, PiColon.allNodes_of_allNodes env t h.1.1.2⟩, h.1.2⟩, h.2⟩

/-- Non-vacuity OUTSIDE `Representable`, closed: the tree the parser builds from `<?a:b x?><r><?c:d?></r>` (tables of
    `Xot::new()`) is not `Representable` (the targets `a:b`, `c:d` are no NCNames) but `RepresentablePi`; it
    serialises to that very text, and the text parses back to the same tree, tables unchanged. -/
example : ∃ p, parseString .document Env.fresh piColonText = .ok p ∧ Representable p.env p.tree = false ∧
    RepresentablePi p.env p.tree = true ∧ namesWritable p.env p.tree [] = some true ∧
    toXmlString p.env p.tree [] = .ok piColonText ∧
    ∃ p', parseString .document p.env piColonText = .ok p' ∧ p'.tree = p.tree ∧ p'.env = p.env ∧
      deepEqual p'.tree p.tree = true := by
  obtain ⟨p, h, _, _, hnr, hr, hs⟩ := piColon_spec
  have hfrag : RepresentableFragmentPi p.env p.tree = true := by
    simp only [RepresentablePi, PiColon.Representable, Bool.and_eq_true] at hr; exact hr.1
  have hw := (C01_serialises_pi_colon p.env p.tree hfrag).mp ⟨_, hs⟩
  obtain ⟨s', p', h1, h2, h3, h4, h5⟩ := C01_roundtrip_pi_colon p.env p.tree hr hw
  rw [hs] at h1
  cases h1
  exact ⟨p, h, hnr, hr, hw, hs, p', h2, h3, h4, h5⟩

/-! ## Documents built with the convenience calls

  `C01_reachable_roundtrip` for histories mixing the calls of `Op` with the convenience calls (`Forest.COp`:
  `new_document_with_element`, `append_text`, `append_element`, `set_attribute`, `set_namespace`, …;
  `creationRun`, `C04_reach_creation`, `C01_reachable_creation_representable` in Props/C04.lean).  No side
  condition on the history beyond consolidation never having been switched off; the value-level hypotheses
  are the same as there. -/

/-- ⟦C01_reachable_creation_roundtrip⟧ every document such a history reaches, if its values are in the XML domain
    and its names are writable, serialises, and the text parses back to exactly that tree. -/
theorem C01_reachable_creation_roundtrip (ops : List (Op ⊕ Forest.COp))
    (hoff : (creationRun ops).everOff = false)
    (r : HTree) (hr : r ∈ (creationRun ops).roots)
    (hdoc : r.value.isDocument = true) (env' : Env) (henv : envOK env' = true)
    (hval : r.erase.allNodes (fun v _ => valueOK env' v) = true)
    (hid : (xmlIdValues env' r.erase).Nodup) (hone : singleRoot r.erase = true)
    (hwr : namesWritable env' r.erase [] = some true) :
    ∃ s p, toXmlString env' r.erase [] = .ok s ∧ parseString .document env' s = .ok p ∧
      p.tree = r.erase ∧ p.env = env' ∧ deepEqual p.tree r.erase = true := by
  have hrep : Representable env' r.erase = true := by
    rw [(C01_reachable_creation_representable ops hoff r hr env').2]
    simp [henv, hdoc, hval, hid, hone]
  exact C01_roundtrip_writable env' r.erase hrep hwr

/-- The same for `parse_fragment`: any number of top-level elements, top-level text allowed. -/
theorem C01_reachable_creation_roundtrip_fragment (ops : List (Op ⊕ Forest.COp))
    (hoff : (creationRun ops).everOff = false)
    (r : HTree) (hr : r ∈ (creationRun ops).roots)
    (hdoc : r.value.isDocument = true) (env' : Env) (henv : envOK env' = true)
    (hval : r.erase.allNodes (fun v _ => valueOK env' v) = true)
    (hid : (xmlIdValues env' r.erase).Nodup)
    (hwr : namesWritable env' r.erase [] = some true) :
    ∃ s p, toXmlString env' r.erase [] = .ok s ∧ parseString .fragment env' s = .ok p ∧
      p.tree = r.erase ∧ p.env = env' ∧ deepEqual p.tree r.erase = true := by
  have hrep : RepresentableFragment env' r.erase = true := by
    rw [(C01_reachable_creation_representable ops hoff r hr env').1]
    simp [henv, hdoc, hval, hid]
  obtain ⟨s, hs⟩ := (C01_serialises env' r.erase hrep).mpr hwr
  obtain ⟨p, h1, h2, h3, h4⟩ := C01_roundtrip_fragment_identical env' r.erase hrep s hs
  exact ⟨s, p, hs, h1, h2, h3, h4⟩

/-! Non-vacuity, closed: `new_element; new_document_with_element; append_text "x"; set_attribute a="v";
    append_comment "c"` (all but the first are convenience calls) over the tables `reachDocEnv` of Props/C04.lean
    reaches the one document `<e a="v">x</e><!--c-->`; every hypothesis evaluates to true, the text parses back. -/

def creationDocOps : List (Op ⊕ Forest.COp) :=
  [.inl (.newElement 0), .inr (.newDocumentWithElement 0), .inr (.appendNew 0 (.text ['x'])),
   .inr (.setAttribute 0 2 ['v']), .inr (.appendNew 1 (.comment ['c']))]
def creationDocRoot : HTree :=
  .node 1 .document [.node 0 (.element 0) [.node 3 (.attribute 2 ['v']) [], .node 2 (.text ['x']) []],
    .node 4 (.comment ['c']) []]
def creationDocText : Str := "<e a=\"v\">x</e><!--c-->".toList
theorem creationDocRoot_mem : creationDocRoot ∈ (creationRun creationDocOps).roots := by
  have : (creationRun creationDocOps).roots = [creationDocRoot] := by decide +kernel
  rw [this]; exact List.mem_singleton.mpr rfl

example : ∃ p, parseString .document reachDocEnv creationDocText = .ok p ∧ p.tree = creationDocRoot.erase ∧
    p.env = reachDocEnv ∧ deepEqual p.tree creationDocRoot.erase = true := by
  obtain ⟨s, p, h1, h2, h3, h4, h5⟩ := C01_reachable_creation_roundtrip creationDocOps (by decide +kernel)
    creationDocRoot creationDocRoot_mem rfl reachDocEnv (by decide +kernel) (by decide +kernel)
    (by decide +kernel) (by decide +kernel) (by decide +kernel)
  have hs : s = creationDocText := by
    have : toXmlString reachDocEnv creationDocRoot.erase [] = .ok creationDocText := by decide +kernel
    rw [this] at h1; cases h1; rfl
  subst hs
  exact ⟨p, h2, h3, h4, h5⟩

/-! ## The round trip from the invariant alone

  The history is not part of the statement any more: ANY forest with the invariant of C04 (`Forest.Inv`), however it
  was reached — by `XCall`, `PCall`, `IdOp` or `Op ⊕ COp` histories, for each of which the invariant is a theorem. -/

/-- ⟦C01_inv_roundtrip⟧ every document root of a forest with the invariant, consolidation never switched off, whose
    values are in the XML domain and whose names are writable, serialises and parses back to exactly that tree. -/
theorem C01_inv_roundtrip (f : Forest) (hi : f.Inv) (hoff : f.everOff = false)
    (r : HTree) (hr : r ∈ f.roots)
    (hdoc : r.value.isDocument = true) (env' : Env) (henv : envOK env' = true)
    (hval : r.erase.allNodes (fun v _ => valueOK env' v) = true)
    (hid : (xmlIdValues env' r.erase).Nodup) (hone : singleRoot r.erase = true)
    (hwr : namesWritable env' r.erase [] = some true) :
    ∃ s p, toXmlString env' r.erase [] = .ok s ∧ parseString .document env' s = .ok p ∧
      p.tree = r.erase ∧ p.env = env' ∧ deepEqual p.tree r.erase = true := by
  have hrep : Representable env' r.erase = true := by
    rw [(Reach.representable_root hi hoff hr env').2]
    simp [henv, hdoc, hval, hid, hone]
  exact C01_roundtrip_writable env' r.erase hrep hwr

/-- The same for `parse_fragment` (any number of top-level elements, top-level text allowed). -/
theorem C01_inv_roundtrip_fragment (f : Forest) (hi : f.Inv) (hoff : f.everOff = false)
    (r : HTree) (hr : r ∈ f.roots)
    (hdoc : r.value.isDocument = true) (env' : Env) (henv : envOK env' = true)
    (hval : r.erase.allNodes (fun v _ => valueOK env' v) = true)
    (hid : (xmlIdValues env' r.erase).Nodup)
    (hwr : namesWritable env' r.erase [] = some true) :
    ∃ s p, toXmlString env' r.erase [] = .ok s ∧ parseString .fragment env' s = .ok p ∧
      p.tree = r.erase ∧ p.env = env' ∧ deepEqual p.tree r.erase = true := by
  have hrep : RepresentableFragment env' r.erase = true := by
    rw [(Reach.representable_root hi hoff hr env').1]
    simp [henv, hdoc, hval, hid]
  obtain ⟨s, hs⟩ := (C01_serialises env' r.erase hrep).mpr hwr
  obtain ⟨p, h1, h2, h3, h4⟩ := C01_roundtrip_fragment_identical env' r.erase hrep s hs
  exact ⟨s, p, hs, h1, h2, h3, h4⟩

end XotModel.Props
