/-
  C03 — Parser is total, rejects ill-formed text, and accepts only sound trees.
  Property theorems only.  `build` is total by construction (every model function is total).

  Proved for every token list (no bound):
    C03_nopanic_partial   no panic under the token-shape contract when no end tag stands at depth 0
    C03_bytes_nopanic_partial
    C03_sound             accepted ⇒ document-rooted, namespaces-attributes-normal order, kind
                          rules, no adjacent text nodes; for `parse` also exactly one element and
                          no text at top level
    C03_reject_*          one theorem per constraint the code enforces
  Proved negations (closed witnesses, replayed on the implementation by the `build` suite):
    C03_nopanic_false, C03_bytes_nopanic_false, C03_sound_unique_false,
    C03_reject_duplicate_expanded_false, C03_reject_prefix_twice_false,
    C03_reject_nonchar_false, C03_reject_signed_false, C03_reject_truncated_false
-/
import XotModel.Lemmas.ParseSound
import XotModel.Lemmas.ParseNoPanic
import XotModel.Lemmas.Parse
import XotModel.Lemmas.ParseContent
import XotModel.Lemmas.ParseWitnessData
import XotModel.Lemmas.TokenShapeB

namespace XotModel.Props
open XotModel XotModel.Witness

/-! ### No panic -/

/-- Full strength (FALSE for the code as written). -/
def C03_nopanic_Statement : Prop :=
  ∀ (m : Mode) (len : Nat) (env : Env) (ts : List Token) (lexErr : Option Nat),
    TokenShape len ts lexErr → build m len env ts lexErr ≠ .panic

/-- `build` never panics when the tokens have the shape a tokenizer gives them and no end tag
    occurs at depth 0 (which the tokenizer guarantees in document mode, not in fragment mode). -/
theorem C03_nopanic_partial (m : Mode) (len : Nat) (env : Env) (ts : List Token) (lexErr : Option Nat)
    (h : TokenShape len ts lexErr) (hclose : NoStrayClose 0 ts) : build m len env ts lexErr ≠ .panic :=
  build_np m len env ts lexErr h.tags hclose

theorem strayClose_shape : TokenShape strayCloseLen strayClose none :=
  tokenShape_of_B (by decide +kernel)

/-- `parse_fragment("</a>")` reaches `expect("Cannot close document node")`. -/
theorem C03_nopanic_false : ¬ C03_nopanic_Statement := by
  intro h
  have hne := h .fragment strayCloseLen Env.fresh strayClose none strayClose_shape
  have hp : (build .fragment strayCloseLen Env.fresh strayClose none).isPanic = true := by
    rw [build_eq_buildE]; decide +kernel
  cases hb : build .fragment strayCloseLen Env.fresh strayClose none with
  | panic => exact hne hb
  | ok p => rw [hb] at hp; cases hp
  | err e env => rw [hb] at hp; cases hp

/-- Same for `parse_fragment("<a/></a>")`. -/
example : (build .fragment emptyThenCloseLen Env.fresh emptyThenClose none).isPanic = true := by
  rw [build_eq_buildE]; decide +kernel

/-- Non-vacuity of the partial theorem: the tokens of a well-formed text satisfy its hypotheses. -/
example : TokenShape goodDocLen goodDoc none ∧ NoStrayClose 0 goodDoc :=
  ⟨tokenShape_of_B (by decide +kernel), noStrayClose_of_B _ _ (by decide +kernel)⟩

/-- `parse_bytes`: the external `decode` `unwrap`s the detected encoding. -/
def C03_bytes_nopanic_Statement : Prop :=
  ∀ (env : Env) (decoded : Option (Nat × List Token × Option Nat)), parseBytes env decoded ≠ .panic

theorem C03_bytes_nopanic_false : ¬ C03_bytes_nopanic_Statement :=
  fun h => h Env.fresh none rfl

theorem C03_bytes_nopanic_partial (env : Env) (len : Nat) (ts : List Token) (lexErr : Option Nat)
    (h : TokenShape len ts lexErr) (hclose : NoStrayClose 0 ts) :
    parseBytes env (some (len, ts, lexErr)) ≠ .panic :=
  build_np .document len env ts lexErr h.tags hclose

/-! ### Accepted trees are sound -/

mutual
theorem forall_imp {p q : Value → List Tree → Prop} (h : ∀ v ks, p v ks → q v ks) :
    ∀ t : Tree, t.Forall p → t.Forall q
  | .node v ks, ht => by
    rw [Tree.Forall] at ht ⊢
    exact ⟨h v ks ht.1, forallList_imp h ks ht.2⟩
theorem forallList_imp {p q : Value → List Tree → Prop} (h : ∀ v ks, p v ks → q v ks) :
    ∀ ks : List Tree, Tree.Forall.forallList p ks → Tree.Forall.forallList q ks
  | [], _ => trivial
  | k :: ks, hk => ⟨forall_imp h k hk.1, forallList_imp h ks hk.2⟩
end

/-- Full strength (FALSE: attribute names / prefixes are not unique, see `C03_sound_unique_false`). -/
def C03_sound_Statement : Prop :=
  ∀ (m : Mode) (len : Nat) (env : Env) (ts : List Token) (lexErr : Option Nat) (p : Parsed),
    build m len env ts lexErr = .ok p → StructValid p.tree ∧ NoAdjacentText p.tree

/-- Whatever is accepted (from ANY token list) has a document node at the root and nowhere else,
    orders every element's children namespaces → attributes → normal, keeps attribute and
    namespace nodes under elements only and leaves as leaves, and has no two adjacent text nodes. -/
theorem C03_sound {m : Mode} {len : Nat} {env : Env} {ts : List Token} {lexErr : Option Nat} {p : Parsed}
    (h : build m len env ts lexErr = .ok p) :
    p.tree.value.isDocument = true ∧ p.tree.Forall (fun _ ks => OrderedKids ks) ∧
      p.tree.Forall KindsOk ∧ NoAdjacentText p.tree := by
  obtain ⟨hs, hd⟩ := build_sound h
  refine ⟨by rw [hd]; rfl, forall_imp (fun _ _ h => h.1) _ hs, forall_imp (fun _ _ h => h.2.1) _ hs,
    forall_imp (fun _ _ h => h.2.2) _ hs⟩

/-- … and, for `parse`, what `validate_well_formed_document` checks. -/
theorem C03_sound_document {len : Nat} {env : Env} {ts : List Token} {lexErr : Option Nat} {p : Parsed}
    (h : build .document len env ts lexErr = .ok p) : WellFormedTop p.tree :=
  build_document_wellFormed h

/-- `<a xmlns:p='u' xmlns:q='u' p:x='' q:x=''/>` is accepted with two attribute nodes of one name. -/
theorem C03_sound_unique_false : ¬ C03_sound_Statement := by
  intro h
  have hw : (build .document dupExpandedLen Env.fresh dupExpanded none).uniqueB = some false := by
    rw [build_eq_buildE]; decide +kernel
  cases hb : build .document dupExpandedLen Env.fresh dupExpanded none with
  | ok p =>
    rw [hb] at hw
    have hv := (h .document dupExpandedLen Env.fresh dupExpanded none p hb).1.2.2.2
    have := uniqueB_of_forall p.tree hv
    simp [BuildResult.uniqueB, this] at hw
  | err e env => rw [hb] at hw; simp [BuildResult.uniqueB] at hw
  | panic => rw [hb] at hw; simp [BuildResult.uniqueB] at hw

/-- The accepted tree, flattened: two attribute nodes with name id 3. -/
theorem C03_reject_duplicate_expanded_false :
    (build .document dupExpandedLen Env.fresh dupExpanded none).flat =
      some [(0, .document), (1, .element 2), (2, .namespace 2 2), (2, .namespace 3 2),
        (2, .attribute 3 []), (2, .attribute 3 [])] := by
  rw [build_eq_buildE]; decide +kernel

/-- `<a xmlns:p='u' xmlns:p='v'/>` is accepted with the prefix declared twice. -/
theorem C03_reject_prefix_twice_false :
    (build .document prefixTwiceLen Env.fresh prefixTwice none).flat =
      some [(0, .document), (1, .element 2), (2, .namespace 2 2), (2, .namespace 2 3)] := by
  rw [build_eq_buildE]; decide +kernel

/-- `<x` is accepted by `parse_fragment` as the empty fragment (the tokenizer stops inside the
    start tag without an error and the builder never looks at `element_builder` again). -/
theorem C03_reject_truncated_false :
    (build .fragment truncatedTagLen Env.fresh truncatedTag none).flat = some [(0, .document)] := by
  rw [build_eq_buildE]; decide +kernel

/-- `&#0;` (not an XML `Char`) is decoded to U+0000. -/
theorem C03_reject_nonchar_false : parseContent false ['&', '#', '0', ';'] = .ok [Char.ofNat 0] := by
  have := parseGo_entity false 0 0 (Char.ofNat 0) ['#', '0'] [] (by decide) (by decide +kernel)
  simpa [parseContent, parseGo_nil, consOk] using this

/-- `&#+65;` is decoded to `A` (`u32::from_str` accepts a sign). -/
theorem C03_reject_signed_false : parseContent false ['&', '#', '+', '6', '5', ';'] = .ok ['A'] := by
  have := parseGo_entity false 0 0 'A' ['#', '+', '6', '5'] [] (by decide) (by decide +kernel)
  simpa [parseContent, parseGo_nil, consOk] using this

/-! ### Rejections the code does enforce -/

/-- The first failing step decides the result, whatever follows. -/
theorem C03_reject_sticky {m : Mode} {len : Nat} {env env' : Env} {pre post : List Token} {t : Token}
    {b1 : Builder} {e : ParseErr} (lexErr : Option Nat)
    (h1 : (Builder.new env).run pre none = .ok b1) (h2 : b1.step t = .err e env') :
    build m len env (pre ++ t :: post) lexErr = .err e env' :=
  build_step_err lexErr h1 h2

/-- A tokenizer error is never turned into a tree. -/
theorem C03_reject_lexerr (m : Mode) (len : Nat) (env : Env) (ts : List Token) (pos : Nat) (p : Parsed) :
    build m len env ts (some pos) ≠ .ok p :=
  build_lexErr_not_ok m len env ts pos p

/-- Any DTD token. -/
theorem C03_reject_dtd (b : Builder) (sp : StrSpan) :
    b.step (.dtdStart sp) = .err (.dtdUnsupported sp.span) b.env ∧
    b.step (.emptyDtd sp) = .err (.dtdUnsupported sp.span) b.env ∧
    b.step (.entityDecl sp) = .err (.dtdUnsupported sp.span) b.env ∧
    b.step (.dtdEnd sp) = .err (.dtdUnsupported sp.span) b.env :=
  ⟨rfl, rfl, rfl, rfl⟩

/-- A version other than `1.0`. -/
theorem C03_reject_version (b : Builder) (v : StrSpan) (e : Option StrSpan) (s : Option Bool) (sp : StrSpan)
    (h : v.text ≠ ['1', '.', '0']) :
    b.step (.declaration v e s sp) = .err (.unsupportedVersion v.text v.span) b.env := by
  simp [Builder.step, h]

/-- An end tag whose name is not the name of the open element. -/
theorem C03_reject_mismatched_close (b : Builder) (p l sp : StrSpan) (n m : Nat) (env1 : Env)
    (hcur : b.cur.value = .element n)
    (hname : elementNameId b.env b.nsStack p.text l.text p.span = .ok (env1, m)) (hne : n ≠ m) :
    b.closeElement p l sp = .err (.invalidCloseTag p.text l.text (Span.fromPrefixName p l)) env1 := by
  unfold Builder.closeElement
  rw [hname]
  simp only [hcur]
  simp [hne]

/-- A prefix that no open element declares (element names, in start and end tags). -/
theorem C03_reject_unknown_prefix (env : Env) (stack : NsStack) (pfx name : Str) (sp : Span)
    (h : lookupPrefix stack (env.internPrefix pfx).2 = none) :
    elementNameId env stack pfx name sp = .err (.unknownPrefix pfx sp) (env.internPrefix pfx).1 := by
  unfold elementNameId
  simp [h]

/-- … and on attributes (a non-empty prefix). -/
theorem C03_reject_unknown_attribute_prefix (env : Env) (stack : NsStack) (pfx name : Str) (sp : Span)
    (hne : (env.internPrefix pfx).2 ≠ Env.emptyPrefix)
    (h : lookupPrefix stack (env.internPrefix pfx).2 = none) :
    attributeNameId env stack pfx name sp = .err (.unknownPrefix pfx sp) (env.internPrefix pfx).1 := by
  unfold attributeNameId
  simp [h, hne]

/-- The same attribute name written twice (same prefix, same local name). -/
theorem C03_reject_duplicate_attribute_as_written (b : Builder) (eb : ElementBuilder) (p l v : StrSpan)
    (heb : b.eb = some eb) (h : ∃ ab ∈ eb.attributes, ab.pfx = p.text ∧ ab.name = l.text) :
    b.attribute p l v =
      .err (.duplicateAttribute (attrDisplayName p.text l.text) (Span.fromPrefixName p l)) b.env := by
  unfold Builder.attribute
  rw [heb]
  obtain ⟨ab, hm, h1, h2⟩ := h
  have : (eb.attributes.any fun ab => ab.pfx == p.text && ab.name == l.text) = true := by
    rw [List.any_eq_true]; exact ⟨ab, hm, by simp [h1, h2]⟩
  simp [this]

/-- A reference that does not decode (unknown entity, malformed number, surrogate, above
    U+10FFFF), anywhere after well-spelled content, is rejected … -/
theorem C03_reject_bad_reference (attr : Bool) (base : Nat) (ps : List Piece) (hw : WellSpelled ps)
    (ent rest : Str) (hsemi : ';' ∉ ent) (hdec : decodeEntity ent = none) :
    ∃ a b, parseContentGo attr base 0 (renderPieces ps ++ '&' :: (ent ++ ';' :: rest)) =
      .error (.invalid (entityErrText ent) a b) :=
  parse_pieces_then_invalid attr base 0 ps hw ent rest hsemi hdec

/-- … and so is a `&` that is never closed. -/
theorem C03_reject_unterminated_reference (attr : Bool) (base : Nat) (ps : List Piece) (hw : WellSpelled ps)
    (rest : Str) (hsemi : ';' ∉ rest) :
    ∃ a, parseContentGo attr base 0 (renderPieces ps ++ '&' :: rest) = .error (.unclosed rest a) :=
  parse_pieces_then_unclosed attr base 0 ps hw rest hsemi

/-- A content error in a text token / attribute value is the step's error. -/
theorem C03_reject_content_error (b : Builder) (t : StrSpan) (e : ContentErr)
    (h : parseContentGo false t.start 0 t.text = .error e) :
    b.step (.text t) = .err (ParseErr.ofContent e) b.env := by
  simp [Builder.step, Builder.text, h]

theorem C03_reject_attribute_content_error (b : Builder) (eb : ElementBuilder) (p l v : StrSpan) (e : ContentErr)
    (heb : b.eb = some eb)
    (hnew : (eb.attributes.any fun ab => ab.pfx == p.text && ab.name == l.text) = false)
    (h : parseContentGo true v.start 0 v.text = .error e) :
    b.attribute p l v = .err (ParseErr.ofContent e) b.env := by
  unfold Builder.attribute
  rw [heb]
  simp [hnew, h]

/-- Examples of references that do not decode. -/
example : decodeEntity ['n', 'b', 's', 'p'] = none ∧ decodeEntity ['#'] = none ∧
    decodeEntity ['#', 'x'] = none ∧ decodeEntity ['#', 'x', 'D', '8', '0', '0'] = none ∧
    decodeEntity ['#', 'x', '1', '1', '0', '0', '0', '0'] = none ∧ decodeEntity ['#', 'X', '4', '1'] = none ∧
    decodeEntity ['#', '4', '2', '9', '4', '9', '6', '7', '2', '9', '6'] = none := by
  decide +kernel

/-- A second `xml:id` with a value already seen. -/
theorem C03_reject_duplicate_id (stack : NsStack) (node : Path) (st : AttrLoop) (ab : AttributeBuilder)
    (rest : List AttributeBuilder) (env1 : Env)
    (hname : attributeNameId st.env stack ab.pfx ab.name ab.prefixSpan = .ok (env1, Env.xmlIdName))
    (hseen : st.seenIds.contains ab.value = true) :
    addAttributes stack node st (ab :: rest) = .err (.duplicateId ab.value ab.valueSpan) env1 := by
  have hm : ab.value ∈ st.seenIds := by simpa using hseen
  simp [addAttributes, hname, hm, Env.xmlIdName]

/-- An element still open at the end of the input. -/
theorem C03_reject_unclosed (b : Builder) (h : b.isCurrentDocument = false) (len : Nat) (p : Parsed) :
    b.finishDocument len ≠ .ok p ∧ b.finishFragment ≠ .ok p :=
  finish_not_ok_of_open h len p

/-- No root, several roots, text at top level (documents): see `C03_sound_document`; e.g.
    `<a/><b/>` and `<a></b>`. -/
example : (build .document twoRootsLen Env.fresh twoRoots none).isOk = false := by
  rw [build_eq_buildE]; decide +kernel
example : (build .document mismatchLen Env.fresh mismatch none).isOk = false := by
  rw [build_eq_buildE]; decide +kernel

end XotModel.Props
