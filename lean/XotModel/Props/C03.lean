/-
  C03 — Parser is total, rejects ill-formed text, and accepts only sound trees.
  Property theorems only.  `build` is total by construction (every model function is total).

  Proved for every token list (no bound):
    C03_nopanic, C03_bytes_nopanic   no panic under the token-shape contract
    C03_sound             accepted ⇒ `StructValid` (document node at the root only, children
                          ordered namespaces / attributes / normal, kind rules, attribute names and
                          declared prefixes unique per element) and no adjacent text nodes
    C03_sound_document    for `parse` also exactly one element and no text at top level
    C03_reject_*          one theorem per constraint the code enforces
    C03_reject_endtag_prefix, C03_open_prefix_pushed, C03_open_prefixes_step   an end tag repeats the
                          start tag's prefix AS WRITTEN (stack of written prefixes)
  Closed examples (token lists of the real tokenizer, replayed on the implementation by the
  `build` suite) accompany them.

  On STRINGS, through the reference tokenizer (Model/Lex*.lean: xmlparser 0.13.6 as written; tied to
  the crate by the `lex` suite):
    C03_lex_shape, C03_lex_no_stray_close   the token-shape contract is a theorem of its output
    C03_string_nopanic / _sound / _sound_document / _reject_lexerr   `parse(_fragment)` on any string
    C03_lex_reject_*      lexical rejections after the canonical spelling of any `LexOK` token list

  Last sentence of the property ("whatever is accepted … whose serialisation is accepted again and
  reparses deep-equal"), on strings, for every input:
    C03_lex_classes       the lexical classes the tokenizer enforces on EVERY token of EVERY input (`Token.accLex`)
    C03_accepted_tables   an accepted parse keeps the standing facts about the interning tables (`envOK`)
    C03_accepted_representable (+ _fragment), C03_accepted_serialises, C03_accepted_roundtrip (+ _fragment)
                          accepted ⇒ in the C01 domain ⇒ every name writable ⇒ `to_string` succeeds and
                          its text parses back to the SAME tree — under the decidable tree guards
                          `NoReservedDecls` (no declaration of the prefix `xml`: the known finding) and
                          `PlainPiTargets` (targets without a colon)
    C03_accepted_roundtrip_false   the first guard is needed (closed witness: `xml` rebound)
    C03_reject_reserved_declaration, C03_reject_prefixed_undeclaration, C03_reject_pi_target_xml
                          (/repo 6153ddf, a5dcf8e, 002854f) the former witnesses against the clause are
                          now rejected, in every builder state; closed examples on strings
    C03_reject_colon_without_prefix, C03_colon_check_passes, C03_reject_colon_tokens   (/repo a5fafb0) a name
                          written with a colon and nothing in front of it - `<:a/>`, `<a :b='1'/>`, `</:a>`,
                          which xmlparser lets through with an empty prefix positioned at the colon - is
                          refused with `UnknownPrefix("", colon .. end of name)` in every builder state, nothing
                          interned; an absent (offset 0) or non-empty prefix passes; the three texts as strings

  COMPLETENESS of the rejection list (last section; Lemmas/ParseNsComplete*.lean):
    C03_accepts_iff_well_spelled (+ _erased, _unguarded), C03_accepted_is_denoted, C03_well_spelled_accepted
                          under the token-shape contract and without empty text tokens, `build` accepts a token
                          list IFF it is - up to version-1.0 XML declaration tokens - exactly the token list of a
                          well-formed spelling (`WellNsDoc`, Props/C02.lean), and the tree is the denoted document
    C03_rejects_everything_else   every other such list is refused with an error (no panic, no tree)
    C03_string_accepts_iff, C03_string_accepted_is_denoted, C03_string_rejects_everything_else,
    C03_lex_no_empty_text   the same for `parse` / `parse_fragment` on ANY string (no hypothesis)
    C03_empty_text_token_corner, C03_declaration_skipped   the two token-level corners outside `WellNsDoc`
-/
import XotModel.Lemmas.ParseSound
import XotModel.Lemmas.ParseNoPanic
import XotModel.Lemmas.Parse
import XotModel.Lemmas.ParseContent
import XotModel.Lemmas.ParseWitnessData
import XotModel.Lemmas.TokenShapeB
import XotModel.Lemmas.ParsePrefixes
import XotModel.Lemmas.LexSlice
import XotModel.Lemmas.LexCanon
import XotModel.Model.ParseString
import XotModel.Lemmas.LexRejectShapes
import XotModel.Lemmas.AcceptedMain
import XotModel.Lemmas.AcceptedWitness
import XotModel.Props.C01
import XotModel.Lemmas.BytesTotal
import XotModel.Lemmas.ValidDoc
import XotModel.Lemmas.ColonWitness
import XotModel.Lemmas.ParseErase
import XotModel.Lemmas.ParseNsCompleteLex
import XotModel.Lemmas.PiColonC01
import XotModel.Lemmas.PiColonWitness

namespace XotModel.Props
open XotModel XotModel.Witness

/-! ### No panic -/

/-- `build` never panics on a token list with the shape a tokenizer gives it — in document and
    in fragment mode (an end tag at depth 0, which the fragment tokenizer does emit, is an error). -/
theorem C03_nopanic (m : Mode) (len : Nat) (env : Env) (ts : List Token) (lexErr : Option Nat)
    (h : TokenShape len ts lexErr) : build m len env ts lexErr ≠ .panic :=
  build_np m len env ts lexErr h.tags

/-- `parse_bytes`: `decode` is total (falls back to UTF-8), the rest is `parse`. -/
theorem C03_bytes_nopanic (env : Env) (len : Nat) (ts : List Token) (lexErr : Option Nat)
    (h : TokenShape len ts lexErr) : parseBytes env len ts lexErr ≠ .panic :=
  build_np .document len env ts lexErr h.tags

/-- Non-vacuity: the tokens of `</a>` (fragment tokenizer) satisfy the contract; the result is
    `InvalidCloseTag` with the span of `a`. -/
example : TokenShape strayCloseLen strayClose none := tokenShape_of_B (by decide +kernel)
example : (build .fragment strayCloseLen Env.fresh strayClose none).err? =
    some (.invalidCloseTag [] ['a'] ⟨2, 3⟩) := by
  rw [build_eq_buildE]; decide +kernel
/-- … and `<a/></a>`. -/
example : (build .fragment emptyThenCloseLen Env.fresh emptyThenClose none).err? =
    some (.invalidCloseTag [] ['a'] ⟨6, 7⟩) := by
  rw [build_eq_buildE]; decide +kernel
example : TokenShape goodDocLen goodDoc none := tokenShape_of_B (by decide +kernel)

/-! ### Accepted trees are sound -/

/-- Whatever is accepted (from ANY token list) is structurally valid — a document node at the root
    and nowhere else, every element's children ordered namespaces → attributes → normal, attribute
    and namespace nodes under elements only, leaves are leaves, attribute names and declared
    prefixes unique per element — and has no two adjacent text nodes. -/
theorem C03_sound {m : Mode} {len : Nat} {env : Env} {ts : List Token} {lexErr : Option Nat} {p : Parsed}
    (h : build m len env ts lexErr = .ok p) : StructValid p.tree ∧ NoAdjacentText p.tree := by
  obtain ⟨hs, hd⟩ := build_sound h
  refine ⟨⟨by rw [hd]; rfl, forall_imp (fun _ _ h => h.1) _ hs, forall_imp (fun _ _ h => h.2.1) _ hs,
    forall_imp (fun _ _ h => h.2.2.2) _ hs⟩, forall_imp (fun _ _ h => h.2.2.1) _ hs⟩

/-- … and, for `parse`, what `validate_well_formed_document` checks. -/
theorem C03_sound_document {len : Nat} {env : Env} {ts : List Token} {lexErr : Option Nat} {p : Parsed}
    (h : build .document len env ts lexErr = .ok p) : WellFormedTop p.tree :=
  build_document_wellFormed h

/-- Non-vacuity: `goodDoc` is accepted. -/
example : (build .document goodDocLen Env.fresh goodDoc none).isOk = true := by
  rw [build_eq_buildE]; decide +kernel

/-! ### Rejections -/

/-- The first failing step decides the result, whatever follows. -/
theorem C03_reject_sticky {m : Mode} {len : Nat} {env env' : Env} {pre post : List Token} {t : Token}
    {b1 : Builder} {e : ParseErr} (lexErr : Option Nat)
    (h1 : (Builder.new env).run pre none = .ok b1) (h2 : b1.step t = .err e env') :
    build m len env (pre ++ t :: post) lexErr = .err e env' :=
  build_step_err lexErr h1 h2

/-- A tokenizer error is never turned into a tree. -/
theorem C03_reject_lexerr (m : Mode) (len : Nat) (env : Env) (ts : List Token) (pos : Nat) (p : Parsed) :
    build m len env ts (some pos) ≠ .ok p :=
  build_lexErr_not_ok m len env ts pos p

/-- Any DTD token. -/
theorem C03_reject_dtd (b : Builder) (sp : StrSpan) :
    b.step (.dtdStart sp) = .err (.dtdUnsupported sp.span) b.env ∧
    b.step (.emptyDtd sp) = .err (.dtdUnsupported sp.span) b.env ∧
    b.step (.entityDecl sp) = .err (.dtdUnsupported sp.span) b.env ∧
    b.step (.dtdEnd sp) = .err (.dtdUnsupported sp.span) b.env :=
  ⟨rfl, rfl, rfl, rfl⟩

/-- A version other than `1.0`. -/
theorem C03_reject_version (b : Builder) (v : StrSpan) (e : Option StrSpan) (s : Option Bool) (sp : StrSpan)
    (h : v.text ≠ ['1', '.', '0']) :
    b.step (.declaration v e s sp) = .err (.unsupportedVersion v.text v.span) b.env := by
  simp [Builder.step, h]

/-- An end tag without any open element (fragments). -/
theorem C03_reject_stray_close (b : Builder) (p l sp : StrSpan) (n : Nat) (env1 : Env)
    (hpar : b.parents = [])
    (hname : elementNameId b.env b.nsStack p.text l.text p.span = .ok (env1, n)) :
    b.closeElement p l sp = .err (.invalidCloseTag p.text l.text (Span.fromPrefixName p l)) env1 := by
  unfold Builder.closeElement
  rw [hname]
  simp [hpar]

/-- An end tag whose (expanded) name is not the name of the open element. -/
theorem C03_reject_mismatched_close (b : Builder) (p l sp : StrSpan) (n m : Nat) (env1 : Env)
    (hcur : b.cur.value = .element n)
    (hname : elementNameId b.env b.nsStack p.text l.text p.span = .ok (env1, m)) (hne : n ≠ m) :
    b.closeElement p l sp = .err (.invalidCloseTag p.text l.text (Span.fromPrefixName p l)) env1 := by
  unfold Builder.closeElement
  rw [hname]
  simp only [hcur]
  split
  · rfl
  · simp [hne]

/-- C03_reject_endtag_prefix: an end tag whose WRITTEN prefix is not the one written in the start
    tag of the open element (`open_prefixes.last()`) is rejected with `InvalidCloseTag`, whatever
    the bindings are — also when both prefixes are bound to one namespace, so that the name ids
    agree (`m = n`), and also default namespace against prefix, in both directions. -/
theorem C03_reject_endtag_prefix (b : Builder) (p l sp : StrSpan) (n m : Nat) (env1 : Env)
    (hcur : b.cur.value = .element n)
    (hname : elementNameId b.env b.nsStack p.text l.text p.span = .ok (env1, m))
    (hpfx : b.openPrefixes.head? ≠ some p.text) :
    b.closeElement p l sp = .err (.invalidCloseTag p.text l.text (Span.fromPrefixName p l)) env1 := by
  unfold Builder.closeElement
  rw [hname]
  simp only [hcur]
  split
  · rfl
  · have : samePrefix b.openPrefixes p.text = false := by
      simp only [samePrefix, beq_eq_false_iff_ne, ne_eq]; exact hpfx
    simp [this]

/-- `open_prefixes` is the stack of the prefixes written in the start tags of the open elements:
    `open_element` pushes the prefix of the pending start tag … -/
theorem C03_open_prefix_pushed {b b1 : Builder} {eb : ElementBuilder} (heb : b.eb = some eb)
    (h : b.openElement = .ok b1) : b1.openPrefixes = eb.pfx :: b.openPrefixes ∧ ∃ n, b1.cur.value = .element n :=
  openElement_openPrefixes heb h

/-- … an accepted end tag pops it (and was written with exactly that prefix), `/>` pushes and pops,
    and no other token touches it. -/
theorem C03_open_prefixes_step {b b' : Builder} {t : Token} (h : b.step t = .ok b') :
    match t with
    | .elementEnd .open _ => ∃ eb, b.eb = some eb ∧ b'.openPrefixes = eb.pfx :: b.openPrefixes
    | .elementEnd (.close p _) _ =>
      (∃ n, b.cur.value = .element n) → b.openPrefixes = p.text :: b'.openPrefixes
    | _ => b'.openPrefixes = b.openPrefixes :=
  openPrefixes_step h

/-- `<p:a xmlns:p='u' xmlns:q='u'></q:a>` and `<a xmlns='u' xmlns:q='u'></q:a>` are rejected at the
    end tag (before /repo cea05a7 both were accepted). -/
example : (build .document endTagOtherPrefixLen Env.fresh endTagOtherPrefix none).err? =
    some (.invalidCloseTag ['q'] ['a'] ⟨31, 34⟩) := by
  rw [build_eq_buildE]; decide +kernel
example : (build .document endTagDefaultVsPrefixLen Env.fresh endTagDefaultVsPrefix none).err? =
    some (.invalidCloseTag ['q'] ['a'] ⟨27, 30⟩) := by
  rw [build_eq_buildE]; decide +kernel

/-- A prefix that no open element declares (element names, in start and end tags). -/
theorem C03_reject_unknown_prefix (env : Env) (stack : NsStack) (pfx name : Str) (sp : Span)
    (h : lookupPrefix stack (env.internPrefix pfx).2 = none) :
    elementNameId env stack pfx name sp = .err (.unknownPrefix pfx sp) (env.internPrefix pfx).1 := by
  unfold elementNameId
  simp [h]

/-- … and on attributes (a non-empty prefix). -/
theorem C03_reject_unknown_attribute_prefix (env : Env) (stack : NsStack) (pfx name : Str) (sp : Span)
    (hne : (env.internPrefix pfx).2 ≠ Env.emptyPrefix)
    (h : lookupPrefix stack (env.internPrefix pfx).2 = none) :
    attributeNameId env stack pfx name sp = .err (.unknownPrefix pfx sp) (env.internPrefix pfx).1 := by
  unfold attributeNameId
  simp [h, hne]

/-- The same attribute name written twice (same prefix, same local name). -/
theorem C03_reject_duplicate_attribute_as_written (b : Builder) (eb : ElementBuilder) (p l v : StrSpan)
    (heb : b.eb = some eb) (h : ∃ ab ∈ eb.attributes, ab.pfx = p.text ∧ ab.name = l.text) :
    b.attribute p l v =
      .err (.duplicateAttribute (attrDisplayName p.text l.text) (Span.fromPrefixName p l)) b.env := by
  unfold Builder.attribute
  rw [heb]
  obtain ⟨ab, hm, h1, h2⟩ := h
  have : (eb.attributes.any fun ab => ab.pfx == p.text && ab.name == l.text) = true := by
    rw [List.any_eq_true]; exact ⟨ab, hm, by simp [h1, h2]⟩
  simp [this]

/-- C03_reject_duplicate_expanded: an attribute that resolves to a NameId already used on this
    element (same expanded name, however the prefixes are spelled) is a `DuplicateAttribute`. -/
theorem C03_reject_duplicate_expanded (stack : NsStack) (node : Path) (st : AttrLoop) (ab : AttributeBuilder)
    (rest : List AttributeBuilder) (env1 : Env) (n : Nat)
    (hname : attributeNameId st.env stack ab.pfx ab.name ab.prefixSpan = .ok (env1, n))
    (hseen : n ∈ st.seenNames) :
    addAttributes stack node st (ab :: rest) =
      .err (.duplicateAttribute (attrDisplayName ab.pfx ab.name) ab.nameSpan) env1 := by
  simp [addAttributes, hname, hseen]

/-- `<a xmlns:p='u' xmlns:q='u' p:x='1' q:x='2'/>` is rejected at `q:x`. -/
example : (build .document dupExpandedLen Env.fresh dupExpanded none).err? =
    some (.duplicateAttribute ['q', ':', 'x'] ⟨35, 38⟩) := by
  rw [build_eq_buildE]; decide +kernel

/-- C03_reject_prefix_twice: a prefix already declared on this start tag. -/
theorem C03_reject_prefix_twice (b : Builder) (eb : ElementBuilder) (pfx : Str) (uri : StrSpan) (sp : Span) (u : Str)
    (heb : b.eb = some eb) (hdec : parseContentGo true uri.start 0 uri.text = .ok u)
    (hres : reservedDecl pfx u = false)
    (hdup : (eb.namespaces.any fun d => d.1 == (b.env.internPrefix pfx).2) = true) :
    b.prefix pfx uri sp = .err (.duplicateAttribute (declDisplayName pfx) sp)
      ((b.env.internPrefix pfx).1.internNamespace u).1 := by
  unfold Builder.prefix
  rw [hdec]
  simp only [hres, Bool.false_eq_true, if_false, heb, hdup, if_true]

/-- **C03_reject_reserved_declaration** (/repo 6153ddf): a namespace declaration whose DECODED value
    makes it one of the declarations Namespaces in XML reserves — the prefix `xmlns` declared, another
    prefix than `xml` (the default namespace included) bound to the XML namespace name, anything bound
    to the xmlns namespace name — is refused with `InvalidNamespaceDeclaration(attribute name, name
    span)`, in every builder state, before anything is interned and before the duplicate test. -/
theorem C03_reject_reserved_declaration (b : Builder) (pfx : Str) (uri : StrSpan) (sp : Span) (u : Str)
    (hdec : parseContentGo true uri.start 0 uri.text = .ok u)
    (hres : pfx = ['x', 'm', 'l', 'n', 's'] ∨ (pfx ≠ ['x', 'm', 'l'] ∧ u = xmlNamespaceUri) ∨
      u = xmlnsNamespaceUri) :
    b.prefix pfx uri sp = .err (.invalidNamespaceDeclaration (declDisplayName pfx) sp) b.env := by
  have hr : reservedDecl pfx u = true := by
    simp only [reservedDecl, Bool.or_eq_true, Bool.and_eq_true, beq_iff_eq, bne_iff_ne, ne_eq]
    rcases hres with h | h | h
    · exact .inl (.inl (.inl h))
    · exact .inl (.inl (.inr h))
    · exact .inl (.inr h)
  unfold Builder.prefix
  rw [hdec]
  simp only [hr, if_true]

/-- **C03_reject_prefixed_undeclaration** (/repo a5dcf8e): `xmlns:p=""` — a non-empty prefix other than
    `xml` bound to the empty namespace name — is refused the same way (Namespaces in XML 1.0, "No Prefix
    Undeclaring"); only `xmlns=""` undeclares. -/
theorem C03_reject_prefixed_undeclaration (b : Builder) (pfx : Str) (uri : StrSpan) (sp : Span)
    (hdec : parseContentGo true uri.start 0 uri.text = .ok [])
    (hp : pfx ≠ []) (hx : pfx ≠ ['x', 'm', 'l']) :
    b.prefix pfx uri sp = .err (.invalidNamespaceDeclaration (declDisplayName pfx) sp) b.env := by
  have hr : reservedDecl pfx [] = true := by
    have h1 : pfx.isEmpty = false := by simpa using hp
    have h2 : (pfx != ['x', 'm', 'l']) = true := by simpa using hx
    simp [reservedDecl, h1, h2]
  unfold Builder.prefix
  rw [hdec]
  simp only [hr, if_true]

/-- The converse: a declaration the test lets through is not refused with that variant (what remains
    accepted of the reserved names is the prefix `xml` bound to any name: `reservedDecl` exempts it). -/
theorem C03_reserved_declaration_only (b : Builder) (pfx : Str) (uri : StrSpan) (sp : Span) (u : Str)
    (hdec : parseContentGo true uri.start 0 uri.text = .ok u) (hres : reservedDecl pfx u = false)
    (n : Str) (sp' : Span) (env' : Env) :
    b.prefix pfx uri sp ≠ .err (.invalidNamespaceDeclaration n sp') env' := by
  unfold Builder.prefix
  rw [hdec]
  simp only [hres, Bool.false_eq_true, if_false]
  split
  · simp
  · split <;> simp

example : reservedDecl ['x', 'm', 'l'] ['z'] = false ∧ reservedDecl ['x', 'm', 'l'] [] = false ∧
    reservedDecl ['x', 'm', 'l'] xmlNamespaceUri = false ∧ reservedDecl [] [] = false ∧
    reservedDecl ['p'] ['u'] = false ∧ reservedDecl ['x', 'm', 'l'] xmlnsNamespaceUri = true := by decide

/-- `<a xmlns:xmlns="u"/>`, `<a xmlns:p="http://www.w3.org/XML/1998/namespace"/>`,
    `<a xmlns="http://www.w3.org/2000/xmlns/"/>`, `<a xmlns:p="http://www.w3.org/2000/xmlns&#x2F;"/>` and
    `<a xmlns:p="" p:xmlns="v"/>` as STRINGS (reference tokenizer + builder, from `Xot::new()`'s tables):
    rejected, with the span of the declaring attribute's name. -/
example :
    (∃ env', parseString .document Env.fresh (renderTokens xmlnsPrefixTokens) =
      .err (.invalidNamespaceDeclaration "xmlns:xmlns".toList ⟨3, 14⟩) env') ∧
    (∃ env', parseString .document Env.fresh (renderTokens xmlUriTokens) =
      .err (.invalidNamespaceDeclaration "xmlns:p".toList ⟨3, 10⟩) env') ∧
    (∃ env', parseString .document Env.fresh (renderTokens xmlnsUriTokens) =
      .err (.invalidNamespaceDeclaration "xmlns".toList ⟨3, 8⟩) env') ∧
    (∃ env', parseString .document Env.fresh (renderTokens xmlnsUriRefTokens) =
      .err (.invalidNamespaceDeclaration "xmlns:p".toList ⟨3, 10⟩) env') ∧
    (∃ env', parseString .document Env.fresh (renderTokens undeclTokens) =
      .err (.invalidNamespaceDeclaration "xmlns:p".toList ⟨3, 10⟩) env') :=
  ⟨rejection_spec reserved_rejected.1.1 reserved_rejected.1.2,
   rejection_spec reserved_rejected.2.1.1 reserved_rejected.2.1.2,
   rejection_spec reserved_rejected.2.2.1.1 reserved_rejected.2.2.1.2,
   rejection_spec reserved_rejected.2.2.2.1 reserved_rejected.2.2.2.2,
   rejection_spec undecl_rejected.1 undecl_rejected.2⟩

/-- **C03_reject_pi_target_xml** (/repo 002854f): a processing instruction whose target is `xml` in any
    letter case is refused with `InvalidTarget(target, target span)`, in every builder state, and
    nothing is interned.  (xmlparser itself only refuses the literal `<?xml ` outside the prolog.) -/
theorem C03_reject_pi_target_xml (b : Builder) (target : StrSpan) (content : Option StrSpan) (sp : StrSpan)
    (h : target.text.map asciiLowerChar = ['x', 'm', 'l']) :
    b.step (.pi target content sp) = .err (.invalidTarget target.text target.span) b.env := by
  have : isReservedPiTarget target.text = true := by simp [isReservedPiTarget, h]
  simp only [Builder.step, this, if_true]

/-- Any other target goes through to the builder. -/
theorem C03_pi_target_other (b : Builder) (target : StrSpan) (content : Option StrSpan) (sp : StrSpan)
    (h : target.text.map asciiLowerChar ≠ ['x', 'm', 'l']) :
    b.step (.pi target content sp) = .ok (b.processingInstruction target content) := by
  have : isReservedPiTarget target.text = false := by simpa [isReservedPiTarget] using h
  simp only [Builder.step, this, Bool.false_eq_true, if_false]

/-- The tokens of `<a><?xml` TAB `x?></a>` (as the tokenizer returns them) and the text `<a><?XmL?></a>`. -/
example : (build .document 17 Env.fresh xmlPiTokens none).err? = some (.invalidTarget ['x', 'm', 'l'] ⟨5, 8⟩) := by
  rw [build_eq_buildE]; decide +kernel
example : ∃ env', parseString .document Env.fresh (renderTokens xmlPiMixedTokens) =
    .err (.invalidTarget ['X', 'm', 'L'] ⟨5, 8⟩) env' :=
  rejection_spec xmlPi_rejected.2.1 xmlPi_rejected.2.2

/-! ### A name written with a colon and nothing in front of it (/repo a5fafb0)

xmlparser 0.13.6 accepts `<:a/>`, `<a :b='1'/>`, `</:a>` (`consume_qname` returns an EMPTY prefix that is a
slice of the source, positioned at the colon); they are not qualified names (Namespaces in XML 1.0,
`QName ::= PrefixedName | UnprefixedName`, `Prefix ::= NCName`).  Before a5fafb0 xot read them as the
unprefixed names `a`, `b` (and recorded a span without the colon: the former C17 findings).  Now
`check_qname` refuses them, first thing in the `ElementStart`, `Attribute` and `ElementEnd::Close` arms: an
ABSENT prefix is xmlparser's `"".into()` - offset 0, which no slice of a name can have. -/

/-- **C03_reject_colon_without_prefix**: in EVERY builder state, an element start, an attribute or an
    end tag whose prefix is empty and positioned in the text (offset ≠ 0) is refused with
    `UnknownPrefix("", colon .. end of the local name)`, and nothing is interned. -/
theorem C03_reject_colon_without_prefix (b : Builder) (pfx loc : StrSpan) (hp : pfx.text = [])
    (hs : pfx.start ≠ 0) :
    (∀ sp, b.step (.elementStart pfx loc sp) = .err (.unknownPrefix [] ⟨pfx.start, loc.stop⟩) b.env) ∧
    (∀ v sp, b.step (.attribute pfx loc v sp) = .err (.unknownPrefix [] ⟨pfx.start, loc.stop⟩) b.env) ∧
    (∀ sp, b.step (.elementEnd (.close pfx loc) sp) =
      .err (.unknownPrefix [] ⟨pfx.start, loc.stop⟩) b.env) := by
  have hb : pfx.bareColon = true := by simp [StrSpan.bareColon, hp, hs]
  exact ⟨fun sp => b.step_refused_of (t := .elementStart pfx loc sp) rfl hb,
    fun v sp => b.step_refused_of (t := .attribute pfx loc v sp) rfl hb,
    fun sp => b.step_refused_of (t := .elementEnd (.close pfx loc) sp) rfl hb⟩

/-- … and only those: an absent prefix (offset 0) or a non-empty one goes on to the builder as before. -/
theorem C03_colon_check_passes (b : Builder) (pfx loc : StrSpan) (h : pfx.text ≠ [] ∨ pfx.start = 0) :
    (∀ sp, b.step (.elementStart pfx loc sp) = .ok (b.element pfx loc)) ∧
    (∀ sp, b.step (.elementEnd (.close pfx loc) sp) = b.closeElement pfx loc sp) := by
  have hb : pfx.bareColon = false := by
    rcases h with h | h
    · exact StrSpan.bareColon_false_of_ne h
    · exact StrSpan.bareColon_false_of_start h
  exact ⟨fun sp => by simp only [Builder.step, hb, Bool.false_eq_true, if_false],
    fun sp => by simp only [Builder.step, hb, Bool.false_eq_true, if_false]⟩

/-- A token list with such a name anywhere is never accepted, whatever else it holds. -/
theorem C03_reject_colon_tokens (m : Mode) (len : Nat) (env : Env) (ts : List Token) (le : Option Nat)
    (h : tokensPrefixOk ts = false) (p : Parsed) : build m len env ts le ≠ .ok p := by
  intro hp
  rw [build_ok_prefixOk hp] at h
  cases h

/-- `<:a/>`, `<a :b='1'/>`, `<a></:a>` as STRINGS: the reference tokenizer accepts them (tokens in
    Lemmas/ColonWitness.lean, evaluated in the kernel), `parse` refuses them with the span of the
    WHOLE name as written - colon included - and the tables of `Xot::new()` are left as they were. -/
example : parseString .document Env.fresh colonElementText = .err (.unknownPrefix [] ⟨1, 3⟩) Env.fresh := by
  simp only [parseString, lexMode, lex_colonElement]; rfl
example : parseString .document Env.fresh colonAttributeText = .err (.unknownPrefix [] ⟨3, 5⟩) Env.fresh := by
  simp only [parseString, lexMode, lex_colonAttribute]; rfl
example : (parseString .document Env.fresh colonEndTagText).err? = some (.unknownPrefix [] ⟨5, 7⟩) := by
  simp only [parseString, lexMode, lex_colonEndTag]
  rw [build_eq_buildE]; decide +kernel
example : colonElementText = "<:a/>".toList ∧ colonAttributeText = "<a :b='1'/>".toList ∧
    colonEndTagText = "<a></:a>".toList := by decide

/-- `<a xmlns:p='u' xmlns:p='v'/>` is rejected at the second `xmlns:p`. -/
example : (build .document prefixTwiceLen Env.fresh prefixTwice none).err? =
    some (.duplicateAttribute ['x', 'm', 'l', 'n', 's', ':', 'p'] ⟨15, 22⟩) := by
  rw [build_eq_buildE]; decide +kernel

/-- An ill-formed value of a namespace declaration is rejected like any attribute value. -/
theorem C03_reject_declaration_content_error (b : Builder) (pfx : Str) (uri : StrSpan) (sp : Span) (e : ContentErr)
    (h : parseContentGo true uri.start 0 uri.text = .error e) :
    b.prefix pfx uri sp = .err (ParseErr.ofContent e) b.env := by
  unfold Builder.prefix
  rw [h]

/-- C03_reject_nonchar: whatever a reference decodes to is an XML `Char`
    (`#x9 | #xA | #xD | [#x20-#xD7FF] | [#xE000-#xFFFD] | [#x10000-#x10FFFF]`). -/
theorem C03_reject_nonchar (ent : Str) (c : Char) (h : decodeEntity ent = some c) :
    isXmlCharCode c.toNat = true :=
  decodeEntity_xmlChar h

/-- C03_reject_signed: a sign is not a digit. -/
theorem C03_reject_signed (rest : Str) :
    decodeEntity ('#' :: '+' :: rest) = none ∧ decodeEntity ('#' :: 'x' :: '+' :: rest) = none :=
  decodeEntity_signed rest

/-- A reference that does not decode (unknown entity, malformed number, sign, not an XML Char,
    surrogate, above U+10FFFF), anywhere after well-spelled content, is rejected … -/
theorem C03_reject_bad_reference (attr : Bool) (base : Nat) (ps : List Piece) (hw : WellSpelled ps)
    (ent rest : Str) (hsemi : ';' ∉ ent) (hdec : decodeEntity ent = none) :
    ∃ a b, parseContentGo attr base 0 (renderPieces ps ++ '&' :: (ent ++ ';' :: rest)) =
      .error (.invalid (entityErrText ent) a b) :=
  parse_pieces_then_invalid attr base 0 ps hw ent rest hsemi hdec

/-- … and so is a `&` that is never closed. -/
theorem C03_reject_unterminated_reference (attr : Bool) (base : Nat) (ps : List Piece) (hw : WellSpelled ps)
    (rest : Str) (hsemi : ';' ∉ rest) :
    ∃ a, parseContentGo attr base 0 (renderPieces ps ++ '&' :: rest) = .error (.unclosed rest a) :=
  parse_pieces_then_unclosed attr base 0 ps hw rest hsemi

/-- A content error in a text token / attribute value is the step's error. -/
theorem C03_reject_content_error (b : Builder) (t : StrSpan) (e : ContentErr)
    (h : parseContentGo false t.start 0 t.text = .error e) :
    b.step (.text t) = .err (ParseErr.ofContent e) b.env := by
  simp [Builder.step, Builder.text, h]

theorem C03_reject_attribute_content_error (b : Builder) (eb : ElementBuilder) (p l v : StrSpan) (e : ContentErr)
    (heb : b.eb = some eb)
    (hnew : (eb.attributes.any fun ab => ab.pfx == p.text && ab.name == l.text) = false)
    (h : parseContentGo true v.start 0 v.text = .error e) :
    b.attribute p l v = .err (ParseErr.ofContent e) b.env := by
  unfold Builder.attribute
  rw [heb]
  simp [hnew, h]

/-- Examples of references that do not decode. -/
example : decodeEntity ['n', 'b', 's', 'p'] = none ∧ decodeEntity ['#'] = none ∧
    decodeEntity ['#', 'x'] = none ∧ decodeEntity ['#', 'x', 'D', '8', '0', '0'] = none ∧
    decodeEntity ['#', 'x', '1', '1', '0', '0', '0', '0'] = none ∧ decodeEntity ['#', 'X', '4', '1'] = none ∧
    decodeEntity ['#', '4', '2', '9', '4', '9', '6', '7', '2', '9', '6'] = none ∧
    decodeEntity ['#', '0'] = none ∧ decodeEntity ['#', 'x', '1'] = none ∧
    decodeEntity ['#', 'x', 'F', 'F', 'F', 'E'] = none ∧ decodeEntity ['#', '+', '6', '5'] = none := by
  decide +kernel

/-- `<a>&#0;</a>` and `<a>&#+65;</a>` are rejected with the span of the reference. -/
example : (build .document nonCharLen Env.fresh nonChar none).err? = some (.invalidEntity ['0'] ⟨3, 7⟩) := by
  rw [build_eq_buildE]; decide +kernel
example : (build .document signedRefLen Env.fresh signedRef none).err? =
    some (.invalidEntity ['+', '6', '5'] ⟨3, 9⟩) := by
  rw [build_eq_buildE]; decide +kernel

/-- A second `xml:id` with a value already seen: an attribute whose NAME ID is that of xml:id
    (expanded name (XML namespace, `id`), whatever prefix spells it) is normalised first, and the
    normalised value is what is compared and reported. -/
theorem C03_reject_duplicate_id (stack : NsStack) (node : Path) (st : AttrLoop) (ab : AttributeBuilder)
    (rest : List AttributeBuilder) (env1 : Env)
    (hname : attributeNameId st.env stack ab.pfx ab.name ab.prefixSpan = .ok (env1, Env.xmlIdName))
    (hnew : ¬ Env.xmlIdName ∈ st.seenNames)
    (hseen : st.seenIds.contains (normalizeXmlId ab.value) = true) :
    addAttributes stack node st (ab :: rest) =
      .err (.duplicateId (normalizeXmlId ab.value) ab.valueSpan) env1 := by
  have hm : normalizeXmlId ab.value ∈ st.seenIds := by simpa using hseen
  have hc : st.seenNames.contains Env.xmlIdName = false := by simpa using hnew
  simp only [addAttributes, hname, hc, Bool.false_eq_true, if_false, xmlIdValue, BEq.rfl, if_true, hseen,
    Bool.and_self]

/-- `<a xml:id='i'><b xml:id='  i '/></a>` is rejected. -/
example : (build .document dupIdSpacesLen Env.fresh dupIdSpaces none).err? =
    some (.duplicateId ['i'] ⟨25, 29⟩) := by
  rw [build_eq_buildE]; decide +kernel

/-- `<a xmlns:p='http://www.w3.org/XML/1998/namespace' p:id=' x '><b xml:id='x'/></a>` is rejected — since
    /repo 6153ddf already at the declaration (another prefix for the XML namespace); between 7427b0a and
    that commit as a duplicate ID; before 7427b0a the first value stayed ` x ` and the text was accepted. -/
example : (build .document dupIdViaOtherPrefixLen Env.fresh dupIdViaOtherPrefix none).err? =
    some (.invalidNamespaceDeclaration ['x', 'm', 'l', 'n', 's', ':', 'p'] ⟨3, 10⟩) := by
  rw [build_eq_buildE]; decide +kernel

/-- C03_reject_truncated: input that ends inside a start tag. -/
theorem C03_reject_truncated (b : Builder) (eb : ElementBuilder) (h : b.eb = some eb) :
    b.run [] none = .err (.unclosedTag eb.span) b.env := by
  simp [Builder.run, h]

/-- `parse_fragment("<x")` is rejected with the span of `x`. -/
example : (build .fragment truncatedTagLen Env.fresh truncatedTag none).err? = some (.unclosedTag ⟨1, 2⟩) := by
  rw [build_eq_buildE]; decide +kernel

/-- An element still open at the end of the input. -/
theorem C03_reject_unclosed (b : Builder) (h : b.isCurrentDocument = false) (len : Nat) (p : Parsed) :
    b.finishDocument len ≠ .ok p ∧ b.finishFragment ≠ .ok p :=
  finish_not_ok_of_open h len p

/-- No root, several roots, text at top level (documents): see `C03_sound_document`; e.g.
    `<a/><b/>` and `<a></b>`. -/
example : (build .document twoRootsLen Env.fresh twoRoots none).err? =
    some (.multipleElementsAtTopLevel ⟨5, 6⟩) := by
  rw [build_eq_buildE]; decide +kernel
example : (build .document mismatchLen Env.fresh mismatch none).err? =
    some (.invalidCloseTag [] ['b'] ⟨5, 6⟩) := by
  rw [build_eq_buildE]; decide +kernel

/-! ### Strings: the reference tokenizer (Model/Lex.lean — xmlparser 0.13.6 as written, total, tied
to the crate by the `lex` suite) composed with the builder -/

/-- The token-shape contract — the hypothesis of `C03_nopanic` — is a theorem about the reference
    tokenizer: it holds of its output on EVERY string, in both modes. -/
theorem C03_lex_shape (m : Mode) (s : Str) : TokenShape (strLen s) (lexMode m s).1 (lexMode m s).2 := by
  cases m
  · exact lexDocument_shape s
  · exact lexFragment_shape s

/-- In document mode the tokenizer never emits an end tag at depth 0 (in fragment mode it does:
    `strayClose` above). -/
theorem C03_lex_no_stray_close (s : Str) : NoStrayClose 0 (lexDocument s).1 :=
  lexDocument_noStrayClose s

/-- `parse` / `parse_fragment` never panic, on ANY string (tokenizer and builder are total
    functions; no panic outcome is reachable). -/
theorem C03_string_nopanic (m : Mode) (env : Env) (s : Str) : parseString m env s ≠ .panic :=
  C03_nopanic m (strLen s) env _ _ (C03_lex_shape m s)

/-- Whatever `parse` / `parse_fragment` accept, from ANY string, is structurally valid and has no
    adjacent text nodes. -/
theorem C03_string_sound {m : Mode} {env : Env} {s : Str} {p : Parsed}
    (h : parseString m env s = .ok p) : StructValid p.tree ∧ NoAdjacentText p.tree :=
  C03_sound h

/-- … and for `parse`: exactly one element and no text at top level. -/
theorem C03_string_sound_document {env : Env} {s : Str} {p : Parsed}
    (h : parseString .document env s = .ok p) : WellFormedTop p.tree :=
  C03_sound_document h

/-- A string on which the tokenizer fails is rejected (with `ParseError::XmlParser`). -/
theorem C03_string_reject_lexerr (m : Mode) (env : Env) (s : Str) (pos : Nat)
    (h : (lexMode m s).2 = some pos) (p : Parsed) : parseString m env s ≠ .ok p := by
  unfold parseString; rw [h]; exact C03_reject_lexerr m _ env _ pos p

/-- Non-vacuity: the canonical spelling of `lexWitness3` (`<a>x</a>`) is accepted as a document,
    through tokenizer and builder. -/
def lexWitness3 : List Token :=
  [.elementStart ⟨[], 0⟩ ⟨['a'], 0⟩ ⟨[], 0⟩, .elementEnd .open ⟨[], 0⟩, .text ⟨['x'], 0⟩,
   .elementEnd (.close ⟨[], 0⟩ ⟨['a'], 0⟩) ⟨[], 0⟩]

example : renderTokens lexWitness3 = ['<', 'a', '>', 'x', '<', '/', 'a', '>'] := by decide
example : (parseString .document Env.fresh ['<', 'a', '>', 'x', '<', '/', 'a', '>']).isOk = true := by
  have h := lexDocument_render lexWitness3 (by decide)
  rw [show renderTokens lexWitness3 = ['<', 'a', '>', 'x', '<', '/', 'a', '>'] from by decide] at h
  simp only [parseString, lexMode]
  rw [h, build_eq_buildE]; decide +kernel

/-! ### Lexical rejections (reference tokenizer)

Shape of every statement: `ts` is ANY token list meeting `LexOK` (every length and depth), spelled
canonically; what follows is ill-formed in the way named; then the tokenizer returns the tokens of
`ts` and fails, the error position being where `ts` ended — so `parse` / `parse_fragment` reject
the text (`C03_string_reject_lexerr`).  `frag = true` is `parse_fragment`, `false` is `parse`;
`ctxAfter` is the tokenizer context `ts` ends in (inside a start tag / element content at depth
`d` / before / after the root element). -/

open XotModel.Lex XotModel.Lex.Canon

private theorem init_ne_inTag (frag : Bool) (d : Nat) : ctxAfter frag (LexCtx.init frag) [] ≠ .inTag d := by
  cases frag <;> simp [ctxAfter, LexCtx.init]

/-- A raw `<` inside an attribute value. -/
theorem C03_lex_reject_attr_lt (frag : Bool) (ts : List Token) (d : Nat) (p l v rest : Str)
    (hok : LexOK frag ts = true) (hctx : ctxAfter frag (LexCtx.init frag) ts = .inTag d)
    (hq : qnameOK p l = true) (hv : v.all (fun c => isXmlChar c && c != '"' && c != '<') = true) :
    lexMode (modeOf frag) (renderTokens ts ++ ' ' :: (tokQName p l ++ '=' :: '"' :: (v ++ '<' :: rest))) =
      (placeTokens 0 ts, some (strLen (renderTokens ts))) := by
  have hn := hok
  simp only [LexOK, Bool.and_eq_true] at hn
  refine lexMode_reject_after frag ts _ hok (joinOK_inTag hn.2 hctx (Stops.cons _ (by decide))) ?_ ?_
  · intro _ h; subst h; exact absurd hctx (init_ne_inTag frag d)
  · rw [hctx]; exact failsAt_attr_lt frag d _ p l v rest hq hv

/-- Element content followed by markup that begins with `<`: the common part of the next four. -/
private theorem reject_content (frag : Bool) (ts : List Token) (d : Nat) (r : Str) (cs : Str)
    (hr : r = '<' :: cs)
    (hok : LexOK frag ts = true) (hctx : ctxAfter frag (LexCtx.init frag) ts = .content d)
    (hbad : FailsAt frag (.content d) (strLen (renderTokens ts)) r) :
    lexMode (modeOf frag) (renderTokens ts ++ r) = (placeTokens 0 ts, some (strLen (renderTokens ts))) := by
  have hn := hok
  simp only [LexOK, Bool.and_eq_true] at hn
  refine lexMode_reject_after frag ts r hok
    (joinOK_markup hn.2 (by rw [hctx]; intro e; simp) (.inr ⟨cs, hr⟩)) ?_ (by rw [hctx]; exact hbad)
  intro _ _; rw [hr]; simp

/-- An unterminated comment. -/
theorem C03_lex_reject_unterminated_comment (frag : Bool) (ts : List Token) (d : Nat) (body : Str)
    (hok : LexOK frag ts = true) (hctx : ctxAfter frag (LexCtx.init frag) ts = .content d)
    (h : hasInfix ['-', '-', '>'] body = false) :
    lexMode (modeOf frag) (renderTokens ts ++ (['<', '!', '-', '-'] ++ body)) =
      (placeTokens 0 ts, some (strLen (renderTokens ts))) :=
  reject_content frag ts d _ _ rfl hok hctx (failsAt_unterminated_comment frag d _ body h)

/-- `--` inside a comment, or a comment body ending in `-`. -/
theorem C03_lex_reject_comment_dashes (frag : Bool) (ts : List Token) (d : Nat) (body rest : Str)
    (hok : LexOK frag ts = true) (hctx : ctxAfter frag (LexCtx.init frag) ts = .content d)
    (h : hasInfix ['-', '-', '>'] body = false)
    (hd : hasInfix ['-', '-'] body = true ∨ body.getLast? = some '-') :
    lexMode (modeOf frag) (renderTokens ts ++ (['<', '!', '-', '-'] ++ (body ++ ['-', '-', '>'] ++ rest))) =
      (placeTokens 0 ts, some (strLen (renderTokens ts))) :=
  reject_content frag ts d _ _ rfl hok hctx (failsAt_comment_dashes frag d _ body rest h hd)

/-- An unterminated CDATA section. -/
theorem C03_lex_reject_unterminated_cdata (frag : Bool) (ts : List Token) (d : Nat) (body : Str)
    (hok : LexOK frag ts = true) (hctx : ctxAfter frag (LexCtx.init frag) ts = .content d)
    (h : hasInfix [']', ']', '>'] body = false) :
    lexMode (modeOf frag) (renderTokens ts ++ (['<', '!', '[', 'C', 'D', 'A', 'T', 'A', '['] ++ body)) =
      (placeTokens 0 ts, some (strLen (renderTokens ts))) :=
  reject_content frag ts d _ _ rfl hok hctx (failsAt_unterminated_cdata frag d _ body h)

/-- An unterminated processing instruction. -/
theorem C03_lex_reject_unterminated_pi (frag : Bool) (ts : List Token) (d : Nat) (body : Str)
    (hok : LexOK frag ts = true) (hctx : ctxAfter frag (LexCtx.init frag) ts = .content d)
    (h : hasInfix ['?', '>'] body = false) :
    lexMode (modeOf frag) (renderTokens ts ++ (['<', '?'] ++ body)) =
      (placeTokens 0 ts, some (strLen (renderTokens ts))) :=
  reject_content frag ts d _ _ rfl hok hctx (failsAt_unterminated_pi frag d _ body h)

/-- `]]>` in character data (`hj`: the text does not directly follow another text token or a
    start-tag name, which it would extend). -/
theorem C03_lex_reject_cdata_close_in_text (frag : Bool) (ts : List Token) (d : Nat) (body rest : Str)
    (hok : LexOK frag ts = true) (hctx : ctxAfter frag (LexCtx.init frag) ts = .content d)
    (hj : JoinOK ts (body ++ rest)) (hne : body ≠ [])
    (hall : body.all (fun c => isXmlChar c && c != '<') = true)
    (hinf : hasInfix [']', ']', '>'] body = true) (hrest : rest = [] ∨ ∃ cs, rest = '<' :: cs)
    (hbom : body.head? ≠ some '﻿') :
    lexMode (modeOf frag) (renderTokens ts ++ (body ++ rest)) =
      (placeTokens 0 ts, some (strLen (renderTokens ts))) := by
  refine lexMode_reject_after frag ts _ hok hj ?_
    (by rw [hctx]; exact failsAt_text_cdata_close frag d _ body rest hne hall hinf hrest)
  intro _ _
  cases body with
  | nil => exact absurd rfl hne
  | cons c cs => simpa using hbom

/-- Character data before the root element of a document (`ts`: comments and PIs only). -/
theorem C03_lex_reject_text_before_root (ts : List Token) (c : Char) (rest : Str)
    (hok : LexOK false ts = true) (hctx : ctxAfter false .prolog ts = .prolog)
    (hc : c ≠ '<') (hsp : isXmlSpace c = false) (hbom : c ≠ '﻿') :
    lexDocument (renderTokens ts ++ c :: rest) = (placeTokens 0 ts, some (strLen (renderTokens ts))) := by
  have hn := hok
  simp only [LexOK, Bool.and_eq_true] at hn
  refine lexDocument_reject_after ts _ hok (joinOK_outside hn.2 (.inl hctx)) ?_ ?_
  · intro _; simpa using hbom
  · rw [hctx]; exact failsAt_text_prolog _ c rest hc hsp

/-- Character data after the root element of a document. -/
theorem C03_lex_reject_text_after_root (ts : List Token) (c : Char) (rest : Str)
    (hok : LexOK false ts = true) (hctx : ctxAfter false .prolog ts = .after)
    (hc : c ≠ '<') (hsp : isXmlSpace c = false) :
    lexDocument (renderTokens ts ++ c :: rest) = (placeTokens 0 ts, some (strLen (renderTokens ts))) := by
  have hn := hok
  simp only [LexOK, Bool.and_eq_true] at hn
  refine lexDocument_reject_after ts _ hok (joinOK_outside hn.2 (.inr hctx)) ?_ ?_
  · intro h; subst h; simp [ctxAfter] at hctx
  · rw [hctx]; exact failsAt_text_after _ c rest hc hsp

/-- A second root element: in document mode this is already a TOKENIZER error (the tokenizer is in
    `AfterElements`), so `parse` reports `XmlParser`, never `MultipleElementsAtTopLevel`, for it. -/
theorem C03_lex_reject_second_root (ts : List Token) (rest : Str)
    (hok : LexOK false ts = true) (hctx : ctxAfter false .prolog ts = .after)
    (h1 : rest.head? ≠ some '!') (h2 : rest.head? ≠ some '?') :
    lexDocument (renderTokens ts ++ '<' :: rest) = (placeTokens 0 ts, some (strLen (renderTokens ts))) := by
  have hn := hok
  simp only [LexOK, Bool.and_eq_true] at hn
  refine lexDocument_reject_after ts _ hok (joinOK_outside hn.2 (.inr hctx)) ?_ ?_
  · intro h; subst h; simp [ctxAfter] at hctx
  · rw [hctx]; exact failsAt_second_root _ rest h1 h2

/-- Non-vacuity: `<a b="x<"` (raw `<` in a value, after `<a`), `<a><!--x` (unterminated comment in
    content), `<a/><b/>` (second root), `x<a/>` (text before the root). -/
example : LexOK false [.elementStart ⟨[], 0⟩ ⟨['a'], 0⟩ ⟨[], 0⟩] = true ∧
    ctxAfter false (LexCtx.init false) [.elementStart ⟨[], 0⟩ ⟨['a'], 0⟩ ⟨[], 0⟩] = .inTag 0 := by decide
example : lexDocument ['<', 'a', ' ', 'b', '=', '"', 'x', '<', '"'] =
    ([.elementStart ⟨[], 0⟩ ⟨['a'], 1⟩ ⟨['<', 'a'], 0⟩], some 2) :=
  C03_lex_reject_attr_lt false [.elementStart ⟨[], 0⟩ ⟨['a'], 0⟩ ⟨[], 0⟩] 0 [] ['b'] ['x'] ['"']
    (by decide) (by decide) (by decide) (by decide)
example : (lexDocument ['<', 'a', '>', '<', '!', '-', '-', 'x']).2 = some 3 := by
  have := C03_lex_reject_unterminated_comment false
    [.elementStart ⟨[], 0⟩ ⟨['a'], 0⟩ ⟨[], 0⟩, .elementEnd .open ⟨[], 0⟩] 1 ['x']
    (by decide) (by decide) (by decide)
  simp only [modeOf, lexMode] at this
  exact congrArg Prod.snd this
example : (lexDocument ['<', 'a', '/', '>', '<', 'b', '/', '>']).2 = some 4 := by
  have := C03_lex_reject_second_root
    [.elementStart ⟨[], 0⟩ ⟨['a'], 0⟩ ⟨[], 0⟩, .elementEnd .empty ⟨[], 0⟩] ['b', '/', '>']
    (by decide) (by decide) (by decide) (by decide)
  exact congrArg Prod.snd this
example : lexDocument ['x', '<', 'a', '/', '>'] = ([], some 0) :=
  C03_lex_reject_text_before_root [] 'x' ['<', 'a', '/', '>'] (by decide) (by decide) (by decide)
    (by decide) (by decide)

/-! ### Accepted ⇒ representable ⇒ serialises ⇒ reparses to the same tree

`envOK env`: the tables hold the built-in values of `Xot::new` at their ids and no value twice — true of
`Xot::new()` (C08) and kept by every interning step (`C03_accepted_tables`; Lemmas/AcceptedDefs `EnvReach`).
Guards, both decidable on the TREE (Lemmas/AcceptedDefs.lean):
* `NoReservedDecls env t`: no namespace node declares the prefix `xml` — the inputs of the known
  findings `C03:xml-prefix-rebound-accepted` / `C03:not-representable-xml-prefix-rebound` (and the
  permitted, never serialised `xmlns:xml="http://www.w3.org/XML/1998/namespace"`).  The other reserved
  declarations and `xmlns:p=""` are rejected (`C03_reject_reserved_declaration`,
  `C03_reject_prefixed_undeclaration`), so the guard no longer mentions them.
* `PlainPiTargets env t`: every PI target is an NCName (no colon).  xmlparser reads a target with
  `consume_name` (colons allowed): targets such as `a:b` are accepted and do round-trip on the crate,
  but lie outside `Representable` (Model/SerTokens.lean asks for an NCName: narrower than needed).  The
  target `xml` in any letter case is rejected (`C03_reject_pi_target_xml`). -/

/-- (a) What the reference tokenizer enforces, on every token of every input, in both modes. -/
theorem C03_lex_classes (m : Mode) (s : Str) : ∀ t ∈ (lexMode m s).1, t.accLex = true :=
  lexMode_accLex m s

/-- The standing hypotheses on the tables survive every accepted parse; the tables only grow. -/
theorem C03_accepted_tables {m : Mode} {env : Env} {s : Str} {p : Parsed} (henv : envOK env = true)
    (h : parseString m env s = .ok p) : envOK p.env = true ∧ EnvApp env p.env :=
  ⟨Accepted.envOK_of_facts (Accepted.accepted_facts henv h).1, (Accepted.accepted_facts henv h).2.1.app⟩

/-- **C03_accepted_representable** (`parse`): the accepted tree is in the round-trip domain of C01. -/
theorem C03_accepted_representable {env : Env} {s : Str} {p : Parsed} (henv : envOK env = true)
    (h : parseString .document env s = .ok p) (hg : NoReservedDecls p.env p.tree = true)
    (hpi : PlainPiTargets p.env p.tree = true) : Representable p.env p.tree = true :=
  Accepted.accepted_representable henv h hg hpi

/-- `parse_fragment` (any mode). -/
theorem C03_accepted_representable_fragment {m : Mode} {env : Env} {s : Str} {p : Parsed} (henv : envOK env = true)
    (h : parseString m env s = .ok p) (hg : NoReservedDecls p.env p.tree = true)
    (hpi : PlainPiTargets p.env p.tree = true) : RepresentableFragment p.env p.tree = true :=
  Accepted.accepted_representable_fragment henv h hg hpi

/-- **C03_accepted_serialises**: every name the parser resolved can be written — some prefix in scope
    (the one the source used) is bound to its namespace; an attribute in a namespace has a non-empty
    one; an element in no namespace stands under no default namespace (the source wrote `xmlns=""`). -/
theorem C03_accepted_serialises {m : Mode} {env : Env} {s : Str} {p : Parsed} (henv : envOK env = true)
    (h : parseString m env s = .ok p) (hg : NoReservedDecls p.env p.tree = true)
    (hpi : PlainPiTargets p.env p.tree = true) : namesWritable p.env p.tree [] = some true :=
  Accepted.accepted_writable henv h hg hpi

/-- **C03_accepted_roundtrip** (`parse`): whatever is accepted serialises, and the text is accepted again
    and gives the SAME tree (ids, declarations and prefixes included), tables unchanged; `deep_equal`. -/
theorem C03_accepted_roundtrip {env : Env} {s : Str} {p : Parsed} (henv : envOK env = true)
    (h : parseString .document env s = .ok p) (hg : NoReservedDecls p.env p.tree = true)
    (hpi : PlainPiTargets p.env p.tree = true) :
    ∃ s', toXmlString p.env p.tree [] = .ok s' ∧ ∃ p', parseString .document p.env s' = .ok p' ∧
      p'.tree = p.tree ∧ p'.env = p.env ∧ deepEqual p'.tree p.tree = true := by
  obtain ⟨s', p', h1, h2, h3, h4, h5⟩ := C01_roundtrip_writable p.env p.tree
    (C03_accepted_representable henv h hg hpi) (C03_accepted_serialises henv h hg hpi)
  exact ⟨s', h1, p', h2, h3, h4, h5⟩

/-- `parse_fragment`. -/
theorem C03_accepted_roundtrip_fragment {env : Env} {s : Str} {p : Parsed} (henv : envOK env = true)
    (h : parseString .fragment env s = .ok p) (hg : NoReservedDecls p.env p.tree = true)
    (hpi : PlainPiTargets p.env p.tree = true) :
    ∃ s', toXmlString p.env p.tree [] = .ok s' ∧ ∃ p', parseString .fragment p.env s' = .ok p' ∧
      p'.tree = p.tree ∧ p'.env = p.env ∧ deepEqual p'.tree p.tree = true := by
  have hr := C03_accepted_representable_fragment henv h hg hpi
  obtain ⟨s', hs⟩ := (C01_serialises p.env p.tree hr).mpr (C03_accepted_serialises henv h hg hpi)
  exact ⟨s', hs, C01_roundtrip_fragment_identical p.env p.tree hr s' hs⟩

/-- Non-vacuity, closed: `goodText` (default namespace, prefixed names, `xml:id=" i "`, references, a
    CDATA section, a comment, a PI, `xmlns=""`) is accepted inside both guards from `Xot::new()`'s tables. -/
example : ∃ p, parseString .document Env.fresh goodText = .ok p ∧ ∃ s', toXmlString p.env p.tree [] = .ok s' ∧
    ∃ p', parseString .document p.env s' = .ok p' ∧ p'.tree = p.tree ∧ deepEqual p'.tree p.tree = true := by
  obtain ⟨p, h, hg, hpi⟩ := good_spec
  obtain ⟨s', h1, p', h2, h3, _, h5⟩ := C03_accepted_roundtrip good_accepted.2.2.1 h hg hpi
  exact ⟨p, h, s', h1, p', h2, h3, h5⟩

/-! ### PI targets with a colon: the round trip without the guard `PlainPiTargets`

`RepresentablePi env t` (= `PiColon.Representable`, Lemmas/PiColonDefs.lean) is `Representable env t` with ONE clause
widened: a PI target must be what the tokenizer's `consume_name` accepts (`nameOK`: a name-start character,
then name characters, colons allowed) instead of an NCName; `Representable` / `valueOK` themselves are unchanged.
The crate does not refuse such targets (`/repo/src/parse.rs`, `ProcessingInstruction` arm: only `xml` in any
letter case is refused; the target is interned as a name in no namespace and written back as it is).  The C01
round trip and "accepted ⇒ representable" are re-proved for the widened domain by re-running the SAME proof
texts in the namespace `XotModel.PiColon`, where `valueOK` / `nodeOK` / `Representable` name the widened
definitions (Lemmas/PiColon*.lean, generated copies of the 105 declarations that depend on `valueOK`).  The
NCName clause turned out to be used in exactly two places: `serNode_lexOK` (the written target must be read
back whole by `consume_name`: `ncNameNE_nameOK`, i.e. `nameOK` is what is needed) and `valueOK_pi_facts`
(the target is not empty, so its id is in range: `nameOK` gives that too); and `valueOK_of_acc` takes `nameOK`
from the tokenizer (`ValAcc`) where it took the NCName from the guard. -/

/-- The widened domain contains the original one. -/
theorem C03_representable_pi_of_representable (env : Env) (t : Tree) (h : Representable env t = true) :
    RepresentablePi env t = true := by
  simp only [Representable, RepresentablePi, PiColon.Representable, RepresentableFragment,
    PiColon.RepresentableFragment, Bool.and_eq_true] at h ⊢
  exact ⟨⟨⟨h.1.1.1, PiColon.allNodes_of_allNodes env t h.1.1.2⟩, h.1.2⟩, h.2⟩

/-- … and differs from it in the PI-target clause only: with `PlainPiTargets` the two coincide on accepted
    trees (`C03_accepted_representable`). -/
theorem C03_accepted_representable_pi {env : Env} {s : Str} {p : Parsed} (henv : envOK env = true)
    (h : parseString .document env s = .ok p) (hg : NoReservedDecls p.env p.tree = true) :
    RepresentablePi p.env p.tree = true :=
  PiColon.Accepted.accepted_representable henv h hg

theorem C03_accepted_representable_pi_fragment {m : Mode} {env : Env} {s : Str} {p : Parsed}
    (henv : envOK env = true) (h : parseString m env s = .ok p) (hg : NoReservedDecls p.env p.tree = true) :
    RepresentableFragmentPi p.env p.tree = true :=
  PiColon.Accepted.accepted_representable_fragment henv h hg

/-- Every name the parser resolved can be written; no guard on PI targets. -/
theorem C03_accepted_serialises_pi {m : Mode} {env : Env} {s : Str} {p : Parsed} (henv : envOK env = true)
    (h : parseString m env s = .ok p) (hg : NoReservedDecls p.env p.tree = true) :
    namesWritable p.env p.tree [] = some true :=
  PiColon.Accepted.accepted_writable henv h hg

/-- The C01 round trip on the widened domain. -/
theorem C03_roundtrip_pi (env : Env) (t : Tree) (hr : RepresentablePi env t = true)
    (hw : namesWritable env t [] = some true) :
    ∃ s p, toXmlString env t [] = .ok s ∧ parseString .document env s = .ok p ∧ p.tree = t ∧ p.env = env ∧
      deepEqual p.tree t = true :=
  PiColon.C01_roundtrip_writable env t hr hw

/-- **C03_accepted_roundtrip_pi_colon** (`parse`): whatever is accepted — PI targets with a colon included;
    the only guard left is `NoReservedDecls` (the known finding) — serialises, and the text is accepted again
    and gives the SAME tree, tables unchanged; `deep_equal`. -/
theorem C03_accepted_roundtrip_pi_colon {env : Env} {s : Str} {p : Parsed} (henv : envOK env = true)
    (h : parseString .document env s = .ok p) (hg : NoReservedDecls p.env p.tree = true) :
    ∃ s', toXmlString p.env p.tree [] = .ok s' ∧ ∃ p', parseString .document p.env s' = .ok p' ∧
      p'.tree = p.tree ∧ p'.env = p.env ∧ deepEqual p'.tree p.tree = true := by
  obtain ⟨s', p', h1, h2, h3, h4, h5⟩ := C03_roundtrip_pi p.env p.tree
    (C03_accepted_representable_pi henv h hg) (C03_accepted_serialises_pi henv h hg)
  exact ⟨s', h1, p', h2, h3, h4, h5⟩

/-- `parse_fragment`. -/
theorem C03_accepted_roundtrip_pi_colon_fragment {env : Env} {s : Str} {p : Parsed} (henv : envOK env = true)
    (h : parseString .fragment env s = .ok p) (hg : NoReservedDecls p.env p.tree = true) :
    ∃ s', toXmlString p.env p.tree [] = .ok s' ∧ ∃ p', parseString .fragment p.env s' = .ok p' ∧
      p'.tree = p.tree ∧ p'.env = p.env ∧ deepEqual p'.tree p.tree = true := by
  have hr := C03_accepted_representable_pi_fragment henv h hg
  obtain ⟨s', hs⟩ := (PiColon.C01_serialises p.env p.tree hr).mpr (C03_accepted_serialises_pi henv h hg)
  exact ⟨s', hs, PiColon.C01_roundtrip_fragment_identical p.env p.tree hr s' hs⟩

/-- Non-vacuity OUTSIDE `PlainPiTargets` / `Representable`, closed: `<?a:b x?><r><?c:d?></r>` is accepted from
    `Xot::new()`'s tables, its tree is not `Representable` (the targets `a:b`, `c:d` are no NCNames) but
    `RepresentablePi`, it serialises to the SAME text, which is accepted again and gives the same tree. -/
example : ∃ p, parseString .document Env.fresh piColonText = .ok p ∧ PlainPiTargets p.env p.tree = false ∧
    Representable p.env p.tree = false ∧ RepresentablePi p.env p.tree = true ∧
    toXmlString p.env p.tree [] = .ok piColonText ∧
    ∃ p', parseString .document p.env piColonText = .ok p' ∧ p'.tree = p.tree ∧ deepEqual p'.tree p.tree = true := by
  obtain ⟨p, h, hg, hpi, hnr, hr, hs⟩ := piColon_spec
  obtain ⟨s', h1, p', h2, h3, _, h5⟩ := C03_accepted_roundtrip_pi_colon good_accepted.2.2.1 h hg
  rw [hs] at h1
  cases h1
  exact ⟨p, h, hpi, hnr, hr, hs, p', h2, h3, h5⟩

/-- The clause at full strength: no guard. -/
def C03_accepted_roundtrip_Statement : Prop :=
  ∀ (env : Env) (s : Str) (p : Parsed), envOK env = true → parseString .document env s = .ok p →
    ∃ s', toXmlString p.env p.tree [] = .ok s' ∧ ∃ p', parseString .document p.env s' = .ok p' ∧
      deepEqual p'.tree p.tree = true

/-- It is false, and `NoReservedDecls` is what fails:
    `<a xmlns:xml="zzz"><b xmlns:xml="http://www.w3.org/XML/1998/namespace" xml:id="i"/></a>` — the prefix
    `xml` rebound (known finding C03:xml-prefix-rebound-accepted) and bound back below — is accepted,
    serialises to `<a xmlns:xml="zzz"><b xml:id="i"/></a>` (a binding of the XML namespace is never
    written), that text is accepted again, and the trees are not `deep_equal`: `xml:id` has become
    `{zzz}id` (C03:not-representable-xml-prefix-rebound). -/
theorem C03_accepted_roundtrip_false : ¬ C03_accepted_roundtrip_Statement := by
  intro hall
  obtain ⟨p, h1, _, _, h4, p', h5, h6⟩ :=
    roundTripBroken_spec xmlRebound_broken.1 xmlRebound_broken.2.1 xmlRebound_broken.2.2
  obtain ⟨s', k1, q, k2, k3⟩ := hall Env.fresh _ p good_accepted.2.2.1 h1
  rw [h4] at k1
  cases k1
  rw [h5] at k2
  cases k2
  rw [h6] at k3
  cases k3

example : ∃ p, parseString .document Env.fresh (renderTokens xmlReboundTokens) = .ok p ∧
    NoReservedDecls p.env p.tree = false ∧ ∃ s' p', toXmlString p.env p.tree [] = .ok s' ∧
      parseString .document p.env s' = .ok p' ∧ deepEqual p'.tree p.tree = false := by
  obtain ⟨p, h1, h2, _, h4, p', h5, h6⟩ :=
    roundTripBroken_spec xmlRebound_broken.1 xmlRebound_broken.2.1 xmlRebound_broken.2.2
  exact ⟨p, h1, h2, _, p', h4, h5, h6⟩

/-- The former second gap is closed: the serialisation of a tree with a PI target `xml` would not be
    accepted again (the tokenizer refuses `<?xml ` in element content, in both modes, after ANY canonical
    prefix) — and since /repo 002854f no such tree is accepted (`C03_reject_pi_target_xml`). -/
theorem C03_xml_pi_text_rejected :
    ∀ (frag : Bool) (ts : List Token) (d : Nat) (rest : Str), LexOK frag ts = true →
      ctxAfter frag (LexCtx.init frag) ts = .content d → ∀ (env : Env) (p : Parsed),
        parseString (modeOf frag) env (renderTokens ts ++ (['<', '?', 'x', 'm', 'l', ' '] ++ rest)) ≠ .ok p := by
  intro frag ts d rest hok hctx env p
  have h : lexMode (modeOf frag) (renderTokens ts ++ (['<', '?', 'x', 'm', 'l', ' '] ++ rest)) =
      (placeTokens 0 ts, some (strLen (renderTokens ts))) :=
    reject_content frag ts d _ ('?' :: 'x' :: 'm' :: 'l' :: ' ' :: rest) rfl hok hctx (failsAt_xml_pi frag d _ rest)
  exact C03_string_reject_lexerr _ env _ _ (by rw [h]) p

end XotModel.Props

/-! # ================================================================================================
    # BYTES (branch wt-bytes): `Xot::parse_bytes` on ANY byte sequence
    # ================================================================================================

  `Bytes.parseBytes m env bs = (decodeBytes bs).map (parseString m env)` (Model/Bytes.lean: xot's
  `encoding::decode` with the external detector / decoders modelled as written, tied to the real code
  by the `bytes` suite).  `decodeBytes` is a total function; it answers `none` only where the MODEL
  has no decoder (the declaration names one of 34 legacy encodings known by name only, and there is no
  byte order mark) — the real `decode` cannot fail since /repo f576658.

    C03_bytes_total          no panic outcome on any byte string
    C03_bytes_decode_total   the model decodes every byte string whose chosen encoding it models
    C03_bytes_sound          what `parse_bytes` accepts is structurally valid, one element at the top
-/

namespace XotModel.Props
open XotModel XotModel.Bytes

/-- C03_bytes_total: on ANY byte sequence the outcome of `parse_bytes` (and of the fragment variant) is
    never a panic: `decode` yields a string, `parse` never panics on a string (`C03_string_nopanic`). -/
theorem C03_bytes_total (m : Mode) (env : Env) (bs : Bytes) :
    ∀ r, Bytes.parseBytes m env bs = some r → r ≠ .panic := by
  intro r hr
  unfold Bytes.parseBytes at hr
  cases hd : decodeBytes bs with
  | none => rw [hd] at hr; cases hr
  | some s =>
    rw [hd] at hr
    simp only [Option.map_some, Option.some.injEq] at hr
    rw [← hr]
    exact C03_string_nopanic m env s

/-- C03_bytes_decode_total: the model has an answer for every byte string that carries a UTF-8 / UTF-16
    byte order mark, and for every byte string for which `encoding()` does not choose one of the
    encodings known by name only (UTF-8, UTF-16LE / BE, windows-1252 and all its labels, replacement,
    x-user-defined, no encoding found: all decoded). -/
theorem C03_bytes_decode_total (bs : Bytes)
    (h : (bomSniff bs).isSome = true ∨ ∀ n, encodingOf bs ≠ some (.other n)) :
    ∃ s, decodeBytes bs = some s := by
  have : (decodeBytes bs).isSome = true := by
    rcases h with h | h
    · exact decodeBytes_isSome_of_bom bs h
    · exact decodeBytes_isSome bs h
  exact Option.isSome_iff_exists.mp this

/-- … in particular whenever xot's reader finds no declaration. -/
theorem C03_bytes_decode_total_undeclared (bs : Bytes) (h : xmlDeclaration bs = none) :
    ∃ s, decodeBytes bs = some s := by
  apply C03_bytes_decode_total
  by_cases hb : (bomSniff bs).isSome = true
  · exact Or.inl hb
  · right
    intro n hn
    -- without a hint the candidates are the BOM information or `utf-8`, never a legacy label
    unfold encodingOf at hn
    rw [h] at hn
    rcases bs with _ | ⟨a, _ | ⟨b, _ | ⟨c, _ | ⟨d, _ | ⟨e, rest⟩⟩⟩⟩⟩
    · cases hn
    · cases hn
    · cases hn
    · cases hn
    · simp only [List.take, detectHead] at hn
      rw [show forLabel ['U', 'T', 'F', '-', '8'] = some Enc.utf8 by decide] at hn
      cases hn
    · simp only [List.take, detectHead] at hn
      have hl : ∀ x, bomLabel x = none ∨ bomLabel x = some ['u', 'c', 's', '-', '4', 'l', 'e'] ∨
          bomLabel x = some ['u', 'c', 's', '-', '4', 'b', 'e'] ∨ bomLabel x = some ['u', 't', 'f', '-', '1', '6', 'l', 'e'] ∨
          bomLabel x = some ['u', 't', 'f', '-', '1', '6', 'b', 'e'] ∨ bomLabel x = some ['u', 't', 'f', '-', '8'] ∨
          bomLabel x = some ['e', 'b', 'c', 'd', 'i', 'c'] := by
        intro x
        unfold bomLabel
        split <;> simp
      rcases hl (detectByteOrderMark a b c d) with hx | hx | hx | hx | hx | hx | hx <;> rw [hx] at hn
      · simp only [List.isEmpty_nil, Bool.true_and] at hn
        by_cases he : e < 0x80
        · simp only [he, decide_true, if_true] at hn
          rw [show forLabel ['u', 't', 'f', '-', '8'] = some Enc.utf8 by decide] at hn
          cases hn
        · simp only [he, decide_false, Bool.false_eq_true, if_false] at hn
          rw [show forLabel ['U', 'T', 'F', '-', '8'] = some Enc.utf8 by decide] at hn
          cases hn
      all_goals
        simp only [pushIfNotContains_nil, List.isEmpty_cons, Bool.false_and, Bool.false_eq_true, if_false] at hn
        first
          | (rw [show forLabel ['u', 'c', 's', '-', '4', 'l', 'e'] = none by decide] at hn; cases hn)
          | (rw [show forLabel ['u', 'c', 's', '-', '4', 'b', 'e'] = none by decide] at hn; cases hn)
          | (rw [show forLabel ['u', 't', 'f', '-', '1', '6', 'l', 'e'] = some Enc.utf16le by decide] at hn; cases hn)
          | (rw [show forLabel ['u', 't', 'f', '-', '1', '6', 'b', 'e'] = some Enc.utf16be by decide] at hn; cases hn)
          | (rw [show forLabel ['u', 't', 'f', '-', '8'] = some Enc.utf8 by decide] at hn; cases hn)
          | (rw [show forLabel ['e', 'b', 'c', 'd', 'i', 'c'] = none by decide] at hn; cases hn)

/-- C03_bytes_sound: whatever `parse_bytes` accepts, from ANY byte sequence, is structurally valid, has
    no adjacent text nodes and exactly one element and no text at the top level. -/
theorem C03_bytes_sound {env : Env} {bs : Bytes} {p : Parsed}
    (h : Bytes.parseBytes .document env bs = some (.ok p)) :
    StructValid p.tree ∧ NoAdjacentText p.tree ∧ WellFormedTop p.tree := by
  unfold Bytes.parseBytes at h
  cases hd : decodeBytes bs with
  | none => rw [hd] at h; cases h
  | some s =>
    rw [hd] at h
    simp only [Option.map_some, Option.some.injEq] at h
    exact ⟨(C03_string_sound h).1, (C03_string_sound h).2, C03_string_sound_document h⟩

/-- Non-vacuity, by evaluation of the model: arbitrary bytes, fewer than four bytes, a lone UTF-16
    surrogate behind a byte order mark, an unknown label — all decode (U+FFFD for what is ill-formed). -/
example : decodeBytes [0xFF] = some ['\uFFFD'] := by decide
example : decodeBytes [] = some [] := by decide
example : decodeBytes [0x3C, 0xC3] = some ['<', '\uFFFD'] := by decide
example : decodeBytes [0xFF, 0xFE, 0x00, 0xD8, 0x41] = some ['\uFFFD'] := by decide
example : decodeBytes [0x00, 0x00, 0xFE, 0xFF, 0x41] = some ['\x00', '\x00', '\uFFFD', '\uFFFD', 'A'] := by decide
/-- the only `none` of the model: a legacy encoding named in the declaration (`<?xml encoding='koi8-r'?>`) -/
example : decodeBytes (asciiBytes ['<', '?', 'x', 'm', 'l', ' ', 'e', 'n', 'c', 'o', 'd', 'i', 'n', 'g', '=', '\'', 'k', 'o', 'i', '8',
    '-', 'r', '\'', '?', '>']) = none ∧
    encodingName (asciiBytes ['<', '?', 'x', 'm', 'l', ' ', 'e', 'n', 'c', 'o', 'd', 'i', 'n', 'g', '=', '\'', 'k', 'o', 'i', '8',
    '-', 'r', '\'', '?', '>']) = some ['K', 'O', 'I', '8', '-', 'R'] := by decide

end XotModel.Props

/-! # ================================================================================================
    # VALIDATE (branch wt-misc): `Xot::validate_well_formed_document` (access.rs)
    # ================================================================================================

  `validateWellFormedDocument : Tree → Except XotError Unit` (Model/ValidDoc.lean) is the call as
  written (NotDocument first, then the loop over `children(node)` in which the FIRST illegal child
  decides, the element count only afterwards); tied to the crate by the `validdoc` suite (every node
  of generated documents, fragments, unattached nodes; all top-level child sequences up to length 5).

    C03_validate_iff        `.ok ()` iff the decidable `wellFormedDocument`
    C03_validate_errors     each error answer characterised (first offender decides)
    C03_string_validates    what `parse` accepts, from ANY string, passes the call
    C03_tokens_validate     the same from any token list
    C03_fragment_need_not_validate   closed witness: `parse_fragment("x")` is accepted and does not
-/

namespace XotModel.Props
open XotModel

/-- `validate_well_formed_document(node)` answers `Ok(())` iff the node is a document node whose
    normal children are exactly one element plus comments / processing instructions, in any order
    (`wellFormedDocument`, a `Bool`). -/
theorem C03_validate_iff (t : Tree) :
    validateWellFormedDocument t = .ok () ↔ wellFormedDocument t = true :=
  validate_iff t

/-- The specification spelled out. -/
theorem C03_wellFormedDocument_iff (t : Tree) :
    wellFormedDocument t = true ↔
      t.value.isDocument = true ∧
      (∀ k ∈ t.normalKids, k.value.isElement = true ∨ k.value.isCommentOrPi = true) ∧
      (t.normalKids.filter (fun k => k.value.isElement)).length = 1 := by
  simp [wellFormedDocument, and_assoc]

/-- Every error answer: `NotDocument` for a non-document node; otherwise the FIRST child (among
    `children(node)`) that is not an element / comment / PI decides — `TextAtTopLevel` for a text
    node, `IllegalAtTopLevel` for a document / attribute / namespace node; only when there is none, the
    element count: `NoElementAtTopLevel` for 0, `MultipleElementsAtTopLevel` for more than 1. -/
theorem C03_validate_errors (t : Tree) (e : XotError) :
    validateWellFormedDocument t = .error e ↔
      (t.value.isDocument = false ∧ e = .notDocument) ∨
      (t.value.isDocument = true ∧ ∃ pre k post, t.normalKids = pre ++ k :: post ∧ pre.all topOk = true ∧
          topOk k = false ∧ e = topOffence k) ∨
      (t.value.isDocument = true ∧ t.normalKids.all topOk = true ∧ countElements t.normalKids = 0 ∧
          e = .noElementAtTopLevel) ∨
      (t.value.isDocument = true ∧ t.normalKids.all topOk = true ∧ countElements t.normalKids > 1 ∧
          e = .multipleElementsAtTopLevel) :=
  validate_error_iff t e

/-- Whatever `parse` accepts from ANY token list passes `validate_well_formed_document`. -/
theorem C03_tokens_validate {len : Nat} {env : Env} {ts : List Token} {lexErr : Option Nat} {p : Parsed}
    (h : build .document len env ts lexErr = .ok p) : validateWellFormedDocument p.tree = .ok () :=
  validate_of_sound (C03_sound h).1 (C03_sound_document h)

/-- Whatever `parse` accepts from ANY string passes `validate_well_formed_document`. -/
theorem C03_string_validates {env : Env} {s : Str} {p : Parsed}
    (h : parseString .document env s = .ok p) : validateWellFormedDocument p.tree = .ok () :=
  validate_of_sound (C03_string_sound h).1 (C03_string_sound_document h)

/-- Non-vacuity / closed instance: `<a>x</a>` is accepted and its tree validates. -/
example : ∃ p, parseString .document Env.fresh ['<', 'a', '>', 'x', '<', '/', 'a', '>'] = .ok p ∧
    validateWellFormedDocument p.tree = .ok () := by
  have h := lexDocument_render lexWitness3 (by decide)
  rw [show renderTokens lexWitness3 = ['<', 'a', '>', 'x', '<', '/', 'a', '>'] from by decide] at h
  cases hp : parseString .document Env.fresh ['<', 'a', '>', 'x', '<', '/', 'a', '>'] with
  | ok p => exact ⟨p, rfl, C03_string_validates hp⟩
  | err e env' =>
    exfalso
    have : (parseString .document Env.fresh ['<', 'a', '>', 'x', '<', '/', 'a', '>']).isOk = true := by
      simp only [parseString, lexMode]
      rw [h, build_eq_buildE]; decide +kernel
    rw [hp] at this; cases this
  | panic => exact absurd hp (C03_string_nopanic _ _ _)

/-- The tokens of the fragment text `x`. -/
def fragmentTextTokens : List Token := [.text ⟨['x'], 0⟩]

/-- Closed check behind the witness below: the builder accepts the text `x` in fragment mode and the
    resulting document node is refused by the call with `TextAtTopLevel`. -/
def fragmentTextCheck : Bool :=
  match buildE .fragment 1 Env.fresh (placeTokens 0 fragmentTextTokens) none with
  | .ok p => decide (validateWellFormedDocument p.tree = .error .textAtTopLevel)
  | _ => false

/-- `parse_fragment` output need NOT pass the call: the fragment text `x` is accepted, and its document
    node (one text child, no element) is answered `TextAtTopLevel`. -/
theorem C03_fragment_need_not_validate :
    ∃ p, parseString .fragment Env.fresh ['x'] = .ok p ∧
      validateWellFormedDocument p.tree = .error .textAtTopLevel := by
  have h := lexFragment_render fragmentTextTokens (by decide)
  rw [show renderTokens fragmentTextTokens = ['x'] from by decide] at h
  have hc : fragmentTextCheck = true := by decide +kernel
  unfold fragmentTextCheck at hc
  simp only [parseString, lexMode]
  rw [h, build_eq_buildE]
  show ∃ p, buildE .fragment 1 Env.fresh _ none = .ok p ∧ _
  cases hb : buildE .fragment 1 Env.fresh (placeTokens 0 fragmentTextTokens) none with
  | ok p => rw [hb] at hc; exact ⟨p, rfl, by simpa using hc⟩
  | err e env' => rw [hb] at hc; cases hc
  | panic => rw [hb] at hc; cases hc

/-- The other two non-`NotDocument` refusals are reachable for fragments as well (closed trees): no
    element at all; two elements. -/
example : validateWellFormedDocument (.node .document [.node (.comment ['c']) []]) = .error .noElementAtTopLevel := by
  decide
example : validateWellFormedDocument (.node .document [.node (.element 2) [], .node (.element 3) []]) =
    .error .multipleElementsAtTopLevel := by decide
/-- A text child decides even when there are two elements before it; an element is `NotDocument`. -/
example : validateWellFormedDocument (.node .document [.node (.element 2) [], .node (.element 3) [],
    .node (.text ['x']) []]) = .error .textAtTopLevel := by decide
example : validateWellFormedDocument (.node (.element 2) []) = .error .notDocument := by decide

/-! # ================================================================================================
    Completeness: the builder accepts EXACTLY the well-formed spellings
    ================================================================================================

`WellNsDoc` (Lemmas/ParseNsDefs.lean) is "what the builder accepts", written as a predicate on
spellings (`NSNode`: prefixes, start-tag items as piece lists, CDATA interleaving, every span).
`Props/C02.lean` proves SOUNDNESS (the tokens of a well-formed spelling are accepted and give the
denoted document).  Here is the converse, by induction over the builder's loop (Lemmas/ParseNsComplete*.lean:
every accepted token list is reconstructed as a spelling, clause by clause of `WellNsDoc`), so the
`C03_reject_*` list above is COMPLETE: a token list is accepted if and only if it is the token list
of a well-formed spelling.

`WellSpelledTokens mode ts` (Lemmas/ParseNsCompleteTop.lean) :=
  every XML-declaration token in `ts` says version 1.0, and `ts` WITHOUT its declaration tokens is
  EXACTLY `tokensList sns` (every span, every byte position) for some `sns` with `WellNsDoc sns` —
  in document mode with exactly one element and no text at top level (`AbstractTopNs`).

The exact gap between `WellNsDoc` and the code, both sides spelled out:
  * XML declaration: `WellNsDoc` spellings have none; the builder lets a version-1.0 declaration
    token pass WHEREVER it stands (`C03_declaration_skipped`; from a string there is at most one, in
    front) and refuses any other version (`C03_reject_version`).  Hence `declsV10` / `dropDecls`
    in `WellSpelledTokens`.
  * EMPTY text token: the builder makes an empty text node of it (`C03_empty_text_token_corner`);
    no spelling has one (`SPart.Well`: a text part has at least one piece) and no tokenizer output
    has one (`C03_lex_no_empty_text`).  It is excluded by the guard `Token.nonEmptyText`, which the
    right-hand side implies (`C03_well_spelled_no_empty_text`) — so the guard only weakens the
    direction accepted ⇒ spelled.
  Nothing else: the prefix `xml` re-bound, PI targets with a colon, `p:xmlns` as an attribute, …
  are INSIDE `WellNsDoc` (it mirrors the code), see its doc comment. -/

/-- C03_accepts_iff_well_spelled: under the token-shape contract (`C03_lex_shape`) and without empty
    text tokens, in both modes, from any base tables: the builder accepts a token list if and only
    if it is — up to version-1.0 XML declarations — exactly the token list of a well-formed
    spelling.  `→` is new (reconstruction), `←` is C02_spelled_ns. -/
theorem C03_accepts_iff_well_spelled {env : Env} (h : EnvBaseNs env) (mode : Mode) (len : Nat) (ts : List Token)
    (hs : TokenShape len ts none) (hne : ∀ t ∈ ts, t.nonEmptyText = true) :
    (∃ p, build mode len env ts none = .ok p) ↔ WellSpelledTokens mode ts :=
  build_accepts_iff h mode len ts hs.tags hne

/-- … and the accepted parse IS the document the reconstructed spelling denotes (the tree read back
    through the tables the parse leaves). -/
theorem C03_accepted_is_denoted {env : Env} (h : EnvBaseNs env) (mode : Mode) (len : Nat) (ts : List Token)
    (hs : TokenShape len ts none) (hne : ∀ t ∈ ts, t.nonEmptyText = true) {p : Parsed}
    (hb : build mode len env ts none = .ok p) :
    ∃ sns, WellNsDoc sns ∧ (mode = .document → AbstractTopNs (NSNode.denote.denoteList baseScope sns)) ∧
      NSNode.tokens.tokensList sns = dropDecls ts ∧ p.tree.value = .document ∧
      decodeNs p.env p.tree.kids = some (NSNode.denote.denoteList baseScope sns) :=
  (build_complete h mode len ts hs.tags hne hb).2

/-- The other direction with its result: a well-spelled list is accepted as the denoted document
    (no hypothesis on the list: soundness needs neither the shape contract nor the guard). -/
theorem C03_well_spelled_accepted {env : Env} (h : EnvBaseNs env) (mode : Mode) (len : Nat) (ts : List Token)
    (hd : declsV10 ts) (sns : List NSNode) (hw : WellNsDoc sns)
    (htop : mode = .document → AbstractTopNs (NSNode.denote.denoteList baseScope sns))
    (htok : NSNode.tokens.tokensList sns = dropDecls ts) :
    ∃ p, build mode len env ts none = .ok p ∧ p.tree.value = .document ∧
      decodeNs p.env p.tree.kids = some (NSNode.denote.denoteList baseScope sns) :=
  build_of_spelling h mode len ts hd sns hw htop htok

/-- The same characterisation up to byte positions and whole-token spans (`Token.erase`,
    `C02_positions_irrelevant`): accepted ⇔ the list passes `check_qname` (every empty prefix at
    offset 0, the one position xot reads) and its erased tokens are those of a well-formed spelling. -/
theorem C03_accepts_iff_well_spelled_erased {env : Env} (h : EnvBaseNs env) (mode : Mode) (len : Nat)
    (ts : List Token) (hs : TokenShape len ts none) (hne : ∀ t ∈ ts, t.nonEmptyText = true) :
    (∃ p, build mode len env ts none = .ok p) ↔ SpelledUpToPositions mode ts :=
  build_accepts_iff_erased h mode len ts hs.tags hne

/-- The guard is implied by the right-hand side: a well-spelled list has no empty text token.  So
    without the guard: `(accepted ∧ no empty text token) ↔ well spelled`. -/
theorem C03_well_spelled_no_empty_text {mode : Mode} {ts : List Token} (h : WellSpelledTokens mode ts) :
    ∀ t ∈ ts, t.nonEmptyText = true :=
  h.nonEmptyText

theorem C03_accepts_iff_well_spelled_unguarded {env : Env} (h : EnvBaseNs env) (mode : Mode) (len : Nat)
    (ts : List Token) (hs : TokenShape len ts none) :
    ((∃ p, build mode len env ts none = .ok p) ∧ ∀ t ∈ ts, t.nonEmptyText = true) ↔ WellSpelledTokens mode ts :=
  ⟨fun ⟨ha, hne⟩ => (C03_accepts_iff_well_spelled h mode len ts hs hne).mp ha,
   fun hw => ⟨(C03_accepts_iff_well_spelled h mode len ts hs hw.nonEmptyText).mpr hw, hw.nonEmptyText⟩⟩

/-- The corner the guard excludes, closed: the one-token list `[Text ""]` is accepted by
    `parse_fragment`'s builder (an empty text node) and is the token list of no well-formed
    spelling.  No tokenizer output contains such a token (`C03_lex_no_empty_text`). -/
theorem C03_empty_text_token_corner :
    (build .fragment 0 Env.fresh emptyTextTokens none).isOk = true ∧ ¬ WellSpelledTokens .fragment emptyTextTokens := by
  refine ⟨by rw [build_eq_buildE]; decide +kernel, fun hw => ?_⟩
  have := hw.nonEmptyText (.text ⟨[], 0⟩) (by simp [emptyTextTokens])
  simp [Token.nonEmptyText] at this

/-- The declaration corner: a version-1.0 XML declaration token is skipped in every builder state
    (so also where no tokenizer puts one). -/
theorem C03_declaration_skipped (b : Builder) (v : StrSpan) (e : Option StrSpan) (s : Option Bool) (sp : StrSpan)
    (hv : v.text = ['1', '.', '0']) : b.step (.declaration v e s sp) = .ok b :=
  step_declaration b e s sp hv

/-- C03_rejects_everything_else: a token list (shape contract, no empty text token) that is NOT
    well spelled is refused with an error — never a panic (`C03_nopanic`), never a tree.  The list of
    `C03_reject_*` theorems is complete. -/
theorem C03_rejects_everything_else {env : Env} (h : EnvBaseNs env) (mode : Mode) (len : Nat) (ts : List Token)
    (hs : TokenShape len ts none) (hne : ∀ t ∈ ts, t.nonEmptyText = true) (hnot : ¬ WellSpelledTokens mode ts) :
    ∃ e env', build mode len env ts none = .err e env' := by
  cases hb : build mode len env ts none with
  | ok p => exact absurd ((C03_accepts_iff_well_spelled h mode len ts hs hne).mp ⟨p, hb⟩) hnot
  | err e env' => exact ⟨e, env', rfl⟩
  | panic => exact absurd hb (C03_nopanic mode len env ts none hs)

/-! ### … on strings -/

/-- Every text token of the reference tokenizer is non-empty: the guard holds of every tokenizer
    output, in both modes. -/
theorem C03_lex_no_empty_text (m : Mode) (s : Str) : ∀ t ∈ (lexMode m s).1, t.nonEmptyText = true :=
  fun t ht => nonEmptyText_of_accLex (C03_lex_classes m s t ht)

/-- C03_string_accepts_iff: `parse` / `parse_fragment` accept a STRING if and only if the tokenizer
    comes to its end without error and its tokens are (up to a version-1.0 XML declaration) exactly
    the tokens of a well-formed spelling.  No hypothesis on the string. -/
theorem C03_string_accepts_iff {env : Env} (h : EnvBaseNs env) (m : Mode) (s : Str) :
    (∃ p, parseString m env s = .ok p) ↔ (lexMode m s).2 = none ∧ WellSpelledTokens m (lexMode m s).1 := by
  have hshape := C03_lex_shape m s
  have hne := C03_lex_no_empty_text m s
  unfold parseString
  cases hle : (lexMode m s).2 with
  | none =>
    rw [hle] at hshape
    rw [C03_accepts_iff_well_spelled h m (strLen s) _ hshape hne]
    simp
  | some pos =>
    constructor
    · rintro ⟨p, hp⟩; exact absurd hp (C03_reject_lexerr m _ env _ pos p)
    · rintro ⟨hn, _⟩; cases hn

/-- … and what is accepted is the document the spelling denotes. -/
theorem C03_string_accepted_is_denoted {env : Env} (h : EnvBaseNs env) (m : Mode) (s : Str) {p : Parsed}
    (hp : parseString m env s = .ok p) :
    ∃ sns, WellNsDoc sns ∧ (m = .document → AbstractTopNs (NSNode.denote.denoteList baseScope sns)) ∧
      NSNode.tokens.tokensList sns = dropDecls (lexMode m s).1 ∧ p.tree.value = .document ∧
      decodeNs p.env p.tree.kids = some (NSNode.denote.denoteList baseScope sns) := by
  have hshape := C03_lex_shape m s
  unfold parseString at hp
  cases hle : (lexMode m s).2 with
  | none =>
    rw [hle] at hshape hp
    exact C03_accepted_is_denoted h m _ _ hshape (C03_lex_no_empty_text m s) hp
  | some pos => rw [hle] at hp; exact absurd hp (C03_reject_lexerr m _ env _ pos p)

/-- Every other string is refused with an error: tokenizer error, or a token list that is no
    well-formed spelling. -/
theorem C03_string_rejects_everything_else {env : Env} (h : EnvBaseNs env) (m : Mode) (s : Str)
    (hnot : ¬ ((lexMode m s).2 = none ∧ WellSpelledTokens m (lexMode m s).1)) :
    ∃ e env', parseString m env s = .err e env' := by
  cases hb : parseString m env s with
  | ok p => exact absurd ((C03_string_accepts_iff h m s).mp ⟨p, hb⟩) hnot
  | err e env' => exact ⟨e, env', rfl⟩
  | panic => exact absurd hb (C03_string_nopanic m env s)

/-! ### Non-vacuity -/

section CompletenessExamples
open XotModel.Witness

/-- An accepted list with its reconstructed spelling: `goodDoc`, the tokens of
    `<p:a xmlns:p='u' b='x&#10;y'><!--c-->t&lt;<![CDATA[c]]></p:a>`, IS the token list of
    `goodDocSpelling` (Lemmas/ParseNsCompleteLex.lean), which is well formed; so it is accepted. -/
example : NSNode.tokens.tokensList goodDocSpelling = goodDoc := by decide +kernel
example : WellNsDoc goodDocSpelling := wellNsDocB_sound _ (by decide +kernel)
example : NSNode.denote.denoteList baseScope goodDocSpelling =
    [.elem ['u'] ['a'] [(['p'], ['u'])] [(([], ['b']), ['x', '\n', 'y'])] [.comment ['c'], .text ['t', '<', 'c']]] := by
  rfl
theorem C03_goodDoc_well_spelled : WellSpelledTokens .document goodDoc :=
  ⟨declsV10_of_noDecl (by decide +kernel), goodDocSpelling, wellNsDocB_sound _ (by decide +kernel),
    fun _ => ⟨by decide +kernel, fun d hd => by
      simp only [goodDocSpelling, NSNode.denote.denoteList, NSNode.denote, List.append_nil, List.mem_singleton] at hd
      subst hd; rfl⟩,
    by decide +kernel⟩
example : ∃ p, build .document goodDocLen Env.fresh goodDoc none = .ok p :=
  (C03_accepts_iff_well_spelled envBaseNs_fresh .document goodDocLen goodDoc (tokenShape_of_B (by decide +kernel))
    (by decide +kernel)).mpr C03_goodDoc_well_spelled

/-- A rejected list: `<a></b>` (`mismatch`) is the token list of no well-formed spelling. -/
example : ¬ WellSpelledTokens .document mismatch := fun hw => by
  obtain ⟨p, hp⟩ := (C03_accepts_iff_well_spelled envBaseNs_fresh .document mismatchLen mismatch
    (tokenShape_of_B (by decide +kernel)) (by decide +kernel)).mpr hw
  have he : (build .document mismatchLen Env.fresh mismatch none).err? =
      some (.invalidCloseTag [] ['b'] ⟨5, 6⟩) := by rw [build_eq_buildE]; decide +kernel
  rw [hp] at he; cases he
example : ∃ e env', build .document mismatchLen Env.fresh mismatch none = .err e env' :=
  C03_rejects_everything_else envBaseNs_fresh .document mismatchLen mismatch (tokenShape_of_B (by decide +kernel))
    (by decide +kernel) (fun hw => by
      obtain ⟨p, hp⟩ := (C03_accepts_iff_well_spelled envBaseNs_fresh .document mismatchLen mismatch
        (tokenShape_of_B (by decide +kernel)) (by decide +kernel)).mpr hw
      have he : (build .document mismatchLen Env.fresh mismatch none).err? =
          some (.invalidCloseTag [] ['b'] ⟨5, 6⟩) := by rw [build_eq_buildE]; decide +kernel
      rw [hp] at he; cases he)

/-- The declaration corner, closed: `<?xml version="1.0"?><a/>` as the tokenizer reports it is well
    spelled (the declaration dropped, the rest is `declFirstSpelling`). -/
example : WellSpelledTokens .document declFirstTokens :=
  ⟨fun v e s sp hm => by
      simp only [declFirstTokens, List.mem_cons, Token.declaration.injEq, reduceCtorEq, List.not_mem_nil, or_false] at hm
      rw [hm.1],
    declFirstSpelling, wellNsDocB_sound _ (by decide +kernel),
    fun _ => ⟨by decide +kernel, fun d hd => by
      simp only [declFirstSpelling, NSNode.denote.denoteList, NSNode.denote, List.append_nil, List.mem_singleton] at hd
      subst hd; rfl⟩,
    by decide +kernel⟩

/-- On strings: `<a>x</a>` is accepted (tokenizer and builder), so the tokenizer came to its end and
    its tokens are a well-formed spelling. -/
example : (lexMode .document ['<', 'a', '>', 'x', '<', '/', 'a', '>']).2 = none ∧
    WellSpelledTokens .document (lexMode .document ['<', 'a', '>', 'x', '<', '/', 'a', '>']).1 := by
  apply (C03_string_accepts_iff envBaseNs_fresh .document _).mp
  have hok : (parseString .document Env.fresh ['<', 'a', '>', 'x', '<', '/', 'a', '>']).isOk = true := by
    have h := lexDocument_render lexWitness3 (by decide)
    rw [show renderTokens lexWitness3 = ['<', 'a', '>', 'x', '<', '/', 'a', '>'] from by decide] at h
    simp only [parseString, lexMode]
    rw [h, build_eq_buildE]; decide +kernel
  cases hb : parseString .document Env.fresh ['<', 'a', '>', 'x', '<', '/', 'a', '>'] with
  | ok p => exact ⟨p, rfl⟩
  | err e env' => rw [hb] at hok; cases hok
  | panic => rw [hb] at hok; cases hok

/-- … and `<a></b>` (which the tokenizer reads without error) is refused, so its tokens are no
    well-formed spelling. -/
example : ¬ WellSpelledTokens .document (lexMode .document ['<', 'a', '>', '<', '/', 'b', '>']).1 := by
  intro hw
  have h := lexDocument_render [.elementStart ⟨[], 0⟩ ⟨['a'], 0⟩ ⟨[], 0⟩, .elementEnd .open ⟨[], 0⟩,
    .elementEnd (.close ⟨[], 0⟩ ⟨['b'], 0⟩) ⟨[], 0⟩] (by decide)
  rw [show renderTokens [.elementStart ⟨[], 0⟩ ⟨['a'], 0⟩ ⟨[], 0⟩, .elementEnd .open ⟨[], 0⟩,
    .elementEnd (.close ⟨[], 0⟩ ⟨['b'], 0⟩) ⟨[], 0⟩] = ['<', 'a', '>', '<', '/', 'b', '>'] from by decide] at h
  have hle : (lexMode .document ['<', 'a', '>', '<', '/', 'b', '>']).2 = none := by
    simp only [lexMode]; rw [h]
  obtain ⟨p, hp⟩ := (C03_string_accepts_iff envBaseNs_fresh .document _).mpr ⟨hle, hw⟩
  have herr : (parseString .document Env.fresh ['<', 'a', '>', '<', '/', 'b', '>']).isOk = false := by
    simp only [parseString, lexMode]
    rw [h, build_eq_buildE]; decide +kernel
  rw [hp] at herr; cases herr

end CompletenessExamples

end XotModel.Props
