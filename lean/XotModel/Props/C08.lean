/-
  C08 — Name, namespace and prefix ids are a stable one-to-one interning.  Property theorems only.

  A *history* is a list of values handed to `get_id_mut` one after the other
  (`IdMap.registerAll bits m vs` = the table reached and the ids returned); for the name table a
  value is the pair `(local name, namespace id)`.  `add_name`, `add_name_ns`, `add_namespace`,
  `add_prefix` and the registrations `parse` / `html5()` make are such calls on one of the three
  tables of the `Xot` (`Interner`).  All statements are generic in the id width `bits`; the
  widths of the real tables are `Gen.nameIdBits`, `Gen.namespaceIdBits`, `Gen.prefixIdBits`
  (read off `struct NameId(u16)` / `index as u16` on every run).

    C08_inv_reachable   every Xot reachable from `Xot::new()` keeps the table invariant
    C08_table           the table holds exactly the distinct values registered, once each
    C08_bounded         at most 2^bits distinct values: equal ids ⇔ equal values; id ↦ value and
                        value ↦ id lookups are inverse and find exactly the registered values
    C08_stable          an id/value pair never changes when more entries are added (no bound)
    C08_names           the same, spelled for two `add_name_ns` calls on a reachable Xot
    C08_builtins        built-in ids are distinct and resolve to their standard strings
    C08_clone           a clone answers every lookup like its source
    C08_bulk_is_history the driver's shortcut for the long history is the model's history
    C08_wraps, C08_full_false, C08_wraps_names/_prefixes/_namespaces
                        THE DEFECT: the (2^bits+1)-th distinct value gets the id of the first; the
                        unbounded claim (`C08_fullStatement`) is false at every width
-/
import XotModel.Lemmas.IdMap

namespace XotModel.Props
open XotModel XotModel.Gen XotModel.IdMap

/-- The claim of C08 at full strength, for one table: along *every* history from the empty
    table, two registrations return the same id exactly when they registered the same value.
    FALSE for the code as it is — `C08_full_false`; what holds is `C08_bounded`. -/
def C08_fullStatement (bits : Nat) (α : Type) [DecidableEq α] : Prop :=
  ∀ (vs : List α) (i j : Nat), i < vs.length → j < vs.length →
    ((registerAll bits (empty : IdMap α) vs).2[i]? = (registerAll bits (empty : IdMap α) vs).2[j]?
      ↔ vs[i]? = vs[j]?)

/-- Every `Xot` reachable from `Xot::new()` by registrations (explicit or made by `parse` /
    `html5()`) and `clone` satisfies the invariant: `by_id` is duplicate-free and `by_value` is the
    graph of `v ↦ to_id(index of v)`. -/
theorem C08_inv_reachable (x : Interner) (h : Interner.Reachable x) : Interner.Inv x := h.inv

/-- After any history the table contains exactly the values registered (on top of what was
    there), each once: `by_id.length` *is* the number of distinct values registered, and one id
    was returned per call. -/
theorem C08_table {α : Type} [DecidableEq α] (bits : Nat) (m : IdMap α) (hinv : Inv bits m)
    (vs : List α) :
    Inv bits (registerAll bits m vs).1 ∧
    (registerAll bits m vs).1.byId.Nodup ∧
    (∀ v, v ∈ (registerAll bits m vs).1.byId ↔ v ∈ m.byId ∨ v ∈ vs) ∧
    (registerAll bits m vs).2.length = vs.length :=
  ⟨registerAll_inv hinv vs, (registerAll_inv hinv vs).nodup, registerAll_mem hinv vs,
   registerAll_length bits m vs⟩

/-- C08 below capacity.  For every history `vs` from a table satisfying the invariant (the empty
    table, `Xot::new()`, anything reachable) such that the table reached holds at most `2^bits`
    distinct values:
    (1) two registrations return the same id iff they registered the same value;
    (2) the id returned for a value resolves to that value (`get_value`) and the read-only lookup
        (`get_id`) returns that id;
    (3) the read-only lookup finds exactly the values registered;
    (4) `get_value` and `get_id` are inverse to each other on the whole table (so no id has two
        meanings and no value two ids). -/
theorem C08_bounded {α : Type} [DecidableEq α] (bits : Nat) (m : IdMap α) (hinv : Inv bits m)
    (vs : List α) (hb : (registerAll bits m vs).1.byId.length ≤ 2 ^ bits) :
    (∀ i j, i < vs.length → j < vs.length →
      ((registerAll bits m vs).2[i]? = (registerAll bits m vs).2[j]? ↔ vs[i]? = vs[j]?)) ∧
    (∀ i, i < vs.length → ∃ id v, (registerAll bits m vs).2[i]? = some id ∧ vs[i]? = some v ∧
      getValue (registerAll bits m vs).1 id = some v ∧ getId (registerAll bits m vs).1 v = some id) ∧
    (∀ v, (getId (registerAll bits m vs).1 v).isSome ↔ v ∈ m.byId ∨ v ∈ vs) ∧
    (∀ v id, getValue (registerAll bits m vs).1 id = some v ↔
      getId (registerAll bits m vs).1 v = some id) := by
  have hfin := registerAll_inv hinv vs
  have hids := registerAll_ids_bounded hinv vs hb
  refine ⟨?_, ?_, ?_, ?_⟩
  · intro i j hi hj
    rw [hids]
    simp only [List.getElem?_map, List.getElem?_eq_getElem hi, List.getElem?_eq_getElem hj,
      Option.map_some, Option.some.injEq]
    constructor
    · intro h
      have hm : vs[i] ∈ (registerAll bits m vs).1.byId :=
        (registerAll_mem hinv vs _).2 (Or.inr (List.getElem_mem hi))
      exact idxOf_inj hm h
    · intro h; rw [h]
  · intro i hi
    refine ⟨(registerAll bits m vs).1.byId.idxOf vs[i], vs[i], ?_, List.getElem?_eq_getElem hi, ?_, ?_⟩
    · rw [hids]; simp [List.getElem?_eq_getElem hi]
    · exact (registerAll_lookup_bounded hinv vs hb (List.getElem_mem hi)).2
    · exact (registerAll_lookup_bounded hinv vs hb (List.getElem_mem hi)).1
  · intro v
    rw [getId_isSome_iff hfin, registerAll_mem hinv vs]
  · intro v id
    exact getValue_eq_some_iff hfin hb v id

/-- An id never changes meaning as more entries are added — no bound, no invariant needed:
    whatever `get_value` / `get_id` answered before a registration, or before a whole further
    history, they answer afterwards. -/
theorem C08_stable {α : Type} [DecidableEq α] (bits : Nat) (m : IdMap α) (id : Nat) (v : α) :
    (∀ w, getValue m id = some v → getValue (getIdMut bits m w).1 id = some v) ∧
    (∀ w, getId m v = some id → getId (getIdMut bits m w).1 v = some id) ∧
    (∀ ws, getValue m id = some v → getValue (registerAll bits m ws).1 id = some v) ∧
    (∀ ws, getId m v = some id → getId (registerAll bits m ws).1 v = some id) :=
  ⟨fun w h => getValue_getIdMut_mono w h, fun w h => getId_getIdMut_mono w h,
   fun ws h => registerAll_getValue_mono ws h, fun ws h => registerAll_getId_mono ws h⟩

/-- The API reading of `C08_bounded` for names: on a reachable `Xot` whose name table stays within
    capacity, two `add_name_ns` calls return the same `NameId` iff local name *and* namespace id
    agree; `name_ns`, `local_name_str` and `namespace_for_name` give back what was registered —
    also after the second registration. -/
theorem C08_names (x : Interner) (hx : Interner.Reachable x) (l₁ l₂ : Str) (n₁ n₂ : Nat)
    (hb : ((x.addNameNs l₁ n₁).1.addNameNs l₂ n₂).1.nameLookup.byId.length ≤ 2 ^ nameIdBits) :
    ((x.addNameNs l₁ n₁).2 = ((x.addNameNs l₁ n₁).1.addNameNs l₂ n₂).2 ↔ (l₁ = l₂ ∧ n₁ = n₂)) ∧
    ((x.addNameNs l₁ n₁).1.addNameNs l₂ n₂).1.nameNs l₁ n₁ = some (x.addNameNs l₁ n₁).2 ∧
    ((x.addNameNs l₁ n₁).1.addNameNs l₂ n₂).1.localNameStr (x.addNameNs l₁ n₁).2 = some l₁ ∧
    ((x.addNameNs l₁ n₁).1.addNameNs l₂ n₂).1.namespaceForName (x.addNameNs l₁ n₁).2 = some n₁ := by
  have h := C08_bounded nameIdBits x.nameLookup hx.inv.nm [(l₁, n₁), (l₂, n₂)] hb
  obtain ⟨h1, h2, -, -⟩ := h
  have e := h1 0 1 (by simp) (by simp)
  obtain ⟨id, v, hid, hv, hgv, hgi⟩ := h2 0 (by simp)
  simp only [registerAll, List.getElem?_cons_zero, List.getElem?_cons_succ, Option.some.injEq,
    Prod.mk.injEq] at e hid hv
  subst hv
  refine ⟨e, ?_, ?_, ?_⟩
  · simpa [Interner.nameNs, Interner.addNameNs, registerAll, ← hid] using hgi
  · simp only [registerAll] at hgv
    simp [Interner.localNameStr, Interner.addNameNs, hid, hgv]
  · simp only [registerAll] at hgv
    simp [Interner.namespaceForName, Interner.addNameNs, hid, hgv]

/-- The built-in ids of `Xot::new()` (model: `Interner.new`, which replays
    `Gen.builtinRegistrations`, the `get_id_mut` calls read off src/xotdata.rs): pairwise distinct
    within their table, and resolving to the standard strings — spelled out here, not taken from
    the source.  The last line pins the numeric values the static layers use (`Model/Env`). -/
theorem C08_builtins :
    Interner.new.noNamespaceId ≠ Interner.new.xmlNamespaceId ∧
    Interner.new.emptyPrefixId ≠ Interner.new.xmlPrefixId ∧
    Interner.new.xmlSpaceId ≠ Interner.new.xmlIdId ∧
    Interner.new.namespaceStr Interner.new.noNamespaceId = some [] ∧
    Interner.new.prefixStr Interner.new.emptyPrefixId = some [] ∧
    Interner.new.namespaceStr Interner.new.xmlNamespaceId = some
      ['h','t','t','p',':','/','/','w','w','w','.','w','3','.','o','r','g','/','X','M','L','/',
       '1','9','9','8','/','n','a','m','e','s','p','a','c','e'] ∧
    Interner.new.prefixStr Interner.new.xmlPrefixId = some ['x','m','l'] ∧
    Interner.new.nameNsStr Interner.new.xmlSpaceId = some (['s','p','a','c','e'], xmlNs) ∧
    Interner.new.nameNsStr Interner.new.xmlIdId = some (['i','d'], xmlNs) ∧
    Interner.new.namespaceForName Interner.new.xmlSpaceId = some Interner.new.xmlNamespaceId ∧
    Interner.new.namespace [] = some Interner.new.noNamespaceId ∧
    Interner.new.prefix [] = some Interner.new.emptyPrefixId ∧
    Interner.new.prefix ['x','m','l'] = some Interner.new.xmlPrefixId ∧
    Interner.new.nameNs ['i','d'] Interner.new.xmlNamespaceId = some Interner.new.xmlIdId ∧
    (Interner.new.noNamespaceId, Interner.new.xmlNamespaceId, Interner.new.emptyPrefixId,
      Interner.new.xmlPrefixId, Interner.new.xmlSpaceId, Interner.new.xmlIdId) = (0, 1, 0, 1, 0, 1) := by
  decide

/-- Cloning.  `Xot`, `IdMap` and `Name` `#[derive(Clone)]` (`Gen.interningCloneIsDerived`, checked
    by the extractor on every run), so `Xot::clone` clones `by_id : Vec<V>` and
    `by_value : HashMap<V, K>` field by field; `Vec::clone` / `HashMap::clone` / `String::clone`
    return collections equal to their source and ids are `Copy`.  On the model — values without
    identity — that is the identity function, hence every lookup answers alike on both, and a
    later registration in one is a new value that leaves the other untouched. -/
theorem C08_clone (x : Interner) :
    interningCloneIsDerived = true ∧ x.clone = x ∧
    (∀ l n, x.clone.nameNs l n = x.nameNs l n) ∧ (∀ s, x.clone.namespace s = x.namespace s) ∧
    (∀ s, x.clone.prefix s = x.prefix s) ∧ (∀ n, x.clone.nameNsStr n = x.nameNsStr n) ∧
    (∀ n, x.clone.namespaceStr n = x.namespaceStr n) ∧ (∀ n, x.clone.prefixStr n = x.prefixStr n) ∧
    (∀ l n, x.clone.addNameNs l n = x.addNameNs l n) :=
  ⟨by decide, rfl, fun _ _ => rfl, fun _ => rfl, fun _ => rfl, fun _ => rfl, fun _ => rfl,
   fun _ => rfl, fun _ _ => rfl⟩

/-! ### The defect: ids wrap (DESIGN.md section 8, row 11) -/

/-- At every width: register `2^bits + 1` pairwise distinct values in an empty table; the first and
    the last both receive id 0, although they differ. -/
theorem C08_wraps {α : Type} [DecidableEq α] (bits : Nat) (vs : List α) (hnd : vs.Nodup)
    (hlen : vs.length = 2 ^ bits + 1) :
    (registerAll bits (empty : IdMap α) vs).2[0]? = some 0 ∧
    (registerAll bits (empty : IdMap α) vs).2[2 ^ bits]? = some 0 ∧
    vs[0]? ≠ vs[2 ^ bits]? := by
  have hfresh : ∀ v ∈ vs, (empty : IdMap α).byValue.lookup v = none := by intro v _; rfl
  have hpos : 0 < 2 ^ bits := Nat.two_pow_pos bits
  refine ⟨?_, ?_, ?_⟩
  · rw [registerAll_fresh_ids bits _ vs hnd hfresh 0 (by omega)]; rfl
  · rw [registerAll_fresh_ids bits _ vs hnd hfresh (2 ^ bits) (by omega)]
    show some (toId bits (0 + 2 ^ bits)) = some 0
    rw [Nat.zero_add, toId_pow]
  · intro h
    have := (List.getElem?_inj (by omega : 0 < vs.length) hnd).1 h
    omega

/-- The unbounded claim is false at every id width (witness: the history `0, 1, …, 2^bits`). -/
theorem C08_full_false (bits : Nat) : ¬ C08_fullStatement bits Nat := by
  intro h
  have hnd : (List.range (2 ^ bits + 1)).Nodup := List.nodup_range
  obtain ⟨h0, h1, hne⟩ := C08_wraps bits (List.range (2 ^ bits + 1)) hnd (by simp)
  have := (h (List.range (2 ^ bits + 1)) 0 (2 ^ bits) (by simp) (by simp)).1 (by rw [h0, h1])
  exact hne this

/-- At the width read off the source (`nameIdBits`), from `Xot::new()`: register the names `n0`,
    `n1`, … in no namespace.  With `xml:space` and `xml:id` already there, the
    `(2^nameIdBits - 1)`-th of them — `n65534` today — is the `(2^nameIdBits + 1)`-th distinct name
    and comes back as `xml_space_name()`, which still resolves to `("space", XML namespace)`. -/
theorem C08_wraps_names :
    (Interner.new.nameLookup.registerAll nameIdBits
        ((List.range (2 ^ nameIdBits - 2 + 1)).map
          (fun i => ((bulkValue ['n'] i, Interner.new.noNamespaceId) : NameKey)))).2[2 ^ nameIdBits - 2]?
      = some Interner.new.xmlSpaceId ∧
    Interner.new.nameNsStr Interner.new.xmlSpaceId = some (['s','p','a','c','e'], xmlNs) := by
  have hlen : Interner.new.nameLookup.byId.length = 2 := by decide
  have hbv : Interner.new.nameLookup.byValue =
      [((['i','d'], 1), 1), ((['s','p','a','c','e'], 1), 0)] := by decide
  have hns : Interner.new.noNamespaceId = 0 := by decide
  have hsp : Interner.new.xmlSpaceId = 0 := by decide
  have h := wraps_from nameIdBits Interner.new.nameLookup
    (fun i => ((bulkValue ['n'] i, Interner.new.noNamespaceId) : NameKey))
    (by intro i j hij; exact bulkValue_inj _ i j (Prod.mk.inj hij).1)
    (by intro i; rw [hbv, hns]; apply lookup_none_of_forall_ne; intro p hp; simp at hp; rcases hp with rfl | rfl <;> simp)
    (by rw [hlen]; decide)
  rw [hlen] at h
  exact ⟨by rw [hsp]; exact h, by decide⟩

/-- The same for prefixes: after `""` and `"xml"`, the prefix `n65534` receives the id of the
    empty prefix. -/
theorem C08_wraps_prefixes :
    (Interner.new.prefixLookup.registerAll prefixIdBits
        ((List.range (2 ^ prefixIdBits - 2 + 1)).map (bulkValue ['n']))).2[2 ^ prefixIdBits - 2]?
      = some Interner.new.emptyPrefixId ∧
    Interner.new.prefixStr Interner.new.emptyPrefixId = some [] := by
  have hlen : Interner.new.prefixLookup.byId.length = 2 := by decide
  have hbv : Interner.new.prefixLookup.byValue = [(['x','m','l'], 1), ([], 0)] := by decide
  have hid : Interner.new.emptyPrefixId = 0 := by decide
  have h := wraps_from prefixIdBits Interner.new.prefixLookup (bulkValue ['n'])
    (bulkValue_inj _)
    (by intro i; rw [hbv]; apply lookup_none_of_forall_ne; intro p hp; simp at hp; rcases hp with rfl | rfl <;> simp [bulkValue])
    (by rw [hlen]; decide)
  rw [hlen] at h
  exact ⟨by rw [hid]; exact h, by decide⟩

/-- And for namespaces: after `""` and the XML namespace, the namespace URI `n65534` receives the
    id of "no namespace" — a name registered in it *is* the unqualified name. -/
theorem C08_wraps_namespaces :
    (Interner.new.namespaceLookup.registerAll namespaceIdBits
        ((List.range (2 ^ namespaceIdBits - 2 + 1)).map (bulkValue ['n']))).2[2 ^ namespaceIdBits - 2]?
      = some Interner.new.noNamespaceId ∧
    Interner.new.namespaceStr Interner.new.noNamespaceId = some [] := by
  have hlen : Interner.new.namespaceLookup.byId.length = 2 := by decide
  have hbv : Interner.new.namespaceLookup.byValue = [(xmlNs, 1), ([], 0)] := by decide
  have hid : Interner.new.noNamespaceId = 0 := by decide
  have h := wraps_from namespaceIdBits Interner.new.namespaceLookup (bulkValue ['n'])
    (bulkValue_inj _)
    (by intro i; rw [hbv]; apply lookup_none_of_forall_ne; intro p hp; simp at hp; rcases hp with rfl | rfl <;> simp [bulkValue, xmlNs])
    (by rw [hlen]; decide)
  rw [hlen] at h
  exact ⟨by rw [hid]; exact h, by decide⟩

/-- The correspondence suite's one long history (`idmap bulk_names/_prefixes/_namespaces n p …`) is
    answered by the driver with `registerRange`, a linear-time shortcut; it *is* the history of
    `get_id_mut` calls on `p0, p1, …, p(n-1)` (for names: paired with a namespace id). -/
theorem C08_bulk_is_history (bits : Nat) (p : Str) (ns n : Nat) (m : IdMap Str) (m' : IdMap NameKey) :
    registerRange bits m (bulkValue p) n = registerAll bits m ((List.range n).map (bulkValue p)) ∧
    registerRange bits m' (fun i => (bulkValue p i, ns)) n =
      registerAll bits m' ((List.range n).map (fun i => (bulkValue p i, ns))) :=
  ⟨registerRange_eq bits m _ (bulkValue_inj p) n,
   registerRange_eq bits m' _ (fun i j h => bulkValue_inj p i j (Prod.mk.inj h).1) n⟩

/-! ### Non-vacuity -/

/-- `Xot::new()` is reachable and within capacity, so `C08_bounded` / `C08_names` apply to it. -/
example : Interner.Reachable Interner.new ∧
    Interner.new.nameLookup.byId.length ≤ 2 ^ nameIdBits := ⟨.new, by decide⟩

/-- A small history with a duplicate and the same local name in two namespaces. -/
example : (registerAll 16 (empty : IdMap NameKey)
    [(['a'], 0), (['b'], 0), (['a'], 0), (['a'], 1)]).2 = [0, 1, 0, 2] := by decide

/-- The hypotheses of `C08_names` are satisfiable (and its conclusion then says: different ids). -/
example : ((Interner.new.addNameNs ['a'] 0).1.addNameNs ['a'] 1).1.nameLookup.byId.length
    ≤ 2 ^ nameIdBits := by decide

/-- `C08_wraps` at width 2: five distinct values, first and last get id 0. -/
example : (registerAll 2 (empty : IdMap Nat) [10, 11, 12, 13, 14]).2 = [0, 1, 2, 3, 0] := by decide

/-- At width 16 the value that wraps in `C08_wraps_names` is `n65534`. -/
example : bulkValue ['n'] (2 ^ 16 - 2) = ['n','6','5','5','3','4'] := by decide

end XotModel.Props
