/-
  C08 — Name, namespace and prefix ids are a stable one-to-one interning.  Property theorems only.

  A *history* is a list of values handed to `get_id_mut` one after the other
  (`IdMap.registerAll bits m vs` = the table reached and the ids returned); for the name table a
  value is the pair `(local name, namespace id)`.  `add_name`, `add_name_ns`, `add_namespace`,
  `add_prefix` and the registrations `parse` / `html5()` make are such calls on one of the three
  tables of the `Xot` (`Interner`).  All statements are generic in the id width `bits`; the
  widths of the real tables are `Gen.nameIdBits`, `Gen.namespaceIdBits`, `Gen.prefixIdBits`
  (read off `struct NameId(u16)` / `index as u16` on every run).

    C08_inv_reachable   every Xot reachable from `Xot::new()` keeps the table invariant
    C08_table           the table holds exactly the distinct values registered, once each
    C08_bounded         at most 2^bits distinct values: equal ids ⇔ equal values; id ↦ value and
                        value ↦ id lookups are inverse and find exactly the registered values
    C08_stable          an id/value pair never changes when more entries are added (no bound)
    C08_names           the same, spelled for two `add_name_ns` calls on a reachable Xot
    C08_builtins        built-in ids are distinct and resolve to their standard strings
    C08_clone           a clone answers every lookup like its source
    C08_bulk_is_history the driver's shortcut for the long history is the model's history
    C08_wraps, C08_full_false, C08_wraps_names/_prefixes/_namespaces
                        THE DEFECT: the (2^bits+1)-th distinct value gets the id of the first; the
                        unbounded claim (`C08_fullStatement`) is false at every width

  Registrations made IMPLICITLY (tie to the parser model `Model/Parse.lean`, which interns on bare
  tables without an id width; `Model/IdMapParse.lean` has the calls `parse` / `html5()` make as data):
    C08_parse_bridge         `internIn` of the parser model = `get_id_mut` of the interner
    C08_parse_registrations  accepted or rejected, a parse leaves the interner after exactly the calls
                             `buildRegs`; invariant, persistence, duplicate-freeness, what each id means
    C08_parse_registrations_inv  the part that needs the table invariant only
    C08_parse_tree           every id in the tree was returned by one of those calls, is in range, and
                             equal ids <=> equal strings in the tables left (and in all later ones)
    C08_parse_places         which call belongs to which start tag / attribute / declaration / PI
    C08_parse_capacity_needed  the capacity hypothesis cannot be dropped (full table + `<fresh/>`)
    C08_parse_history(_tree) any interleaving of direct registrations, parses, `html5()`, clone
    C08_html5                `html5()` = its call sequence; the ids it stores = the four pairs per entry
-/
import XotModel.Lemmas.IdMap
import XotModel.Lemmas.IdMapParseWitness

namespace XotModel.Props
open XotModel XotModel.Gen XotModel.IdMap

/-- The claim of C08 at full strength, for one table: along *every* history from the empty
    table, two registrations return the same id exactly when they registered the same value.
    FALSE for the code as it is — `C08_full_false`; what holds is `C08_bounded`. -/
def C08_fullStatement (bits : Nat) (α : Type) [DecidableEq α] : Prop :=
  ∀ (vs : List α) (i j : Nat), i < vs.length → j < vs.length →
    ((registerAll bits (empty : IdMap α) vs).2[i]? = (registerAll bits (empty : IdMap α) vs).2[j]?
      ↔ vs[i]? = vs[j]?)

/-- Every `Xot` reachable from `Xot::new()` by registrations (explicit or made by `parse` /
    `html5()`) and `clone` satisfies the invariant: `by_id` is duplicate-free and `by_value` is the
    graph of `v ↦ to_id(index of v)`. -/
theorem C08_inv_reachable (x : Interner) (h : Interner.Reachable x) : Interner.Inv x := h.inv

/-- After any history the table contains exactly the values registered (on top of what was
    there), each once: `by_id.length` *is* the number of distinct values registered, and one id
    was returned per call. -/
theorem C08_table {α : Type} [DecidableEq α] (bits : Nat) (m : IdMap α) (hinv : Inv bits m)
    (vs : List α) :
    Inv bits (registerAll bits m vs).1 ∧
    (registerAll bits m vs).1.byId.Nodup ∧
    (∀ v, v ∈ (registerAll bits m vs).1.byId ↔ v ∈ m.byId ∨ v ∈ vs) ∧
    (registerAll bits m vs).2.length = vs.length :=
  ⟨registerAll_inv hinv vs, (registerAll_inv hinv vs).nodup, registerAll_mem hinv vs,
   registerAll_length bits m vs⟩

/-- C08 below capacity.  For every history `vs` from a table satisfying the invariant (the empty
    table, `Xot::new()`, anything reachable) such that the table reached holds at most `2^bits`
    distinct values:
    (1) two registrations return the same id iff they registered the same value;
    (2) the id returned for a value resolves to that value (`get_value`) and the read-only lookup
        (`get_id`) returns that id;
    (3) the read-only lookup finds exactly the values registered;
    (4) `get_value` and `get_id` are inverse to each other on the whole table (so no id has two
        meanings and no value two ids). -/
theorem C08_bounded {α : Type} [DecidableEq α] (bits : Nat) (m : IdMap α) (hinv : Inv bits m)
    (vs : List α) (hb : (registerAll bits m vs).1.byId.length ≤ 2 ^ bits) :
    (∀ i j, i < vs.length → j < vs.length →
      ((registerAll bits m vs).2[i]? = (registerAll bits m vs).2[j]? ↔ vs[i]? = vs[j]?)) ∧
    (∀ i, i < vs.length → ∃ id v, (registerAll bits m vs).2[i]? = some id ∧ vs[i]? = some v ∧
      getValue (registerAll bits m vs).1 id = some v ∧ getId (registerAll bits m vs).1 v = some id) ∧
    (∀ v, (getId (registerAll bits m vs).1 v).isSome ↔ v ∈ m.byId ∨ v ∈ vs) ∧
    (∀ v id, getValue (registerAll bits m vs).1 id = some v ↔
      getId (registerAll bits m vs).1 v = some id) := by
  have hfin := registerAll_inv hinv vs
  have hids := registerAll_ids_bounded hinv vs hb
  refine ⟨?_, ?_, ?_, ?_⟩
  · intro i j hi hj
    rw [hids]
    simp only [List.getElem?_map, List.getElem?_eq_getElem hi, List.getElem?_eq_getElem hj,
      Option.map_some, Option.some.injEq]
    constructor
    · intro h
      have hm : vs[i] ∈ (registerAll bits m vs).1.byId :=
        (registerAll_mem hinv vs _).2 (Or.inr (List.getElem_mem hi))
      exact idxOf_inj hm h
    · intro h; rw [h]
  · intro i hi
    refine ⟨(registerAll bits m vs).1.byId.idxOf vs[i], vs[i], ?_, List.getElem?_eq_getElem hi, ?_, ?_⟩
    · rw [hids]; simp [List.getElem?_eq_getElem hi]
    · exact (registerAll_lookup_bounded hinv vs hb (List.getElem_mem hi)).2
    · exact (registerAll_lookup_bounded hinv vs hb (List.getElem_mem hi)).1
  · intro v
    rw [getId_isSome_iff hfin, registerAll_mem hinv vs]
  · intro v id
    exact getValue_eq_some_iff hfin hb v id

/-- An id never changes meaning as more entries are added — no bound, no invariant needed:
    whatever `get_value` / `get_id` answered before a registration, or before a whole further
    history, they answer afterwards. -/
theorem C08_stable {α : Type} [DecidableEq α] (bits : Nat) (m : IdMap α) (id : Nat) (v : α) :
    (∀ w, getValue m id = some v → getValue (getIdMut bits m w).1 id = some v) ∧
    (∀ w, getId m v = some id → getId (getIdMut bits m w).1 v = some id) ∧
    (∀ ws, getValue m id = some v → getValue (registerAll bits m ws).1 id = some v) ∧
    (∀ ws, getId m v = some id → getId (registerAll bits m ws).1 v = some id) :=
  ⟨fun w h => getValue_getIdMut_mono w h, fun w h => getId_getIdMut_mono w h,
   fun ws h => registerAll_getValue_mono ws h, fun ws h => registerAll_getId_mono ws h⟩

/-- The API reading of `C08_bounded` for names: on a reachable `Xot` whose name table stays within
    capacity, two `add_name_ns` calls return the same `NameId` iff local name *and* namespace id
    agree; `name_ns`, `local_name_str` and `namespace_for_name` give back what was registered —
    also after the second registration. -/
theorem C08_names (x : Interner) (hx : Interner.Reachable x) (l₁ l₂ : Str) (n₁ n₂ : Nat)
    (hb : ((x.addNameNs l₁ n₁).1.addNameNs l₂ n₂).1.nameLookup.byId.length ≤ 2 ^ nameIdBits) :
    ((x.addNameNs l₁ n₁).2 = ((x.addNameNs l₁ n₁).1.addNameNs l₂ n₂).2 ↔ (l₁ = l₂ ∧ n₁ = n₂)) ∧
    ((x.addNameNs l₁ n₁).1.addNameNs l₂ n₂).1.nameNs l₁ n₁ = some (x.addNameNs l₁ n₁).2 ∧
    ((x.addNameNs l₁ n₁).1.addNameNs l₂ n₂).1.localNameStr (x.addNameNs l₁ n₁).2 = some l₁ ∧
    ((x.addNameNs l₁ n₁).1.addNameNs l₂ n₂).1.namespaceForName (x.addNameNs l₁ n₁).2 = some n₁ := by
  have h := C08_bounded nameIdBits x.nameLookup hx.inv.nm [(l₁, n₁), (l₂, n₂)] hb
  obtain ⟨h1, h2, -, -⟩ := h
  have e := h1 0 1 (by simp) (by simp)
  obtain ⟨id, v, hid, hv, hgv, hgi⟩ := h2 0 (by simp)
  simp only [registerAll, List.getElem?_cons_zero, List.getElem?_cons_succ, Option.some.injEq,
    Prod.mk.injEq] at e hid hv
  subst hv
  refine ⟨e, ?_, ?_, ?_⟩
  · simpa [Interner.nameNs, Interner.addNameNs, registerAll, ← hid] using hgi
  · simp only [registerAll] at hgv
    simp [Interner.localNameStr, Interner.addNameNs, hid, hgv]
  · simp only [registerAll] at hgv
    simp [Interner.namespaceForName, Interner.addNameNs, hid, hgv]

/-- The built-in ids of `Xot::new()` (model: `Interner.new`, which replays
    `Gen.builtinRegistrations`, the `get_id_mut` calls read off src/xotdata.rs): pairwise distinct
    within their table, and resolving to the standard strings — spelled out here, not taken from
    the source.  The last line pins the numeric values the static layers use (`Model/Env`). -/
theorem C08_builtins :
    Interner.new.noNamespaceId ≠ Interner.new.xmlNamespaceId ∧
    Interner.new.emptyPrefixId ≠ Interner.new.xmlPrefixId ∧
    Interner.new.xmlSpaceId ≠ Interner.new.xmlIdId ∧
    Interner.new.namespaceStr Interner.new.noNamespaceId = some [] ∧
    Interner.new.prefixStr Interner.new.emptyPrefixId = some [] ∧
    Interner.new.namespaceStr Interner.new.xmlNamespaceId = some
      ['h','t','t','p',':','/','/','w','w','w','.','w','3','.','o','r','g','/','X','M','L','/',
       '1','9','9','8','/','n','a','m','e','s','p','a','c','e'] ∧
    Interner.new.prefixStr Interner.new.xmlPrefixId = some ['x','m','l'] ∧
    Interner.new.nameNsStr Interner.new.xmlSpaceId = some (['s','p','a','c','e'], xmlNs) ∧
    Interner.new.nameNsStr Interner.new.xmlIdId = some (['i','d'], xmlNs) ∧
    Interner.new.namespaceForName Interner.new.xmlSpaceId = some Interner.new.xmlNamespaceId ∧
    Interner.new.namespace [] = some Interner.new.noNamespaceId ∧
    Interner.new.prefix [] = some Interner.new.emptyPrefixId ∧
    Interner.new.prefix ['x','m','l'] = some Interner.new.xmlPrefixId ∧
    Interner.new.nameNs ['i','d'] Interner.new.xmlNamespaceId = some Interner.new.xmlIdId ∧
    (Interner.new.noNamespaceId, Interner.new.xmlNamespaceId, Interner.new.emptyPrefixId,
      Interner.new.xmlPrefixId, Interner.new.xmlSpaceId, Interner.new.xmlIdId) = (0, 1, 0, 1, 0, 1) := by
  decide

/-- Cloning.  `Xot`, `IdMap` and `Name` `#[derive(Clone)]` (`Gen.interningCloneIsDerived`, checked
    by the extractor on every run), so `Xot::clone` clones `by_id : Vec<V>` and
    `by_value : HashMap<V, K>` field by field; `Vec::clone` / `HashMap::clone` / `String::clone`
    return collections equal to their source and ids are `Copy`.  On the model — values without
    identity — that is the identity function, hence every lookup answers alike on both, and a
    later registration in one is a new value that leaves the other untouched. -/
theorem C08_clone (x : Interner) :
    interningCloneIsDerived = true ∧ x.clone = x ∧
    (∀ l n, x.clone.nameNs l n = x.nameNs l n) ∧ (∀ s, x.clone.namespace s = x.namespace s) ∧
    (∀ s, x.clone.prefix s = x.prefix s) ∧ (∀ n, x.clone.nameNsStr n = x.nameNsStr n) ∧
    (∀ n, x.clone.namespaceStr n = x.namespaceStr n) ∧ (∀ n, x.clone.prefixStr n = x.prefixStr n) ∧
    (∀ l n, x.clone.addNameNs l n = x.addNameNs l n) :=
  ⟨by decide, rfl, fun _ _ => rfl, fun _ => rfl, fun _ => rfl, fun _ => rfl, fun _ => rfl,
   fun _ => rfl, fun _ _ => rfl⟩

/-! ### The defect: ids wrap (DESIGN.md section 8, row 11) -/

/-- At every width: register `2^bits + 1` pairwise distinct values in an empty table; the first and
    the last both receive id 0, although they differ. -/
theorem C08_wraps {α : Type} [DecidableEq α] (bits : Nat) (vs : List α) (hnd : vs.Nodup)
    (hlen : vs.length = 2 ^ bits + 1) :
    (registerAll bits (empty : IdMap α) vs).2[0]? = some 0 ∧
    (registerAll bits (empty : IdMap α) vs).2[2 ^ bits]? = some 0 ∧
    vs[0]? ≠ vs[2 ^ bits]? := by
  have hfresh : ∀ v ∈ vs, (empty : IdMap α).byValue.lookup v = none := by intro v _; rfl
  have hpos : 0 < 2 ^ bits := Nat.two_pow_pos bits
  refine ⟨?_, ?_, ?_⟩
  · rw [registerAll_fresh_ids bits _ vs hnd hfresh 0 (by omega)]; rfl
  · rw [registerAll_fresh_ids bits _ vs hnd hfresh (2 ^ bits) (by omega)]
    show some (toId bits (0 + 2 ^ bits)) = some 0
    rw [Nat.zero_add, toId_pow]
  · intro h
    have := (List.getElem?_inj (by omega : 0 < vs.length) hnd).1 h
    omega

/-- The unbounded claim is false at every id width (witness: the history `0, 1, …, 2^bits`). -/
theorem C08_full_false (bits : Nat) : ¬ C08_fullStatement bits Nat := by
  intro h
  have hnd : (List.range (2 ^ bits + 1)).Nodup := List.nodup_range
  obtain ⟨h0, h1, hne⟩ := C08_wraps bits (List.range (2 ^ bits + 1)) hnd (by simp)
  have := (h (List.range (2 ^ bits + 1)) 0 (2 ^ bits) (by simp) (by simp)).1 (by rw [h0, h1])
  exact hne this

/-- At the width read off the source (`nameIdBits`), from `Xot::new()`: register the names `n0`,
    `n1`, … in no namespace.  With `xml:space` and `xml:id` already there, the
    `(2^nameIdBits - 1)`-th of them — `n65534` today — is the `(2^nameIdBits + 1)`-th distinct name
    and comes back as `xml_space_name()`, which still resolves to `("space", XML namespace)`. -/
theorem C08_wraps_names :
    (Interner.new.nameLookup.registerAll nameIdBits
        ((List.range (2 ^ nameIdBits - 2 + 1)).map
          (fun i => ((bulkValue ['n'] i, Interner.new.noNamespaceId) : NameKey)))).2[2 ^ nameIdBits - 2]?
      = some Interner.new.xmlSpaceId ∧
    Interner.new.nameNsStr Interner.new.xmlSpaceId = some (['s','p','a','c','e'], xmlNs) := by
  have hlen : Interner.new.nameLookup.byId.length = 2 := by decide
  have hbv : Interner.new.nameLookup.byValue =
      [((['i','d'], 1), 1), ((['s','p','a','c','e'], 1), 0)] := by decide
  have hns : Interner.new.noNamespaceId = 0 := by decide
  have hsp : Interner.new.xmlSpaceId = 0 := by decide
  have h := wraps_from nameIdBits Interner.new.nameLookup
    (fun i => ((bulkValue ['n'] i, Interner.new.noNamespaceId) : NameKey))
    (by intro i j hij; exact bulkValue_inj _ i j (Prod.mk.inj hij).1)
    (by intro i; rw [hbv, hns]; apply lookup_none_of_forall_ne; intro p hp; simp at hp; rcases hp with rfl | rfl <;> simp)
    (by rw [hlen]; decide)
  rw [hlen] at h
  exact ⟨by rw [hsp]; exact h, by decide⟩

/-- The same for prefixes: after `""` and `"xml"`, the prefix `n65534` receives the id of the
    empty prefix. -/
theorem C08_wraps_prefixes :
    (Interner.new.prefixLookup.registerAll prefixIdBits
        ((List.range (2 ^ prefixIdBits - 2 + 1)).map (bulkValue ['n']))).2[2 ^ prefixIdBits - 2]?
      = some Interner.new.emptyPrefixId ∧
    Interner.new.prefixStr Interner.new.emptyPrefixId = some [] := by
  have hlen : Interner.new.prefixLookup.byId.length = 2 := by decide
  have hbv : Interner.new.prefixLookup.byValue = [(['x','m','l'], 1), ([], 0)] := by decide
  have hid : Interner.new.emptyPrefixId = 0 := by decide
  have h := wraps_from prefixIdBits Interner.new.prefixLookup (bulkValue ['n'])
    (bulkValue_inj _)
    (by intro i; rw [hbv]; apply lookup_none_of_forall_ne; intro p hp; simp at hp; rcases hp with rfl | rfl <;> simp [bulkValue])
    (by rw [hlen]; decide)
  rw [hlen] at h
  exact ⟨by rw [hid]; exact h, by decide⟩

/-- And for namespaces: after `""` and the XML namespace, the namespace URI `n65534` receives the
    id of "no namespace" — a name registered in it *is* the unqualified name. -/
theorem C08_wraps_namespaces :
    (Interner.new.namespaceLookup.registerAll namespaceIdBits
        ((List.range (2 ^ namespaceIdBits - 2 + 1)).map (bulkValue ['n']))).2[2 ^ namespaceIdBits - 2]?
      = some Interner.new.noNamespaceId ∧
    Interner.new.namespaceStr Interner.new.noNamespaceId = some [] := by
  have hlen : Interner.new.namespaceLookup.byId.length = 2 := by decide
  have hbv : Interner.new.namespaceLookup.byValue = [(xmlNs, 1), ([], 0)] := by decide
  have hid : Interner.new.noNamespaceId = 0 := by decide
  have h := wraps_from namespaceIdBits Interner.new.namespaceLookup (bulkValue ['n'])
    (bulkValue_inj _)
    (by intro i; rw [hbv]; apply lookup_none_of_forall_ne; intro p hp; simp at hp; rcases hp with rfl | rfl <;> simp [bulkValue, xmlNs])
    (by rw [hlen]; decide)
  rw [hlen] at h
  exact ⟨by rw [hid]; exact h, by decide⟩

/-- The correspondence suite's one long history (`idmap bulk_names/_prefixes/_namespaces n p …`) is
    answered by the driver with `registerRange`, a linear-time shortcut; it *is* the history of
    `get_id_mut` calls on `p0, p1, …, p(n-1)` (for names: paired with a namespace id). -/
theorem C08_bulk_is_history (bits : Nat) (p : Str) (ns n : Nat) (m : IdMap Str) (m' : IdMap NameKey) :
    registerRange bits m (bulkValue p) n = registerAll bits m ((List.range n).map (bulkValue p)) ∧
    registerRange bits m' (fun i => (bulkValue p i, ns)) n =
      registerAll bits m' ((List.range n).map (fun i => (bulkValue p i, ns))) :=
  ⟨registerRange_eq bits m _ (bulkValue_inj p) n,
   registerRange_eq bits m' _ (fun i j h => bulkValue_inj p i j (Prod.mk.inj h).1) n⟩

/-! ### Non-vacuity -/

/-- `Xot::new()` is reachable and within capacity, so `C08_bounded` / `C08_names` apply to it. -/
example : Interner.Reachable Interner.new ∧
    Interner.new.nameLookup.byId.length ≤ 2 ^ nameIdBits := ⟨.new, by decide⟩

/-- A small history with a duplicate and the same local name in two namespaces. -/
example : (registerAll 16 (empty : IdMap NameKey)
    [(['a'], 0), (['b'], 0), (['a'], 0), (['a'], 1)]).2 = [0, 1, 0, 2] := by decide

/-- The hypotheses of `C08_names` are satisfiable (and its conclusion then says: different ids). -/
example : ((Interner.new.addNameNs ['a'] 0).1.addNameNs ['a'] 1).1.nameLookup.byId.length
    ≤ 2 ^ nameIdBits := by decide

/-- `C08_wraps` at width 2: five distinct values, first and last get id 0. -/
example : (registerAll 2 (empty : IdMap Nat) [10, 11, 12, 13, 14]).2 = [0, 1, 2, 3, 0] := by decide

/-- At width 16 the value that wraps in `C08_wraps_names` is `n65534`. -/
example : bulkValue ['n'] (2 ^ 16 - 2) = ['n','6','5','5','3','4'] := by decide

/-! ### Registrations made implicitly by `parse` and `html5()` -/

open XotModel.IdParse in
/-- THE BRIDGE.  The parser model interns with `internIn` on the bare `by_id` lists (`Env`, no id
    width); the interner of this file does `get_id_mut` (vector + hash map, `index as uN`).  On an
    interner satisfying the table invariant, each of the three registrations leaves the same
    tables in both models — at every size — and returns the same id as long as the table is below
    `2^bits` entries before the call (sharper, in `Lemmas/IdMapParse.lean`: at most `2^bits`
    after it). -/
theorem C08_parse_bridge (x : Interner) (hx : Interner.Inv x) :
    (∀ p : Str, Env.ofInterner (x.addPrefix p).1 = ((Env.ofInterner x).internPrefix p).1 ∧
      (x.prefixLookup.byId.length < 2 ^ prefixIdBits →
        (x.addPrefix p).2 = ((Env.ofInterner x).internPrefix p).2)) ∧
    (∀ u : Str, Env.ofInterner (x.addNamespace u).1 = ((Env.ofInterner x).internNamespace u).1 ∧
      (x.namespaceLookup.byId.length < 2 ^ namespaceIdBits →
        (x.addNamespace u).2 = ((Env.ofInterner x).internNamespace u).2)) ∧
    (∀ (l : Str) (n : Nat), Env.ofInterner (x.addNameNs l n).1 = ((Env.ofInterner x).internName l n).1 ∧
      (x.nameLookup.byId.length < 2 ^ nameIdBits →
        (x.addNameNs l n).2 = ((Env.ofInterner x).internName l n).2)) :=
  ⟨fun p => ⟨Interner.reg_env hx (.pfx p), Interner.addPrefix_id hx p⟩,
   fun u => ⟨Interner.reg_env hx (.ns u), Interner.addNamespace_id hx u⟩,
   fun l n => ⟨Interner.reg_env hx (.name l n), Interner.addNameNs_id hx l n⟩⟩

/-- A PARSE IS A HISTORY.  `x` is any well-formed interner (`Interner.WF`: the table invariant,
    every registered name's namespace id an id of this `Xot`, the built-ins present — true of
    `Xot::new()` and kept by every step, `C08_parse_history`).  For every token list, mode and
    tokenizer outcome, if `parse` / `parse_fragment` (`build`) accepts — or rejects, the Rust having
    registered before it fails — leaving the tables `env'`, then with
    `regs := buildRegs (Env.ofInterner x) ts`, the calls the builder makes in the order it makes them
    (prefix and name per start / end tag and attribute, prefix and decoded URI per declaration, the
    target per PI):
    * `env'` is the `by_id` part of `x` after exactly the `get_id_mut` calls `regs`, made with the
      id width (`Interner.regAll`), and is `regs` replayed on the bare tables;
    * the invariant is kept, no `get_value` / `get_id` answer of `x` is taken back (`Mono`), every
      table of `x` is a prefix of the table in `env'` (`PrefixOf`: every id valid before the parse
      keeps its value), the tables stay duplicate-free with namespace ids in range (`DupFree`), and
      every name was registered with a namespace id the namespace table held at that moment;
    * each id returned stands in `env'` for the value registered; two calls on the same table
      returned the same id exactly when they registered the same string (names: local name and
      namespace id);
    * CAPACITY: if no table of `env'` has more than `2^bits` entries (`Env.Cap`; `2^32` at the
      extracted widths), the interner returned exactly these ids.  `C08_parse_capacity_needed`:
      not otherwise. -/
theorem C08_parse_registrations (x : Interner) (hx : Interner.WF x) (m : Mode) (len : Nat)
    (ts : List Token) (lexErr : Option Nat) (env' : Env)
    (hb : (∃ p, build m len (Env.ofInterner x) ts lexErr = .ok p ∧ p.env = env') ∨
          (∃ e, build m len (Env.ofInterner x) ts lexErr = .err e env')) :
    Env.ofInterner (x.regAll (buildRegs (Env.ofInterner x) ts)).1 = env' ∧
    env' = ((Env.ofInterner x).regAll (buildRegs (Env.ofInterner x) ts)).1 ∧
    Interner.WF (x.regAll (buildRegs (Env.ofInterner x) ts)).1 ∧
    x.Mono (x.regAll (buildRegs (Env.ofInterner x) ts)).1 ∧
    (Env.ofInterner x).PrefixOf env' ∧ env'.DupFree ∧
    (Env.ofInterner x).RegsInRange (buildRegs (Env.ofInterner x) ts) ∧
    (∀ (i : Nat) (r : Reg) (id : Nat), (buildRegs (Env.ofInterner x) ts)[i]? = some r →
      ((Env.ofInterner x).regAll (buildRegs (Env.ofInterner x) ts)).2[i]? = some id → env'.Holds r id) ∧
    (∀ (i j : Nat) (r r' : Reg), (buildRegs (Env.ofInterner x) ts)[i]? = some r →
      (buildRegs (Env.ofInterner x) ts)[j]? = some r' → r.sameTable r' = true →
      (((Env.ofInterner x).regAll (buildRegs (Env.ofInterner x) ts)).2[i]? =
        ((Env.ofInterner x).regAll (buildRegs (Env.ofInterner x) ts)).2[j]? ↔ r = r')) ∧
    (env'.Cap → (x.regAll (buildRegs (Env.ofInterner x) ts)).2 =
      ((Env.ofInterner x).regAll (buildRegs (Env.ofInterner x) ts)).2) := by
  obtain ⟨h1, h2, h3, h4, h5, h6, h7⟩ := Interner.parse_tables hx m len ts lexErr hb
  refine ⟨h1, h2, h3, h4, h5, h6, h7, ?_, ?_, ?_⟩
  · intro i r id hr hid
    rw [h2]; exact Env.regAll_holds _ _ i r id hr hid
  · intro i j r r' hi hj hs
    exact Env.regAll_ids_iff _ _ (h2 ▸ h6) hi hj hs
  · intro hc
    exact Interner.regAll_ids _ hx.inv (h2 ▸ hc)

/-- The same with the table invariant alone (an earlier `add_name_ns` may have been given a
    namespace id this `Xot` never issued, which the API accepts): exactly those calls, invariant,
    persistence, growth at the end only, duplicate-free tables.  Only "every name's namespace id is
    in range" — hence the reading of names as expanded-name STRINGS — needs `Interner.WF`. -/
theorem C08_parse_registrations_inv (x : Interner) (hx : Interner.Inv x) (m : Mode) (len : Nat)
    (ts : List Token) (lexErr : Option Nat) (env' : Env)
    (hb : (∃ p, build m len (Env.ofInterner x) ts lexErr = .ok p ∧ p.env = env') ∨
          (∃ e, build m len (Env.ofInterner x) ts lexErr = .err e env')) :
    Env.ofInterner (x.regAll (buildRegs (Env.ofInterner x) ts)).1 = env' ∧
    Interner.Inv (x.regAll (buildRegs (Env.ofInterner x) ts)).1 ∧
    x.Mono (x.regAll (buildRegs (Env.ofInterner x) ts)).1 ∧ (Env.ofInterner x).PrefixOf env' ∧
    env'.names.Nodup ∧ env'.prefixes.Nodup ∧ env'.namespaces.Nodup := by
  obtain ⟨b1, b2⟩ := Interner.parse_build hx m len ts lexErr
  have he : Env.ofInterner (x.regAll (buildRegs (Env.ofInterner x) ts)).1 = env' := by
    rcases hb with ⟨p, hp, rfl⟩ | ⟨e, he⟩
    · exact b1 p hp
    · exact b2 e env' he
  have hi := Interner.regAll_inv (buildRegs (Env.ofInterner x) ts) hx
  have hm := Interner.regAll_mono (buildRegs (Env.ofInterner x) ts) x
  refine ⟨he, hi, hm, he ▸ hm.prefixOf, ?_, ?_, ?_⟩
  · rw [← he]; exact hi.nm.nodup
  · rw [← he]; exact hi.pf.nodup
  · rw [← he]; exact hi.ns.nodup

open XotModel.IdParse in
/-- THE TREE of an accepted parse.  Every id it stores (element / attribute / PI names, the prefix
    and namespace of namespace nodes) was returned by one of the parse's own calls (`IssuedBy`:
    a name id by a `name` call; a namespace node's pair by a `pfx` call and the `ns` call after it —
    with `C08_parse_registrations` it stands for exactly what that call registered) and is an id
    of the tables the parse leaves.  In those tables, and in every later state `e'` of them, ids
    are equal exactly when the strings are: names by expanded name (namespace URI, local name),
    prefixes and namespaces by their string; and the expanded name of an id never changes. -/
theorem C08_parse_tree (x : Interner) (hx : Interner.WF x) (m : Mode) (len : Nat) (ts : List Token)
    (lexErr : Option Nat) (p : Parsed) (hb : build m len (Env.ofInterner x) ts lexErr = .ok p) :
    AllV (IssuedBy (Env.ofInterner x) (buildRegs (Env.ofInterner x) ts)) p.tree ∧
    p.tree.idsIn p.env = true ∧
    ∀ e' : Env, p.env.PrefixOf e' → e'.DupFree →
      p.tree.idsIn e' = true ∧
      (∀ n, n < p.env.names.length → e'.expanded n = p.env.expanded n) ∧
      (∀ n k, n < e'.names.length → k < e'.names.length → (n = k ↔ e'.expanded n = e'.expanded k)) ∧
      (∀ a b, a < e'.prefixes.length → b < e'.prefixes.length → (a = b ↔ e'.prefixStr a = e'.prefixStr b)) ∧
      (∀ a b, a < e'.namespaces.length → b < e'.namespaces.length →
        (a = b ↔ e'.namespaceStr a = e'.namespaceStr b)) := by
  obtain ⟨t1, t2⟩ := Interner.parse_tree (x := x) hb
  have hd : p.env.DupFree := (Interner.parse_tables hx m len ts lexErr (Or.inl ⟨p, hb, rfl⟩)).2.2.2.2.2.1
  refine ⟨t1, t2, fun e' hp hd' => ⟨Tree.idsIn_mono hp _ t2, fun n hn => hp.expanded_eq hd hn,
    fun n k hn hk => ⟨fun h => h ▸ rfl, Env.expanded_inj hd' hn hk⟩,
    fun a b ha hb' => ⟨fun h => h ▸ rfl, Env.prefixStr_inj hd' ha hb'⟩,
    fun a b ha hb' => ⟨fun h => h ▸ rfl, Env.namespaceStr_inj hd' ha hb'⟩⟩⟩

/-- WHICH CALL BELONGS TO WHICH PLACE of the document, per step of the builder (`b` any builder
    state): (1) `ElementStart` keeps prefix and local name as written; (2) `open_element` on them
    makes the calls `pfx <prefix as written>`, `name <local name as written> <ns>` first, `ns` being
    what the prefix resolves to with the tag's own declarations on top of the stack, and the
    element node stores the id the second call returned; (3) each attribute likewise (no
    namespace when unprefixed); (4) an accepted declaration makes `pfx <prefix>`, `ns <decoded value>`
    and queues the two ids returned for the namespace node (a reserved declaration or `xmlns:p=""`
    is refused BEFORE anything is registered: `prefixRegs`); (5) a PI (target other than `xml`,
    which is refused before the call) makes `name <target> <no namespace>` and stores the id returned.  What `ns` is as a STRING is `C02_scope_element` / `_attribute`. -/
theorem C08_parse_places (b : Builder) :
    (∀ pfx loc : StrSpan, ∃ eb, (b.element pfx loc).eb = some eb ∧ eb.pfx = pfx.text ∧
      eb.name = loc.text ∧ eb.namespaces = []) ∧
    (∀ b' eb, b.eb = some eb → b.openElement = .ok b' →
      ∃ ns rest id, lookupPrefix (eb.namespaces :: b.nsStack) (b.env.internPrefix eb.pfx).2 = some ns ∧
        b.openRegs = .pfx eb.pfx :: .name eb.name ns :: rest ∧
        (b.env.regAll b.openRegs).2[1]? = some id ∧ b'.cur.value = .element id) ∧
    (∀ stack node st st1 ab, addAttributes stack node st [ab] = .ok st1 →
      ∃ ns id v, attributeNameRegs st.env stack ab.pfx ab.name = [.pfx ab.pfx, .name ab.name ns] ∧
        (ns = Env.noNamespace ∨ lookupPrefix stack (st.env.internPrefix ab.pfx).2 = some ns) ∧
        (st.env.regAll (attributeNameRegs st.env stack ab.pfx ab.name)).2[1]? = some id ∧
        st1.rkids = .node (.attribute id v) [] :: st.rkids) ∧
    (∀ b' p u sp, b.prefix p u sp = .ok b' →
      ∃ us eb eb', parseContentGo true u.start 0 u.text = .ok us ∧ prefixRegs p u = [.pfx p, .ns us] ∧
        b.eb = some eb ∧ b'.eb = some eb' ∧
        eb'.namespaces = eb.namespaces ++
          [((b.env.regAll (prefixRegs p u)).2.getD 0 0, (b.env.regAll (prefixRegs p u)).2.getD 1 0)]) ∧
    (∀ target content, (b.processingInstruction target content).cur.rkids =
      .node (.pi ((b.env.regAll [.name target.text Env.noNamespace]).2.getD 0 0)
        (content.map (fun c => normalizeLineEnds c.text))) [] :: b.cur.rkids) :=
  ⟨element_place b, fun _ _ heb hr => openElement_place heb hr, fun _ _ _ _ _ h => attribute_place h,
   fun _ _ _ _ hr => prefix_place hr, processingInstruction_place b⟩

/-- THE CAPACITY HYPOTHESIS IS NEEDED.  Take any interner satisfying the invariant whose name table
    is full — exactly `2^nameIdBits` entries, which `Env.Cap` still allows — with the empty prefix at
    id 0 (as after `Xot::new()`), and any local name not yet registered in "no namespace".  Parsing
    `<loc/>` makes the calls `pfx ""`, `name loc 0`; the interner answers the second with id 0 — the
    id of an unrelated, earlier name (`xml:space` after `Xot::new()`; `C08_wraps_names` builds such a
    state) — while the width-free tables of the parser model say `2^nameIdBits`.  Equal ids,
    different strings: past capacity neither `C08_parse_registrations`' last clause nor C08 holds. -/
theorem C08_parse_capacity_needed (x : Interner) (hx : Interner.Inv x)
    (hfull : x.nameLookup.byId.length = 2 ^ nameIdBits)
    (h0 : (Env.ofInterner x).prefixes.idxOf ([] : Str) = 0) (loc : Str)
    (hnew : (loc, Env.noNamespace) ∉ x.nameLookup.byId) :
    buildRegs (Env.ofInterner x) (emptyElementTokens loc) = [.pfx [], .name loc Env.noNamespace] ∧
    (Env.ofInterner x).names.length ≤ 2 ^ nameIdBits ∧
    (x.reg (.name loc Env.noNamespace)).2 = 0 ∧
    ((Env.ofInterner x).reg (.name loc Env.noNamespace)).2 = 2 ^ nameIdBits ∧
    (∃ k, x.nameLookup.getValue 0 = some k ∧ k ≠ (loc, Env.noNamespace)) := by
  obtain ⟨a, b, c, d⟩ := Interner.full_table_wraps x hx hfull loc Env.noNamespace hnew
  exact ⟨buildRegs_emptyElement _ h0 loc, c, a, b, d⟩

/-- HISTORIES.  A history is any list of steps `add_name`, `add_name_ns`, `add_namespace`,
    `add_prefix`, `parse` (of any token list, accepted or not), `html5()`, `clone` (`HStep`), run
    from any interner satisfying the invariant — `Xot::new()` does.  Along every history: the
    invariant holds at the end (so `C08_bounded` / `C08_table` apply at every point); no
    `get_value` / `get_id` answer is ever taken back and the built-in id fields never change
    (`Mono`): an id handed out at any point — by a registration or inside a parsed tree — denotes
    the same string at every later point; the `by_id` vectors only grow at the end.  If moreover
    every `add_name_ns` names a namespace id the `Xot` has issued (`RunOk`; parses and `html5()`
    always do), well-formedness — hence duplicate-free tables with namespace ids in range, what
    `C08_parse_registrations` and `C13_expanded_names` ask for — is kept too. -/
theorem C08_parse_history (x : Interner) (hx : Interner.Inv x) (ss : List HStep) :
    Interner.Inv (x.run ss) ∧ x.Mono (x.run ss) ∧
    (Env.ofInterner x).PrefixOf (Env.ofInterner (x.run ss)) ∧
    (∀ ss', x.run (ss ++ ss') = (x.run ss).run ss' ∧ (x.run ss).Mono (x.run (ss ++ ss'))) ∧
    (Interner.WF x → x.RunOk ss → Interner.WF (x.run ss) ∧ (Env.ofInterner (x.run ss)).DupFree) ∧
    Interner.WF Interner.new :=
  ⟨Interner.run_inv ss hx, Interner.run_mono ss x, (Interner.run_mono ss x).prefixOf,
   fun ss' => ⟨Interner.run_append ss ss' x, by rw [Interner.run_append]; exact Interner.run_mono ss' _⟩,
   fun hw hr => ⟨Interner.run_wf ss hw hr, (Interner.run_wf ss hw hr).dupFree⟩, Interner.wf_new⟩

/-- … and the trees.  A document parsed at some point of a history (`x` = the interner then), and
    any continuation `ss` of the history: every id of the tree is an id of the tables at the end,
    with the expanded name it had when parsed; and it equals any name id `k` of the tables at the
    end — e.g. one from a tree parsed later, or returned by a later `add_name_ns` — exactly when
    the two expanded names (namespace URI, local name) are equal.  So names compare equal across
    all trees of one `Xot` exactly when their expanded names are. -/
theorem C08_parse_history_tree (x : Interner) (hx : Interner.WF x) (m : Mode) (len : Nat) (ts : List Token)
    (lexErr : Option Nat) (p : Parsed) (hb : build m len (Env.ofInterner x) ts lexErr = .ok p)
    (ss : List HStep) (hok : (x.step (.parse ts)).RunOk ss) :
    x.run (.parse ts :: ss) = (x.step (.parse ts)).run ss ∧
    p.tree.idsIn (Env.ofInterner (x.run (.parse ts :: ss))) = true ∧
    (∀ n, n < p.env.names.length →
      (Env.ofInterner (x.run (.parse ts :: ss))).expanded n = p.env.expanded n) ∧
    (∀ n k, n < p.env.names.length → k < (Env.ofInterner (x.run (.parse ts :: ss))).names.length →
      (n = k ↔ p.env.expanded n = (Env.ofInterner (x.run (.parse ts :: ss))).expanded k)) := by
  obtain ⟨h1, _, h3, _, _, _, _⟩ := Interner.parse_tables hx m len ts lexErr (Or.inl ⟨p, hb, rfl⟩)
  have hwf : Interner.WF ((x.step (.parse ts)).run ss) := Interner.run_wf ss h3 hok
  have hp : p.env.PrefixOf (Env.ofInterner ((x.step (.parse ts)).run ss)) := by
    rw [← h1]; exact (Interner.run_mono ss _).prefixOf
  obtain ⟨_, t2, t3⟩ := C08_parse_tree x hx m len ts lexErr p hb
  obtain ⟨a1, a2, a3, _, _⟩ := t3 _ hp hwf.dupFree
  refine ⟨rfl, a1, a2, fun n k hn hk => ?_⟩
  have hn' : n < (Env.ofInterner ((x.step (.parse ts)).run ss)).names.length :=
    Nat.lt_of_lt_of_le hn hp.names.length_le
  rw [← a2 n hn]
  exact a3 n k hn' hk

/-- `html5()` (`Html5Elements::new`, src/output/html5elements.rs) on a well-formed interner:
    it IS the call sequence `html5Regs` — the three namespaces, then per table (in the order
    `html5_names`, `void_names`, `phrasing_content_names`, `formatted_names`, `no_escape_names` of
    `Generated.lean`) and per entry `n` the names `(n, no ns)`, `(N, no ns)`, `(n, xhtml)`,
    `(N, xhtml)` — and stores the ids those calls return; it keeps well-formedness and takes no
    answer back.  Within capacity, in the tables it leaves or any later duplicate-free ones (`e'`):
    the three namespace ids are found under their URIs, and the `ids` of table `j` are exactly the
    ids standing for one of the four pairs of an entry — which, for an id in range, is the test
    `HtmlNames.idsContain` of the serializer model (C19). -/
theorem C08_html5 (x : Interner) (hx : Interner.WF x) :
    x.html5.1 = (x.regAll (html5Regs x.noNamespaceId x.html5.2.xhtml)).1 ∧
    x.html5.2.xhtml :: x.html5.2.mathml :: x.html5.2.svg :: x.html5.2.ids.flatten =
      (x.regAll (html5Regs x.noNamespaceId x.html5.2.xhtml)).2 ∧
    Interner.WF x.html5.1 ∧ x.Mono x.html5.1 ∧
    x.html5.1.namespace xhtmlNs = some x.html5.2.xhtml ∧
    x.html5.1.namespace mathmlNs = some x.html5.2.mathml ∧
    x.html5.1.namespace svgNs = some x.html5.2.svg ∧
    ∀ e' : Env, (Env.ofInterner x.html5.1).PrefixOf e' → e'.Cap → e'.DupFree →
      ∀ (j : Nat) (L : List Str) (ids : List Nat), html5Tables[j]? = some L → x.html5.2.ids[j]? = some ids → ∀ id : Nat,
        (id ∈ ids ↔ ∃ r ∈ htmlNamesRegs Env.noNamespace x.html5.2.xhtml L, e'.Holds r id) ∧
        (id < e'.names.length → (id ∈ ids ↔ (HtmlNames.mk x.html5.2.xhtml L).idsContain e' id = true)) := by
  obtain ⟨r1, r2⟩ := Interner.html5_regs x
  have hm : x.Mono x.html5.1 := by rw [r1]; exact Interner.regAll_mono _ x
  obtain ⟨n1, n2, n3⟩ := Interner.html5_namespaces hx.inv
  refine ⟨r1, r2, hx.html5, hm, n1, n2, n3, ?_⟩
  intro e' hp hc hd j L ids hL hids id
  have h := Interner.html5_ids hx.inv hp hc hd hL hids id
  rw [hx.noNs] at h
  exact ⟨h, fun hlt => h.trans (htmlNamesRegs_idsContain e' _ L id hlt)⟩

/-! ### Non-vacuity of the parse / history theorems -/

open XotModel.Witness in
/-- `Xot::new()` is well-formed and, seen by the parser model, is `Env.fresh`; the document
    `<p:a xmlns:p='u' b='x&#10;y'><!--c-->t&lt;<![CDATA[c]]></p:a>` is accepted from it
    (hypotheses of `C08_parse_registrations` / `C08_parse_tree`), its calls are these eight, the ids
    returned are `2,2 | 2,2 | 0,3 | 2,2` (prefix `p` and URI `u` new at 2; `{u}a` new at 2; the
    empty prefix is 0, `b` in no namespace new at 3; the end tag finds `p` and `{u}a` again), and
    the tables left are within capacity. -/
example : Interner.WF Interner.new ∧ Env.ofInterner Interner.new = Env.fresh ∧
    (build .document goodDocLen (Env.ofInterner Interner.new) goodDoc none).flat =
      some [(0, .document), (1, .element 2), (2, .namespace 2 2), (2, .attribute 3 ['x', '\n', 'y']),
        (2, .comment ['c']), (2, .text ['t', '<', 'c'])] ∧
    buildRegs (Env.ofInterner Interner.new) goodDoc =
      [.pfx ['p'], .ns ['u'], .pfx ['p'], .name ['a'] 2, .pfx [], .name ['b'] 0, .pfx ['p'], .name ['a'] 2] ∧
    ((Env.ofInterner Interner.new).regAll (buildRegs (Env.ofInterner Interner.new) goodDoc)).2
      = [2, 2, 2, 2, 0, 3, 2, 2] ∧
    (Interner.new.regAll (buildRegs (Env.ofInterner Interner.new) goodDoc)).2 = [2, 2, 2, 2, 0, 3, 2, 2] ∧
    ((Env.ofInterner Interner.new).regAll (buildRegs (Env.ofInterner Interner.new) goodDoc)).1.Cap := by
  rw [ofInterner_new, goodDoc_regs]
  refine ⟨Interner.wf_new, rfl, by rw [build_eq_buildE]; decide +kernel, rfl, by decide, by decide,
    ⟨by decide, by decide, by decide⟩⟩

/-- A history with all kinds of steps is admissible (`RunOk`), so `C08_parse_history` gives
    well-formedness at its end. -/
example : Interner.new.RunOk [.addNamespace ['u'], .addNameNs ['a'] 2, .parse (emptyElementTokens ['a']),
    .html5, .clone, .addPrefix ['p'], .addName ['a']] := by
  refine ⟨trivial, ?_, trivial, trivial, trivial, trivial, trivial, trivial⟩
  show 2 < (Interner.new.addNamespace ['u']).1.namespaceLookup.byId.length
  decide

/-- The same local name in two namespaces, element vs attribute use, a PI target, `xmlns=""`:
    the same string registered on different tables, or with different namespace ids, gets
    independent ids; repeated registrations get the same id. -/
example : ((Env.ofInterner Interner.new).regAll
    [.pfx [], .ns [], .pfx ['p'], .ns ['u'], .pfx [], .name ['a'] 0, .pfx ['p'], .name ['a'] 2,
     .pfx [], .name ['a'] 0, .name ['a'] 0, .pfx ['a'], .ns ['a']]).2 = [0, 0, 2, 2, 0, 2, 2, 3, 0, 2, 2, 3, 3] := by
  rw [ofInterner_new]; decide

/-- `html5()` on a fresh `Xot`: XHTML, MathML, SVG get the namespace ids 2, 3, 4; the first
    table starts with `a`, `A` in no namespace and in XHTML at the name ids 2, 3, 4, 5. -/
example : (Interner.new.html5.2.xhtml, Interner.new.html5.2.mathml, Interner.new.html5.2.svg) = (2, 3, 4) ∧
    (Interner.new.regAll (htmlNamesRegs 0 2 [['a']])).2 = [2, 3, 4, 5] := by
  refine ⟨by decide, by decide⟩

end XotModel.Props
