/-
  C16 — Token and output-event streams reproduce the string serialisation.
  Property theorems only; all of them for every tree, every start node, every parameter set, and
  for ARBITRARY escaping functions (`esc`), so they do not depend on the entity layer.

    C16_tokens, C16_tokens_conv, C16_tokens_fail   token stream  <-> string serialisation
    C16_pretty, C16_pretty_conv                    pretty token stream <-> pretty string
    C16_write, C16_write_default, C16_to_string    `Write` entry points = string entry points
    C16_xml_string, C16_xml_string_conv            full parameter set: prolog ++ (pretty) tokens
    C16_events_*                                   structure of the output-event stream
    C16_write_fails_with_io, C16_write_error_priority,
    C16_write_unlimited, C16_write_default_any_writer
                                                   a writer that refuses a `write_all` call: `Error::Io`, never a panic; what it
                                                   holds is a prefix of the string serialisation; which error is reported when
                                                   the serialisation itself fails too (the first in event order)
    C16_write_fails_with_io_bytes, C16_write_error_priority_bytes,
    C16_write_default_any_writer_bytes, C16_utf8   the same in front of a BYTE-level writer (`BytePolicy`, Model/WriterBytes.lean): a
                                                   refused call lets through `k` bytes, possibly ending inside a multi-byte
                                                   character; the writer holds a prefix of `utf8` of the string serialisation
    C16_normalizer_*                               the instances for a caller-supplied normalizer: `Xot::tokens(.., normalizer)`
                                                   <-> `serialize_xml_string_with_normalizer`; the event stream of the
                                                   normalised tree
-/
import XotModel.Lemmas.Output
import XotModel.Lemmas.Events
import XotModel.Lemmas.XmlDeclRest
import XotModel.Lemmas.NormalizerXml
import XotModel.Lemmas.WriterXml
import XotModel.Lemmas.WriterBytes

namespace XotModel.Props
open XotModel XotModel.Gen

/-- The literals `serialize_node` / `serialize_pretty` write around a token. -/
theorem C16_literals : tokenSpace = [' '] ∧ prettyNewline = ['\n'] ∧ indentUnit = [' '] ∧ indentWidth = 2 := by
  decide

/-- Concatenating the token texts, each preceded by one space when so flagged, gives the string
    serialisation under the same parameters. -/
theorem C16_tokens (esc : Escapers) (env : Env) (pr : TokenParams) (t : Tree) (start : Path)
    (ks : List (Path × Output × OutputToken)) (h : tokensWith esc env pr t start = .ok ks) :
    serializeStringWith esc env pr t start =
      .ok (ks.flatMap (fun k => (if k.2.2.space then [' '] else []) ++ k.2.2.text)) := by
  unfold tokensWith at h
  unfold serializeStringWith serializeWriteWith bufferToString
  cases hr : renderAllWith esc env pr t (initStack t start) (genOutputs t start) with
  | ok l =>
    simp only [hr] at h
    cases h
    rw [writeGo_of_renderAll_ok esc env pr t _ _ _ hr]
    simp [streamBytes, tokenBytes, C16_literals.1]
  | err e => simp [hr] at h
  | panic => simp [hr] at h

/-- Conversely every string serialisation is the concatenation of a token stream. -/
theorem C16_tokens_conv (esc : Escapers) (env : Env) (pr : TokenParams) (t : Tree) (start : Path)
    (s : Str) (h : serializeStringWith esc env pr t start = .ok s) :
    ∃ ks, tokensWith esc env pr t start = .ok ks ∧
      s = ks.flatMap (fun k => (if k.2.2.space then [' '] else []) ++ k.2.2.text) := by
  cases hk : tokensWith esc env pr t start with
  | ok ks =>
    refine ⟨ks, rfl, ?_⟩
    rw [C16_tokens esc env pr t start ks hk] at h
    cases h
    rfl
  | err e =>
    unfold tokensWith at hk
    split at hk <;> cases hk
  | panic =>
    exfalso
    unfold tokensWith at hk
    unfold serializeStringWith serializeWriteWith bufferToString at h
    cases hr : renderAllWith esc env pr t (initStack t start) (genOutputs t start) with
    | ok l => simp [hr] at hk
    | err e =>
      have := writeGo_of_renderAll_err esc env pr t _ _ e hr
      rw [this] at h
      cases h
    | panic =>
      have := writeGo_of_renderAll_panic esc env pr t _ _ hr
      rw [this] at h
      cases h

/-- Outside the domain: when the string serialisation returns an error the token stream panics
    (`render_output(..).unwrap()` in `Xot::tokens`). -/
theorem C16_tokens_fail (esc : Escapers) (env : Env) (pr : TokenParams) (t : Tree) (start : Path)
    (e : XotError) (h : serializeStringWith esc env pr t start = .err e) :
    tokensWith esc env pr t start = .panic := by
  cases hk : tokensWith esc env pr t start with
  | ok ks => rw [C16_tokens esc env pr t start ks hk] at h; cases h
  | err e' =>
    unfold tokensWith at hk
    split at hk <;> cases hk
  | panic => rfl

/-- The pretty token stream with its indentation and newline fields applied gives the
    pretty-printed string. -/
theorem C16_pretty (esc : Escapers) (env : Env) (pr : TokenParams) (sup : List Nat) (t : Tree)
    (start : Path) (ks : List (Path × Output × PrettyOutputToken))
    (h : prettyTokensWith esc env pr sup t start = .ok ks) :
    serializePrettyWith esc env pr sup t start =
      .ok (ks.flatMap (fun k =>
        (if k.2.2.indentation > 0 then (List.replicate (k.2.2.indentation * 2) [' ']).flatten else [])
          ++ (if k.2.2.space then [' '] else []) ++ k.2.2.text
          ++ (if k.2.2.newline then ['\n'] else []))) := by
  unfold prettyTokensWith at h
  unfold serializePrettyWith serializePrettyWriteWith bufferToString
  cases hr : prettyAllWith esc env pr sup t [] (initStack t start) (genOutputs t start) with
  | ok l =>
    simp only [hr] at h
    cases h
    rw [writePrettyGo_of_prettyAll_ok esc env pr t sup _ _ _ _ hr]
    obtain ⟨h1, h2, h3, h4⟩ := C16_literals
    simp [prettyStreamBytes, prettyTokenBytes, indentBytes, h1, h2, h3, h4]
  | err e => simp [hr] at h
  | panic => simp [hr] at h

/-- Conversely a pretty string is the rendering of a pretty token stream. -/
theorem C16_pretty_conv (esc : Escapers) (env : Env) (pr : TokenParams) (sup : List Nat) (t : Tree)
    (start : Path) (s : Str) (h : serializePrettyWith esc env pr sup t start = .ok s) :
    ∃ ks, prettyTokensWith esc env pr sup t start = .ok ks := by
  unfold serializePrettyWith serializePrettyWriteWith bufferToString at h
  have ho := writePrettyGo_outcome esc env pr t sup [] (initStack t start) (genOutputs t start)
  unfold prettyTokensWith
  cases hr : prettyAllWith esc env pr sup t [] (initStack t start) (genOutputs t start) with
  | ok l => exact ⟨l, rfl⟩
  | err e => rw [hr] at ho; simp only [] at ho; rw [ho] at h; cases h
  | panic => rw [hr] at ho; simp only [] at ho; rw [ho] at h; cases h

/-- The `Write`-based entry point emits the bytes of the string-based one: whenever
    `serialize_xml_write` succeeds having written `w`, `serialize_xml_string` returns `w`, for every
    parameter set (declaration, doctype, indentation, CDATA elements, unescaped_gt); and the two
    fail together. -/
theorem C16_write (esc : Escapers) (env : Env) (p : XmlParams) (t : Tree) (start : Path) :
    (∀ w, serializeXmlWriteWith esc env p t start = (w, .ok ()) →
        serializeXmlStringWith esc env p t start = .ok w) ∧
    (∀ s, serializeXmlStringWith esc env p t start = .ok s →
        serializeXmlWriteWith esc env p t start = (s, .ok ())) ∧
    (∀ e, (serializeXmlWriteWith esc env p t start).2 = .err e ↔
        serializeXmlStringWith esc env p t start = .err e) := by
  unfold serializeXmlStringWith bufferToString
  refine ⟨?_, ?_, ?_⟩
  · intro w h; rw [h]
  · intro s h
    cases hw : serializeXmlWriteWith esc env p t start with
    | mk w r =>
      rw [hw] at h
      cases r with
      | ok u => cases u; simp at h; rw [h]
      | err e => simp at h
      | panic => simp at h
  · intro e
    cases hw : serializeXmlWriteWith esc env p t start with
    | mk w r =>
      cases r with
      | ok u => cases u; simp
      | err e' => simp
      | panic => simp

/-- With the default parameters (`Xot::write`) nothing but the token bytes is written. -/
theorem C16_write_default (esc : Escapers) (env : Env) (t : Tree) (start : Path) :
    serializeXmlWriteWith esc env {} t start = serializeWriteWith esc env {} t start := by
  unfold serializeXmlWriteWith
  simp [XmlParams.tokenParams]

/-- `Xot::to_string` = `serialize_xml_string` with default parameters = the token fold. -/
theorem C16_to_string (env : Env) (t : Tree) (start : Path) :
    toXmlString env t start = serializeXmlString env {} t start := by
  unfold toXmlString serializeXmlString serializeXmlStringWith serializeString serializeStringWith
  rw [C16_write_default]

/-- The body of `serialize_xml_string`: without declaration and doctype it is the pretty string
    when indentation is requested, else the plain string, under the token parameters. -/
theorem C16_xml_string_body (esc : Escapers) (env : Env) (p : XmlParams) (t : Tree) (start : Path) :
    serializeXmlStringWith esc env p.body t start =
      (match p.indentation with
       | some sup => serializePrettyWith esc env p.tokenParams sup t start
       | none => serializeStringWith esc env p.tokenParams t start) := by
  unfold serializeXmlStringWith
  rw [body_write]
  cases p.indentation <;> rfl

/-- Full parameter set (declaration, doctype, indentation, CDATA elements, unescaped_gt): a
    successful `serialize_xml_string` is the declaration bytes, the doctype bytes and then the
    token stream of `Xot::pretty_tokens` (indentation on; fields applied) resp. `Xot::tokens`
    (indentation off) under the same token parameters. -/
theorem C16_xml_string (esc : Escapers) (env : Env) (p : XmlParams) (t : Tree) (start : Path) (s : Str)
    (h : serializeXmlStringWith esc env p t start = .ok s) :
    ∃ dt, DoctypeWritten env p t start dt ∧
      (match p.indentation with
       | some sup => ∃ ks, prettyTokensWith esc env p.tokenParams sup t start = .ok ks ∧
           s = p.declBytes ++ dt ++ ks.flatMap (fun k =>
             (if k.2.2.indentation > 0 then (List.replicate (k.2.2.indentation * 2) [' ']).flatten else [])
               ++ (if k.2.2.space then [' '] else []) ++ k.2.2.text
               ++ (if k.2.2.newline then ['\n'] else []))
       | none => ∃ ks, tokensWith esc env p.tokenParams t start = .ok ks ∧
           s = p.declBytes ++ dt ++
             ks.flatMap (fun k => (if k.2.2.space then [' '] else []) ++ k.2.2.text)) := by
  obtain ⟨dt, body, hdt, hb, hs⟩ := xmlString_split esc env p t start s h
  refine ⟨dt, hdt, ?_⟩
  rw [C16_xml_string_body] at hb
  cases hi : p.indentation with
  | some sup =>
    simp only [hi] at hb ⊢
    obtain ⟨ks, hk⟩ := C16_pretty_conv esc env p.tokenParams sup t start body hb
    refine ⟨ks, hk, ?_⟩
    rw [C16_pretty esc env p.tokenParams sup t start ks hk] at hb
    cases hb
    exact hs
  | none =>
    simp only [hi] at hb ⊢
    obtain ⟨ks, hk, hbody⟩ := C16_tokens_conv esc env p.tokenParams t start body hb
    exact ⟨ks, hk, by rw [hs, hbody]⟩

/-- Conversely: whenever the doctype block succeeds (or no doctype is requested) and the token
    stream exists, `serialize_xml_string` returns exactly prolog ++ rendered tokens. -/
theorem C16_xml_string_conv (esc : Escapers) (env : Env) (p : XmlParams) (t : Tree) (start : Path)
    (dt : Str) (hdt : DoctypeWritten env p t start dt) :
    (∀ sup ks, p.indentation = some sup → prettyTokensWith esc env p.tokenParams sup t start = .ok ks →
      serializeXmlStringWith esc env p t start = .ok (p.declBytes ++ dt ++ ks.flatMap (fun k =>
        (if k.2.2.indentation > 0 then (List.replicate (k.2.2.indentation * 2) [' ']).flatten else [])
          ++ (if k.2.2.space then [' '] else []) ++ k.2.2.text
          ++ (if k.2.2.newline then ['\n'] else [])))) ∧
    (∀ ks, p.indentation = none → tokensWith esc env p.tokenParams t start = .ok ks →
      serializeXmlStringWith esc env p t start = .ok (p.declBytes ++ dt ++
        ks.flatMap (fun k => (if k.2.2.space then [' '] else []) ++ k.2.2.text))) := by
  constructor
  · intro sup ks hi hk
    apply xmlString_join esc env p t start dt _ hdt
    rw [C16_xml_string_body, hi]
    exact C16_pretty esc env p.tokenParams sup t start ks hk
  · intro ks hi hk
    apply xmlString_join esc env p t start dt _ hdt
    rw [C16_xml_string_body, hi]
    exact C16_tokens esc env p.tokenParams t start ks hk

/-- Non-vacuity: declaration + doctype + indentation on `<d><a/></d>` serialised from the document
    (the empty environment spells every name as the empty string). -/
example :
    (serializeXmlString {} { indentation := some [], declaration := some {}, doctype := some (.sys ['s']) }
      (.node .document [.node (.element 5) [.node (.element 2) []]]) []).okValue?.map String.ofList
    = some "<?xml version=\"1.0\"?>\n<!DOCTYPE  SYSTEM \"s\">\n<>\n  </>\n</>\n" := by decide

/-! ### The output-event stream -/

/-- `outputs(node)` is the traversal of the subtree at the start node, the start node being the
    top node, with the declarations in scope at it. -/
theorem C16_events_start (t : Tree) (start : Path) (n : Tree) (inScope : List (Nat × Nat))
    (hn : t.at? start = some n) (hs : namespacesInScope t start = some inScope) :
    genOutputs t start = genNode inScope true start n := by
  simp [genOutputs, hn, hs]

/-- An element contributes exactly: start-tag-open; on the top element the in-scope declarations
    it does not declare itself; its declarations in view order; its attributes in view order
    (C11, last clause); start-tag-close; the events of its children; end-tag — all tagged with
    the element. -/
theorem C16_events_element (inScope : List (Nat × Nat)) (isTop : Bool) (path : Path) (name : Nat)
    (ks : List Tree) :
    genNode inScope isTop path (.node (.element name) ks) =
      [(path, Output.startTagOpen name)]
        ++ (if isTop then extraPrefixes inScope (.node (.element name) ks) else []).map (fun o => (path, o))
        ++ (Tree.node (.element name) ks).nsDecls.map (fun d => (path, Output.pfx d.1 d.2))
        ++ (Tree.node (.element name) ks).attrs.map (fun a => (path, Output.attribute a.1 a.2))
        ++ [(path, Output.startTagClose)]
        ++ genNode.genKids inScope path 0 ks
        ++ [(path, Output.endTag name)] :=
  genNode_element inScope isTop path name ks

/-- The inherited declarations of the top element are the in-scope bindings whose prefix the
    element does not declare, in `namespaces_in_scope` order. -/
theorem C16_events_inherited (inScope : List (Nat × Nat)) (n : Tree) :
    extraPrefixes inScope n =
      (inScope.filter (fun d => !(n.nsDecls.any (fun e => e.1 == d.1)))).map (fun d => Output.pfx d.1 d.2) := rfl

/-- Text, comment and processing-instruction nodes contribute exactly one event; a document
    node, an attribute node and a namespace node none of their own. -/
theorem C16_events_leaf (inScope : List (Nat × Nat)) (isTop : Bool) (path : Path) (ks : List Tree) :
    (∀ s, genNode inScope isTop path (.node (.text s) ks) =
        (path, Output.text s) :: genNode.genKids inScope path 0 ks) ∧
    (∀ s, genNode inScope isTop path (.node (.comment s) ks) =
        (path, Output.comment s) :: genNode.genKids inScope path 0 ks) ∧
    (∀ tg d, genNode inScope isTop path (.node (.pi tg d) ks) =
        (path, Output.pi tg d) :: genNode.genKids inScope path 0 ks) ∧
    genNode inScope isTop path (.node .document ks) = genNode.genKids inScope path 0 ks ∧
    (∀ a v, genNode inScope isTop path (.node (.attribute a v) ks) = genNode.genKids inScope path 0 ks) ∧
    (∀ p ns, genNode inScope isTop path (.node (.namespace p ns) ks) = genNode.genKids inScope path 0 ks) :=
  ⟨fun s => genNode_text inScope isTop path s ks, fun s => genNode_comment inScope isTop path s ks,
   fun tg d => genNode_pi inScope isTop path tg d ks, genNode_document inScope isTop path ks,
   fun a v => genNode_attribute inScope isTop path a v ks,
   fun p ns => genNode_namespace inScope isTop path p ns ks⟩

/-- Children are visited in order, the `j`-th child under the path extended by `j`, never as top. -/
theorem C16_events_children (inScope : List (Nat × Nat)) (path : Path) (ks : List Tree) :
    genNode.genKids inScope path 0 ks =
      ks.zipIdx.flatMap (fun kj => genNode inScope false (path ++ [kj.2]) kj.1) :=
  genKids_eq inScope path 0 ks

/-- Every event is tagged with a normal node at or below the start node and is one of the events
    that node emits itself (`gen_edge_start` / `gen_edge_end` of that node). -/
theorem C16_events_tagged (t : Tree) (start : Path) (inScope : List (Nat × Nat))
    (hs : namespacesInScope t start = some inScope) (p : Path) (o : Output)
    (h : (p, o) ∈ genOutputs t start) :
    ∃ rel n', p = start ++ rel ∧ t.at? p = some n' ∧ n'.value.isNormal = true ∧
      OwnEvent inScope (rel.isEmpty) n' o := by
  cases hn : t.at? start with
  | none => simp [genOutputs, hn] at h
  | some n =>
    rw [C16_events_start t start n inScope hn hs] at h
    obtain ⟨rel, n', hp, hat, hnorm, hown⟩ := genNode_tagged inScope true start n p o h
    refine ⟨rel, n', hp, ?_, hnorm, by simpa using hown⟩
    rw [hp, at?_append, hn]
    exact hat

/-- Document order: the opening events (start-tag-open, text, comment, PI) are exactly the normal
    non-document nodes of the subtree in pre-order, each carrying its own value and its path. -/
theorem C16_events_order (t : Tree) (start : Path) (n : Tree) (inScope : List (Nat × Nat))
    (hn : t.at? start = some n) (hs : namespacesInScope t start = some inScope) :
    (genOutputs t start).filter (fun po => po.2.isOpening) =
      (normalPreorder start n).filterMap (fun pn => (openingEvent pn.2).map (fun o => (pn.1, o))) := by
  rw [C16_events_start t start n inScope hn hs]
  exact genNode_opening inScope true start n

/-- Sanity: the event stream of the unit test `test_iter_mkgen` (`<doc a="A">Text</doc>`,
    serialised from the element). -/
example :
    genOutputs (.node .document [.node (.element 2) [.node (.attribute 3 ['A']) [], .node (.text ['T']) []]]) [0] =
      [([0], .startTagOpen 2), ([0], .pfx 1 1), ([0], .attribute 3 ['A']), ([0], .startTagClose),
       ([0, 1], .text ['T']), ([0], .endTag 2)] := by decide

/-! ### C16_normalizer: a caller-supplied normalizer

Every theorem above is for arbitrary escaping functions; `normEscapers N` (Model/Normalizer.lean: entity.rs
with the normalizer `N`, `NoopNormalizer` = `id`) is one instance.  Spelled out for the two stream entry
points that take a normalizer, `Xot::tokens(node, parameters, normalizer)` and
`serialize_xml_string_with_normalizer`. -/

/-- The token stream under the normalizer `N`, concatenated, is the string serialisation under `N`, for the
    full parameter set; and conversely. -/
theorem C16_normalizer_tokens (N : Str → Str) (env : Env) (pr : TokenParams) (t : Tree) (start : Path) :
    (∀ ks, tokensWith (normEscapers N) env pr t start = .ok ks →
      serializeStringWith (normEscapers N) env pr t start =
        .ok (ks.flatMap (fun k => (if k.2.2.space then [' '] else []) ++ k.2.2.text))) ∧
    (∀ s, serializeStringWith (normEscapers N) env pr t start = .ok s →
      ∃ ks, tokensWith (normEscapers N) env pr t start = .ok ks ∧
        s = ks.flatMap (fun k => (if k.2.2.space then [' '] else []) ++ k.2.2.text)) ∧
    (∀ e, serializeStringWith (normEscapers N) env pr t start = .err e →
      tokensWith (normEscapers N) env pr t start = .panic) :=
  ⟨fun ks h => C16_tokens _ env pr t start ks h, fun s h => C16_tokens_conv _ env pr t start s h,
   fun e h => C16_tokens_fail _ env pr t start e h⟩

/-- The `Write` entry point with a normalizer writes what the string entry point with it returns. -/
theorem C16_normalizer_write (N : Str → Str) (env : Env) (p : XmlParams) (t : Tree) (start : Path) :
    (∀ w, serializeXmlWriteWith (normEscapers N) env p t start = (w, .ok ()) →
        serializeXmlStringWith (normEscapers N) env p t start = .ok w) ∧
    (∀ s, serializeXmlStringWith (normEscapers N) env p t start = .ok s →
        serializeXmlWriteWith (normEscapers N) env p t start = (s, .ok ())) :=
  ⟨(C16_write _ env p t start).1, (C16_write _ env p t start).2.1⟩

/-- … and `serialize_xml_write_with_normalizer`, called directly, fails exactly when the string entry point
    fails, with the same error (what was written before the failure stays in the sink: the driver's
    `ser xml_write_norm` line compares those bytes with the implementation's). -/
theorem C16_normalizer_write_fail (N : Str → Str) (env : Env) (p : XmlParams) (t : Tree) (start : Path) (e : XotError) :
    (serializeXmlWriteWith (normEscapers N) env p t start).2 = .err e ↔
      serializeXmlStringWith (normEscapers N) env p t start = .err e :=
  (C16_write _ env p t start).2.2 e

/-- The event stream of the normalised tree is the event stream of the tree with `N` applied to the strings of
    the `Text` and `Attribute` events: same events, same nodes, same order. -/
theorem C16_normalizer_events (N : Str → Str) (t : Tree) (start : Path) :
    genOutputs (t.mapText N) start = (genOutputs t start).map (fun po => (po.1, po.2.mapText N)) :=
  genOutputs_mapText N t start

/-! ### C16_write_fails: a writer that fails

`serializeXmlWriteW P` (Model/XmlDecl.lean) is `serialize_xml_write_with_normalizer` in front of ANY writer `P`
(`WriterPolicy`: what the writer answers to each `write_all` given the calls it accepted before — accept, or refuse
after letting some of the bytes through), threaded through the calls in the order the Rust makes them: the pieces of
the declaration, the pieces of the doctype, then per event indentation / token space / token text / newline, each one
`w.write_all(..)?`.  `serializeXmlCalls` lists those calls as they happen when none is refused, and how the call then
ends; `serializeXmlWriteWith` — the model every theorem above is about — is the writer that never fails.  All of it
for arbitrary escaping functions, hence for `Xot::write`, `serialize_xml_write` and `…_with_normalizer`. -/

/-- The never-failing model is the unlimited-budget instance (`Vec<u8>`; `budget none`), and its bytes are the
    calls concatenated. -/
theorem C16_write_unlimited (esc : Escapers) (env : Env) (p : XmlParams) (t : Tree) (start : Path) :
    serializeXmlWriteW WriterPolicy.unlimited esc env p t start = serializeXmlWriteWith esc env p t start ∧
    serializeXmlWriteW (WriterPolicy.budget none) esc env p t start = serializeXmlWriteWith esc env p t start ∧
    ((serializeXmlCalls esc env p t start).1.flatten, (serializeXmlCalls esc env p t start).2)
      = serializeXmlWriteWith esc env p t start :=
  ⟨serializeXmlWriteW_unlimited esc env p t start, serializeXmlWriteW_unlimited esc env p t start,
   serializeXmlCalls_eq esc env p t start⟩

/-- **A failing writer gives `Error::Io`, never a panic.**  For every writer, every tree, start node and parameter
    set (declaration, doctype, indentation on or off):
    (1) either the writer refuses one of the calls the serialisation makes — then the call returns `Err(Io)` and the
        writer holds what it had accepted — or it accepts them all and the result is that of the never-failing
        writer (same bytes, same `Ok` / error);
    (2) the writer never causes a panic: the call panics only where the string entry point does;
    (3) whatever the writer holds when the call returns is a PREFIX of what the never-failing writer receives, in
        particular of the string `serialize_xml_string` returns;
    (4) `FailingWriter { fail_at_call: k }`: with `k` at least the number of calls the result is the old one; with
        fewer it is `Io` and the writer holds exactly the first `k` calls. -/
theorem C16_write_fails_with_io (P : WriterPolicy) (esc : Escapers) (env : Env) (p : XmlParams) (t : Tree)
    (start : Path) :
    ((∃ b, writeCalls P [] (serializeXmlCalls esc env p t start).1 = .error b ∧
          serializeXmlWriteW P esc env p t start = (b, .err .io)) ∨
      (writeCalls P [] (serializeXmlCalls esc env p t start).1 = .ok (serializeXmlCalls esc env p t start).1 ∧
          serializeXmlWriteW P esc env p t start = serializeXmlWriteWith esc env p t start)) ∧
    ((serializeXmlWriteW P esc env p t start).2 = .panic → (serializeXmlWriteWith esc env p t start).2 = .panic) ∧
    (∃ rest, (serializeXmlWriteWith esc env p t start).1 = (serializeXmlWriteW P esc env p t start).1 ++ rest) ∧
    (∀ s, serializeXmlStringWith esc env p t start = .ok s →
        ∃ rest, s = (serializeXmlWriteW P esc env p t start).1 ++ rest) ∧
    (∀ k, (serializeXmlCalls esc env p t start).1.length ≤ k →
        serializeXmlWriteW (WriterPolicy.budget (some k)) esc env p t start = serializeXmlWriteWith esc env p t start) ∧
    (∀ k, k < (serializeXmlCalls esc env p t start).1.length →
        serializeXmlWriteW (WriterPolicy.budget (some k)) esc env p t start
          = (((serializeXmlCalls esc env p t start).1.take k).flatten, .err .io)) := by
  have hcalls := serializeXmlCalls_eq esc env p t start
  have h1 : (serializeXmlCalls esc env p t start).1.flatten = (serializeXmlWriteWith esc env p t start).1 :=
    congrArg Prod.fst hcalls
  have h2 : (serializeXmlCalls esc env p t start).2 = (serializeXmlWriteWith esc env p t start).2 :=
    congrArg Prod.snd hcalls
  have hpre : ∃ rest, (serializeXmlWriteWith esc env p t start).1 = (serializeXmlWriteW P esc env p t start).1 ++ rest := by
    obtain ⟨rest, h⟩ := replayCalls_prefix P [] (serializeXmlCalls esc env p t start)
    rw [← serializeXmlWriteW_eq_replayCalls, List.nil_append, h1] at h
    exact ⟨rest, h⟩
  refine ⟨?_, ?_, hpre, ?_, ?_, ?_⟩
  · rw [serializeXmlWriteW_eq_replayCalls]
    unfold replayCalls
    cases hw : writeCalls P [] (serializeXmlCalls esc env p t start).1 with
    | error b => exact Or.inl ⟨b, rfl, rfl⟩
    | ok h =>
      have hh := writeCalls_ok P _ _ _ hw
      rw [List.nil_append] at hh
      subst hh
      exact Or.inr ⟨rfl, hcalls⟩
  · intro h
    rw [serializeXmlWriteW_eq_replayCalls] at h
    rw [← h2]
    exact replayCalls_panic P [] _ h
  · intro s hs
    have hw := (C16_write esc env p t start).2.1 s hs
    obtain ⟨rest, h⟩ := hpre
    rw [hw] at h
    exact ⟨rest, h⟩
  · intro k hk
    rw [serializeXmlWriteW_eq_replayCalls, replayCalls_budget, if_pos hk]
    exact hcalls
  · intro k hk
    rw [serializeXmlWriteW_eq_replayCalls, replayCalls_budget, if_neg (by omega)]

/-- **Which error wins** when the serialisation itself fails (`MissingPrefix`, `NamespaceInProcessingInstruction`,
    `NotElement` / `NoElementAtTopLevel` of the doctype block): whichever comes first in the event order.  The
    serialisation error `e` of the string entry point arises after exactly the calls `serializeXmlCalls.1` (the
    declaration, the events rendered before, the indentation of the failing event).  A writer that accepts all of
    those sees `e` reported, exactly as the string entry point reports it; a writer that refuses one of them makes
    the call return `Io` — the serialisation never gets to the failing event.  In particular an error that arises
    before the first write (no calls) is reported whatever the writer does. -/
theorem C16_write_error_priority (P : WriterPolicy) (esc : Escapers) (env : Env) (p : XmlParams) (t : Tree)
    (start : Path) (e : XotError) (he : serializeXmlStringWith esc env p t start = .err e) :
    (writeCalls P [] (serializeXmlCalls esc env p t start).1 = .ok (serializeXmlCalls esc env p t start).1 →
        serializeXmlWriteW P esc env p t start = ((serializeXmlCalls esc env p t start).1.flatten, .err e)) ∧
    (∀ b, writeCalls P [] (serializeXmlCalls esc env p t start).1 = .error b →
        serializeXmlWriteW P esc env p t start = (b, .err .io)) ∧
    (∀ k, (serializeXmlCalls esc env p t start).1.length ≤ k →
        (serializeXmlWriteW (WriterPolicy.budget (some k)) esc env p t start).2 = .err e) ∧
    (∀ k, k < (serializeXmlCalls esc env p t start).1.length →
        (serializeXmlWriteW (WriterPolicy.budget (some k)) esc env p t start).2 = .err .io) ∧
    ((serializeXmlCalls esc env p t start).1 = [] → (serializeXmlWriteW P esc env p t start).2 = .err e) := by
  have he' : (serializeXmlWriteWith esc env p t start).2 = .err e := ((C16_write esc env p t start).2.2 e).2 he
  have h2 : (serializeXmlCalls esc env p t start).2 = .err e := by
    rw [← he']; exact congrArg Prod.snd (serializeXmlCalls_eq esc env p t start)
  have hmain := C16_write_fails_with_io P esc env p t start
  refine ⟨?_, ?_, ?_, ?_, ?_⟩
  · intro hw
    rw [serializeXmlWriteW_eq_replayCalls]
    simp only [replayCalls, hw, h2]
  · intro b hw
    rw [serializeXmlWriteW_eq_replayCalls]
    simp only [replayCalls, hw]
  · intro k hk
    rw [(C16_write_fails_with_io (WriterPolicy.budget (some k)) esc env p t start).2.2.2.2.1 k hk, he']
  · intro k hk
    rw [(C16_write_fails_with_io (WriterPolicy.budget (some k)) esc env p t start).2.2.2.2.2 k hk]
  · intro hnil
    rw [serializeXmlWriteW_eq_replayCalls]
    simp only [replayCalls, hnil, writeCalls, h2]

/-- `Xot::write(node, w)` (default parameters) in front of any writer is the token loop alone. -/
theorem C16_write_default_any_writer (P : WriterPolicy) (esc : Escapers) (env : Env) (t : Tree) (start : Path) :
    serializeXmlWriteW P esc env {} t start = serializeWriteW P esc env {} t start :=
  serializeXmlWriteW_default P esc env t start

/-- Non-vacuity.  `<a><b:… /></a>` with `b`'s namespace undeclared, written with a declaration: the calls before
    `MissingPrefix` arises are `<?xml version="1.0"`, `?>\n`, `<a`, `>` (env: name 2 = `a` in no namespace,
    name 3 = `b` in namespace 2 = `u`).  Budgets 0 … 3 give `Io` with the writer holding the first calls, budget 4
    and the never-failing writer give `MissingPrefix`. -/
example :
    let env : Env := ⟨[[], xmlNs, ['u']], [[], ['x','m','l']], [(['s','p','a','c','e'], 1), (['i','d'], 1), (['a'], 0), (['b'], 2)]⟩
    let t : Tree := .node .document [.node (.element 2) [.node (.element 3) []]]
    let p : XmlParams := { declaration := some {} }
    (serializeXmlCalls xmlEscapers env p t []).1.map String.ofList = ["<?xml version=\"1.0\"", "?>\n", "<a", ">"] ∧
    serializeXmlString env p t [] = .err (.missingPrefix 2) ∧
    (fun r : Str × Outcome XotError Unit => (String.ofList r.1, r.2)) (serializeXmlWriteW (.budget (some 0)) xmlEscapers env p t [])
      = ("", .err .io) ∧
    (fun r : Str × Outcome XotError Unit => (String.ofList r.1, r.2)) (serializeXmlWriteW (.budget (some 3)) xmlEscapers env p t [])
      = ("<?xml version=\"1.0\"?>\n<a", .err .io) ∧
    (fun r : Str × Outcome XotError Unit => (String.ofList r.1, r.2)) (serializeXmlWriteW (.budget (some 4)) xmlEscapers env p t [])
      = ("<?xml version=\"1.0\"?>\n<a>", .err (.missingPrefix 2)) ∧
    (fun r : Str × Outcome XotError Unit => (String.ofList r.1, r.2)) (serializeXmlWriteW (.budget none) xmlEscapers env p t [])
      = ("<?xml version=\"1.0\"?>\n<a>", .err (.missingPrefix 2)) := by decide

/-- An error that arises before the first write wins against every writer: a doctype asked for a text node
    (`NotElement`, no declaration) — even the writer that refuses its first call sees `NotElement`; with a
    declaration in front the same writer gives `Io`. -/
example :
    (serializeXmlWriteW (.budget (some 0)) xmlEscapers {} { doctype := some (.sys ['s']) }
        (.node (.text ['x']) []) []) = ([], .err .notElement) ∧
    (serializeXmlWriteW (.budget (some 0)) xmlEscapers {} { doctype := some (.sys ['s']), declaration := some {} }
        (.node (.text ['x']) []) []) = ([], .err .io) := by decide

/-- Pretty printing: `<d><a/></d>` with indentation makes the calls `<`, `>`, `\n`, `  `, `<`, `/>`, `` (the empty
    end-tag token of a childless element: the call is made all the same), `\n`, `</>`, `\n` (the empty environment
    spells every name as the empty string); a writer that refuses its 5th call holds `<>\n  `, enough budget gives
    the pretty string. -/
example :
    let t : Tree := .node .document [.node (.element 5) [.node (.element 2) []]]
    let p : XmlParams := { indentation := some [] }
    (serializeXmlCalls xmlEscapers {} p t []).1.map String.ofList = ["<", ">", "\n", "  ", "<", "/>", "", "\n", "</>", "\n"] ∧
    (fun r : Str × Outcome XotError Unit => (String.ofList r.1, r.2)) (serializeXmlWriteW (.budget (some 4)) xmlEscapers {} p t [])
      = ("<>\n  ", .err .io) ∧
    (fun r : Str × Outcome XotError Unit => (String.ofList r.1, r.2)) (serializeXmlWriteW (.budget (some 9)) xmlEscapers {} p t [])
      = ("<>\n  </>\n</>", .err .io) ∧
    (fun r : Str × Outcome XotError Unit => (String.ofList r.1, r.2)) (serializeXmlWriteW (.budget (some 10)) xmlEscapers {} p t [])
      = ("<>\n  </>\n</>\n", .ok ()) := by decide

/-! ### C16_write_fails … _bytes: the failing writer at BYTE level

The theorems above count what a refused call lets through in CHARACTERS.  A real `io::Write` receives the UTF-8
bytes of each piece (`w.write_all(s.as_bytes())`) and may stop anywhere, also inside a multi-byte character.
`Model/WriterBytes.lean`: `utf8` (the encoder, equal to Lean's `String.toUTF8` for every text:
`Lemmas/WriterBytes.lean: utf8_toUTF8`), `BytePolicy` (`some k` = refused after `k` BYTES of this call),
`serializeXmlWriteB B` = the trace `serializeXmlCalls` replayed against `B`.  That the trace is the same for every
writer is `serializeXmlWriteW_eq_replayCalls` (for every character-level writer the threaded function is this trace
replayed), and (6) below ties the byte-level result back to the threaded function run in front of `B.chars`. -/

/-- **A failing BYTE-level writer gives `Error::Io`, never a panic**, and holds a prefix of the UTF-8 bytes of the
    string serialisation — possibly ending inside a character.  For every byte-level writer `B`, every tree, start
    node and parameter set:
    (1) either one call is refused: the calls are `pre ++ c :: post`, `B` accepts `pre` and answers `some k` to `c`;
        the call returns `Err(Io)` and the writer holds the bytes of `pre` followed by the first `k` bytes of `c`;
        or no call is refused and the result is that of the never-failing writer, as bytes: `utf8` of its text,
        its outcome;
    (2) never a panic caused by the writer;
    (3) what the writer holds is a PREFIX of `utf8` of what the never-failing writer receives;
    (4) when `serialize_xml_string` returns `Ok(s)`: no refusal gives `Ok` with exactly `utf8 s`, a refusal gives
        `Io`, and in both cases the writer holds a prefix of `utf8 s`;
    (5) `ByteBudgetWriter { remaining: n }`: enough budget gives the old result; less gives `Io` and the writer
        holds exactly the first `n` bytes — wherever in a character that falls;
    (6) the character level: the outcome is that of the threaded `serializeXmlWriteW` in front of `B.chars`, and
        the bytes held are the `utf8` of the characters that one holds plus at most 3 bytes (none unless `Io`);
    (7) the never-failing writer holds `utf8` of the never-failing model's text. -/
theorem C16_write_fails_with_io_bytes (B : BytePolicy) (esc : Escapers) (env : Env) (p : XmlParams) (t : Tree)
    (start : Path) :
    ((∃ pre c post k, (serializeXmlCalls esc env p t start).1 = pre ++ c :: post ∧
          writeCallsB B [] pre = .ok (pre.map utf8) ∧ B (pre.map utf8) (utf8 c) = some k ∧
          serializeXmlWriteB B esc env p t start = (utf8 pre.flatten ++ (utf8 c).take k, .err .io)) ∨
      (writeCallsB B [] (serializeXmlCalls esc env p t start).1 = .ok ((serializeXmlCalls esc env p t start).1.map utf8) ∧
          serializeXmlWriteB B esc env p t start
            = (utf8 (serializeXmlWriteWith esc env p t start).1, (serializeXmlWriteWith esc env p t start).2))) ∧
    ((serializeXmlWriteB B esc env p t start).2 = .panic → (serializeXmlWriteWith esc env p t start).2 = .panic) ∧
    (∃ rest, utf8 (serializeXmlWriteWith esc env p t start).1 = (serializeXmlWriteB B esc env p t start).1 ++ rest) ∧
    (∀ s, serializeXmlStringWith esc env p t start = .ok s →
        (writeCallsB B [] (serializeXmlCalls esc env p t start).1 = .ok ((serializeXmlCalls esc env p t start).1.map utf8) →
          serializeXmlWriteB B esc env p t start = (utf8 s, .ok ())) ∧
        (∀ b, writeCallsB B [] (serializeXmlCalls esc env p t start).1 = .error b →
          serializeXmlWriteB B esc env p t start = (b, .err .io)) ∧
        ∃ rest, utf8 s = (serializeXmlWriteB B esc env p t start).1 ++ rest) ∧
    (∀ n, serializeXmlWriteB (BytePolicy.byteBudget n) esc env p t start =
        if (utf8 (serializeXmlWriteWith esc env p t start).1).length ≤ n
        then (utf8 (serializeXmlWriteWith esc env p t start).1, (serializeXmlWriteWith esc env p t start).2)
        else ((utf8 (serializeXmlWriteWith esc env p t start).1).take n, .err .io)) ∧
    ((serializeXmlWriteB B esc env p t start).2 = (serializeXmlWriteW B.chars esc env p t start).2 ∧
      ∃ tail, (serializeXmlWriteB B esc env p t start).1
          = utf8 (serializeXmlWriteW B.chars esc env p t start).1 ++ tail ∧ tail.length ≤ 3 ∧
        ((serializeXmlWriteB B esc env p t start).2 ≠ .err .io → tail = [])) ∧
    serializeXmlWriteB BytePolicy.unlimited esc env p t start
      = (utf8 (serializeXmlWriteWith esc env p t start).1, (serializeXmlWriteWith esc env p t start).2) := by
  have hcalls := serializeXmlCalls_eq esc env p t start
  have h1 : (serializeXmlCalls esc env p t start).1.flatten = (serializeXmlWriteWith esc env p t start).1 :=
    congrArg Prod.fst hcalls
  have h2 : (serializeXmlCalls esc env p t start).2 = (serializeXmlWriteWith esc env p t start).2 :=
    congrArg Prod.snd hcalls
  have hpre : ∃ rest, utf8 (serializeXmlWriteWith esc env p t start).1
      = (serializeXmlWriteB B esc env p t start).1 ++ rest := by
    rw [← h1]; exact replayCallsB_prefix_utf8 B _
  refine ⟨?_, ?_, hpre, ?_, ?_, ?_, ?_⟩
  · rcases replayCallsB_cases B (serializeXmlCalls esc env p t start) with ⟨pre, c, post, k, a1, a2, a3, _, a5⟩ | ⟨a1, a2⟩
    · exact Or.inl ⟨pre, c, post, k, a1, a2, a3, a5⟩
    · rw [h1, h2] at a2; exact Or.inr ⟨a1, a2⟩
  · intro h
    rw [← h2]
    exact replayCallsB_panic B [] _ h
  · intro s hs
    have hw := (C16_write esc env p t start).2.1 s hs
    refine ⟨?_, ?_, ?_⟩
    · intro hok
      unfold serializeXmlWriteB replayCallsB
      rw [hok]
      simp only []
      rw [← utf8_flatten, h1, h2, hw]
    · intro b hb
      unfold serializeXmlWriteB replayCallsB
      rw [hb]
    · obtain ⟨rest, h⟩ := hpre
      rw [hw] at h
      exact ⟨rest, h⟩
  · intro n
    unfold serializeXmlWriteB
    rw [replayCallsB_byteBudget, h1, h2]
  · unfold serializeXmlWriteB
    rw [serializeXmlWriteW_eq_replayCalls]
    exact replayCallsB_chars B _
  · unfold serializeXmlWriteB
    rw [replayCallsB_unlimited, List.nil_append, ← utf8_flatten, h1, h2]

/-- **Which error wins, byte level** (the priority of `C16_write_error_priority`): when the string entry point fails
    with `e`, a byte-level writer that accepts every call made before `e` arises sees `e` reported (and holds all
    those calls' bytes); one that refuses any of them — after however many bytes — makes the call return `Io`; with
    a byte budget the boundary is the byte length of those calls; and an error that arises before the first write
    is reported whatever the writer does. -/
theorem C16_write_error_priority_bytes (B : BytePolicy) (esc : Escapers) (env : Env) (p : XmlParams) (t : Tree)
    (start : Path) (e : XotError) (he : serializeXmlStringWith esc env p t start = .err e) :
    (writeCallsB B [] (serializeXmlCalls esc env p t start).1 = .ok ((serializeXmlCalls esc env p t start).1.map utf8) →
        serializeXmlWriteB B esc env p t start = (utf8 (serializeXmlCalls esc env p t start).1.flatten, .err e)) ∧
    (∀ b, writeCallsB B [] (serializeXmlCalls esc env p t start).1 = .error b →
        serializeXmlWriteB B esc env p t start = (b, .err .io)) ∧
    (∀ n, (utf8 (serializeXmlCalls esc env p t start).1.flatten).length ≤ n →
        (serializeXmlWriteB (BytePolicy.byteBudget n) esc env p t start).2 = .err e) ∧
    (∀ n, n < (utf8 (serializeXmlCalls esc env p t start).1.flatten).length →
        serializeXmlWriteB (BytePolicy.byteBudget n) esc env p t start
          = ((utf8 (serializeXmlCalls esc env p t start).1.flatten).take n, .err .io)) ∧
    ((serializeXmlCalls esc env p t start).1 = [] → serializeXmlWriteB B esc env p t start = ([], .err e)) := by
  have he' : (serializeXmlWriteWith esc env p t start).2 = .err e := ((C16_write esc env p t start).2.2 e).2 he
  have h2 : (serializeXmlCalls esc env p t start).2 = .err e := by
    rw [← he']; exact congrArg Prod.snd (serializeXmlCalls_eq esc env p t start)
  refine ⟨?_, ?_, ?_, ?_, ?_⟩
  · intro hok
    unfold serializeXmlWriteB replayCallsB
    rw [hok]
    simp only []
    rw [← utf8_flatten, h2]
  · intro b hb
    unfold serializeXmlWriteB replayCallsB
    rw [hb]
  · intro n hn
    unfold serializeXmlWriteB
    rw [replayCallsB_byteBudget, if_pos hn, h2]
  · intro n hn
    unfold serializeXmlWriteB
    rw [replayCallsB_byteBudget, if_neg (by omega)]
  · intro hnil
    unfold serializeXmlWriteB replayCallsB
    rw [hnil, h2]
    rfl

/-- `Xot::write(node, w)` in front of a byte-level writer is the default-parameter instance, and with the
    character-level bridge: same outcome as `serializeWriteW B.chars`. -/
theorem C16_write_default_any_writer_bytes (B : BytePolicy) (esc : Escapers) (env : Env) (t : Tree) (start : Path) :
    serializeWriteB B esc env t start = serializeXmlWriteB B esc env {} t start ∧
    (serializeWriteB B esc env t start).2 = (serializeWriteW B.chars esc env {} t start).2 :=
  ⟨rfl, by
    rw [← C16_write_default_any_writer]
    exact (C16_write_fails_with_io_bytes B esc env {} t start).2.2.2.2.2.1.1⟩

/-- `utf8` is `str::as_bytes`: a morphism, Lean's own `String.toUTF8` for every text, `strLen` long. -/
theorem C16_utf8 :
    (∀ a b : Str, utf8 (a ++ b) = utf8 a ++ utf8 b) ∧
    (∀ s : Str, (String.ofList s).toUTF8 = (utf8 s).toByteArray) ∧
    (∀ s : Str, (utf8 s).length = strLen s) ∧
    (∀ c : Char, 1 ≤ (utf8Char c).length ∧ (utf8Char c).length ≤ 4) :=
  ⟨utf8_append, utf8_toUTF8, utf8_length, fun c => ⟨utf8Char_length_pos c, utf8Char_length_le c⟩⟩

/-- The encoder against `String.toUTF8` on closed texts with 1-, 2-, 3- and 4-byte characters. -/
example : "aé€😀".toUTF8.data.toList = utf8 ['a', 'é', '€', '😀'] ∧
    utf8 ['a', 'é', '€', '😀'] = [0x61, 0xC3, 0xA9, 0xE2, 0x82, 0xAC, 0xF0, 0x9F, 0x98, 0x80] ∧
    "<?xml version=\"1.0\"?>\n<ü>߿ࠀ￿𐀀😀</ü>".toUTF8.data.toList
      = utf8 "<?xml version=\"1.0\"?>\n<ü>߿ࠀ￿𐀀😀</ü>".toList := by decide

/-- Non-vacuity: `<a>é€</a>` (the text is 2 characters, 5 bytes; env: name 2 = `a`).  The calls are `<a`, `>`, `é€`,
    `</a>`, 12 bytes.  Byte budgets 4, 5, 7 stop before, inside `é` and inside `€`: `Io`, the writer holds
    `<a>` + 1, 2, 4 bytes of the text; the character-level writer seen through the same budget holds `<a>`, `<a>`,
    `<a>é`; budget 12 gives `Ok` and all 12 bytes. -/
example :
    let env : Env := ⟨[[], xmlNs], [[], ['x','m','l']], [(['s','p','a','c','e'], 1), (['i','d'], 1), (['a'], 0)]⟩
    let t : Tree := .node .document [.node (.element 2) [.node (.text ['é', '€']) []]]
    (serializeXmlCalls xmlEscapers env {} t []).1.map String.ofList = ["<a", ">", "é€", "</a>"] ∧
    serializeXmlWriteB (.byteBudget 4) xmlEscapers env {} t [] = ([0x3C, 0x61, 0x3E, 0xC3], .err .io) ∧
    serializeXmlWriteB (.byteBudget 5) xmlEscapers env {} t [] = ([0x3C, 0x61, 0x3E, 0xC3, 0xA9], .err .io) ∧
    serializeXmlWriteB (.byteBudget 7) xmlEscapers env {} t [] = ([0x3C, 0x61, 0x3E, 0xC3, 0xA9, 0xE2, 0x82], .err .io) ∧
    (serializeXmlWriteW (BytePolicy.byteBudget 4).chars xmlEscapers env {} t []) = (['<', 'a', '>'], .err .io) ∧
    (serializeXmlWriteW (BytePolicy.byteBudget 7).chars xmlEscapers env {} t []) = (['<', 'a', '>', 'é'], .err .io) ∧
    serializeXmlWriteB (.byteBudget 11) xmlEscapers env {} t []
      = ([0x3C, 0x61, 0x3E, 0xC3, 0xA9, 0xE2, 0x82, 0xAC, 0x3C, 0x2F, 0x61], .err .io) ∧
    serializeXmlWriteB (.byteBudget 12) xmlEscapers env {} t []
      = ([0x3C, 0x61, 0x3E, 0xC3, 0xA9, 0xE2, 0x82, 0xAC, 0x3C, 0x2F, 0x61, 0x3E], .ok ()) := by decide

/-- Error priority at byte level: `<a><b:…/></a>`, `b`'s namespace undeclared, with a declaration: `MissingPrefix`
    arises after 25 bytes (`<?xml version="1.0"?>\n<a>`).  Budget 24 gives `Io`, budget 25 `MissingPrefix`. -/
example :
    let env : Env := ⟨[[], xmlNs, ['u']], [[], ['x','m','l']], [(['s','p','a','c','e'], 1), (['i','d'], 1), (['a'], 0), (['b'], 2)]⟩
    let t : Tree := .node .document [.node (.element 2) [.node (.element 3) []]]
    let p : XmlParams := { declaration := some {} }
    (utf8 (serializeXmlCalls xmlEscapers env p t []).1.flatten).length = 25 ∧
    (serializeXmlWriteB (.byteBudget 24) xmlEscapers env p t []).2 = .err .io ∧
    (serializeXmlWriteB (.byteBudget 24) xmlEscapers env p t []).1.length = 24 ∧
    (serializeXmlWriteB (.byteBudget 25) xmlEscapers env p t []).2 = .err (.missingPrefix 2) := by decide

end XotModel.Props
