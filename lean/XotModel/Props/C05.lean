/-
  C05 — Each manipulation call has exactly the effect an ordered-tree model predicts.
  Property theorems only.  The specification is `Model/FspecSpec.lean` (`specMove`, `specRemove`,
  `specDetach`, `specUnwrap`, `specWrap`, `specReplace`; `Forest.content` = the forest with the
  handles forgotten); proofs are in `Lemmas/Fspec*.lean`.
-/
import XotModel.Model.FspecSpec
import XotModel.Lemmas.ForestBasic
import XotModel.Lemmas.FspecDetach
import XotModel.Lemmas.FspecAppend
import XotModel.Lemmas.FspecContent
import XotModel.Lemmas.FspecString
import XotModel.Lemmas.FspecUnwrap
import XotModel.Lemmas.FspecWrap

namespace XotModel.Props
open XotModel XotModel.Spec

/-! ### The survivor of a merge: a recorded finding

  Property text: "text nodes that become adjacent are merged into the earlier one".  When a text
  node is placed BEFORE an existing text node (`prepend`, `insert_before`, and `insert_after` a
  non-text node that is followed by text) xot keeps the existing, i.e. LATER, node and destroys
  the node it was asked to move.  Pinned by xot's own unit tests
  (`test_insert_before_consolidate_text`, `test_prepend_consolidate_text`). -/

/-- `<a>y</a>` and a parentless text node `x`. -/
def laterWitness : Forest :=
  { roots := [.node 0 (.element 2) [.node 1 (.text ['y']) []], .node 2 (.text ['x']) []], next := 3 }

/-- The literal clause is false of the code: `prepend(a, x)` succeeds, the moved (earlier) node 2
    is destroyed and the later node 1 carries `xy`; likewise `insert_before(y, x)`. -/
theorem C05_later_survives_witness :
    laterWitness.inv = true ∧
    (laterWitness.prepend 0 2).2 = .ok ∧
    (laterWitness.prepend 0 2).1.isLive 2 = false ∧
    (laterWitness.prepend 0 2).1.value? 1 = some (.text ['x', 'y']) ∧
    (laterWitness.insertBefore 1 2).2 = .ok ∧
    (laterWitness.insertBefore 1 2).1.isLive 2 = false ∧
    (laterWitness.insertBefore 1 2).1.value? 1 = some (.text ['x', 'y']) ∧
    -- the specification with the rule of the property text keeps node 2 instead
    (specMove Keep.earlier (.firstNormalChildOf 0) 2 laterWitness).isLive 2 = true ∧
    -- and both agree once handles are forgotten
    (laterWitness.prepend 0 2).1.content = (specMove Keep.earlier (.firstNormalChildOf 0) 2 laterWitness).content := by
  decide

/-! ### Scope

  `Forest.Inv` is the C04 invariant.  `Forest.Normal f` says: if consolidation is on, the forest
  holds no adjacent text nodes.  It follows from `Forest.Inv` while consolidation has never been
  switched off (`normal_of_never_off`); after `set_text_consolidation(false)` … `(true)` adjacent
  text nodes may exist, xot then merges only the pair that becomes adjacent while the
  specification merges the whole run, so `Normal` is the boundary of the statements below. -/

theorem normal_of_never_off {f : Forest} (inv : f.Inv) (h : f.everOff = false) : f.Normal := by
  intro _
  have := inv.valid
  rw [h] at this
  exact this

/-! ### remove, detach -/

/-- `remove` destroys exactly the targeted subtree; the two text nodes it separated are merged
    into the earlier one (handle for handle, for either survivor rule). -/
theorem C05_remove {f : Forest} {n : Nat} (inv : f.Inv) (norm : f.Normal) (live : f.isLive n = true) :
    (f.remove n).1 = specRemove Keep.earlier n f ∧ (f.remove n).2 = .ok :=
  ⟨remove_spec (Keep.earlier_spec n) inv norm live, rfl⟩

/-- `detach`: the subtree becomes a parentless tree, nothing else changes but the merge of the two
    text nodes it separated. -/
theorem C05_detach {f : Forest} {n : Nat} (inv : f.Inv) (norm : f.Normal) (live : f.isLive n = true) :
    (f.detach n).1 = specDetach Keep.earlier n f ∧ (f.detach n).2 = .ok :=
  ⟨detach_spec (Keep.earlier_spec n) inv norm live, rfl⟩

/-! ### append -/

/-- A successful `append(p, c)` is the specification's move of `c` to the last position under
    `p`, handle for handle: with the survivor rule of the property text (the earlier node) … -/
theorem C05_append_exact {f : Forest} {p c : Nat} (inv : f.Inv) (norm : f.Normal)
    (hok : (f.append p c).2 = .ok) :
    (f.append p c).1 = specMove Keep.earlier (.lastChildOf p) c f :=
  append_spec (Keep.earlier_spec c) inv norm hok

/-- … and, equally, with xot's rule "the moved node never survives" (for `append` they coincide). -/
theorem C05_append_resident {f : Forest} {p c : Nat} (inv : f.Inv) (norm : f.Normal)
    (hok : (f.append p c).2 = .ok) :
    (f.append p c).1 = specMove (Keep.resident c) (.lastChildOf p) c f :=
  append_spec (Keep.resident_spec c) inv norm hok

/-- The statement with handles forgotten. -/
theorem C05_append {f : Forest} {p c : Nat} (inv : f.Inv) (norm : f.Normal)
    (hok : (f.append p c).2 = .ok) :
    (f.append p c).1.content = (specMove Keep.earlier (.lastChildOf p) c f).content := by
  rw [C05_append_exact inv norm hok]

/-- Same position: `append(p, c)` with `c` already the last child of `p` returns the forest itself. -/
theorem C05_samepos_append {f : Forest} {p c : Nat} (hc : f.structureCheck (some p) c = true)
    (h : f.lastChild p = some c) : f.append p c = (f, .ok) := by
  simp [Forest.append, hc, h]

/-! ### prepend, insert_after, insert_before

  All geometries: the moved node may be a parentless tree, a child of another node or a child of
  the destination parent itself (a reordering within one child list), including the case of
  `insert_after` where the reference node is the very text node that the merge at the old place
  consumes.  For each: the content statement with the survivor rule of the property text, and
  the handle-for-handle statement with xot's rule (`Keep.resident`: the moved node never
  survives a merge — the recorded finding `C05:text-placed-before-text-keeps-later-node`). -/

theorem C05_prepend {f : Forest} {p c : Nat} (inv : f.Inv) (norm : f.Normal)
    (hok : (f.prepend p c).2 = .ok) :
    (f.prepend p c).1.content = (specMove Keep.earlier (.firstNormalChildOf p) c f).content :=
  prepend_content inv norm hok

theorem C05_prepend_resident {f : Forest} {p c : Nat} (inv : f.Inv) (norm : f.Normal)
    (hok : (f.prepend p c).2 = .ok) :
    (f.prepend p c).1 = specMove (Keep.resident c) (.firstNormalChildOf p) c f :=
  prepend_spec inv norm hok

theorem C05_insertAfter {f : Forest} {r c : Nat} (inv : f.Inv) (norm : f.Normal)
    (hok : (f.insertAfter r c).2 = .ok) :
    (f.insertAfter r c).1.content = (specMove Keep.earlier (.after r) c f).content :=
  insertAfter_content inv norm hok

theorem C05_insertAfter_resident {f : Forest} {r c : Nat} (inv : f.Inv) (norm : f.Normal)
    (hok : (f.insertAfter r c).2 = .ok) :
    (f.insertAfter r c).1 = specMove (Keep.resident c) (.after r) c f :=
  insertAfter_spec inv norm hok

theorem C05_insertBefore {f : Forest} {r c : Nat} (inv : f.Inv) (norm : f.Normal)
    (hok : (f.insertBefore r c).2 = .ok) :
    (f.insertBefore r c).1.content = (specMove Keep.earlier (.before r) c f).content :=
  insertBefore_content inv norm hok

theorem C05_insertBefore_resident {f : Forest} {r c : Nat} (inv : f.Inv) (norm : f.Normal)
    (hok : (f.insertBefore r c).2 = .ok) :
    (f.insertBefore r c).1 = specMove (Keep.resident c) (.before r) c f :=
  insertBefore_spec inv norm hok

/-- Non-vacuity and the hard corner: `x<b/>y<c/>` (all children of one element), `insert_after(y, b)`:
    the old-site merge consumes the reference `y`; the call succeeds and gives `xy<b/><c/>`. -/
example :
    let f : Forest := { roots := [.node 0 (.element 2) [.node 1 (.text ['x']) [], .node 2 (.element 3) [],
                          .node 3 (.text ['y']) [], .node 4 (.element 6) []]], next := 5 }
    f.inv = true ∧ (f.insertAfter 3 2).2 = .ok ∧
      (f.insertAfter 3 2).1.content =
        [.node (.element 2) [.node (.text ['x', 'y']) [], .node (.element 3) [], .node (.element 6) []]] := by
  decide

/-- Same position, the other three moves: a call naming the place the node already occupies
    returns the forest itself. -/
theorem C05_samepos_prepend {f : Forest} {p c : Nat} (hc : f.structureCheck (some p) c = true)
    (h : f.firstChild p = some c) : f.prepend p c = (f, .ok) := by
  simp [Forest.prepend, hc, h]

theorem C05_samepos_insertAfter {f : Forest} {r c : Nat} (hc : f.structureCheck (f.parent? r) c = true)
    (hs : f.siblingReferenceCheck r c = true) (h : f.nextSibling r = some c) : f.insertAfter r c = (f, .ok) := by
  simp [Forest.insertAfter, hc, hs, h]

theorem C05_samepos_insertBefore {f : Forest} {r c : Nat} (hc : f.structureCheck (f.parent? r) c = true)
    (hs : f.siblingReferenceCheck r c = true) (h : f.prevSibling r = some c) : f.insertBefore r c = (f, .ok) := by
  simp [Forest.insertBefore, hc, hs, h]

/-- … and the specification agrees: an occupied destination means "no change". -/
theorem C05_samepos_spec (keep : Keep) (dest : Dest) (c : Nat) (f : Forest) (h : dest.occupiedBy f c = true) :
    specMove keep dest c f = f := by
  unfold specMove; rw [h]; rfl

/-! ### Frame: no other node is lost, reordered or altered

  `Ctx.shape` of a node = (parent handle, handles of the left siblings, own value, handles of the
  right siblings).  A node whose parent is neither the parent the moved subtree leaves nor the one
  it arrives at, and that does not lie in the moved subtree, keeps its shape. -/

theorem C05_frame_append {f : Forest} {p c : Nat} {t : HTree} (inv : f.Inv) (norm : f.Normal)
    (hok : (f.append p c).2 = .ok) (hgc : f.get? c = some t)
    {x : Nat} {cx : HTree.Ctx} (hx : f.ctx? x = some cx)
    (h1 : cx.parent ≠ p) (h2 : some cx.parent ≠ f.parent? c) (h3 : cx.parent ∉ HTree.handles t)
    (h4 : x ∉ HTree.handles t) :
    ∃ cx', (f.append p c).1.ctx? x = some cx' ∧ cx'.shape = cx.shape :=
  append_frame inv norm hok hgc hx h1 h2 h3 h4

theorem C05_frame_prepend {f : Forest} {p c : Nat} {t : HTree} (inv : f.Inv) (norm : f.Normal)
    (hok : (f.prepend p c).2 = .ok) (hgc : f.get? c = some t)
    {x : Nat} {cx : HTree.Ctx} (hx : f.ctx? x = some cx)
    (h1 : cx.parent ≠ p) (h2 : some cx.parent ≠ f.parent? c) (h3 : cx.parent ∉ HTree.handles t)
    (h4 : x ∉ HTree.handles t) :
    ∃ cx', (f.prepend p c).1.ctx? x = some cx' ∧ cx'.shape = cx.shape :=
  prepend_frame inv norm hok hgc hx h1 h2 h3 h4

theorem C05_frame_insertAfter {f : Forest} {r c q : Nat} {t : HTree} (inv : f.Inv) (norm : f.Normal)
    (hok : (f.insertAfter r c).2 = .ok) (hgc : f.get? c = some t) (hq : f.parent? r = some q)
    {x : Nat} {cx : HTree.Ctx} (hx : f.ctx? x = some cx)
    (h1 : cx.parent ≠ q) (h2 : some cx.parent ≠ f.parent? c) (h3 : cx.parent ∉ HTree.handles t)
    (h4 : x ∉ HTree.handles t) :
    ∃ cx', (f.insertAfter r c).1.ctx? x = some cx' ∧ cx'.shape = cx.shape :=
  insertAfter_frame inv norm hok hgc hq hx h1 h2 h3 h4

theorem C05_frame_insertBefore {f : Forest} {r c q : Nat} {t : HTree} (inv : f.Inv) (norm : f.Normal)
    (hok : (f.insertBefore r c).2 = .ok) (hgc : f.get? c = some t) (hq : f.parent? r = some q)
    {x : Nat} {cx : HTree.Ctx} (hx : f.ctx? x = some cx)
    (h1 : cx.parent ≠ q) (h2 : some cx.parent ≠ f.parent? c) (h3 : cx.parent ∉ HTree.handles t)
    (h4 : x ∉ HTree.handles t) :
    ∃ cx', (f.insertBefore r c).1.ctx? x = some cx' ∧ cx'.shape = cx.shape :=
  insertBefore_frame inv norm hok hgc hq hx h1 h2 h3 h4

theorem C05_frame_remove {f : Forest} {n : Nat} {t : HTree} (inv : f.Inv) (norm : f.Normal)
    (hg : f.get? n = some t) {x : Nat} {cx : HTree.Ctx} (hx : f.ctx? x = some cx)
    (h1 : some cx.parent ≠ f.parent? n) (h3 : cx.parent ∉ HTree.handles t) (h4 : x ∉ HTree.handles t) :
    ∃ cx', (f.remove n).1.ctx? x = some cx' ∧ cx'.shape = cx.shape :=
  remove_frame inv norm hg hx h1 h3 h4

/-! ### Which text node survives a merge at the destination (what the code does)

  After a text node: the EARLIER (existing) node survives.  Before a text node: the LATER
  (existing) node survives and the moved, earlier, node is destroyed — against the letter of the
  property ("merged into the earlier one"); recorded finding, pinned by xot's unit tests. -/

theorem C05_survivor_append {f : Forest} {p c a : Nat} {ta tc : Str} (inv : f.Inv) (norm : f.Normal)
    (hc : f.consolidation = true) (hsc : f.structureCheck (some p) c = true)
    (hlast : f.lastChild p = some a) (hac : a ≠ c)
    (hta : f.textOf a = some ta) (htc : f.textOf c = some tc) :
    (f.append p c).2 = .ok ∧ (f.append p c).1.isLive c = false ∧
      (f.append p c).1.value? a = some (.text (ta ++ tc)) :=
  append_survivor inv norm hc hsc hlast hac hta htc

theorem C05_survivor_insertAfter {f : Forest} {r c : Nat} {tr tc : Str} (inv : f.Inv) (norm : f.Normal)
    (hc : f.consolidation = true) (hsc : f.structureCheck (f.parent? r) c = true)
    (hsr : f.siblingReferenceCheck r c = true) (hsame : f.nextSibling r ≠ some c)
    (htr : f.textOf r = some tr) (htc : f.textOf c = some tc) :
    (f.insertAfter r c).2 = .ok ∧ (f.insertAfter r c).1.isLive c = false ∧
      (f.insertAfter r c).1.value? r = some (.text (tr ++ tc)) :=
  insertAfter_survivor inv norm hc hsc hsr hsame htr htc

/-- `prepend`: the LATER node survives. -/
theorem C05_survivor_prepend {f : Forest} {p c b : Nat} {tb tc : Str} (inv : f.Inv) (norm : f.Normal)
    (hc : f.consolidation = true) (hsc : f.structureCheck (some p) c = true)
    (hfirst : f.firstChild p = some b) (hbc : b ≠ c)
    (htb : f.textOf b = some tb) (htc : f.textOf c = some tc) :
    (f.prepend p c).2 = .ok ∧ (f.prepend p c).1.isLive c = false ∧
      (f.prepend p c).1.value? b = some (.text (tc ++ tb)) :=
  prepend_survivor inv norm hc hsc hfirst hbc htb htc

/-- `insert_before`: the LATER node survives (`hprev` holds automatically in a forest without
    adjacent text when `r` is a text node and `c` is not directly before it). -/
theorem C05_survivor_insertBefore {f : Forest} {r c : Nat} {tr tc : Str} (inv : f.Inv) (norm : f.Normal)
    (hc : f.consolidation = true) (hsc : f.structureCheck (f.parent? r) c = true)
    (hsr : f.siblingReferenceCheck r c = true) (hsame : f.prevSibling r ≠ some c)
    (hprev : ∀ a, f.prevSibling r = some a → f.textOf a = none)
    (htr : f.textOf r = some tr) (htc : f.textOf c = some tc) :
    (f.insertBefore r c).2 = .ok ∧ (f.insertBefore r c).1.isLive c = false ∧
      (f.insertBefore r c).1.value? r = some (.text (tc ++ tr)) :=
  insertBefore_survivor inv norm hc hsc hsr hsame hprev htr htc

/-! ### element_unwrap, element_wrap -/

/-- `element_unwrap` destroys exactly the wrapper: its normal children take its place, in order
    (its attribute and namespace nodes go with it), and the text nodes that become adjacent at
    the two seams are merged — including the three-way case `x<w>y</w>z`. Handle for handle, for
    either survivor rule. -/
theorem C05_unwrap {f : Forest} {n : Nat} (inv : f.Inv) (norm : f.Normal)
    (hok : (f.elementUnwrap n).2 = .ok) :
    (f.elementUnwrap n).1 = specUnwrap Keep.earlier n f :=
  unwrap_spec (Keep.earlier_spec n) inv norm hok

/-- `element_wrap` adds exactly one element — the fresh handle `f.next`, which is also the handle it
    returns — at the place of the node, with the node as its only child. -/
theorem C05_wrap {f : Forest} {n name : Nat} (inv : f.Inv) (norm : f.Normal)
    (hok : (f.elementWrap n name).2.1 = .ok) :
    (f.elementWrap n name).1 = specWrap n name f ∧ (f.elementWrap n name).2.2 = f.next :=
  wrap_spec inv norm hok

/-- Non-vacuity: the three-way merge of `element_unwrap` (`x<w>y</w>z` becomes `xyz`) and a wrap. -/
example :
    let f : Forest := { roots := [.node 0 (.element 2) [.node 1 (.text ['x']) [],
                          .node 2 (.element 3) [.node 3 (.attribute 2 ['v']) [], .node 4 (.text ['y']) []],
                          .node 5 (.text ['z']) []]], next := 6 }
    f.inv = true ∧ (f.elementUnwrap 2).2 = .ok ∧
      (f.elementUnwrap 2).1.content = [.node (.element 2) [.node (.text ['x', 'y', 'z']) []]] ∧
      (f.elementWrap 4 6).2.1 = .ok ∧ (f.elementWrap 4 6).2.2 = 6 := by
  decide

/-! ### String values

  `Forest.strValues` lists (handle, string value) of every node that is not a text node, in
  document order; `plainMove dest c f` is the same move on the plain ordered-tree model with
  consolidation off (cut, graft, nothing merged).  After a successful move every non-text node —
  in particular every ancestor of the old and of the new place — has exactly the string value the
  unmerged move gives it, and the non-text nodes are the same, in the same order. -/

theorem C05_stringvalue_append {f : Forest} {p c : Nat} (inv : f.Inv) (norm : f.Normal)
    (hok : (f.append p c).2 = .ok) :
    (f.append p c).1.strValues = (plainMove (.lastChildOf p) c f).strValues :=
  append_strValues inv norm hok

theorem C05_stringvalue_prepend {f : Forest} {p c : Nat} (inv : f.Inv) (norm : f.Normal)
    (hok : (f.prepend p c).2 = .ok) :
    (f.prepend p c).1.strValues = (plainMove (.firstNormalChildOf p) c f).strValues :=
  prepend_strValues inv norm hok

theorem C05_stringvalue_insertAfter {f : Forest} {r c : Nat} (inv : f.Inv) (norm : f.Normal)
    (hok : (f.insertAfter r c).2 = .ok) :
    (f.insertAfter r c).1.strValues = (plainMove (.after r) c f).strValues :=
  insertAfter_strValues inv norm hok

theorem C05_stringvalue_insertBefore {f : Forest} {r c : Nat} (inv : f.Inv) (norm : f.Normal)
    (hok : (f.insertBefore r c).2 = .ok) :
    (f.insertBefore r c).1.strValues = (plainMove (.before r) c f).strValues :=
  insertBefore_strValues inv norm hok

/-- When a text node is appended after a text node, the EARLIER node survives: it keeps its
    handle and carries both data, the appended node is gone. -/
theorem C05_survivor_append_witness :
    let f : Forest := { roots := [.node 0 (.element 2) [.node 1 (.text ['x']) []], .node 2 (.text ['y']) []], next := 3 }
    f.inv = true ∧ (f.append 0 2).2 = .ok ∧ (f.append 0 2).1.isLive 2 = false ∧
      (f.append 0 2).1.value? 1 = some (.text ['x', 'y']) := by
  decide

/-- Non-vacuity of the hypotheses: a forest satisfying `Inv` and `Normal` on which `append` succeeds
    with a merge at the old place (`x<b/>y` loses `b`) and none at the new one. -/
example :
    let f : Forest := { roots := [.node 0 (.element 2) [.node 1 (.text ['x']) [], .node 2 (.element 3) [], .node 3 (.text ['y']) []],
                                  .node 4 (.element 2) []], next := 5 }
    f.inv = true ∧ (f.append 4 2).2 = .ok ∧ (f.append 4 2).1.value? 1 = some (.text ['x', 'y']) ∧
      (f.append 4 2).1.isLive 3 = false := by
  decide

end XotModel.Props
