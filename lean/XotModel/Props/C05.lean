/-
  C05 — Each manipulation call has exactly the effect an ordered-tree model predicts.
  Property theorems only.  The specification is `Model/FspecSpec.lean` (`specMove`, `specRemove`,
  `specDetach`, `specUnwrap`, `specWrap`, `specReplace`; `Forest.content` = the forest with the
  handles forgotten); proofs are in `Lemmas/Fspec*.lean`.
-/
import XotModel.Model.FspecSpec
import XotModel.Lemmas.ForestBasic

namespace XotModel.Props
open XotModel XotModel.Spec

/-! ### The survivor of a merge: a recorded finding

  Property text: "text nodes that become adjacent are merged into the earlier one".  When a text
  node is placed BEFORE an existing text node (`prepend`, `insert_before`, and `insert_after` a
  non-text node that is followed by text) xot keeps the existing, i.e. LATER, node and destroys
  the node it was asked to move.  Pinned by xot's own unit tests
  (`test_insert_before_consolidate_text`, `test_prepend_consolidate_text`). -/

/-- `<a>y</a>` and a parentless text node `x`. -/
def laterWitness : Forest :=
  { roots := [.node 0 (.element 2) [.node 1 (.text ['y']) []], .node 2 (.text ['x']) []], next := 3 }

/-- The literal clause is false of the code: `prepend(a, x)` succeeds, the moved (earlier) node 2
    is destroyed and the later node 1 carries `xy`; likewise `insert_before(y, x)`. -/
theorem C05_later_survives_witness :
    laterWitness.inv = true ∧
    (laterWitness.prepend 0 2).2 = .ok ∧
    (laterWitness.prepend 0 2).1.isLive 2 = false ∧
    (laterWitness.prepend 0 2).1.value? 1 = some (.text ['x', 'y']) ∧
    (laterWitness.insertBefore 1 2).2 = .ok ∧
    (laterWitness.insertBefore 1 2).1.isLive 2 = false ∧
    (laterWitness.insertBefore 1 2).1.value? 1 = some (.text ['x', 'y']) ∧
    -- the specification with the rule of the property text keeps node 2 instead
    (specMove Keep.earlier (.firstNormalChildOf 0) 2 laterWitness).isLive 2 = true ∧
    -- and both agree once handles are forgotten
    (laterWitness.prepend 0 2).1.content = (specMove Keep.earlier (.firstNormalChildOf 0) 2 laterWitness).content := by
  decide

end XotModel.Props
