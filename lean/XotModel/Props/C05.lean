/-
  C05 — Each manipulation call has exactly the effect an ordered-tree model predicts.
  Property theorems only.  The specification is `Model/FspecSpec.lean` (`specMove`, `specRemove`,
  `specDetach`, `specUnwrap`, `specWrap`, `specReplace`; `Forest.content` = the forest with the
  handles forgotten) and `Model/FspecSpec2.lean` (`specReplaceX`, `specClone`, `specMapInsert`,
  `specMapRemove`, `specSetValue`, `specTextContentSet`); proofs are in `Lemmas/Fspec*.lean`
  (`clone_node` rests on the C12 development, the map updates on the C11 development).
  The PAIR reading (`Model/FspecSpec3.lean`, `FspecSpec4.lean`: `specMoveP`, `specRemoveP`, `specDetachP`,
  `specUnwrapP`, `specReplaceP`) is proved for EVERY forest with the invariant
  (`Lemmas/FspecPair*.lean`, `Lemmas/FspecAll*.lean`); see the last sections.
-/
import XotModel.Model.FspecSpec
import XotModel.Lemmas.ForestBasic
import XotModel.Lemmas.FspecDetach
import XotModel.Lemmas.FspecAppend
import XotModel.Lemmas.FspecContent
import XotModel.Lemmas.FspecString
import XotModel.Lemmas.FspecUnwrap
import XotModel.Lemmas.FspecWrap
import XotModel.Model.FspecSpec2
import XotModel.Model.FspecSpec3
import XotModel.Lemmas.FspecRepl4
import XotModel.Lemmas.FspecReplFrame3
import XotModel.Lemmas.FspecClone
import XotModel.Lemmas.FspecMapUpd3
import XotModel.Lemmas.FspecSet2
import XotModel.Lemmas.FspecPairRemove
import XotModel.Lemmas.FspecPairAppend4
import XotModel.Lemmas.FspecPairAfter3
import XotModel.Lemmas.FspecPairBefore4
import XotModel.Lemmas.FspecPairString
import XotModel.Lemmas.FcreationSpec
import XotModel.Model.FspecSpec4
import XotModel.Lemmas.FspecAllUnwrap
import XotModel.Lemmas.FspecAllNormal
import XotModel.Lemmas.FspecAllRepl6
import XotModel.Lemmas.FspecAllFrame2
import XotModel.Lemmas.FspecStrComposite
import XotModel.Lemmas.FspecFrameComposite
import XotModel.Lemmas.FspecFrameReplace
import XotModel.Lemmas.FparseHistStep
import XotModel.Lemmas.ParseWitness
import XotModel.Lemmas.FframeGeneralAll
import XotModel.Lemmas.FframeRestAll
import XotModel.Lemmas.FframeRestMoved

namespace XotModel.Props
open XotModel XotModel.Spec

/-! ### The survivor of a merge: a recorded finding

  Property text: "text nodes that become adjacent are merged into the earlier one".  When a text
  node is placed BEFORE an existing text node (`prepend`, `insert_before`, and `insert_after` a
  non-text node that is followed by text) xot keeps the existing, i.e. LATER, node and destroys
  the node it was asked to move.  Pinned by xot's own unit tests
  (`test_insert_before_consolidate_text`, `test_prepend_consolidate_text`). -/

/-- `<a>y</a>` and a parentless text node `x`. -/
def laterWitness : Forest :=
  { roots := [.node 0 (.element 2) [.node 1 (.text ['y']) []], .node 2 (.text ['x']) []], next := 3 }

/-- The literal clause is false of the code: `prepend(a, x)` succeeds, the moved (earlier) node 2
    is destroyed and the later node 1 carries `xy`; likewise `insert_before(y, x)`. -/
theorem C05_later_survives_witness :
    laterWitness.inv = true ∧
    (laterWitness.prepend 0 2).2 = .ok ∧
    (laterWitness.prepend 0 2).1.isLive 2 = false ∧
    (laterWitness.prepend 0 2).1.value? 1 = some (.text ['x', 'y']) ∧
    (laterWitness.insertBefore 1 2).2 = .ok ∧
    (laterWitness.insertBefore 1 2).1.isLive 2 = false ∧
    (laterWitness.insertBefore 1 2).1.value? 1 = some (.text ['x', 'y']) ∧
    -- the specification with the rule of the property text keeps node 2 instead
    (specMove Keep.earlier (.firstNormalChildOf 0) 2 laterWitness).isLive 2 = true ∧
    -- and both agree once handles are forgotten
    (laterWitness.prepend 0 2).1.content = (specMove Keep.earlier (.firstNormalChildOf 0) 2 laterWitness).content := by
  decide

/-! ### Scope

  `Forest.Inv` is the C04 invariant.  `Forest.Normal f` says: if consolidation is on, the forest
  holds no adjacent text nodes.  It follows from `Forest.Inv` while consolidation has never been
  switched off (`normal_of_never_off`); after `set_text_consolidation(false)` … `(true)` adjacent
  text nodes may exist, xot then merges only the pair that becomes adjacent while the
  specification merges the whole run, so `Normal` is the boundary of the statements below. -/

theorem normal_of_never_off {f : Forest} (inv : f.Inv) (h : f.everOff = false) : f.Normal := by
  intro _
  have := inv.valid
  rw [h] at this
  exact this

/-! ### remove, detach -/

/-- `remove` destroys exactly the targeted subtree; the two text nodes it separated are merged
    into the earlier one (handle for handle, for either survivor rule). -/
theorem C05_remove {f : Forest} {n : Nat} (inv : f.Inv) (norm : f.Normal) (live : f.isLive n = true) :
    (f.remove n).1 = specRemove Keep.earlier n f ∧ (f.remove n).2 = .ok :=
  ⟨remove_spec (Keep.earlier_spec n) inv norm live, rfl⟩

/-- `detach`: the subtree becomes a parentless tree, nothing else changes but the merge of the two
    text nodes it separated. -/
theorem C05_detach {f : Forest} {n : Nat} (inv : f.Inv) (norm : f.Normal) (live : f.isLive n = true) :
    (f.detach n).1 = specDetach Keep.earlier n f ∧ (f.detach n).2 = .ok :=
  ⟨detach_spec (Keep.earlier_spec n) inv norm live, rfl⟩

/-! ### append -/

/-- A successful `append(p, c)` is the specification's move of `c` to the last position under
    `p`, handle for handle: with the survivor rule of the property text (the earlier node) … -/
theorem C05_append_exact {f : Forest} {p c : Nat} (inv : f.Inv) (norm : f.Normal)
    (hok : (f.append p c).2 = .ok) :
    (f.append p c).1 = specMove Keep.earlier (.lastChildOf p) c f :=
  append_spec (Keep.earlier_spec c) inv norm hok

/-- … and, equally, with xot's rule "the moved node never survives" (for `append` they coincide). -/
theorem C05_append_resident {f : Forest} {p c : Nat} (inv : f.Inv) (norm : f.Normal)
    (hok : (f.append p c).2 = .ok) :
    (f.append p c).1 = specMove (Keep.resident c) (.lastChildOf p) c f :=
  append_spec (Keep.resident_spec c) inv norm hok

/-- The statement with handles forgotten. -/
theorem C05_append {f : Forest} {p c : Nat} (inv : f.Inv) (norm : f.Normal)
    (hok : (f.append p c).2 = .ok) :
    (f.append p c).1.content = (specMove Keep.earlier (.lastChildOf p) c f).content := by
  rw [C05_append_exact inv norm hok]

/-- Same position: `append(p, c)` with `c` already the last child of `p` returns the forest itself. -/
theorem C05_samepos_append {f : Forest} {p c : Nat} (hc : f.structureCheck (some p) c = true)
    (h : f.lastChild p = some c) : f.append p c = (f, .ok) := by
  simp [Forest.append, hc, h]

/-! ### prepend, insert_after, insert_before

  All geometries: the moved node may be a parentless tree, a child of another node or a child of
  the destination parent itself (a reordering within one child list), including the case of
  `insert_after` where the reference node is the very text node that the merge at the old place
  consumes.  For each: the content statement with the survivor rule of the property text, and
  the handle-for-handle statement with xot's rule (`Keep.resident`: the moved node never
  survives a merge — the recorded finding `C05:text-placed-before-text-keeps-later-node`). -/

theorem C05_prepend {f : Forest} {p c : Nat} (inv : f.Inv) (norm : f.Normal)
    (hok : (f.prepend p c).2 = .ok) :
    (f.prepend p c).1.content = (specMove Keep.earlier (.firstNormalChildOf p) c f).content :=
  prepend_content inv norm hok

theorem C05_prepend_resident {f : Forest} {p c : Nat} (inv : f.Inv) (norm : f.Normal)
    (hok : (f.prepend p c).2 = .ok) :
    (f.prepend p c).1 = specMove (Keep.resident c) (.firstNormalChildOf p) c f :=
  prepend_spec inv norm hok

theorem C05_insertAfter {f : Forest} {r c : Nat} (inv : f.Inv) (norm : f.Normal)
    (hok : (f.insertAfter r c).2 = .ok) :
    (f.insertAfter r c).1.content = (specMove Keep.earlier (.after r) c f).content :=
  insertAfter_content inv norm hok

theorem C05_insertAfter_resident {f : Forest} {r c : Nat} (inv : f.Inv) (norm : f.Normal)
    (hok : (f.insertAfter r c).2 = .ok) :
    (f.insertAfter r c).1 = specMove (Keep.resident c) (.after r) c f :=
  insertAfter_spec inv norm hok

theorem C05_insertBefore {f : Forest} {r c : Nat} (inv : f.Inv) (norm : f.Normal)
    (hok : (f.insertBefore r c).2 = .ok) :
    (f.insertBefore r c).1.content = (specMove Keep.earlier (.before r) c f).content :=
  insertBefore_content inv norm hok

theorem C05_insertBefore_resident {f : Forest} {r c : Nat} (inv : f.Inv) (norm : f.Normal)
    (hok : (f.insertBefore r c).2 = .ok) :
    (f.insertBefore r c).1 = specMove (Keep.resident c) (.before r) c f :=
  insertBefore_spec inv norm hok

/-- Non-vacuity and the hard corner: `x<b/>y<c/>` (all children of one element), `insert_after(y, b)`:
    the old-site merge consumes the reference `y`; the call succeeds and gives `xy<b/><c/>`. -/
example :
    let f : Forest := { roots := [.node 0 (.element 2) [.node 1 (.text ['x']) [], .node 2 (.element 3) [],
                          .node 3 (.text ['y']) [], .node 4 (.element 6) []]], next := 5 }
    f.inv = true ∧ (f.insertAfter 3 2).2 = .ok ∧
      (f.insertAfter 3 2).1.content =
        [.node (.element 2) [.node (.text ['x', 'y']) [], .node (.element 3) [], .node (.element 6) []]] := by
  decide

/-- Same position, the other three moves: a call naming the place the node already occupies
    returns the forest itself. -/
theorem C05_samepos_prepend {f : Forest} {p c : Nat} (hc : f.structureCheck (some p) c = true)
    (h : f.firstChild p = some c) : f.prepend p c = (f, .ok) := by
  simp [Forest.prepend, hc, h]

theorem C05_samepos_insertAfter {f : Forest} {r c : Nat} (hc : f.structureCheck (f.parent? r) c = true)
    (hs : f.siblingReferenceCheck r c = true) (h : f.nextSibling r = some c) : f.insertAfter r c = (f, .ok) := by
  simp [Forest.insertAfter, hc, hs, h]

theorem C05_samepos_insertBefore {f : Forest} {r c : Nat} (hc : f.structureCheck (f.parent? r) c = true)
    (hs : f.siblingReferenceCheck r c = true) (h : f.prevSibling r = some c) : f.insertBefore r c = (f, .ok) := by
  simp [Forest.insertBefore, hc, hs, h]

/-- … and the specification agrees: an occupied destination means "no change". -/
theorem C05_samepos_spec (keep : Keep) (dest : Dest) (c : Nat) (f : Forest) (h : dest.occupiedBy f c = true) :
    specMove keep dest c f = f := by
  unfold specMove; rw [h]; rfl

/-! ### Frame: no other node is lost, reordered or altered

  `Ctx.shape` of a node = (parent handle, handles of the left siblings, own value, handles of the
  right siblings).  A node whose parent is neither the parent the moved subtree leaves nor the one
  it arrives at, and that does not lie in the moved subtree, keeps its shape. -/

theorem C05_frame_append {f : Forest} {p c : Nat} {t : HTree} (inv : f.Inv) (norm : f.Normal)
    (hok : (f.append p c).2 = .ok) (hgc : f.get? c = some t)
    {x : Nat} {cx : HTree.Ctx} (hx : f.ctx? x = some cx)
    (h1 : cx.parent ≠ p) (h2 : some cx.parent ≠ f.parent? c) (h3 : cx.parent ∉ HTree.handles t)
    (h4 : x ∉ HTree.handles t) :
    ∃ cx', (f.append p c).1.ctx? x = some cx' ∧ cx'.shape = cx.shape :=
  append_frame inv norm hok hgc hx h1 h2 h3 h4

theorem C05_frame_prepend {f : Forest} {p c : Nat} {t : HTree} (inv : f.Inv) (norm : f.Normal)
    (hok : (f.prepend p c).2 = .ok) (hgc : f.get? c = some t)
    {x : Nat} {cx : HTree.Ctx} (hx : f.ctx? x = some cx)
    (h1 : cx.parent ≠ p) (h2 : some cx.parent ≠ f.parent? c) (h3 : cx.parent ∉ HTree.handles t)
    (h4 : x ∉ HTree.handles t) :
    ∃ cx', (f.prepend p c).1.ctx? x = some cx' ∧ cx'.shape = cx.shape :=
  prepend_frame inv norm hok hgc hx h1 h2 h3 h4

theorem C05_frame_insertAfter {f : Forest} {r c q : Nat} {t : HTree} (inv : f.Inv) (norm : f.Normal)
    (hok : (f.insertAfter r c).2 = .ok) (hgc : f.get? c = some t) (hq : f.parent? r = some q)
    {x : Nat} {cx : HTree.Ctx} (hx : f.ctx? x = some cx)
    (h1 : cx.parent ≠ q) (h2 : some cx.parent ≠ f.parent? c) (h3 : cx.parent ∉ HTree.handles t)
    (h4 : x ∉ HTree.handles t) :
    ∃ cx', (f.insertAfter r c).1.ctx? x = some cx' ∧ cx'.shape = cx.shape :=
  insertAfter_frame inv norm hok hgc hq hx h1 h2 h3 h4

theorem C05_frame_insertBefore {f : Forest} {r c q : Nat} {t : HTree} (inv : f.Inv) (norm : f.Normal)
    (hok : (f.insertBefore r c).2 = .ok) (hgc : f.get? c = some t) (hq : f.parent? r = some q)
    {x : Nat} {cx : HTree.Ctx} (hx : f.ctx? x = some cx)
    (h1 : cx.parent ≠ q) (h2 : some cx.parent ≠ f.parent? c) (h3 : cx.parent ∉ HTree.handles t)
    (h4 : x ∉ HTree.handles t) :
    ∃ cx', (f.insertBefore r c).1.ctx? x = some cx' ∧ cx'.shape = cx.shape :=
  insertBefore_frame inv norm hok hgc hq hx h1 h2 h3 h4

theorem C05_frame_remove {f : Forest} {n : Nat} {t : HTree} (inv : f.Inv) (norm : f.Normal)
    (hg : f.get? n = some t) {x : Nat} {cx : HTree.Ctx} (hx : f.ctx? x = some cx)
    (h1 : some cx.parent ≠ f.parent? n) (h3 : cx.parent ∉ HTree.handles t) (h4 : x ∉ HTree.handles t) :
    ∃ cx', (f.remove n).1.ctx? x = some cx' ∧ cx'.shape = cx.shape :=
  remove_frame inv norm hg hx h1 h3 h4

/-! ### Which text node survives a merge at the destination (what the code does)

  After a text node: the EARLIER (existing) node survives.  Before a text node: the LATER
  (existing) node survives and the moved, earlier, node is destroyed — against the letter of the
  property ("merged into the earlier one"); recorded finding, pinned by xot's unit tests. -/

theorem C05_survivor_append {f : Forest} {p c a : Nat} {ta tc : Str} (inv : f.Inv) (norm : f.Normal)
    (hc : f.consolidation = true) (hsc : f.structureCheck (some p) c = true)
    (hlast : f.lastChild p = some a) (hac : a ≠ c)
    (hta : f.textOf a = some ta) (htc : f.textOf c = some tc) :
    (f.append p c).2 = .ok ∧ (f.append p c).1.isLive c = false ∧
      (f.append p c).1.value? a = some (.text (ta ++ tc)) :=
  append_survivor inv norm hc hsc hlast hac hta htc

theorem C05_survivor_insertAfter {f : Forest} {r c : Nat} {tr tc : Str} (inv : f.Inv) (norm : f.Normal)
    (hc : f.consolidation = true) (hsc : f.structureCheck (f.parent? r) c = true)
    (hsr : f.siblingReferenceCheck r c = true) (hsame : f.nextSibling r ≠ some c)
    (htr : f.textOf r = some tr) (htc : f.textOf c = some tc) :
    (f.insertAfter r c).2 = .ok ∧ (f.insertAfter r c).1.isLive c = false ∧
      (f.insertAfter r c).1.value? r = some (.text (tr ++ tc)) :=
  insertAfter_survivor inv norm hc hsc hsr hsame htr htc

/-- `prepend`: the LATER node survives. -/
theorem C05_survivor_prepend {f : Forest} {p c b : Nat} {tb tc : Str} (inv : f.Inv) (norm : f.Normal)
    (hc : f.consolidation = true) (hsc : f.structureCheck (some p) c = true)
    (hfirst : f.firstChild p = some b) (hbc : b ≠ c)
    (htb : f.textOf b = some tb) (htc : f.textOf c = some tc) :
    (f.prepend p c).2 = .ok ∧ (f.prepend p c).1.isLive c = false ∧
      (f.prepend p c).1.value? b = some (.text (tc ++ tb)) :=
  prepend_survivor inv norm hc hsc hfirst hbc htb htc

/-- `insert_before`: the LATER node survives (`hprev` holds automatically in a forest without
    adjacent text when `r` is a text node and `c` is not directly before it). -/
theorem C05_survivor_insertBefore {f : Forest} {r c : Nat} {tr tc : Str} (inv : f.Inv) (norm : f.Normal)
    (hc : f.consolidation = true) (hsc : f.structureCheck (f.parent? r) c = true)
    (hsr : f.siblingReferenceCheck r c = true) (hsame : f.prevSibling r ≠ some c)
    (hprev : ∀ a, f.prevSibling r = some a → f.textOf a = none)
    (htr : f.textOf r = some tr) (htc : f.textOf c = some tc) :
    (f.insertBefore r c).2 = .ok ∧ (f.insertBefore r c).1.isLive c = false ∧
      (f.insertBefore r c).1.value? r = some (.text (tc ++ tr)) :=
  insertBefore_survivor inv norm hc hsc hsr hsame hprev htr htc

/-! ### element_unwrap, element_wrap -/

/-- `element_unwrap` destroys exactly the wrapper: its normal children take its place, in order
    (its attribute and namespace nodes go with it), and the text nodes that become adjacent at
    the two seams are merged — including the three-way case `x<w>y</w>z`. Handle for handle, for
    either survivor rule. -/
theorem C05_unwrap {f : Forest} {n : Nat} (inv : f.Inv) (norm : f.Normal)
    (hok : (f.elementUnwrap n).2 = .ok) :
    (f.elementUnwrap n).1 = specUnwrap Keep.earlier n f :=
  unwrap_spec (Keep.earlier_spec n) inv norm hok

/-- `element_wrap` adds exactly one element — the fresh handle `f.next`, which is also the handle it
    returns — at the place of the node, with the node as its only child. -/
theorem C05_wrap {f : Forest} {n name : Nat} (inv : f.Inv) (norm : f.Normal)
    (hok : (f.elementWrap n name).2.1 = .ok) :
    (f.elementWrap n name).1 = specWrap n name f ∧ (f.elementWrap n name).2.2 = f.next :=
  wrap_spec inv norm hok

/-- Non-vacuity: the three-way merge of `element_unwrap` (`x<w>y</w>z` becomes `xyz`) and a wrap. -/
example :
    let f : Forest := { roots := [.node 0 (.element 2) [.node 1 (.text ['x']) [],
                          .node 2 (.element 3) [.node 3 (.attribute 2 ['v']) [], .node 4 (.text ['y']) []],
                          .node 5 (.text ['z']) []]], next := 6 }
    f.inv = true ∧ (f.elementUnwrap 2).2 = .ok ∧
      (f.elementUnwrap 2).1.content = [.node (.element 2) [.node (.text ['x', 'y', 'z']) []]] ∧
      (f.elementWrap 4 6).2.1 = .ok ∧ (f.elementWrap 4 6).2.2 = 6 := by
  decide

/-! ### String values

  `Forest.strValues` lists (handle, string value) of every node that is not a text node, in
  document order; `plainMove dest c f` is the same move on the plain ordered-tree model with
  consolidation off (cut, graft, nothing merged).  After a successful move every non-text node —
  in particular every ancestor of the old and of the new place — has exactly the string value the
  unmerged move gives it, and the non-text nodes are the same, in the same order. -/

theorem C05_stringvalue_append {f : Forest} {p c : Nat} (inv : f.Inv) (norm : f.Normal)
    (hok : (f.append p c).2 = .ok) :
    (f.append p c).1.strValues = (plainMove (.lastChildOf p) c f).strValues :=
  append_strValues inv norm hok

theorem C05_stringvalue_prepend {f : Forest} {p c : Nat} (inv : f.Inv) (norm : f.Normal)
    (hok : (f.prepend p c).2 = .ok) :
    (f.prepend p c).1.strValues = (plainMove (.firstNormalChildOf p) c f).strValues :=
  prepend_strValues inv norm hok

theorem C05_stringvalue_insertAfter {f : Forest} {r c : Nat} (inv : f.Inv) (norm : f.Normal)
    (hok : (f.insertAfter r c).2 = .ok) :
    (f.insertAfter r c).1.strValues = (plainMove (.after r) c f).strValues :=
  insertAfter_strValues inv norm hok

theorem C05_stringvalue_insertBefore {f : Forest} {r c : Nat} (inv : f.Inv) (norm : f.Normal)
    (hok : (f.insertBefore r c).2 = .ok) :
    (f.insertBefore r c).1.strValues = (plainMove (.before r) c f).strValues :=
  insertBefore_strValues inv norm hok

/-- When a text node is appended after a text node, the EARLIER node survives: it keeps its
    handle and carries both data, the appended node is gone. -/
theorem C05_survivor_append_witness :
    let f : Forest := { roots := [.node 0 (.element 2) [.node 1 (.text ['x']) []], .node 2 (.text ['y']) []], next := 3 }
    f.inv = true ∧ (f.append 0 2).2 = .ok ∧ (f.append 0 2).1.isLive 2 = false ∧
      (f.append 0 2).1.value? 1 = some (.text ['x', 'y']) := by
  decide

/-- Non-vacuity of the hypotheses: a forest satisfying `Inv` and `Normal` on which `append` succeeds
    with a merge at the old place (`x<b/>y` loses `b`) and none at the new one. -/
example :
    let f : Forest := { roots := [.node 0 (.element 2) [.node 1 (.text ['x']) [], .node 2 (.element 3) [], .node 3 (.text ['y']) []],
                                  .node 4 (.element 2) []], next := 5 }
    f.inv = true ∧ (f.append 4 2).2 = .ok ∧ (f.append 4 2).1.value? 1 = some (.text ['x', 'y']) ∧
      (f.append 4 2).1.isLive 3 = false := by
  decide

/-! ### replace

  `specReplace keep a b f` (`FspecSpec.lean`): the replacing subtree `b` is cut from wherever it is
  (the text nodes it separated there are merged), the replaced subtree `a` disappears, `b` stands
  where `a` stood, and the text runs of the two touched child lists are merged — three-way
  `x b z` when `b` is a text node put between two text nodes.  `specReplaceX` fixes the survivor
  rule xot follows: `b` already next to `a` — the call is `remove(a)` and the earlier node of the
  merged pair survives (also when it is the replacing node); otherwise `b` is moved and, like
  every moved node, never survives a merge (`Keep.resident b`).  Proved for all geometries: `b`
  parentless, in another tree, under another parent, or a sibling of `a`; `a` between two text
  nodes (where `remove_subtree(a)` leaves an intermediate forest with two adjacent text nodes) or
  not; consolidation on or off. -/

/-- A successful `replace(a, b)` is the specification, handle for handle. -/
theorem C05_replace_exact {f : Forest} {a b : Nat} (inv : f.Inv) (norm : f.Normal)
    (hok : (f.replace a b).2 = .ok) :
    (f.replace a b).1 = specReplaceX a b f :=
  replace_spec inv norm hok

/-- … and, handles forgotten, the specification with the survivor rule of the property text. -/
theorem C05_replace {f : Forest} {a b : Nat} (inv : f.Inv) (norm : f.Normal)
    (hok : (f.replace a b).2 = .ok) :
    (f.replace a b).1.content = (specReplace Keep.earlier a b f).content := by
  rw [replace_spec inv norm hok]
  obtain ⟨q, vq, l, A, r, t, ra, _⟩ := replace_unpack inv hok
  exact specReplace_content_keep inv ra _ _

/-- Exactly the replaced subtree is destroyed: handles stay distinct, no handle is created (every
    handle afterwards is an old one outside the replaced subtree `A`, so all of `A` is gone), and
    every other node that is not a text node is still there; no handle is handed out.  (A text
    node can disappear only by being merged into its left neighbour, as in every move — precisely:
    only if it is `b` itself, a child of `a`'s parent or a child of `b`'s old parent.) -/
theorem C05_replace_destroys {f : Forest} {a b : Nat} {A : HTree} (inv : f.Inv) (norm : f.Normal)
    (hok : (f.replace a b).2 = .ok) (hA : f.get? a = some A) :
    (f.replace a b).1.allHandles.Nodup ∧
    (∀ h ∈ (f.replace a b).1.allHandles, h ∈ f.allHandles ∧ h ∉ HTree.handles A) ∧
    (∀ h ∈ f.allHandles, h ∉ HTree.handles A → f.textOf h = none → h ∈ (f.replace a b).1.allHandles) ∧
    (∀ h ∈ f.allHandles, h ∉ HTree.handles A → h ≠ b →
      (∀ p, f.parent? h = some p → some p ≠ f.parent? a ∧ some p ≠ f.parent? b) →
      h ∈ (f.replace a b).1.allHandles) ∧
    (f.replace a b).1.next = f.next := by
  rw [replace_spec inv norm hok]
  obtain ⟨q, vq, l, A', r, t, ra, _⟩ := replace_unpack inv hok
  have e : A' = A := by
    have := ra.live_a; rw [hA] at this; exact (Option.some.inj this).symm
  subst e
  have hq : f.parent? a = some q := Forest.parent?_of_ctx ra.ctx_a
  refine ⟨specReplace_nodup _ inv ra, specReplace_handles_sub _ inv ra, specReplace_handles_kept _ inv ra, ?_,
    (specReplace_flags _ inv ra).1⟩
  intro h hh hnA hb hp
  apply specReplace_handles_kept_precise _ inv ra hh hnA
  right; right
  refine ⟨hb, fun p e => ?_⟩
  obtain ⟨p1, p2⟩ := hp p e
  exact ⟨fun e' => p1 (by rw [hq, e']), p2⟩

/-- Frame: a node outside the replacing subtree `t` whose parent is neither `a`'s parent nor
    `b`'s old parent (and lies neither in `t` nor in the replaced subtree `A`) keeps its parent,
    its value and the handles of its left and right siblings. -/
theorem C05_frame_replace {f : Forest} {a b q : Nat} {A t : HTree} (inv : f.Inv) (norm : f.Normal)
    (hok : (f.replace a b).2 = .ok) (hA : f.get? a = some A) (hb : f.get? b = some t)
    (hq : f.parent? a = some q)
    {x : Nat} {cx : HTree.Ctx} (hx : f.ctx? x = some cx)
    (h1 : cx.parent ≠ q) (h2 : some cx.parent ≠ f.parent? b) (h3 : cx.parent ∉ HTree.handles t)
    (h4 : x ∉ HTree.handles t) (h5 : cx.parent ∉ HTree.handles A) :
    ∃ cx', (f.replace a b).1.ctx? x = some cx' ∧ cx'.shape = cx.shape := by
  rw [replace_spec inv norm hok]
  obtain ⟨q', vq, l, A', r, t', ra, _⟩ := replace_unpack inv hok
  have e1 : A' = A := by
    have := ra.live_a; rw [hA] at this; exact (Option.some.inj this).symm
  have e2 : t' = t := by
    have := ra.hgb; rw [hb] at this; exact (Option.some.inj this).symm
  have e3 : q' = q := by
    have := Forest.parent?_of_ctx ra.ctx_a; rw [hq] at this; exact (Option.some.inj this).symm
  subst e1 e2 e3
  exact frame_specReplace _ inv ra hx h1 h2 h3 h4 h5

/-- Non-vacuity and the three-way merge: `<p>x<a/>z</p>` and a parentless text node `y`:
    `replace(a, y)` gives `<p>xyz</p>` in ONE text node, the earlier one (xot f7b549c); the replaced
    node between two text nodes and a replacing element whose removal makes its own neighbours
    merge (`u<b/>v` elsewhere). -/
example :
    let f : Forest := { roots := [.node 0 (.element 2) [.node 1 (.text ['x']) [], .node 2 (.element 3) [],
                          .node 3 (.text ['z']) []], .node 4 (.text ['y']) [],
                          .node 5 (.element 6) [.node 6 (.text ['u']) [], .node 7 (.element 9) [], .node 8 (.text ['v']) []]],
                        next := 9 }
    f.inv = true ∧ (f.replace 2 4).2 = .ok ∧
      (f.replace 2 4).1.content = [.node (.element 2) [.node (.text ['x', 'y', 'z']) []],
        .node (.element 6) [.node (.text ['u']) [], .node (.element 9) [], .node (.text ['v']) []]] ∧
      (f.replace 2 4).1.value? 1 = some (.text ['x', 'y', 'z']) ∧
      (f.replace 2 4).1 = specReplaceX 2 4 f ∧
      (f.replace 2 7).2 = .ok ∧
      (f.replace 2 7).1.content = [.node (.element 2) [.node (.text ['x']) [], .node (.element 9) [], .node (.text ['z']) []],
        .node (.text ['y']) [], .node (.element 6) [.node (.text ['u', 'v']) []]] ∧
      (f.replace 2 7).1 = specReplaceX 2 7 f := by
  decide

/-! ### clone_node

  "clone_node adds exactly one copy": a corollary of the C12 development (`cloneNode_full`). -/

/-- `clone_node` of a live node cannot panic; the old trees stay, unchanged and in order; exactly
    one tree is added after them, its root is the returned node, all its handles are new; with
    handles forgotten the forest is the old content followed by the copy (`specCloneContent`), and
    handle for handle it is `specClone` (the structural copy numbered from `f.next`). -/
theorem C05_clone_node {f : Forest} {n : Nat} {src : HTree} (inv : f.Inv) (hsrc : f.get? n = some src) :
    ∃ c C, (f.cloneNode n).2 = some c ∧ C.handle = c ∧
      (f.cloneNode n).1.roots = f.roots ++ [C] ∧
      (f.cloneNode n).1.content = specCloneContent n f ∧
      (∀ h ∈ HTree.handles C, f.next ≤ h ∧ h < (f.cloneNode n).1.next ∧ h ∉ f.allHandles) ∧
      (f.cloneNode n).1.consolidation = f.consolidation ∧ (f.cloneNode n).1.everOff = f.everOff ∧
      (f.cloneNode n).1.corrupt = f.corrupt :=
  cloneNode_spec' inv hsrc

theorem C05_clone_node_exact {f : Forest} {n : Nat} {src : HTree} (inv : f.Inv) (hsrc : f.get? n = some src) :
    (f.cloneNode n).1 = specClone n f :=
  cloneNode_eq_specClone inv hsrc

/-- In a forest without adjacent text nodes the copy is literally the source. -/
theorem C05_clone_node_normal {f : Forest} {n : Nat} {src : HTree} (inv : f.Inv) (norm : f.Normal)
    (hsrc : f.get? n = some src) :
    (f.cloneNode n).1.content = f.content ++ [src.erase] := by
  obtain ⟨c, C, _, _, _, h, _⟩ := cloneNode_spec' inv hsrc
  rw [h, specCloneContent_normal norm hsrc]

example :
    let f : Forest := { roots := [.node 0 (.element 2) [.node 1 (.attribute 5 ['v']) [], .node 2 (.text ['x']) [],
                          .node 3 (.element 3) []]], next := 4 }
    f.inv = true ∧ (f.cloneNode 0).2 = some 5 ∧
      (f.cloneNode 0).1.content = f.content ++ f.content ∧ (f.cloneNode 0).1 = specClone 0 f := by
  decide +kernel

/-! ### Attribute and namespace updates touch exactly one entry

  `insert(key, value)` / `remove(key)` on the attribute or namespace view `k` of an element `e`
  (`set_attribute`, `set_namespace`, `remove_attribute`, …). -/

/-- `insert` is the specification: one edit of `e`'s child list. -/
theorem C05_map_insert {f : Forest} {k : Forest.MapKind} {e : Nat} {entry : Value} (inv : f.Inv)
    (he : f.isElement e = true) (hm : k.matches entry = true) :
    f.mapInsert k e entry = (specMapInsert k e entry f, .ok) :=
  mapInsert_spec inv he hm

/-- … the child list of `e` afterwards: an existing key keeps its node (handle, place), only the
    payload changes, nothing is created; a new key is carried by exactly one new leaf `f.next`
    placed after the view's entries; every other child is the same node at the same place. -/
theorem C05_map_insert_entry {f : Forest} {k : Forest.MapKind} {e : Nat} {entry v : Value} {ks : List HTree}
    (inv : f.Inv) (he : f.isElement e = true) (hm : k.matches entry = true)
    (hg : f.get? e = some (.node e v ks)) :
    (∀ n, ks.find? (isEntry k (Forest.entryKey entry)) = some n →
      ∃ X Y, ks = X ++ n :: Y ∧ (∀ c ∈ X, isEntry k (Forest.entryKey entry) c = false) ∧
        (f.mapInsert k e entry).1.get? e =
          some (.node e v (X ++ n.setValue (Forest.entryUpdate n.value entry) :: Y)) ∧
        (f.mapInsert k e entry).1.next = f.next) ∧
    (ks.find? (isEntry k (Forest.entryKey entry)) = none →
      ∃ A B, ks = A ++ B ∧ (∀ c ∈ A, kidRank c ≤ viewRank k) ∧ (∀ c ∈ B, viewRank k < kidRank c) ∧
        (f.mapInsert k e entry).1.get? e = some (.node e v (A ++ .node f.next entry [] :: B)) ∧
        (f.mapInsert k e entry).1.next = f.next + 1) :=
  mapInsert_kids inv he hm hg

/-- `remove` is the specification; the child list of `e` loses exactly the entry with the key. -/
theorem C05_map_remove {f : Forest} {k : Forest.MapKind} {e key : Nat} (inv : f.Inv)
    (he : f.isElement e = true) :
    f.mapRemove k e key = (specMapRemove k e key f, .ok) :=
  mapRemove_spec inv he

theorem C05_map_remove_entry {f : Forest} {k : Forest.MapKind} {e key : Nat} {v : Value} {ks : List HTree}
    (inv : f.Inv) (he : f.isElement e = true) (hg : f.get? e = some (.node e v ks)) :
    (∀ n, ks.find? (isEntry k key) = some n →
      ∃ X Y, ks = X ++ n :: Y ∧ (f.mapRemove k e key).1.get? e = some (.node e v (X ++ Y))) ∧
    (ks.find? (isEntry k key) = none → (f.mapRemove k e key).1.get? e = some (.node e v ks)) ∧
    (f.mapRemove k e key).1.next = f.next :=
  mapRemove_kids inv he hg

/-- Frame of both updates: every node under another parent keeps parent, value and sibling
    handles; the parentless trees are as many as before and those not holding `e` are identical. -/
theorem C05_map_frame {f : Forest} {k : Forest.MapKind} {e : Nat} (inv : f.Inv) (he : f.isElement e = true)
    {x : Nat} {cx : HTree.Ctx} (hx : f.ctx? x = some cx) (hne : cx.parent ≠ e) :
    (∀ entry, k.matches entry = true →
      ∃ cx', (f.mapInsert k e entry).1.ctx? x = some cx' ∧ cx'.shape = cx.shape) ∧
    (∀ key, ∃ cx', (f.mapRemove k e key).1.ctx? x = some cx' ∧ cx'.shape = cx.shape) := by
  constructor
  · intro entry hm
    rw [mapInsert_spec inv he hm]
    exact specMapInsert_ctx_frame inv he hm hx hne
  · intro key
    rw [mapRemove_spec inv he]
    exact specMapRemove_ctx_frame inv he hx hne

theorem C05_map_roots_frame {f : Forest} {k : Forest.MapKind} {e : Nat} (inv : f.Inv) (he : f.isElement e = true)
    {i : Nat} {r : HTree} (hr : f.roots[i]? = some r) (her : e ∉ HTree.handles r) :
    (∀ entry, k.matches entry = true → (f.mapInsert k e entry).1.roots[i]? = some r) ∧
    (∀ key, (f.mapRemove k e key).1.roots[i]? = some r) := by
  constructor
  · intro entry hm
    rw [mapInsert_spec inv he hm]
    exact (specMapInsert_roots_frame k e entry f).2 i r hr her
  · intro key
    rw [mapRemove_spec inv he]
    exact (specMapRemove_roots_frame k e key f).2 i r hr her

example :
    let f : Forest := { roots := [.node 0 (.element 2) [.node 1 (.namespace 2 3) [], .node 2 (.attribute 5 ['v']) [],
                          .node 3 (.text ['x']) []]], next := 4 }
    f.inv = true ∧
      (f.mapInsert .attributes 0 (.attribute 5 ['w'])).1.content =
        [.node (.element 2) [.node (.namespace 2 3) [], .node (.attribute 5 ['w']) [], .node (.text ['x']) []]] ∧
      (f.mapInsert .attributes 0 (.attribute 6 ['w'])).1.content =
        [.node (.element 2) [.node (.namespace 2 3) [], .node (.attribute 5 ['v']) [], .node (.attribute 6 ['w']) [],
          .node (.text ['x']) []]] ∧
      (f.mapRemove .namespaces 0 2).1.content =
        [.node (.element 2) [.node (.attribute 5 ['v']) [], .node (.text ['x']) []]] := by
  decide

/-! ### Setters: exactly one value changes

  `specSetValue n v f`: the node `n` gets the value `v`; nothing else. -/

theorem C05_setText {f : Forest} {n : Nat} {s : Str} (hok : (f.setText n s).2 = .ok) :
    (f.setText n s).1 = specSetValue n (.text s) f ∧ ∃ old, f.value? n = some (.text old) :=
  setText_spec hok

theorem C05_setComment {f : Forest} {n : Nat} {s : Str} (hok : (f.setComment n s).2 = .ok) :
    (f.setComment n s).1 = specSetValue n (.comment s) f ∧ ∃ old, f.value? n = some (.comment old) :=
  setComment_spec hok

theorem C05_setPiData {f : Forest} {n : Nat} {d : Option Str} (hok : (f.setPiData n d).2 = .ok) :
    ∃ t old, f.value? n = some (.pi t old) ∧ (f.setPiData n d).1 = specSetValue n (.pi t (piData d)) f :=
  setPiData_spec hok

theorem C05_setElementName {f : Forest} {n name : Nat} (hok : (f.setElementName n name).2 = .ok) :
    (f.setElementName n name).1 = specSetValue n (.element name) f ∧ ∃ old, f.value? n = some (.element old) :=
  setElementName_spec hok

/-- What `specSetValue` leaves alone: the handles and their order, the position of every node
    (parent and sibling handles), every other value, every subtree not holding `n`, the counters
    and flags. -/
theorem C05_setValue_frame (f : Forest) (n : Nat) (v : Value) :
    (specSetValue n v f).allHandles = f.allHandles ∧
    (∀ x, ((specSetValue n v f).ctx? x).map HTree.Ctx.place = (f.ctx? x).map HTree.Ctx.place) ∧
    (∀ x, x ≠ n → (specSetValue n v f).value? x = f.value? x) ∧
    (f.isLive n = true → (specSetValue n v f).value? n = some v) ∧
    (∀ x t, f.get? x = some t → n ∉ HTree.handles t → (specSetValue n v f).get? x = some t) ∧
    (specSetValue n v f).next = f.next ∧ (specSetValue n v f).consolidation = f.consolidation :=
  ⟨specSetValue_allHandles n v f, fun x => specSetValue_ctx f n x v,
    fun _ hx => specSetValue_value_other v hx, fun hl => specSetValue_value_self v hl,
    fun _ _ hg hn => specSetValue_get_far v hg hn, rfl, rfl⟩

/-- `text_content_mut(n).set(s)`: an element without normal children gains exactly one text child
    (handle `f.next`, placed last); a node whose only normal child is a text node has that node's
    data replaced; the call cannot panic, and a refusal changes nothing. -/
theorem C05_textContentSet {f : Forest} {n : Nat} {s : Str} (inv : f.Inv)
    (hok : (f.textContentSet n s).2 = .ok) :
    (f.textContentSet n s).1 = specTextContentSet n s f :=
  textContentSet_spec inv hok

theorem C05_textContentSet_total {f : Forest} (inv : f.Inv) (n : Nat) (s : Str) :
    (f.textContentSet n s).2 ≠ .panic ∧ ((f.textContentSet n s).2 ≠ .ok → (f.textContentSet n s).1 = f) :=
  ⟨textContentSet_no_panic inv n s, textContentSet_refused inv⟩

example :
    let f : Forest := { roots := [.node 0 (.element 2) [.node 1 (.attribute 5 ['v']) [], .node 2 (.element 3) [.node 3 (.text ['x']) []]],
                          .node 4 (.comment ['c']) [], .node 5 (.element 3) []], next := 6 }
    f.inv = true ∧ (f.setText 3 ['y']).2 = .ok ∧ (f.setComment 4 ['d']).2 = .ok ∧ (f.setElementName 2 6).2 = .ok ∧
      (f.textContentSet 2 ['k']).1.content =
        [.node (.element 2) [.node (.attribute 5 ['v']) [], .node (.element 3) [.node (.text ['k']) []]],
          .node (.comment ['c']) [], .node (.element 3) []] ∧
      (f.textContentSet 5 ['k']).1.content =
        [.node (.element 2) [.node (.attribute 5 ['v']) [], .node (.element 3) [.node (.text ['x']) []]],
          .node (.comment ['c']) [], .node (.element 3) [.node (.text ['k']) []]] ∧
      (f.textContentSet 0 ['k']).2 = .err .invalidOperation := by
  decide

/-! ### Forests that already hold adjacent text nodes (after `set_text_consolidation(false)` … `(true)`)

  Outside `Forest.Normal` the specification of `FspecSpec.lean` (merge the maximal runs) is not
  what xot does: xot merges exactly the pair that becomes adjacent.  `Model/FspecSpec3.lean` has
  that PAIR reading of "text nodes that become adjacent are merged" (`specMoveP`, `specRemoveP`,
  `specDetachP`: the two neighbours a leaving node separated, the earlier surviving; the moved text
  node with its new left neighbour if that is text, else with its new right one, the neighbour
  surviving).  Below it is proved for EVERY forest with `Forest.Inv` — no `Forest.Normal` — for
  `remove`, `detach` and all four moves.  In ONE corner (`Spec.selfMerge`: the moved text node
  stands between two text nodes and, once those are merged, already occupies the requested place)
  xot used to lose character data (finding `C05:move-changes-character-data`): the helper
  `add_consolidate_text_nodes` took the node itself for its neighbour and merged it "into itself".
  Since xot eccbbb7 it takes the node's own sibling there, and `append` / `insert_before` are the
  specification in that corner too (`C05_pair_append`, `C05_pair_insertBefore`,
  `C05_selfMerge_append`, `C05_selfMerge_insertBefore`, closed examples below).
  `element_unwrap`, `element_wrap` and `replace` on such forests: section "The composite calls on
  every forest" at the end of this file. -/

theorem C05_pair_remove {f : Forest} {n : Nat} (inv : f.Inv) (live : f.isLive n = true) :
    (f.remove n).1 = specRemoveP n f :=
  remove_pair inv live

theorem C05_pair_detach {f : Forest} {n : Nat} (inv : f.Inv) (live : f.isLive n = true) :
    (f.detach n).1 = specDetachP n f :=
  detach_pair inv live

theorem C05_pair_prepend {f : Forest} {p c : Nat} (inv : f.Inv) (hok : (f.prepend p c).2 = .ok) :
    (f.prepend p c).1 = specMoveP (.firstNormalChildOf p) c f :=
  prepend_pair inv hok

theorem C05_pair_insertAfter {f : Forest} {r c : Nat} (inv : f.Inv) (hok : (f.insertAfter r c).2 = .ok) :
    (f.insertAfter r c).1 = specMoveP (.after r) c f :=
  insertAfter_pair inv hok

/-- `append` against the pair reading, full strength (every forest with the invariant, every
    geometry, the corner `selfMerge` included). -/
theorem C05_pair_append {f : Forest} {p c : Nat} (inv : f.Inv) (hok : (f.append p c).2 = .ok) :
    (f.append p c).1 = specMoveP (.lastChildOf p) c f :=
  append_pair inv hok

/-- `insert_before` against the pair reading, full strength. -/
theorem C05_pair_insertBefore {f : Forest} {r c : Nat} (inv : f.Inv)
    (hok : (f.insertBefore r c).2 = .ok) :
    (f.insertBefore r c).1 = specMoveP (.before r) c f :=
  insertBefore_pair inv hok

/-- The full-strength statements, as propositions (they used to be false of the code). -/
def C05_pair_appendStatement : Prop :=
  ∀ (f : Forest) (p c : Nat), f.Inv → (f.append p c).2 = .ok → (f.append p c).1 = specMoveP (.lastChildOf p) c f
def C05_pair_insertBeforeStatement : Prop :=
  ∀ (f : Forest) (r c : Nat), f.Inv → (f.insertBefore r c).2 = .ok →
    (f.insertBefore r c).1 = specMoveP (.before r) c f

theorem C05_pair_statements_true : C05_pair_appendStatement ∧ C05_pair_insertBeforeStatement :=
  ⟨fun _ _ _ inv hok => append_pair inv hok, fun _ _ _ inv hok => insertBefore_pair inv hok⟩

/-- In the corner `selfMerge` (the moved TEXT node stands between two text nodes and, once those
    are merged, already occupies the requested place) the call succeeds and is the specification:
    the node is merged into the text node its two neighbours have become (xot eccbbb7). -/
theorem C05_selfMerge_append {f : Forest} {p c : Nat} (inv : f.Inv)
    (h : selfMerge f (.lastChildOf p) c = true) :
    (f.append p c).2 = .ok ∧ (f.append p c).1 = specMoveP (.lastChildOf p) c f :=
  append_selfMerge inv h

theorem C05_selfMerge_insertBefore {f : Forest} {r c : Nat} (inv : f.Inv)
    (h : selfMerge f (.before r) c = true) :
    (f.insertBefore r c).2 = .ok ∧ (f.insertBefore r c).1 = specMoveP (.before r) c f :=
  insertBefore_selfMerge inv h

/-- Non-vacuity: a forest with adjacent text nodes on which the pair reading differs from the
    whole-run reading (`remove` of the element in `w x <b/> y z`: only `x`, `y` are merged). -/
example :
    let f : Forest := { roots := [.node 0 (.element 2) [.node 1 (.text ['w']) [], .node 2 (.text ['x']) [],
        .node 3 (.element 3) [], .node 4 (.text ['y']) [], .node 5 (.text ['z']) []], .node 6 (.text ['q']) []],
                        next := 7, consolidation := true, everOff := true }
    f.inv = true ∧
      (f.remove 3).1.content = [.node (.element 2) [.node (.text ['w']) [], .node (.text ['x', 'y']) [],
        .node (.text ['z']) []], .node (.text ['q']) []] ∧
      (f.remove 3).1 = specRemoveP 3 f ∧ (f.remove 3).1 ≠ specRemove Keep.earlier 3 f ∧
      (f.insertAfter 1 6).2 = .ok ∧ (f.insertAfter 1 6).1 = specMoveP (.after 1) 6 f ∧
      (f.prepend 0 6).2 = .ok ∧ (f.prepend 0 6).1 = specMoveP (.firstNormalChildOf 0) 6 f ∧
      (f.append 0 6).2 = .ok ∧ selfMerge f (.lastChildOf 0) 6 = false ∧
      (f.insertBefore 3 6).2 = .ok ∧ selfMerge f (.before 3) 6 = false := by
  decide

/-- `<e>abcd</e>` as FOUR adjacent text nodes (consolidation was off when they were appended, and is
    on again). -/
def selfMergeWitness : Forest :=
  { roots := [.node 0 (.element 2) [.node 1 (.text ['a']) [], .node 2 (.text ['b']) [],
      .node 3 (.text ['c']) [], .node 4 (.text ['d']) []]], next := 5, consolidation := true, everOff := true }

/-- `insert_before(d, b)`: `a` and `c` are merged, `b` then already stands before `d`; the helper
    takes `b`'s own previous sibling `ac` and merges `b` into it: `acb`, `d` — the pair reading; no
    character is lost (before xot eccbbb7 the result was `ac`, `d`).  Likewise `append(e, b)` on
    the children `a b c` gives `acb`. -/
theorem C05_selfmerge_keeps_text_witness :
    selfMergeWitness.inv = true ∧
    (selfMergeWitness.insertBefore 4 2).2 = .ok ∧
    (selfMergeWitness.insertBefore 4 2).1.content =
      [.node (.element 2) [.node (.text ['a', 'c', 'b']) [], .node (.text ['d']) []]] ∧
    (selfMergeWitness.insertBefore 4 2).1.isLive 2 = false ∧
    (selfMergeWitness.insertBefore 4 2).1 = specMoveP (.before 4) 2 selfMergeWitness ∧
    selfMerge selfMergeWitness (.before 4) 2 = true ∧
    (let g : Forest := { selfMergeWitness with roots := [.node 0 (.element 2) [.node 1 (.text ['a']) [],
        .node 2 (.text ['b']) [], .node 3 (.text ['c']) []]] }
     (g.append 0 2).2 = .ok ∧
     (g.append 0 2).1.content = [.node (.element 2) [.node (.text ['a', 'c', 'b']) []]] ∧
     (g.append 0 2).1 = specMoveP (.lastChildOf 0) 2 g ∧
     selfMerge g (.lastChildOf 0) 2 = true) := by
  decide

/-- **No move loses (or invents) character data** — for EVERY forest with the invariant, adjacent
    text nodes under consolidation allowed (no `Forest.Normal`), every geometry, every successful
    `append` / `prepend` / `insert_after` / `insert_before`: afterwards the non-text nodes are the
    same, in the same document order, and each of them — every element, every document node, in
    particular every ancestor of the place left and of the place of arrival, and every root — has
    exactly the string value the plain ordered-tree move gives it (`plainMove`: cut the subtree,
    graft it, merge nothing).  Whatever consolidation does to the text NODES (which of two merged
    nodes survives, the pair merged at the old place, the node merged at the new place, the corner
    `selfMerge`), the character DATA is where the move puts it.  (A parentless text node is not in
    `strValues`; it is untouched unless it is the moved node, whose data then is part of the string
    value of its new parent.)  Before xot eccbbb7 this was false in the corner `selfMerge`. -/
theorem C05_move_keeps_character_data {f : Forest} (inv : f.Inv) :
    (∀ p c, (f.append p c).2 = .ok →
      (f.append p c).1.strValues = (plainMove (.lastChildOf p) c f).strValues) ∧
    (∀ p c, (f.prepend p c).2 = .ok →
      (f.prepend p c).1.strValues = (plainMove (.firstNormalChildOf p) c f).strValues) ∧
    (∀ r c, (f.insertAfter r c).2 = .ok →
      (f.insertAfter r c).1.strValues = (plainMove (.after r) c f).strValues) ∧
    (∀ r c, (f.insertBefore r c).2 = .ok →
      (f.insertBefore r c).1.strValues = (plainMove (.before r) c f).strValues) :=
  ⟨fun _ _ hok => append_keeps_strValues inv hok, fun _ _ hok => prepend_keeps_strValues inv hok,
   fun _ _ hok => insertAfter_keeps_strValues inv hok, fun _ _ hok => insertBefore_keeps_strValues inv hok⟩

/-- The pair reading itself keeps the character data (what the four parts above are proved from). -/
theorem C05_pair_spec_keeps_character_data {f : Forest} {dest : Dest} {c : Nat} {t : HTree} {q : Nat}
    {vq : Value} {Lq : List HTree} (inv : f.Inv) (hgc : f.get? c = some t) (sq : SiteAt f q vq Lq)
    (hqt : q ∉ HTree.handles t) (hvq : vq.isText = false) (hsite : dest.site f = some q) :
    (specMoveP dest c f).strValues = (plainMove dest c f).strValues :=
  specMoveP_strValues inv hgc sq hqt hvq hsite

/-- Non-vacuity, in the corner: `<e>abcd</e>` as four text nodes, `insert_before(d, b)`,
    `insert_after(c, b)`, `append(e, c)` (with `d` last: `b` and `d` merged, `c` last already),
    `prepend(e, b)`: the element's string value is that of the plain move each time. -/
example :
    selfMergeWitness.inv = true ∧
    (selfMergeWitness.insertBefore 4 2).2 = .ok ∧
    (selfMergeWitness.insertBefore 4 2).1.strValues = [(0, ['a', 'c', 'b', 'd'])] ∧
    (plainMove (.before 4) 2 selfMergeWitness).strValues = [(0, ['a', 'c', 'b', 'd'])] ∧
    (selfMergeWitness.insertAfter 3 2).1.strValues = [(0, ['a', 'c', 'b', 'd'])] ∧
    (selfMergeWitness.append 0 3).2 = .ok ∧ selfMerge selfMergeWitness (.lastChildOf 0) 3 = true ∧
    (selfMergeWitness.append 0 3).1.strValues = [(0, ['a', 'b', 'd', 'c'])] ∧
    (plainMove (.lastChildOf 0) 3 selfMergeWitness).strValues = [(0, ['a', 'b', 'd', 'c'])] ∧
    (selfMergeWitness.prepend 0 2).1.strValues = [(0, ['b', 'a', 'c', 'd'])] := by
  decide

/-! ### The convenience calls: a node creation followed by a move (`Model/Fcreation.lean`)

  `new_document_with_element(n)` = create a document node, then the specification's move of `n`
  to its last (only) place — in particular the place `n` LEAVES is consolidated like after any
  other move; `append_text(p, s)` (`append_element`, `append_comment`,
  `append_processing_instruction`) = create the node, then move it to the last place under `p`,
  where a text node is merged into a trailing text node (the earlier node survives).  Corollaries
  of the `append` theorems: creating a node keeps `Forest.Inv` and `Forest.Normal`. -/

theorem C05_new_document_with_element {f : Forest} {n : Nat} (inv : f.Inv) (norm : f.Normal)
    (hok : (f.newDocumentWithElement n).2.1 = .ok) :
    (f.newDocumentWithElement n).1 = specMove Keep.earlier (.lastChildOf f.next) n f.newDocument.1 ∧
    (f.newDocumentWithElement n).2.2 = f.next ∧ f.isElement n = true := by
  unfold Forest.newDocumentWithElement at hok ⊢
  cases he : f.isElement n with
  | false => rw [he] at hok; simp at hok
  | true =>
    rw [he] at hok
    simp only [Bool.not_true, Bool.false_eq_true, if_false] at hok ⊢
    exact ⟨C05_append_exact (Fcreation.newNode_inv inv _) (Fcreation.newNode_normal norm _) hok, rfl, trivial⟩

/-- … without `Forest.Normal`, against the PAIR reading. -/
theorem C05_pair_new_document_with_element {f : Forest} {n : Nat} (inv : f.Inv)
    (hok : (f.newDocumentWithElement n).2.1 = .ok) :
    (f.newDocumentWithElement n).1 = specMoveP (.lastChildOf f.next) n f.newDocument.1 := by
  unfold Forest.newDocumentWithElement at hok ⊢
  cases he : f.isElement n with
  | false => rw [he] at hok; simp at hok
  | true =>
    rw [he] at hok
    simp only [Bool.not_true, Bool.false_eq_true, if_false] at hok ⊢
    exact C05_pair_append (Fcreation.newNode_inv inv _) hok

/-- `append_text` / `append_element` / `append_comment` / `append_processing_instruction`, by the
    value `v` of the node they create (handle `f.next`). -/
theorem C05_append_new {f : Forest} {p : Nat} {v : Value} (inv : f.Inv) (norm : f.Normal)
    (hok : (f.appendNew p v).2 = .ok) :
    (f.appendNew p v).1 = specMove Keep.earlier (.lastChildOf p) f.next (f.newNode v).1 :=
  C05_append_exact (Fcreation.newNode_inv inv v) (Fcreation.newNode_normal norm v) hok

theorem C05_pair_append_new {f : Forest} {p : Nat} {v : Value} (inv : f.Inv) (hok : (f.appendNew p v).2 = .ok) :
    (f.appendNew p v).1 = specMoveP (.lastChildOf p) f.next (f.newNode v).1 :=
  C05_pair_append (Fcreation.newNode_inv inv v) hok

theorem C05_append_text {f : Forest} {p : Nat} {s : Str} (inv : f.Inv) (norm : f.Normal)
    (hok : (f.appendText p s).2 = .ok) :
    (f.appendText p s).1 = specMove Keep.earlier (.lastChildOf p) f.next (f.newText s).1 :=
  C05_append_new inv norm hok

theorem C05_append_element {f : Forest} {p name : Nat} (inv : f.Inv) (norm : f.Normal)
    (hok : (f.appendElement p name).2 = .ok) :
    (f.appendElement p name).1 = specMove Keep.earlier (.lastChildOf p) f.next (f.newElement name).1 :=
  C05_append_new inv norm hok

theorem C05_append_comment {f : Forest} {p : Nat} {s : Str} (inv : f.Inv) (norm : f.Normal)
    (hok : (f.appendComment p s).2 = .ok) :
    (f.appendComment p s).1 = specMove Keep.earlier (.lastChildOf p) f.next (f.newComment s).1 :=
  C05_append_new inv norm hok

theorem C05_append_processing_instruction {f : Forest} {p t : Nat} {d : Option Str} (inv : f.Inv) (norm : f.Normal)
    (hok : (f.appendPi p t d).2 = .ok) :
    (f.appendPi p t d).1 = specMove Keep.earlier (.lastChildOf p) f.next (f.newPi t d).1 :=
  C05_append_new inv norm hok

/-- `append_namespace(e, prefix, ns)` on an element is `namespaces_mut(e).insert(prefix, ns)`, i.e.
    `specMapInsert`: a new prefix is carried by exactly the node the call creates (handle
    `f.next`, placed last among the namespace nodes), which is returned; for an existing prefix
    the existing node is updated and returned, and the created node stays behind parentless
    (it was never handed out). -/
theorem C05_append_namespace {f : Forest} {e : Nat} (pfx ns : Nat) (inv : f.Inv) (he : f.isElement e = true) :
    (f.appendNamespace e pfx ns).2.1 = .ok ∧
    (f.appendNamespace e pfx ns).1 =
      (match f.mapGetNode .namespaces e pfx with
       | some _ => ((specMapInsert .namespaces e (.namespace pfx ns) f).newNode (.namespace pfx ns)).1
       | none => specMapInsert .namespaces e (.namespace pfx ns) f) ∧
    (f.appendNamespace e pfx ns).2.2 =
      (match f.mapGetNode .namespaces e pfx with | some x => x.handle | none => f.next) := by
  have h := Fcreation.appendNamespace_mapInsert inv he pfx ns
  rw [C05_map_insert inv he rfl] at h
  exact h

/-- The node-map wrappers `set_attribute`, `set_namespace`, `remove_attribute`, `remove_namespace`
    ARE the `insert` / `remove` of the mutable views (definitionally), hence `C05_map_insert` /
    `C05_map_remove`. -/
theorem C05_set_attribute {f : Forest} {e name : Nat} {v : Str} (inv : f.Inv) (he : f.isElement e = true) :
    f.setAttribute e name v = (specMapInsert .attributes e (.attribute name v) f, .ok) :=
  C05_map_insert inv he rfl
theorem C05_set_namespace {f : Forest} {e pfx ns : Nat} (inv : f.Inv) (he : f.isElement e = true) :
    f.setNamespace e pfx ns = (specMapInsert .namespaces e (.namespace pfx ns) f, .ok) :=
  C05_map_insert inv he rfl
theorem C05_remove_attribute {f : Forest} {e name : Nat} (inv : f.Inv) (he : f.isElement e = true) :
    f.removeAttribute e name = (specMapRemove .attributes e name f, .ok) := C05_map_remove inv he
theorem C05_remove_namespace {f : Forest} {e pfx : Nat} (inv : f.Inv) (he : f.isElement e = true) :
    f.removeNamespace e pfx = (specMapRemove .namespaces e pfx f, .ok) := C05_map_remove inv he

/-- The setters behind `element_mut`, `attribute_node_mut`, `namespace_node_mut`,
    `processing_instruction_mut().set_target`, `text_mut().get_mut()`: exactly one value changes,
    and it keeps its kind (name of the attribute, prefix of the declaration, data of the PI). -/
theorem C05_creation_setters {f : Forest} {n : Nat} :
    (∀ name, (f.elementSetName n name).2 = .ok → (f.elementSetName n name).1 = specSetValue n (.element name) f) ∧
    (∀ s, (f.attributeSetValue n s).2 = .ok →
      ∃ k old, f.value? n = some (.attribute k old) ∧ (f.attributeSetValue n s).1 = specSetValue n (.attribute k s) f) ∧
    (∀ ns, (f.namespaceSetNamespace n ns).2 = .ok →
      ∃ p old, f.value? n = some (.namespace p old) ∧ (f.namespaceSetNamespace n ns).1 = specSetValue n (.namespace p ns) f) ∧
    (∀ t, (f.piSetTarget n t).2 = .ok →
      ∃ old d, f.value? n = some (.pi old d) ∧ (f.piSetTarget n t).1 = specSetValue n (.pi t d) f) ∧
    (∀ s, (f.textPush n s).2 = .ok →
      ∃ old, f.value? n = some (.text old) ∧ (f.textPush n s).1 = specSetValue n (.text (old ++ s)) f) := by
  refine ⟨fun name hok => ?_, fun s hok => ?_, fun ns hok => ?_, fun t hok => ?_, fun s hok => ?_⟩
  · unfold Forest.elementSetName at hok ⊢
    split
    · exact setValue_eq_spec f n _
    · rename_i h; rw [if_neg h] at hok; cases hok
  · unfold Forest.attributeSetValue at hok ⊢
    split
    · rename_i k old hv; exact ⟨k, old, hv, setValue_eq_spec f n _⟩
    · rename_i h
      split at hok
      · rename_i k old hv; exact absurd hv (h k old)
      · cases hok
  · unfold Forest.namespaceSetNamespace at hok ⊢
    split
    · rename_i p old hv; exact ⟨p, old, hv, setValue_eq_spec f n _⟩
    · rename_i h
      split at hok
      · rename_i p old hv; exact absurd hv (h p old)
      · cases hok
  · unfold Forest.piSetTarget at hok ⊢
    split
    · rename_i old d hv; exact ⟨old, d, hv, setValue_eq_spec f n _⟩
    · rename_i h
      split at hok
      · rename_i old d hv; exact absurd hv (h old d)
      · cases hok
  · unfold Forest.textPush at hok ⊢
    split
    · rename_i old hv; exact ⟨old, hv, setValue_eq_spec f n _⟩
    · rename_i h
      split at hok
      · rename_i old hv; exact absurd hv (h old)
      · cases hok

/-- `value_mut` as in its documentation: dispatches to the setter of the node's kind. -/
theorem C05_value_mut_set (f : Forest) (n : Nat) (s : Str) :
    f.valueMutSet n s =
      (match f.value? n with
       | some (.text _) => f.setText n s
       | some (.comment _) => f.setComment n s
       | some (.attribute _ _) => f.attributeSetValue n s
       | some (.pi _ _) => f.setPiData n (some s)
       | _ => (f, .err .invalidOperation)) := rfl

/-- Non-vacuity, and the regression this section is there for: `<doc>a<e>x</e>b</doc>`;
    `new_document_with_element(e)` moves `e` under a new document node (handle 5) AND merges the
    two text nodes it separated (`a` keeps its identity and holds `ab`, `b` is removed); a
    non-element is refused with nothing created; `append_text` after a trailing text node is
    merged into it. -/
example :
    let f : Forest := { roots := [.node 0 (.element 2) [.node 1 (.text ['a']) [], .node 2 (.element 3) [.node 3 (.text ['x']) []],
                                    .node 4 (.text ['b']) []]], next := 5 }
    f.inv = true ∧ (f.newDocumentWithElement 2).2 = (.ok, 5) ∧
      (f.newDocumentWithElement 2).1.roots =
        [.node 0 (.element 2) [.node 1 (.text ['a', 'b']) []], .node 5 .document [.node 2 (.element 3) [.node 3 (.text ['x']) []]]] ∧
      (f.newDocumentWithElement 2).1.isRemoved 4 = true ∧
      (f.newDocumentWithElement 2).1 = specMove Keep.earlier (.lastChildOf 5) 2 f.newDocument.1 ∧
      (f.newDocumentWithElement 2).1 = specMoveP (.lastChildOf 5) 2 f.newDocument.1 ∧
      f.newDocumentWithElement 1 = (f, .err .invalidOperation, 0) ∧
      (f.appendText 0 ['c']).2 = .ok ∧ (f.appendText 0 ['c']).1.value? 4 = some (.text ['b', 'c']) ∧
      (f.appendText 0 ['c']).1.isLive 5 = false ∧
      (f.appendText 1 ['c']).2 = .err .invalidOperation ∧ (f.appendText 1 ['c']).1 = (f.newText ['c']).1 ∧
      (f.appendNamespace 0 2 3).2 = (.ok, 5) ∧ (f.appendNamespace 0 2 3).1 = specMapInsert .namespaces 0 (.namespace 2 3) f := by
  decide

/-! ### The two readings agree on forests without adjacent text nodes

  Specification against specification (no model function involved): on a forest with `Forest.Inv`
  and `Forest.Normal` the pair reading `specMoveP` IS the whole-run reading `specMove` with xot's
  survivor rule — for every live node `c` and every destination whose parent `q` is not a text
  node and does not lie in the moved subtree (for `after` / `before`: a reference node other than
  `c`); in particular for every move that passes xot's argument checks. -/

theorem C05_specMoveP_eq_specMove_on_normal {f : Forest} {dest : Dest} {c : Nat} {t : HTree} {q : Nat}
    {vq : Value} {Lq : List HTree} (inv : f.Inv) (norm : f.Normal) (hgc : f.get? c = some t)
    (sq : SiteAt f q vq Lq) (hqt : q ∉ HTree.handles t) (hvq : vq.isText = false) (hsite : dest.site f = some q)
    (hrefc : ∀ x, (dest = .after x ∨ dest = .before x) → x ≠ c) :
    specMoveP dest c f = specMove (Keep.resident c) dest c f :=
  PairAll.specMoveP_eq_specMove inv norm hgc sq hqt hvq hsite hrefc

/-- … for `append` / `prepend`, from `add_structure_check`. -/
theorem C05_specMoveP_eq_specMove_under {f : Forest} {p c : Nat} (inv : f.Inv) (norm : f.Normal)
    (hsc : f.structureCheck (some p) c = true) :
    specMoveP (.lastChildOf p) c f = specMove (Keep.resident c) (.lastChildOf p) c f ∧
    specMoveP (.firstNormalChildOf p) c f = specMove (Keep.resident c) (.firstNormalChildOf p) c f :=
  specMoveP_eq_specMove_under inv norm hsc

/-- … for `insert_after` / `insert_before`, from `add_structure_check` and `sibling_reference_check`. -/
theorem C05_specMoveP_eq_specMove_beside {f : Forest} {r c : Nat} (inv : f.Inv) (norm : f.Normal)
    (hsc : f.structureCheck (f.parent? r) c = true) (hsr : f.siblingReferenceCheck r c = true) :
    specMoveP (.after r) c f = specMove (Keep.resident c) (.after r) c f ∧
    specMoveP (.before r) c f = specMove (Keep.resident c) (.before r) c f :=
  specMoveP_eq_specMove_beside inv norm hsc hsr

/-- … and for `remove` (either survivor rule). -/
theorem C05_specRemoveP_eq_specRemove_on_normal {f : Forest} {n : Nat} {t : HTree} (inv : f.Inv) (norm : f.Normal)
    (hg : f.get? n = some t) :
    specRemoveP n f = specRemove Keep.earlier n f ∧ specRemoveP n f = specRemove (Keep.resident n) n f :=
  ⟨specRemoveP_eq_specRemove inv norm (Keep.earlier_spec n) hg, specRemoveP_eq_specRemove inv norm (Keep.resident_spec n) hg⟩

/-- … and for `detach`. -/
theorem C05_specDetachP_eq_specDetach_on_normal {f : Forest} {n : Nat} {t : HTree} (inv : f.Inv) (norm : f.Normal)
    (hg : f.get? n = some t) : specDetachP n f = specDetach Keep.earlier n f :=
  specDetachP_eq_specDetach inv norm (Keep.earlier_spec n) hg

/-- Non-vacuity: `<a>x<b/>y</a><c>z</c>` (no adjacent text), `b` moved behind `z`: both readings
    give `<a>xy</a><c>z<b/></c>`. -/
example :
    let f : Forest := { roots := [.node 0 (.element 2) [.node 1 (.text ['x']) [], .node 2 (.element 3) [],
        .node 3 (.text ['y']) []], .node 4 (.element 6) [.node 5 (.text ['z']) []]], next := 6 }
    f.inv = true ∧ f.structureCheck (f.parent? 5) 2 = true ∧ f.siblingReferenceCheck 5 2 = true ∧
      specMoveP (.after 5) 2 f = specMove (Keep.resident 2) (.after 5) 2 f ∧
      (specMoveP (.after 5) 2 f).content = [.node (.element 2) [.node (.text ['x', 'y']) []],
        .node (.element 6) [.node (.text ['z']) [], .node (.element 3) []]] := by
  decide

/-! ### The composite calls on every forest (adjacent text nodes allowed)

  `Model/FspecSpec4.lean`: `specUnwrapP` — the wrapper is replaced by its normal children and exactly
  the pairs that have become adjacent are merged (left neighbour / first child, last child / right
  neighbour, and the two neighbours when nothing is left between them); `specWrap` merges nothing, so
  it is its own pair reading; `specReplaceP` — the replacing node leaves (pair merge at the place it
  leaves), the replaced subtree disappears, the replacing node takes its place and is merged with
  its new left neighbour, else its right one, and in the first case the left neighbour then with the
  right one (three-way).  All for EVERY forest with `Forest.Inv`, no `Forest.Normal`. -/

/-- `element_unwrap`, pair reading, every forest with the invariant, handle for handle. -/
theorem C05_pair_unwrap {f : Forest} {n : Nat} (inv : f.Inv) (hok : (f.elementUnwrap n).2 = .ok) :
    (f.elementUnwrap n).1 = specUnwrapP n f :=
  unwrap_pair inv hok

/-- `element_wrap`: exactly one new element, nothing merged — without `Forest.Normal`. -/
theorem C05_pair_wrap {f : Forest} {n name : Nat} (inv : f.Inv) (hok : (f.elementWrap n name).2.1 = .ok) :
    (f.elementWrap n name).1 = specWrap n name f ∧ (f.elementWrap n name).2.2 = f.next := by
  cases hpar : f.parent? n with
  | none => exact wrap_spec_root inv hpar hok
  | some p => exact wrap_spec_kid inv hpar hok

/-- `replace` against the pair reading of the property, FULL strength: every forest with the
    invariant (adjacent text nodes allowed), every geometry, handle for handle.  (Until xot 609b613
    this failed in the corner `Spec.selfMergeReplace` — known finding
    `C05:replace-selfmerge-leaves-adjacent-text`, now fixed: the last consolidation of `replace` looks
    from the node that followed the replaced node, see the example below.) -/
theorem C05_pair_replace {f : Forest} {a b : Nat} (inv : f.Inv) (hok : (f.replace a b).2 = .ok) :
    (f.replace a b).1 = specReplaceP a b f :=
  replace_pair inv hok

/-- `<e>x b p <a/> z</e>` with the text nodes `x`, `b`, `p`, `z` separate (consolidation was off when
    they were appended, and is on again). -/
def selfReplaceWitness : Forest :=
  { roots := [.node 0 (.element 2) [.node 1 (.text ['x']) [], .node 2 (.text ['b']) [], .node 3 (.text ['p']) [],
      .node 4 (.element 3) [], .node 5 (.text ['z']) []]], next := 6, consolidation := true, everOff := true }

/-- The former corner (`Spec.selfMergeReplace`): `replace(a, b)`.  `b` leaves: `x` and `p` are merged
    (`p` disappears); `b`, put in the place of `a`, is merged into `x` — which now stands next to `z`,
    and the two, having BECOME adjacent in this call, are merged as well: ONE text node `xpbz`, the
    earliest node `x` surviving (before xot 609b613 the result held `xpb` and `z`).  In the ordinary
    geometry (`b` elsewhere) the three nodes `p`, `b`, `z` are merged and `x`, adjacent to `p` before
    the call, stays. -/
example :
    selfReplaceWitness.inv = true ∧ (selfReplaceWitness.replace 4 2).2 = .ok ∧
    selfMergeReplace selfReplaceWitness 4 2 = true ∧
    (selfReplaceWitness.replace 4 2).1.content =
      [.node (.element 2) [.node (.text ['x', 'p', 'b', 'z']) []]] ∧
    (selfReplaceWitness.replace 4 2).1.value? 1 = some (.text ['x', 'p', 'b', 'z']) ∧
    (selfReplaceWitness.replace 4 2).1.allHandles = [0, 1] ∧
    (selfReplaceWitness.replace 4 2).1 = specReplaceP 4 2 selfReplaceWitness ∧
    (selfReplaceWitness.replace 4 2).1.inv = true ∧
    (let g : Forest := { selfReplaceWitness with roots := [.node 0 (.element 2) [.node 1 (.text ['x']) [],
        .node 3 (.text ['p']) [], .node 4 (.element 3) [], .node 5 (.text ['z']) []], .node 2 (.text ['b']) []] }
     (g.replace 4 2).2 = .ok ∧ selfMergeReplace g 4 2 = false ∧
     (g.replace 4 2).1.content = [.node (.element 2) [.node (.text ['x']) [], .node (.text ['p', 'b', 'z']) []]] ∧
     (g.replace 4 2).1 = specReplaceP 4 2 g) := by
  decide

/-- Non-vacuity on a forest WITH adjacent text nodes: `<e>w x <u>i j<k/>m</u> y z <v/></e>` and a
    parentless text `r`.  `element_unwrap(u)` merges exactly `(x, i)` and `(m, y)` — `w`, `j`, `z` stay;
    `element_wrap(x)` merges nothing; `replace(v, r)` merges `r` into `z` only; `replace(u, r)` gives
    the three-way merge of `x`, `r`, `y` and leaves `w`, `z`. -/
example :
    let f : Forest := { roots := [.node 0 (.element 2) [.node 1 (.text ['w']) [], .node 2 (.text ['x']) [],
        .node 3 (.element 3) [.node 4 (.text ['i']) [], .node 5 (.text ['j']) [], .node 6 (.element 6) [],
          .node 7 (.text ['m']) []],
        .node 8 (.text ['y']) [], .node 9 (.text ['z']) [], .node 10 (.element 6) []], .node 11 (.text ['r']) []],
                        next := 12, consolidation := true, everOff := true }
    f.inv = true ∧
      (f.elementUnwrap 3).2 = .ok ∧ (f.elementUnwrap 3).1 = specUnwrapP 3 f ∧
      (f.elementUnwrap 3).1.content = [.node (.element 2) [.node (.text ['w']) [], .node (.text ['x', 'i']) [],
        .node (.text ['j']) [], .node (.element 6) [], .node (.text ['m', 'y']) [], .node (.text ['z']) [],
        .node (.element 6) []], .node (.text ['r']) []] ∧
      (f.elementUnwrap 3).1 ≠ specUnwrap Keep.earlier 3 f ∧
      (f.elementWrap 2 6).2.1 = .ok ∧ (f.elementWrap 2 6).1 = specWrap 2 6 f ∧
      (f.replace 10 11).2 = .ok ∧ selfMergeReplace f 10 11 = false ∧ (f.replace 10 11).1 = specReplaceP 10 11 f ∧
      (f.replace 10 11).1.value? 9 = some (.text ['z', 'r']) ∧ (f.replace 10 11).1.isLive 8 = true ∧
      (f.replace 3 11).2 = .ok ∧ (f.replace 3 11).1 = specReplaceP 3 11 f ∧
      (f.replace 3 11).1.content = [.node (.element 2) [.node (.text ['w']) [], .node (.text ['x', 'r', 'y']) [],
        .node (.text ['z']) [], .node (.element 6) []]] := by
  decide

/-! ### String values after the composite calls (every forest with the invariant, no `Forest.Normal`)

  As for the moves (`C05_move_keeps_character_data`): `plainUnwrap n f` / `plainReplace a b f` (Lemmas/FspecStrComposite.lean)
  are the same edits on the plain ordered-tree model with consolidation off - the wrapper is replaced by its normal
  children, resp. the replacing subtree is cut and put where the replaced one stood - nothing merged.  After a
  successful call every non-text node, in particular every ancestor of the touched places, has exactly the string
  value the unmerged edit gives it, and the non-text nodes are the same, in the same document order (the unwrapped
  element and the replaced subtree are gone from both lists).  Whatever the two resp. three pair merges
  (`specUnwrapP`, `specReplaceP`: three-way case included) do to the text NODES, the character DATA is where the
  edit puts it. -/

/-- ⟦C05_string_value_unwrap⟧ `element_unwrap`: every non-text node has the string value of the unmerged unwrap. -/
theorem C05_string_value_unwrap {f : Forest} {n : Nat} (inv : f.Inv) (hok : (f.elementUnwrap n).2 = .ok) :
    (f.elementUnwrap n).1.strValues = (plainUnwrap n f).strValues :=
  unwrap_keeps_strValues inv hok

/-- ⟦C05_string_value_replace⟧ `replace`, every geometry (replacing node parentless, elsewhere, a sibling, already
    next to the replaced node; text or not): every non-text node has the string value of the unmerged replace. -/
theorem C05_string_value_replace {f : Forest} {a b : Nat} (inv : f.Inv) (hok : (f.replace a b).2 = .ok) :
    (f.replace a b).1.strValues = (plainReplace a b f).strValues :=
  replace_keeps_strValues inv hok

/-- The pair reading of unwrap itself keeps the character data (no hypothesis on the call). -/
theorem C05_pair_unwrap_keeps_character_data {f : Forest} (inv : f.Inv) (n : Nat) :
    (specUnwrapP n f).strValues = (plainUnwrap n f).strValues :=
  specUnwrapP_strValues inv n

/-- Non-vacuity on a forest WITH adjacent text nodes (the forest of the example above: `<e>w x <u>i j<k/>m</u> y z <v/></e>`
    and a parentless text `r`): the string value of `e` after `element_unwrap(u)` is `wxijmyz`, after
    `replace(u, r)` it is `wxryz`, after `replace(v, r)` it is `wxijmyzr` (and `u` keeps `ijm`) - as the unmerged
    edits give them. -/
example :
    let f : Forest := { roots := [.node 0 (.element 2) [.node 1 (.text ['w']) [], .node 2 (.text ['x']) [],
        .node 3 (.element 3) [.node 4 (.text ['i']) [], .node 5 (.text ['j']) [], .node 6 (.element 6) [],
          .node 7 (.text ['m']) []],
        .node 8 (.text ['y']) [], .node 9 (.text ['z']) [], .node 10 (.element 6) []], .node 11 (.text ['r']) []],
                        next := 12, consolidation := true, everOff := true }
    f.inv = true ∧ (f.elementUnwrap 3).2 = .ok ∧ (f.replace 3 11).2 = .ok ∧ (f.replace 10 11).2 = .ok ∧
      (f.elementUnwrap 3).1.strValues = [(0, ['w', 'x', 'i', 'j', 'm', 'y', 'z']), (6, []), (10, [])] ∧
      (plainUnwrap 3 f).strValues = [(0, ['w', 'x', 'i', 'j', 'm', 'y', 'z']), (6, []), (10, [])] ∧
      (f.replace 3 11).1.strValues = [(0, ['w', 'x', 'r', 'y', 'z']), (10, [])] ∧
      (plainReplace 3 11 f).strValues = [(0, ['w', 'x', 'r', 'y', 'z']), (10, [])] ∧
      (f.replace 10 11).1.strValues =
        [(0, ['w', 'x', 'i', 'j', 'm', 'y', 'z', 'r']), (3, ['i', 'j', 'm']), (6, [])] ∧
      (plainReplace 10 11 f).strValues =
        [(0, ['w', 'x', 'i', 'j', 'm', 'y', 'z', 'r']), (3, ['i', 'j', 'm']), (6, [])] ∧
      (plainReplace 10 11 f).content ≠ (f.replace 10 11).1.content := by
  decide

/-! ### The frame theorems without `Forest.Normal`

  For EVERY forest with the invariant: a node outside the moved subtree whose parent is neither
  the parent the subtree leaves nor the one it arrives at keeps its parent, its value and the
  handles of its left and right siblings (`HTree.Ctx.shape`).  From the frame of the pair reading
  (`C05_frame_specMoveP`, `C05_frame_specRemoveP`) and the pair theorems. -/

theorem C05_frame_specMoveP {f : Forest} {dest : Dest} {c : Nat} {t : HTree} {q : Nat} {vq : Value}
    {Lq : List HTree} (inv : f.Inv) (hgc : f.get? c = some t) (sq : SiteAt f q vq Lq) (hqt : q ∉ HTree.handles t)
    (hvq : vq.isText = false) (hsite : dest.site f = some q)
    {x : Nat} {cx : HTree.Ctx} (hx : f.ctx? x = some cx)
    (h1 : cx.parent ≠ q) (h2 : some cx.parent ≠ f.parent? c) (h3 : cx.parent ∉ HTree.handles t)
    (h4 : x ∉ HTree.handles t) :
    ∃ cx', (specMoveP dest c f).ctx? x = some cx' ∧ cx'.shape = cx.shape :=
  frame_specMoveP inv hgc sq hqt hvq hsite hx h1 h2 h3 h4

theorem C05_frame_specRemoveP {f : Forest} {n : Nat} {t : HTree} (inv : f.Inv)
    (hg : f.get? n = some t) {x : Nat} {cx : HTree.Ctx} (hx : f.ctx? x = some cx)
    (h1 : some cx.parent ≠ f.parent? n) (h3 : cx.parent ∉ HTree.handles t) (h4 : x ∉ HTree.handles t) :
    ∃ cx', (specRemoveP n f).ctx? x = some cx' ∧ cx'.shape = cx.shape :=
  frame_specRemoveP inv hg hx h1 h3 h4

theorem C05_pair_frame_append {f : Forest} {p c : Nat} {t : HTree} (inv : f.Inv)
    (hok : (f.append p c).2 = .ok) (hgc : f.get? c = some t)
    {x : Nat} {cx : HTree.Ctx} (hx : f.ctx? x = some cx)
    (h1 : cx.parent ≠ p) (h2 : some cx.parent ≠ f.parent? c) (h3 : cx.parent ∉ HTree.handles t)
    (h4 : x ∉ HTree.handles t) :
    ∃ cx', (f.append p c).1.ctx? x = some cx' ∧ cx'.shape = cx.shape :=
  append_frame_all inv hok hgc hx h1 h2 h3 h4

theorem C05_pair_frame_prepend {f : Forest} {p c : Nat} {t : HTree} (inv : f.Inv)
    (hok : (f.prepend p c).2 = .ok) (hgc : f.get? c = some t)
    {x : Nat} {cx : HTree.Ctx} (hx : f.ctx? x = some cx)
    (h1 : cx.parent ≠ p) (h2 : some cx.parent ≠ f.parent? c) (h3 : cx.parent ∉ HTree.handles t)
    (h4 : x ∉ HTree.handles t) :
    ∃ cx', (f.prepend p c).1.ctx? x = some cx' ∧ cx'.shape = cx.shape :=
  prepend_frame_all inv hok hgc hx h1 h2 h3 h4

theorem C05_pair_frame_insertAfter {f : Forest} {r c q : Nat} {t : HTree} (inv : f.Inv)
    (hok : (f.insertAfter r c).2 = .ok) (hgc : f.get? c = some t) (hq : f.parent? r = some q)
    {x : Nat} {cx : HTree.Ctx} (hx : f.ctx? x = some cx)
    (h1 : cx.parent ≠ q) (h2 : some cx.parent ≠ f.parent? c) (h3 : cx.parent ∉ HTree.handles t)
    (h4 : x ∉ HTree.handles t) :
    ∃ cx', (f.insertAfter r c).1.ctx? x = some cx' ∧ cx'.shape = cx.shape :=
  insertAfter_frame_all inv hok hgc hq hx h1 h2 h3 h4

theorem C05_pair_frame_insertBefore {f : Forest} {r c q : Nat} {t : HTree} (inv : f.Inv)
    (hok : (f.insertBefore r c).2 = .ok) (hgc : f.get? c = some t) (hq : f.parent? r = some q)
    {x : Nat} {cx : HTree.Ctx} (hx : f.ctx? x = some cx)
    (h1 : cx.parent ≠ q) (h2 : some cx.parent ≠ f.parent? c) (h3 : cx.parent ∉ HTree.handles t)
    (h4 : x ∉ HTree.handles t) :
    ∃ cx', (f.insertBefore r c).1.ctx? x = some cx' ∧ cx'.shape = cx.shape :=
  insertBefore_frame_all inv hok hgc hq hx h1 h2 h3 h4

theorem C05_pair_frame_remove {f : Forest} {n : Nat} {t : HTree} (inv : f.Inv)
    (hg : f.get? n = some t) {x : Nat} {cx : HTree.Ctx} (hx : f.ctx? x = some cx)
    (h1 : some cx.parent ≠ f.parent? n) (h3 : cx.parent ∉ HTree.handles t) (h4 : x ∉ HTree.handles t) :
    ∃ cx', (f.remove n).1.ctx? x = some cx' ∧ cx'.shape = cx.shape :=
  remove_frame_all inv hg hx h1 h3 h4

/-- Non-vacuity on a forest WITH adjacent text nodes: `<e>a b c d</e>` (four text nodes) and
    `<g><h/>k</g>`; `insert_after(c, b)` merges `a`/`c` and `b` into one node — the element `h` and the
    text `k` under `g` keep parent, value and siblings. -/
example :
    let f : Forest := { selfMergeWitness with
      roots := selfMergeWitness.roots ++ [.node 5 (.element 6) [.node 6 (.element 3) [], .node 7 (.text ['k']) []]],
      next := 8 }
    f.inv = true ∧ (f.insertAfter 3 2).2 = .ok ∧ f.parent? 3 = some 0 ∧ f.parent? 2 = some 0 ∧
      (f.ctx? 6).map HTree.Ctx.shape = some (5, [], .element 3, [7]) ∧
      ((f.insertAfter 3 2).1.ctx? 6).map HTree.Ctx.shape = some (5, [], .element 3, [7]) ∧
      ((f.insertAfter 3 2).1.ctx? 7).map HTree.Ctx.shape = (f.ctx? 7).map HTree.Ctx.shape := by
  decide

/-! ### The frames of `detach`, `element_unwrap`, `element_wrap` without `Forest.Normal`

  For EVERY forest with the invariant (Lemmas/FspecFrameComposite.lean, from the pair readings `specDetachP`, `specUnwrapP`
  and `specWrap`, each ONE edit of one child list plus - for detach and a parentless wrap - a new parentless tree at the
  end of the list):
    detach(n)          a node outside the subtree whose parent is not the parent `n` leaves keeps its place;
    element_unwrap(n)  (`n` has the parent `p`) a node whose parent is neither `p` nor `n` keeps its place - in particular
                       everything deeper inside `n`; a parentless `n` that is accepted has no normal child and the call IS
                       `remove(n)` (`C05_unwrap_parentless`), so `C05_pair_frame_remove` applies;
    element_wrap(n)    a node whose parent is not the parent of `n` keeps its place - everything inside `n` included
                       (`n` itself gets the wrapper as parent); for a parentless `n` every node that has a parent does.
  `replace` on forests with adjacent text: `C05_pair_frame_replace` below (every geometry; `C05_frame_replace` above is
  the same statement under `Forest.Normal`): when the replacing node already stands next to the replaced one the call is
  `remove` (`C05_pair_frame_replace_adjacent`), otherwise the pair reading `specReplaceP` is framed
  (`C05_frame_specReplaceP`). -/

theorem C05_frame_specDetachP {f : Forest} {n : Nat} {t : HTree} (inv : f.Inv)
    (hg : f.get? n = some t) {x : Nat} {cx : HTree.Ctx} (hx : f.ctx? x = some cx)
    (h1 : some cx.parent ≠ f.parent? n) (h3 : cx.parent ∉ HTree.handles t) (h4 : x ∉ HTree.handles t) :
    ∃ cx', (specDetachP n f).ctx? x = some cx' ∧ cx'.shape = cx.shape :=
  frame_specDetachP inv hg hx h1 h3 h4

theorem C05_pair_frame_detach {f : Forest} {n : Nat} {t : HTree} (inv : f.Inv)
    (hg : f.get? n = some t) {x : Nat} {cx : HTree.Ctx} (hx : f.ctx? x = some cx)
    (h1 : some cx.parent ≠ f.parent? n) (h3 : cx.parent ∉ HTree.handles t) (h4 : x ∉ HTree.handles t) :
    ∃ cx', (f.detach n).1.ctx? x = some cx' ∧ cx'.shape = cx.shape :=
  detach_frame_all inv hg hx h1 h3 h4

theorem C05_frame_specUnwrapP {f : Forest} {n p : Nat} (inv : f.Inv) (hp : f.parent? n = some p)
    {x : Nat} {cx : HTree.Ctx} (hx : f.ctx? x = some cx) (h1 : cx.parent ≠ p) (h2 : cx.parent ≠ n) :
    ∃ cx', (specUnwrapP n f).ctx? x = some cx' ∧ cx'.shape = cx.shape :=
  frame_specUnwrapP inv hp hx h1 h2

theorem C05_pair_frame_unwrap {f : Forest} {n p : Nat} (inv : f.Inv) (hok : (f.elementUnwrap n).2 = .ok)
    (hp : f.parent? n = some p) {x : Nat} {cx : HTree.Ctx} (hx : f.ctx? x = some cx)
    (h1 : cx.parent ≠ p) (h2 : cx.parent ≠ n) :
    ∃ cx', (f.elementUnwrap n).1.ctx? x = some cx' ∧ cx'.shape = cx.shape :=
  unwrap_frame_all inv hok hp hx h1 h2

theorem C05_unwrap_parentless {f : Forest} {n : Nat} (hok : (f.elementUnwrap n).2 = .ok)
    (hp : f.parent? n = none) : f.elementUnwrap n = f.remove n :=
  elementUnwrap_parentless hok hp

theorem C05_frame_specWrap {f : Forest} {n : Nat} (name : Nat) {t : HTree} (inv : f.Inv) (hg : f.get? n = some t)
    {x : Nat} {cx : HTree.Ctx} (hx : f.ctx? x = some cx) (h1 : some cx.parent ≠ f.parent? n) :
    ∃ cx', (specWrap n name f).ctx? x = some cx' ∧ cx'.shape = cx.shape :=
  frame_specWrap name inv hg hx h1

theorem C05_pair_frame_wrap {f : Forest} {n name : Nat} {t : HTree} (inv : f.Inv)
    (hok : (f.elementWrap n name).2.1 = .ok) (hg : f.get? n = some t)
    {x : Nat} {cx : HTree.Ctx} (hx : f.ctx? x = some cx) (h1 : some cx.parent ≠ f.parent? n) :
    ∃ cx', (f.elementWrap n name).1.ctx? x = some cx' ∧ cx'.shape = cx.shape :=
  wrap_frame_all inv hok hg hx h1

/-- `<e>w x <u>i j<k/>m</u> y z <v/></e>` (adjacent text nodes), a parentless text `r`, a second tree `<g><h/>q</g>`. -/
def frameWitness : Forest :=
  { roots := [.node 0 (.element 2) [.node 1 (.text ['w']) [], .node 2 (.text ['x']) [],
        .node 3 (.element 3) [.node 4 (.text ['i']) [], .node 5 (.text ['j']) [], .node 6 (.element 6) [],
          .node 7 (.text ['m']) []],
        .node 8 (.text ['y']) [], .node 9 (.text ['z']) [], .node 10 (.element 6) []], .node 11 (.text ['r']) [],
        .node 12 (.element 6) [.node 13 (.element 3) [], .node 14 (.text ['q']) []]],
    next := 15, consolidation := true, everOff := true }

/-- Non-vacuity on a forest WITH adjacent text nodes: `detach(u)` merges `x`/`y`; `element_unwrap(u)` merges `(x, i)` and
    `(m, y)`; `element_wrap(x)` merges nothing - the element `h` under `g` keeps parent, value and siblings each time,
    and so does `k` inside `u` under `detach(u)` and `element_wrap(u)` (`u` itself gets the wrapper 15 as parent). -/
example : frameWitness.inv = true ∧ (frameWitness.detach 3).2 = .ok ∧ (frameWitness.elementUnwrap 3).2 = .ok ∧
    (frameWitness.elementWrap 2 6).2.1 = .ok ∧ (frameWitness.elementWrap 3 6).2.1 = .ok ∧
    frameWitness.parent? 3 = some 0 := by decide
example : (frameWitness.ctx? 13).map HTree.Ctx.shape = some (12, [], .element 3, [14]) ∧
    ((frameWitness.detach 3).1.ctx? 13).map HTree.Ctx.shape = some (12, [], .element 3, [14]) ∧
    ((frameWitness.elementUnwrap 3).1.ctx? 13).map HTree.Ctx.shape = some (12, [], .element 3, [14]) ∧
    ((frameWitness.elementWrap 2 6).1.ctx? 13).map HTree.Ctx.shape = some (12, [], .element 3, [14]) :=
  ⟨by decide, by decide, by decide, by decide⟩
example : (frameWitness.ctx? 6).map HTree.Ctx.shape = some (3, [4, 5], .element 6, [7]) ∧
    ((frameWitness.detach 3).1.ctx? 6).map HTree.Ctx.shape = some (3, [4, 5], .element 6, [7]) ∧
    ((frameWitness.elementWrap 3 6).1.ctx? 6).map HTree.Ctx.shape = some (3, [4, 5], .element 6, [7]) ∧
    (frameWitness.detach 3).1.value? 2 = some (.text ['x', 'y']) ∧
    ((frameWitness.elementWrap 3 6).1.ctx? 3).map HTree.Ctx.shape = some (15, [], .element 3, []) :=
  ⟨by decide, by decide, by decide, by decide, by decide⟩

/-- `replace` with the replacing node already next to the replaced one is `remove` (whatever the text nodes around):
    the frame of `remove` applies, without `Forest.Normal`. -/
theorem C05_pair_frame_replace_adjacent {f : Forest} {a b : Nat} {A : HTree} (inv : f.Inv)
    (hok : (f.replace a b).2 = .ok) (hadj : adjacentTo f a b = true) (hA : f.get? a = some A)
    {x : Nat} {cx : HTree.Ctx} (hx : f.ctx? x = some cx)
    (h1 : some cx.parent ≠ f.parent? a) (h3 : cx.parent ∉ HTree.handles A) (h4 : x ∉ HTree.handles A) :
    ∃ cx', (f.replace a b).1.ctx? x = some cx' ∧ cx'.shape = cx.shape := by
  rw [replace_pair inv hok]
  unfold specReplaceP
  rw [hadj, if_pos rfl]
  exact frame_specRemoveP inv hA hx h1 h3 h4

/-- ⟦C05_pair_frame_replace⟧ **The frame of `replace` without `Forest.Normal`**: every forest with the invariant
    (adjacent text nodes allowed), every geometry.  A node outside the replacing subtree `t` and the replaced subtree
    `A` whose parent is neither `a`'s parent nor `b`'s old parent and lies in neither subtree keeps its parent, its
    value and the handles of its left and right siblings.  (Replacing node next to the replaced one: the call is
    `remove`; otherwise the pair reading `specReplaceP` - cut, put, `mergeLeftAt`, `mergeNew3At` - is framed like a move,
    Lemmas/FspecFrameReplace.lean.) -/
theorem C05_pair_frame_replace {f : Forest} {a b q : Nat} {A t : HTree} (inv : f.Inv)
    (hok : (f.replace a b).2 = .ok) (hA : f.get? a = some A) (hb : f.get? b = some t)
    (hq : f.parent? a = some q)
    {x : Nat} {cx : HTree.Ctx} (hx : f.ctx? x = some cx)
    (h1 : cx.parent ≠ q) (h2 : some cx.parent ≠ f.parent? b) (h3 : cx.parent ∉ HTree.handles t)
    (h4 : x ∉ HTree.handles t) (h5 : cx.parent ∉ HTree.handles A) (h6 : x ∉ HTree.handles A) :
    ∃ cx', (f.replace a b).1.ctx? x = some cx' ∧ cx'.shape = cx.shape :=
  replace_frame_all inv hok hA hb hq hx h1 h2 h3 h4 h5 h6

/-- The pair specification itself, replacing node not next to the replaced one. -/
theorem C05_frame_specReplaceP {f : Forest} {a b q : Nat} {vq : Value} {l : List HTree} {A : HTree}
    {r : List HTree} {t : HTree} (inv : f.Inv) (ra : ReplArgs f a b q vq l A r t)
    (hnadj : adjacentTo f a b = false)
    {x : Nat} {cx : HTree.Ctx} (hx : f.ctx? x = some cx)
    (h1 : cx.parent ≠ q) (h2 : some cx.parent ≠ f.parent? b) (h3 : cx.parent ∉ HTree.handles t)
    (h4 : x ∉ HTree.handles t) (h5 : cx.parent ∉ HTree.handles A) :
    ∃ cx', (specReplaceP a b f).ctx? x = some cx' ∧ cx'.shape = cx.shape :=
  frame_specReplaceP_far inv ra hnadj hx h1 h2 h3 h4 h5

/-- Non-vacuity on a forest with adjacent text nodes: in `frameWitness` the text `y` (8) stands next to `u` (3);
    `replace(u, y)` is accepted and `h` (13) keeps its place; `replace(v, r)` (10, 11: the parentless text `r` is merged into
    `z`) and `replace(u, q)` (3, 14: the text `q` leaves `g`, three-way merge `x q y`) are not adjacent: `k` (6) inside `u`
    resp. `h` keep their places. -/
example : adjacentTo frameWitness 3 8 = true ∧ (frameWitness.replace 3 8).2 = .ok ∧
    ((frameWitness.replace 3 8).1.ctx? 13).map HTree.Ctx.shape = some (12, [], .element 3, [14]) ∧
    (frameWitness.replace 3 8).1.value? 2 = some (.text ['x', 'y']) ∧
    adjacentTo frameWitness 10 11 = false ∧ (frameWitness.replace 10 11).2 = .ok ∧
    ((frameWitness.replace 10 11).1.ctx? 6).map HTree.Ctx.shape = some (3, [4, 5], .element 6, [7]) ∧
    ((frameWitness.replace 10 11).1.ctx? 13).map HTree.Ctx.shape = some (12, [], .element 3, [14]) ∧
    adjacentTo frameWitness 3 11 = false ∧ (frameWitness.replace 3 11).2 = .ok ∧
    (frameWitness.replace 3 11).1.value? 2 = some (.text ['x', 'r', 'y']) ∧
    ((frameWitness.replace 3 11).1.ctx? 13).map HTree.Ctx.shape = some (12, [], .element 3, [14]) :=
  ⟨by decide, by decide, by decide, by decide, by decide, by decide, by decide, by decide, by decide, by decide,
   by decide, by decide⟩
end XotModel.Props


/-! # ================================================================================================
    # REACHABLE STORES: the calls as steps of histories that PARSE and edit (branch wt-reach2)
    # ================================================================================================

  The theorems of the sections "every forest with the invariant" (`C05_pair_*`, `C05_clone_node`, `C05_map_insert`,
  `C05_map_remove`) assume `Forest.Inv` and nothing else about the forest.  `PCall` histories on `PStore`
  (Model/FparseHist.lean: a step is the parse of an ARBITRARY text, accepted or not, or any extended API call
  `Forest.XCall`) keep it from `Xot::new()` (`PStore.fph_run_inv` = `C04_reach_full`, Props/C04.lean).  So for the
  store `s` such a history reaches and the call made NEXT, as a step `.api (.call …)` of the same history type,
  the only hypotheses left are `PCall.wellKinded` of the earlier steps and what the originals ask of the call itself
  (it answers `ok`, resp. its argument is live). -/

namespace XotModel.Props
open XotModel Spec

/-- A call of `Forest.Call` as a step of a full history: forest and answer are the model function's. -/
theorem C05_call_as_step (s : PStore) (c : Forest.Call) :
    (s.step (.api (.call c))).forest = (c.run s.forest).1 ∧
    ((PCall.api (.call c)).run s).2 = .api (c.run s.forest).2 ∧
    (s.step (.api (.call c))).env = s.env ∧ (s.step (.api (.call c))).index = s.index := ⟨rfl, rfl, rfl, rfl⟩

/-- ⟦C05_reachable_pair_full⟧ **The nine structural calls on every store a history of parses and API calls
    reaches**, each made as the next step: the forest after the step is the PAIR specification applied to the
    forest before, handle for handle (`C05_pair_append` … `C05_pair_replace`, every geometry, adjacent text nodes
    allowed — consolidation may have been switched off earlier in the history). -/
theorem C05_reachable_pair_full (env : Env) (cs : List PCall) (hw : ∀ c ∈ cs, c.wellKinded) :
    let s := (PStore.init env).run cs
    let after := fun (c : Forest.Call) => (s.step (.api (.call c))).forest
    let ok := fun (c : Forest.Call) => ((PCall.api (.call c)).run s).2 = .api .ok
    (∀ p c, ok (.append p c) → after (.append p c) = specMoveP (.lastChildOf p) c s.forest) ∧
    (∀ p c, ok (.prepend p c) → after (.prepend p c) = specMoveP (.firstNormalChildOf p) c s.forest) ∧
    (∀ r c, ok (.insertAfter r c) → after (.insertAfter r c) = specMoveP (.after r) c s.forest) ∧
    (∀ r c, ok (.insertBefore r c) → after (.insertBefore r c) = specMoveP (.before r) c s.forest) ∧
    (∀ n, s.forest.isLive n = true → after (.remove n) = specRemoveP n s.forest) ∧
    (∀ n, s.forest.isLive n = true → after (.detach n) = specDetachP n s.forest) ∧
    (∀ n, ok (.elementUnwrap n) → after (.elementUnwrap n) = specUnwrapP n s.forest) ∧
    (∀ n name, ok (.elementWrap n name) → after (.elementWrap n name) = specWrap n name s.forest) ∧
    (∀ a b, ok (.replace a b) → after (.replace a b) = specReplaceP a b s.forest) := by
  intro s after ok
  have inv : s.forest.Inv := PStore.fph_run_inv cs (PStore.fph_init_inv env) hw
  exact ⟨fun p c h => C05_pair_append inv (PRes.api.inj h), fun p c h => C05_pair_prepend inv (PRes.api.inj h),
    fun r c h => C05_pair_insertAfter inv (PRes.api.inj h), fun r c h => C05_pair_insertBefore inv (PRes.api.inj h),
    fun n h => C05_pair_remove inv h, fun n h => C05_pair_detach inv h,
    fun n h => C05_pair_unwrap inv (PRes.api.inj h), fun n name h => (C05_pair_wrap inv (PRes.api.inj h)).1,
    fun a b h => C05_pair_replace inv (PRes.api.inj h)⟩

/-! ### Non-vacuity: parse `<r>a<b/>c</r>` (document 0, `r` 1, `a` 2, `b` 3, `c` 4), then `append(r, a)`: the text
    `a` leaves its place and is merged into `c` — the forest after the step is the pair specification's. -/

def c05FullCalls : List PCall := [.parse .document "<r>a<b/>c</r>".toList]
theorem c05FullCalls_wellKinded : ∀ c ∈ c05FullCalls, c.wellKinded := by decide

example : (((PStore.init Env.fresh).run c05FullCalls).step (.api (.call (.append 1 2)))).forest =
    specMoveP (.lastChildOf 1) 2 ((PStore.init Env.fresh).run c05FullCalls).forest :=
  (C05_reachable_pair_full Env.fresh c05FullCalls c05FullCalls_wellKinded).1 1 2 (by decide +kernel)
example : (((PStore.init Env.fresh).run c05FullCalls).step (.api (.call (.append 1 2)))).forest.roots =
    [.node 0 .document [.node 1 (.element 2) [.node 3 (.element 3) [], .node 4 (.text ['c', 'a']) []]]] := by
  decide +kernel

end XotModel.Props

/-! # ================================================================================================
    # REACHABLE STORES, continued: `clone_node`, the map updates, the frames (branch wt-comp04)
    # ================================================================================================

  As `C05_reachable_pair_full`: `s` is the store ANY history of parses and extended API calls reaches from
  `Xot::new()`, the call is made as the next step `.api (.call …)` of the same history; the only hypotheses left
  are `PCall.wellKinded` of the earlier steps and what the originals ask of the call itself. -/

namespace XotModel.Props
open XotModel Spec

/-- ⟦C05_reachable_clone_map_full⟧ `clone_node` of a live node and the attribute / namespace map updates
    (`k : Forest.MapKind`, both views) of an element, each made as the next step on a reached store: the answer is
    `ok`, the forest after the step is the specification (`specClone`, `specMapInsert`, `specMapRemove`) handle for
    handle; for the clone also: the old trees stay, exactly one tree is added after them, all its handles are new. -/
theorem C05_reachable_clone_map_full (env : Env) (cs : List PCall) (hw : ∀ c ∈ cs, c.wellKinded) :
    let s := (PStore.init env).run cs
    let after := fun (c : Forest.Call) => (s.step (.api (.call c))).forest
    let answer := fun (c : Forest.Call) => ((PCall.api (.call c)).run s).2
    (∀ n src, s.forest.get? n = some src →
      after (.cloneNode n) = specClone n s.forest ∧ answer (.cloneNode n) = .api .ok ∧
      ∃ c C, (s.forest.cloneNode n).2 = some c ∧ C.handle = c ∧
        (after (.cloneNode n)).roots = s.forest.roots ++ [C] ∧
        (after (.cloneNode n)).content = specCloneContent n s.forest ∧
        (∀ h ∈ HTree.handles C, s.forest.next ≤ h ∧ h < (after (.cloneNode n)).next ∧ h ∉ s.forest.allHandles)) ∧
    (∀ k e entry, s.forest.isElement e = true → k.matches entry = true →
      after (.mapInsert k e entry) = specMapInsert k e entry s.forest ∧ answer (.mapInsert k e entry) = .api .ok) ∧
    (∀ k e key, s.forest.isElement e = true →
      after (.mapRemove k e key) = specMapRemove k e key s.forest ∧ answer (.mapRemove k e key) = .api .ok) := by
  intro s after answer
  have inv : s.forest.Inv := PStore.fph_run_inv cs (PStore.fph_init_inv env) hw
  refine ⟨fun n src hsrc => ?_, fun k e entry he hm => ?_, fun k e key he => ?_⟩
  · obtain ⟨c, C, h1, h2, h3, h4, h5, _⟩ := C05_clone_node inv hsrc
    refine ⟨C05_clone_node_exact inv hsrc, ?_, c, C, h1, h2, h3, h4, h5⟩
    show PRes.api (if (s.forest.cloneNode n).2.isSome then Res.ok else Res.panic) = _
    rw [h1]; rfl
  · have h := C05_map_insert (k := k) inv he hm
    refine ⟨congrArg Prod.fst h, ?_⟩
    show PRes.api (s.forest.mapInsert k e entry).2 = _
    rw [h]
  · have h := C05_map_remove (k := k) (key := key) inv he
    refine ⟨congrArg Prod.fst h, ?_⟩
    show PRes.api (s.forest.mapRemove k e key).2 = _
    rw [h]

/-- ⟦C05_reachable_map_entry_full⟧ … and the child list of the element afterwards, on a reached store: an existing
    key keeps its node (handle, place), only the payload changes, nothing is created; a new key is carried by exactly
    one new leaf placed after the view's entries; `remove` loses exactly the entry with the key. -/
theorem C05_reachable_map_entry_full (env : Env) (cs : List PCall) (hw : ∀ c ∈ cs, c.wellKinded) :
    let s := (PStore.init env).run cs
    let after := fun (c : Forest.Call) => (s.step (.api (.call c))).forest
    ∀ (k : Forest.MapKind) (e : Nat) (v : Value) (ks : List HTree), s.forest.isElement e = true →
      s.forest.get? e = some (.node e v ks) →
      (∀ entry, k.matches entry = true →
        (∀ n, ks.find? (isEntry k (Forest.entryKey entry)) = some n →
          ∃ X Y, ks = X ++ n :: Y ∧ (∀ c ∈ X, isEntry k (Forest.entryKey entry) c = false) ∧
            (after (.mapInsert k e entry)).get? e =
              some (.node e v (X ++ n.setValue (Forest.entryUpdate n.value entry) :: Y)) ∧
            (after (.mapInsert k e entry)).next = s.forest.next) ∧
        (ks.find? (isEntry k (Forest.entryKey entry)) = none →
          ∃ A B, ks = A ++ B ∧ (∀ c ∈ A, kidRank c ≤ viewRank k) ∧ (∀ c ∈ B, viewRank k < kidRank c) ∧
            (after (.mapInsert k e entry)).get? e = some (.node e v (A ++ .node s.forest.next entry [] :: B)) ∧
            (after (.mapInsert k e entry)).next = s.forest.next + 1)) ∧
      (∀ key,
        (∀ n, ks.find? (isEntry k key) = some n →
          ∃ X Y, ks = X ++ n :: Y ∧ (after (.mapRemove k e key)).get? e = some (.node e v (X ++ Y))) ∧
        (ks.find? (isEntry k key) = none → (after (.mapRemove k e key)).get? e = some (.node e v ks)) ∧
        (after (.mapRemove k e key)).next = s.forest.next) := by
  intro s after k e v ks he hg
  have inv : s.forest.Inv := PStore.fph_run_inv cs (PStore.fph_init_inv env) hw
  exact ⟨fun entry hm => C05_map_insert_entry inv he hm hg, fun key => C05_map_remove_entry inv he hg⟩

/-- ⟦C05_reachable_frame_full⟧ **The frame theorems on reached stores**: the call is a step appended to a `PCall`
    history; `x` is a node of the reached store with the context `cx` (parent, left siblings, value, right siblings).
    Under the same conditions on `x` as in `C05_pair_frame_*` / `C05_map_frame` (its parent is not one of the touched
    child lists, it lies in no moved / destroyed subtree) `x` keeps parent, value and sibling handles
    (`HTree.Ctx.shape`) across the step.  No `Forest.Normal`: consolidation may have been off earlier in the
    history.  `clone_node`: every old tree is literally unchanged (`C05_reachable_clone_map_full`: `roots ++ [C]`),
    so every context is. -/
theorem C05_reachable_frame_full (env : Env) (cs : List PCall) (hw : ∀ c ∈ cs, c.wellKinded) :
    let s := (PStore.init env).run cs
    let after := fun (c : Forest.Call) => (s.step (.api (.call c))).forest
    let ok := fun (c : Forest.Call) => ((PCall.api (.call c)).run s).2 = .api .ok
    let kept := fun (c : Forest.Call) (x : Nat) (cx : HTree.Ctx) =>
      ∃ cx', (after c).ctx? x = some cx' ∧ cx'.shape = cx.shape
    ∀ (x : Nat) (cx : HTree.Ctx), s.forest.ctx? x = some cx →
    (∀ p c t, ok (.append p c) → s.forest.get? c = some t → cx.parent ≠ p → some cx.parent ≠ s.forest.parent? c →
      cx.parent ∉ HTree.handles t → x ∉ HTree.handles t → kept (.append p c) x cx) ∧
    (∀ p c t, ok (.prepend p c) → s.forest.get? c = some t → cx.parent ≠ p → some cx.parent ≠ s.forest.parent? c →
      cx.parent ∉ HTree.handles t → x ∉ HTree.handles t → kept (.prepend p c) x cx) ∧
    (∀ r c q t, ok (.insertAfter r c) → s.forest.get? c = some t → s.forest.parent? r = some q → cx.parent ≠ q →
      some cx.parent ≠ s.forest.parent? c → cx.parent ∉ HTree.handles t → x ∉ HTree.handles t →
      kept (.insertAfter r c) x cx) ∧
    (∀ r c q t, ok (.insertBefore r c) → s.forest.get? c = some t → s.forest.parent? r = some q → cx.parent ≠ q →
      some cx.parent ≠ s.forest.parent? c → cx.parent ∉ HTree.handles t → x ∉ HTree.handles t →
      kept (.insertBefore r c) x cx) ∧
    (∀ n t, s.forest.get? n = some t → some cx.parent ≠ s.forest.parent? n → cx.parent ∉ HTree.handles t →
      x ∉ HTree.handles t → kept (.remove n) x cx ∧ kept (.detach n) x cx) ∧
    (∀ n p, ok (.elementUnwrap n) → s.forest.parent? n = some p → cx.parent ≠ p → cx.parent ≠ n →
      kept (.elementUnwrap n) x cx) ∧
    (∀ n name t, ok (.elementWrap n name) → s.forest.get? n = some t → some cx.parent ≠ s.forest.parent? n →
      kept (.elementWrap n name) x cx) ∧
    (∀ a b q A t, ok (.replace a b) → s.forest.get? a = some A → s.forest.get? b = some t →
      s.forest.parent? a = some q → cx.parent ≠ q → some cx.parent ≠ s.forest.parent? b →
      cx.parent ∉ HTree.handles t → x ∉ HTree.handles t → cx.parent ∉ HTree.handles A → x ∉ HTree.handles A →
      kept (.replace a b) x cx) ∧
    (∀ k e, s.forest.isElement e = true → cx.parent ≠ e →
      (∀ entry, k.matches entry = true → kept (.mapInsert k e entry) x cx) ∧
      (∀ key, kept (.mapRemove k e key) x cx)) := by
  intro s after ok kept x cx hx
  have inv : s.forest.Inv := PStore.fph_run_inv cs (PStore.fph_init_inv env) hw
  refine ⟨fun p c t h hg h1 h2 h3 h4 => C05_pair_frame_append inv (PRes.api.inj h) hg hx h1 h2 h3 h4,
    fun p c t h hg h1 h2 h3 h4 => C05_pair_frame_prepend inv (PRes.api.inj h) hg hx h1 h2 h3 h4,
    fun r c q t h hg hq h1 h2 h3 h4 => C05_pair_frame_insertAfter inv (PRes.api.inj h) hg hq hx h1 h2 h3 h4,
    fun r c q t h hg hq h1 h2 h3 h4 => C05_pair_frame_insertBefore inv (PRes.api.inj h) hg hq hx h1 h2 h3 h4,
    fun n t hg h1 h3 h4 => ⟨C05_pair_frame_remove inv hg hx h1 h3 h4, C05_pair_frame_detach inv hg hx h1 h3 h4⟩,
    fun n p h hp h1 h2 => C05_pair_frame_unwrap inv (PRes.api.inj h) hp hx h1 h2,
    fun n name t h hg h1 => C05_pair_frame_wrap inv (PRes.api.inj h) hg hx h1,
    fun a b q A t h hA hb hq h1 h2 h3 h4 h5 h6 =>
      C05_pair_frame_replace inv (PRes.api.inj h) hA hb hq hx h1 h2 h3 h4 h5 h6,
    fun k e he hne => C05_map_frame (k := k) inv he hx hne⟩

/-- ⟦C05_reachable_roots_frame_full⟧ The parentless trees under the map updates and `clone_node` on a reached store:
    a tree not holding the element is identical, at the same index; `clone_node` keeps every tree at its index. -/
theorem C05_reachable_roots_frame_full (env : Env) (cs : List PCall) (hw : ∀ c ∈ cs, c.wellKinded) :
    let s := (PStore.init env).run cs
    let after := fun (c : Forest.Call) => (s.step (.api (.call c))).forest
    ∀ (i : Nat) (r : HTree), s.forest.roots[i]? = some r →
    (∀ k e, s.forest.isElement e = true → e ∉ HTree.handles r →
      (∀ entry, k.matches entry = true → (after (.mapInsert k e entry)).roots[i]? = some r) ∧
      (∀ key, (after (.mapRemove k e key)).roots[i]? = some r)) ∧
    (∀ n src, s.forest.get? n = some src → (after (.cloneNode n)).roots[i]? = some r) := by
  intro s after i r hr
  have inv : s.forest.Inv := PStore.fph_run_inv cs (PStore.fph_init_inv env) hw
  refine ⟨fun k e he her => C05_map_roots_frame (k := k) inv he hr her, fun n src hsrc => ?_⟩
  obtain ⟨c, C, _, _, h3, _⟩ := C05_clone_node inv hsrc
  show (s.forest.cloneNode n).1.roots[i]? = some r
  rw [h3, List.getElem?_append_left (List.getElem?_eq_some_iff.mp hr).1]
  exact hr

/-! ### Non-vacuity: parse `<r>a<b/>c</r>` (document 0, `r` 1, `a` 2, `b` 3, `c` 4); then `clone_node(r)`,
    `set_attribute(r, 7, "v")`, and `append(r, a)` seen from `b` (its left sibling `a` leaves: `b` is under the touched
    parent, not framed) and from `r` (parent 0: framed). -/
example : let s := (PStore.init Env.fresh).run c05FullCalls
    s.forest.get? 1 ≠ none ∧ s.forest.isElement 1 = true ∧
    (s.step (.api (.call (.cloneNode 1)))).forest.roots.length = 2 ∧
    ((s.step (.api (.call (.mapInsert .attributes 1 (.attribute 7 ['v']))))).forest.get? 1).map (·.kids.length) = some 4 ∧
    ((PCall.api (.call (.append 1 2))).run s).2 = .api .ok ∧
    (s.forest.ctx? 1).map HTree.Ctx.shape = some (0, [], .element 2, []) ∧
    ((s.step (.api (.call (.append 1 2)))).forest.ctx? 1).map HTree.Ctx.shape = some (0, [], .element 2, []) := by
  decide +kernel

end XotModel.Props


/-! # ================================================================================================
    # ONE GENERAL CHILD-LIST FRAME for the extended calls (branch wt-framegen)
    # ================================================================================================

  The frames above are stated per call, each in its own shape, most of them for `ctx?` of a node whose PARENT is
  not touched.  `C05_frame_general` is ONE statement over the extended calls `Forest.XCall`, in the `get?`-of-the-node
  form: `Forest.XCall.writtenParents f c` (Model/FframeSpec.lean) lists the handles whose child list or own value
  the call may change — old and new parent of a moved node with the text children that consolidation may merge, the
  moved node itself when it is a text node, the node for setters, the element and its entry nodes for map updates,
  the wrapper, its parent and the text children of both for element_unwrap,
  the whole subtree for create_missing_prefixes / deduplicate_namespaces / remove_insignificant_whitespace, nothing
  for node creation and the clones.  Every OTHER live node that is not inside a removed subtree
  (`removedHandles`) and not inside the moved subtree (`movedSubtree`) is live afterwards with the same value and
  the same children (same handles, same order: `Forest.kidHandles`), and keeps its parent when the parent is such a
  node too.

  Domain (`XCall.framed`): the nine structural calls append, prepend, insert_after, insert_before, detach, remove,
  replace, element_wrap, element_unwrap; clone_node, clone_with_prefixes; map insert and map remove;
  text_content_mut().set(); the four value setters; node creation; set_text_consolidation.  NOT in the domain
  (`writtenParents` is defined for them, the frame is not proved): any_append, append of an entry node, map clear,
  remove_insignificant_whitespace, create_missing_prefixes, deduplicate_namespaces.
  Not stated: the nodes strictly inside the moved subtree (they keep value and children too); a parentless node
  staying parentless. -/

namespace XotModel.Props
open XotModel Spec

/-- ⟦C05_frame_general⟧ **No other node is created, lost, reordered or altered** — one statement for the calls of
    the domain `XCall.framed`.  Every forest with the invariant, every call with live arguments that answers `ok`,
    every live node `h` outside `writtenParents`, outside the removed subtree and outside the moved subtree: `h` is
    live afterwards, has the same value and the same children (the same handles in the same order); and if its
    parent `p` is such a node too, `p` is still its parent. -/
theorem C05_frame_general {s : Store} {c : Forest.XCall} (inv : s.forest.Inv) (hw : c.wellKinded)
    (hf : c.framed = true) (hla : c.liveArgs s.forest) (hok : (c.run s).2 = .ok)
    {h : Nat} (hl : s.forest.isLive h = true)
    (hnw : h ∉ c.writtenParents s.forest) (hnr : h ∉ c.removedHandles s.forest)
    (hnm : h ∉ c.movedSubtree s.forest) :
    (c.run s).1.forest.isLive h = true ∧
    (c.run s).1.forest.value? h = s.forest.value? h ∧
    (c.run s).1.forest.kidHandles h = s.forest.kidHandles h ∧
    (∀ p, s.forest.parent? h = some p → p ∉ c.writtenParents s.forest → p ∉ c.removedHandles s.forest →
      p ∉ c.movedSubtree s.forest → (c.run s).1.forest.parent? h = some p) := by
  have fr := frame_general inv hw hf hla hok hl hnw hnr hnm
  refine ⟨fr.live, fr.value, fr.kids, fun p hp h1 h2 h3 => ?_⟩
  have inv' : (c.run s).1.forest.Inv := Store.xstep_inv inv c hw
  have hk := kid_of_parent? inv.nodup hp
  have hpl : s.forest.isLive p = true := by
    unfold Forest.kidHandles at hk
    unfold Forest.isLive
    cases hg : s.forest.get? p with
    | none => rw [hg] at hk; cases hk
    | some t => rfl
  exact parent_of_frameAt inv.nodup inv'.nodup hp (frame_general inv hw hf hla hok hpl h1 h2 h3)

/-- The setters, node creation and `set_text_consolidation`, whatever they answer: every live node other than the
    one written keeps value, children AND parent (no condition on the parent). -/
theorem C05_frame_general_simple {s : Store} {c : Forest.XCall} (inv : s.forest.Inv) (hs : simpleCall c = true)
    {h : Nat} (hl : s.forest.isLive h = true) (hnw : h ∉ c.writtenParents s.forest) :
    c.framed = true ∧
    (c.run s).1.forest.isLive h = true ∧
    (c.run s).1.forest.value? h = s.forest.value? h ∧
    (c.run s).1.forest.kidHandles h = s.forest.kidHandles h ∧
    (c.run s).1.forest.parent? h = s.forest.parent? h := by
  obtain ⟨fr, hp⟩ := frame_general_framed inv hs hl hnw
  exact ⟨framed_of_simpleCall hs, fr.live, fr.value, fr.kids, hp⟩

/-- Non-vacuity on `frameWitness` (adjacent text nodes; `<e>w x <u>i j<k/>m</u> y z <v/></e>`, the parentless text
    `r` = 11, a second tree): `append(v, r)` — a text node appended to the element `v` = 10.  Written: `v` and `r`.
    The SIBLING element `u` = 3 and the common parent `e` = 0 are framed: same value, same children, `u` keeps the
    parent `e`; `detach(u)` merges `x` and `y`: written are `e` and its text children, `k` = 6 inside `u` is in the
    moved subtree, the element `h` = 13 of the other tree is framed. -/
example :
    let s : Store := ⟨frameWitness, Env.fresh⟩
    let c : Forest.XCall := .call (.append 10 11)
    s.forest.inv = true ∧ c.framed = true ∧ (c.run s).2 = .ok ∧
    c.writtenParents s.forest = [10, 11] ∧ c.removedHandles s.forest = [] ∧ c.movedSubtree s.forest = [11] ∧
    s.forest.kidHandles 3 = [4, 5, 6, 7] ∧ (c.run s).1.forest.kidHandles 3 = [4, 5, 6, 7] ∧
    s.forest.kidHandles 0 = [1, 2, 3, 8, 9, 10] ∧ (c.run s).1.forest.kidHandles 0 = [1, 2, 3, 8, 9, 10] ∧
    (c.run s).1.forest.parent? 3 = some 0 ∧ (c.run s).1.forest.kidHandles 10 = [11] ∧
    (Forest.XCall.call (.detach 3)).writtenParents s.forest = [0, 1, 2, 8, 9] ∧
    (Forest.XCall.call (.detach 3)).movedSubtree s.forest = [3, 4, 5, 6, 7] ∧
    ((Forest.XCall.call (.detach 3)).run s).1.forest.kidHandles 12 = [13, 14] ∧
    ((Forest.XCall.call (.detach 3)).run s).1.forest.kidHandles 0 = [1, 2, 9, 10] := by
  decide +kernel

/-- Non-vacuity, the other structural calls on `frameWitness`: `replace(v, r)` (10 by the parentless text 11, merged
    into `z`): written are `e`, its text children and `r`; `v` is removed; the sibling element `u` = 3 and the other
    tree keep their children.  `element_unwrap(u)`: written are `u`, its text children `i j m`, `e` and its text
    children; the other tree keeps its children, `e` gets the normal children of `u`. -/
example :
    let s : Store := ⟨frameWitness, Env.fresh⟩
    let c : Forest.XCall := .call (.replace 10 11)
    let d : Forest.XCall := .call (.elementUnwrap 3)
    c.framed = true ∧ (c.run s).2 = .ok ∧ c.writtenParents s.forest = [0, 1, 2, 8, 9, 11] ∧
    c.removedHandles s.forest = [10] ∧ c.movedSubtree s.forest = [11] ∧
    (c.run s).1.forest.kidHandles 3 = [4, 5, 6, 7] ∧ (c.run s).1.forest.kidHandles 12 = [13, 14] ∧
    (c.run s).1.forest.value? 3 = s.forest.value? 3 ∧
    d.framed = true ∧ (d.run s).2 = .ok ∧ d.writtenParents s.forest = [3, 4, 5, 7, 0, 1, 2, 8, 9] ∧
    d.removedHandles s.forest = [3] ∧
    (d.run s).1.forest.kidHandles 12 = [13, 14] ∧ (d.run s).1.forest.kidHandles 6 = [] ∧
    (d.run s).1.forest.kidHandles 0 = [1, 2, 5, 6, 7, 9, 10] := by
  decide +kernel

/-- ⟦C05_reachable_frame_general_full⟧ … on every store a history of parses and API calls reaches from
    `Xot::new()`: no hypothesis on the invariant (`C04_reach_full`). -/
theorem C05_reachable_frame_general_full (env : Env) (cs : List PCall) (hw : ∀ c ∈ cs, c.wellKinded)
    (c : Forest.XCall) (hwc : c.wellKinded) (hf : c.framed = true) :
    let s := ((PStore.init env).run cs).store
    c.liveArgs s.forest → (c.run s).2 = .ok →
    ∀ h, s.forest.isLive h = true → h ∉ c.writtenParents s.forest → h ∉ c.removedHandles s.forest →
      h ∉ c.movedSubtree s.forest →
      (c.run s).1.forest.isLive h = true ∧
      (c.run s).1.forest.value? h = s.forest.value? h ∧
      (c.run s).1.forest.kidHandles h = s.forest.kidHandles h := by
  intro s hla hok h hl h1 h2 h3
  have inv : s.forest.Inv := PStore.fph_run_inv cs (PStore.fph_init_inv env) hw
  obtain ⟨a, b, c', _⟩ := C05_frame_general inv hwc hf hla hok hl h1 h2 h3
  exact ⟨a, b, c'⟩

end XotModel.Props


/-! # ================================================================================================
    # THE GENERAL FRAME, LARGER DOMAIN (branch wt-framerest)
    # ================================================================================================

  `C05_frame_general2`: the statement of `C05_frame_general` for the domain `XCall.framed2` = `framed` and
  map clear, append of an entry node (`append_attribute_node` / `append_namespace_node`), `any_append`,
  `remove_insignificant_whitespace` (Model/FframeSpec2.lean), with `writtenParents2 = writtenParents ++ extraWritten`.

  `writtenParents` alone is NOT enough for the append of an entry node whose key is present in the target element: the
  existing entry node of the target takes the value and is neither the target nor a text child
  (`C05_writtenParents_misses_existing_entry`, a closed counterexample); `extraWritten` adds the entry nodes of that
  kind of the target.  Likewise `remove_insignificant_whitespace(n)` removes `n` itself when it is a whitespace text
  node the rule selects, and the parent of `n` is outside the subtree of `n`
  (`C05_writtenParents_misses_parent_of_stripped_text`); `extraWritten` adds the parent.

  NOT in `framed2`: create_missing_prefixes, deduplicate_namespaces.

  Inside the moved subtree: `C05_moved_subtree_intact` (generic: the node carries the same subtree in both forests)
  and its instances `C05_frame_general_moved_detach`, `C05_frame_general_moved_wrap`.  The other moves are not
  instantiated. -/

namespace XotModel.Props
open XotModel Spec

/-- ⟦C05_frame_general2⟧ **No other node is created, lost, reordered or altered** — the calls of `XCall.framed2`
    (the 21 kinds of `framed`, map clear, append of an entry node, any_append, remove_insignificant_whitespace).  Every forest with the invariant,
    every call with live arguments that answers `ok`, every live node `h` outside `writtenParents2`, outside the
    removed subtree and outside the moved subtree: `h` is live afterwards, has the same value and the same children
    (the same handles in the same order); and if its parent `p` is such a node too, `p` is still its parent. -/
theorem C05_frame_general2 {s : Store} {c : Forest.XCall} (inv : s.forest.Inv) (hw : c.wellKinded)
    (hf : c.framed2 = true) (hla : c.liveArgs s.forest) (hok : (c.run s).2 = .ok)
    {h : Nat} (hl : s.forest.isLive h = true)
    (hnw : h ∉ c.writtenParents2 s.forest) (hnr : h ∉ c.removedHandles s.forest)
    (hnm : h ∉ c.movedSubtree s.forest) :
    (c.run s).1.forest.isLive h = true ∧
    (c.run s).1.forest.value? h = s.forest.value? h ∧
    (c.run s).1.forest.kidHandles h = s.forest.kidHandles h ∧
    (∀ p, s.forest.parent? h = some p → p ∉ c.writtenParents2 s.forest → p ∉ c.removedHandles s.forest →
      p ∉ c.movedSubtree s.forest → (c.run s).1.forest.parent? h = some p) := by
  have fr := frame_general2 inv hw hf hla hok hl hnw hnr hnm
  refine ⟨fr.live, fr.value, fr.kids, fun p hp h1 h2 h3 => ?_⟩
  have inv' : (c.run s).1.forest.Inv := Store.xstep_inv inv c hw
  have hk := kid_of_parent? inv.nodup hp
  have hpl : s.forest.isLive p = true := by
    unfold Forest.kidHandles at hk
    unfold Forest.isLive
    cases hg : s.forest.get? p with
    | none => rw [hg] at hk; cases hk
    | some t => rfl
  exact parent_of_frameAt inv.nodup inv'.nodup hp (frame_general2 inv hw hf hla hok hpl h1 h2 h3)

/-- `framed2` extends `framed`. -/
theorem C05_framed2_of_framed {c : Forest.XCall} (h : c.framed = true) : c.framed2 = true := framed2_of_framed h

/-- The three constructors by themselves, in the `get?`-free form: **map clear** — every live node other than the
    element and its entry nodes of that kind keeps value and children. -/
theorem C05_frame_mapClear {f : Forest} (inv : f.Inv) {k : Forest.MapKind} {e : Nat}
    (hok : (f.mapClear k e).2 = .ok) {h : Nat} (hl : f.isLive h = true) (hne : h ≠ e)
    (hz : h ∉ f.entryHandles k e) :
    (f.mapClear k e).1.isLive h = true ∧ (f.mapClear k e).1.value? h = f.value? h ∧
    (f.mapClear k e).1.kidHandles h = f.kidHandles h := by
  have fr := (getFrame_mapClear inv (isElement_of_mapClear_ok hok) hne hz).frameAt hl
  exact ⟨fr.live, fr.value, fr.kids⟩

/-- `<e a="1">x</e>` (0; 1; 2), the parentless attribute node `a="2"` (3), `<g b="3"/>` (4; 5). -/
def frameWitness2 : Forest :=
  { roots := [.node 0 (.element 2) [.node 1 (.attribute 5 ['1']) [], .node 2 (.text ['x']) []],
              .node 3 (.attribute 5 ['2']) [],
              .node 4 (.element 3) [.node 5 (.attribute 6 ['3']) []]],
    next := 6 }

/-- ⟦C05_writtenParents_misses_existing_entry⟧ `append_attribute_node(e, a="2")` on `frameWitness2`: the key `a` is
    present in `e`, the existing attribute node 1 takes the value `2`; 1 is live, not in `writtenParents`, not in a
    removed or moved subtree — and its value changes.  With `writtenParents2` it is listed. -/
theorem C05_writtenParents_misses_existing_entry :
    let s : Store := ⟨frameWitness2, Env.fresh⟩
    let c : Forest.XCall := .call (.appendEntryNode .attributes 0 3)
    s.forest.inv = true ∧ (c.run s).2 = .ok ∧ s.forest.isLive 1 = true ∧
    c.writtenParents s.forest = [0, 2] ∧ c.removedHandles s.forest = [] ∧ c.movedSubtree s.forest = [3] ∧
    s.forest.value? 1 = some (.attribute 5 ['1']) ∧ (c.run s).1.forest.value? 1 = some (.attribute 5 ['2']) ∧
    c.writtenParents2 s.forest = [0, 2, 1] ∧ c.framed2 = true := by
  decide +kernel

/-- Non-vacuity of `C05_frame_general2` on `frameWitness2`: the attribute node 5 of `g` is appended to `e` (key `b`
    absent): written are `g`, `e`, the text child of `e` and the attribute node of `e`; the node 5 moves; the
    parentless attribute 3 is framed, `g` loses its child, `e` gets it after its attribute.  `any_append` of the same
    node is the same call.  `clear()` of the attributes of `e`: written are `e` and 1; the text 2 stays. -/
example :
    let s : Store := ⟨frameWitness2, Env.fresh⟩
    let c : Forest.XCall := .call (.appendEntryNode .attributes 0 5)
    let d : Forest.XCall := .call (.anyAppend 0 5)
    let m : Forest.XCall := .call (.mapClear .attributes 0)
    c.framed2 = true ∧ (c.run s).2 = .ok ∧ c.writtenParents2 s.forest = [4, 0, 2, 1] ∧
    c.movedSubtree s.forest = [5] ∧ (c.run s).1.forest.value? 3 = s.forest.value? 3 ∧
    (c.run s).1.forest.kidHandles 0 = [1, 5, 2] ∧ (c.run s).1.forest.kidHandles 4 = [] ∧
    d.framed2 = true ∧ (d.run s).2 = .ok ∧ d.writtenParents2 s.forest = [4, 0, 2, 1] ∧
    (d.run s).1.forest.kidHandles 0 = [1, 5, 2] ∧
    m.framed2 = true ∧ (m.run s).2 = .ok ∧ m.writtenParents2 s.forest = [0, 1] ∧
    (m.run s).1.forest.kidHandles 0 = [2] ∧ (m.run s).1.forest.kidHandles 4 = [5] ∧
    (m.run s).1.forest.value? 2 = s.forest.value? 2 := by
  decide +kernel

/-- `remove_insignificant_whitespace(n)` by itself: every live node outside the subtree of `n` that is not the
    parent of `n` keeps value and children. -/
theorem C05_frame_removeInsignificantWhitespace {f : Forest} (inv : f.Inv) {n : Nat} (hn : f.isLive n = true)
    {h : Nat} (hl : f.isLive h = true) (hz : h ∉ f.subtreeHandles n) (hp : some h ≠ f.parent? n) :
    (f.removeInsignificantWhitespace n).isLive h = true ∧
    (f.removeInsignificantWhitespace n).value? h = f.value? h ∧
    (f.removeInsignificantWhitespace n).kidHandles h = f.kidHandles h := by
  obtain ⟨t, hg⟩ := Forest.get_of_live hn
  have fr := (getFrame_riw inv hg (not_mem_handles_of_subtree hg hz) hp).frameAt hl
  exact ⟨fr.live, fr.value, fr.kids⟩

/-- `<e>·<u/></e>` (0; the whitespace text 1; 2) and a second tree `<g>·</g>` (3; 4). -/
def frameWitness3 : Forest :=
  { roots := [.node 0 (.element 2) [.node 1 (.text [' ']) [], .node 2 (.element 3) []],
              .node 3 (.element 4) [.node 4 (.text [' ']) []]],
    next := 5 }

/-- ⟦C05_writtenParents_misses_parent_of_stripped_text⟧ `remove_insignificant_whitespace(1)` on `frameWitness3`, the
    start node being itself a whitespace text node the rule selects: it is removed; its parent 0 is live, not in
    `writtenParents` (the subtree of 1) — and its child list changes.  With `writtenParents2` it is listed.  The other
    tree is framed; the call on `e` itself writes inside `e` only. -/
theorem C05_writtenParents_misses_parent_of_stripped_text :
    let s : Store := ⟨frameWitness3, Env.fresh⟩
    let c : Forest.XCall := .removeInsignificantWhitespace 1
    let d : Forest.XCall := .removeInsignificantWhitespace 0
    s.forest.inv = true ∧ (c.run s).2 = .ok ∧ s.forest.isLive 0 = true ∧
    c.writtenParents s.forest = [1] ∧ c.removedHandles s.forest = [] ∧ c.movedSubtree s.forest = [] ∧
    s.forest.kidHandles 0 = [1, 2] ∧ (c.run s).1.forest.kidHandles 0 = [2] ∧
    c.writtenParents2 s.forest = [1, 0] ∧ c.framed2 = true ∧
    (c.run s).1.forest.kidHandles 3 = [4] ∧
    d.framed2 = true ∧ d.writtenParents2 s.forest = [0, 1, 2] ∧ (d.run s).1.forest.kidHandles 0 = [2] ∧
    (d.run s).1.forest.kidHandles 3 = [4] ∧ (d.run s).1.forest.value? 4 = s.forest.value? 4 := by
  decide +kernel

/-- ⟦C05_moved_subtree_intact⟧ INSIDE the moved subtree, the generic step: two forests with distinct handles in
    which the node `c` carries the SAME subtree `t` — every node of `t` (the node `c` itself included) is live in the
    second with the same value and the same children. -/
theorem C05_moved_subtree_intact {f f' : Forest} (nd : f.allHandles.Nodup) (nd' : f'.allHandles.Nodup) {c : Nat}
    {t : HTree} (hg : f.get? c = some t) (hg' : f'.get? c = some t) {h : Nat} (hm : h ∈ f.subtreeHandles c) :
    f'.isLive h = true ∧ f'.value? h = f.value? h ∧ f'.kidHandles h = f.kidHandles h := by
  have hz : h ∈ HTree.handles t := by
    unfold Forest.subtreeHandles at hm
    rw [hg] at hm
    exact hm
  have e := get?_inside_of_subtree nd nd' hg hg' hz
  have hl : f.isLive h = true := by
    obtain ⟨anc, o⟩ := Fws.occurs_of_get? hg
    obtain ⟨q, hq⟩ := Fws.find?_some_of_mem h t hz
    unfold Forest.isLive
    rw [o.find_local nd h q hq]
    rfl
  have fr := frameAt_of_get?_eq hl e
  exact ⟨fr.live, fr.value, fr.kids⟩

/-- ⟦C05_frame_general_moved_detach⟧ `detach(n)`: every node of the moved subtree (`n` itself included) keeps its
    value and its children. -/
theorem C05_frame_general_moved_detach {f : Forest} (inv : f.Inv) {n : Nat} (hn : f.isLive n = true) {h : Nat}
    (hm : h ∈ (Forest.XCall.call (.detach n)).movedSubtree f) :
    (f.detach n).1.isLive h = true ∧ (f.detach n).1.value? h = f.value? h ∧
    (f.detach n).1.kidHandles h = f.kidHandles h := by
  obtain ⟨t, hg⟩ := Forest.get_of_live hn
  exact C05_moved_subtree_intact inv.nodup (Forest.detach_inv inv n).nodup hg (detach_get_moved inv hg) hm

/-- ⟦C05_frame_general_moved_wrap⟧ `element_wrap(n, name)`: every node of the moved subtree (`n` itself included)
    keeps its value and its children. -/
theorem C05_frame_general_moved_wrap {f : Forest} (inv : f.Inv) {n name : Nat} (hn : f.isLive n = true)
    (hok : (f.elementWrap n name).2.1 = .ok) {h : Nat}
    (hm : h ∈ (Forest.XCall.call (.elementWrap n name)).movedSubtree f) :
    (f.elementWrap n name).1.isLive h = true ∧ (f.elementWrap n name).1.value? h = f.value? h ∧
    (f.elementWrap n name).1.kidHandles h = f.kidHandles h := by
  obtain ⟨t, hg⟩ := Forest.get_of_live hn
  exact C05_moved_subtree_intact inv.nodup (Forest.elementWrap_inv inv n name).nodup hg (wrap_get_moved inv hok hg) hm

/-- Non-vacuity on `frameWitness`: `detach(u)` (3, with the children 4 5 6 7). -/
example :
    let f := frameWitness
    f.inv = true ∧ (Forest.XCall.call (.detach 3)).movedSubtree f = [3, 4, 5, 6, 7] ∧
    (f.detach 3).1.kidHandles 3 = [4, 5, 6, 7] ∧ (f.detach 3).1.value? 6 = f.value? 6 ∧
    (f.elementWrap 3 9).2.1 = .ok ∧ (f.elementWrap 3 9).1.kidHandles 3 = [4, 5, 6, 7] ∧
    (f.elementWrap 3 9).1.value? 6 = f.value? 6 := by
  decide +kernel

/-- ⟦C05_reachable_frame_general2_full⟧ … on every store a history of parses and API calls reaches from
    `Xot::new()`: no hypothesis on the invariant (`C04_reach_full`). -/
theorem C05_reachable_frame_general2_full (env : Env) (cs : List PCall) (hw : ∀ c ∈ cs, c.wellKinded)
    (c : Forest.XCall) (hwc : c.wellKinded) (hf : c.framed2 = true) :
    let s := ((PStore.init env).run cs).store
    c.liveArgs s.forest → (c.run s).2 = .ok →
    ∀ h, s.forest.isLive h = true → h ∉ c.writtenParents2 s.forest → h ∉ c.removedHandles s.forest →
      h ∉ c.movedSubtree s.forest →
      (c.run s).1.forest.isLive h = true ∧
      (c.run s).1.forest.value? h = s.forest.value? h ∧
      (c.run s).1.forest.kidHandles h = s.forest.kidHandles h := by
  intro s hla hok h hl h1 h2 h3
  have inv : s.forest.Inv := PStore.fph_run_inv cs (PStore.fph_init_inv env) hw
  obtain ⟨a, b, c', _⟩ := C05_frame_general2 inv hwc hf hla hok hl h1 h2 h3
  exact ⟨a, b, c'⟩

end XotModel.Props
