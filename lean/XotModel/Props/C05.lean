/-
  C05 — Each manipulation call has exactly the effect an ordered-tree model predicts.
  Property theorems only.  The specification is `Model/FspecSpec.lean` (`specMove`, `specRemove`,
  `specDetach`, `specUnwrap`, `specWrap`, `specReplace`; `Forest.content` = the forest with the
  handles forgotten); proofs are in `Lemmas/Fspec*.lean`.
-/
import XotModel.Model.FspecSpec
import XotModel.Lemmas.ForestBasic
import XotModel.Lemmas.FspecDetach
import XotModel.Lemmas.FspecAppend

namespace XotModel.Props
open XotModel XotModel.Spec

/-! ### The survivor of a merge: a recorded finding

  Property text: "text nodes that become adjacent are merged into the earlier one".  When a text
  node is placed BEFORE an existing text node (`prepend`, `insert_before`, and `insert_after` a
  non-text node that is followed by text) xot keeps the existing, i.e. LATER, node and destroys
  the node it was asked to move.  Pinned by xot's own unit tests
  (`test_insert_before_consolidate_text`, `test_prepend_consolidate_text`). -/

/-- `<a>y</a>` and a parentless text node `x`. -/
def laterWitness : Forest :=
  { roots := [.node 0 (.element 2) [.node 1 (.text ['y']) []], .node 2 (.text ['x']) []], next := 3 }

/-- The literal clause is false of the code: `prepend(a, x)` succeeds, the moved (earlier) node 2
    is destroyed and the later node 1 carries `xy`; likewise `insert_before(y, x)`. -/
theorem C05_later_survives_witness :
    laterWitness.inv = true ∧
    (laterWitness.prepend 0 2).2 = .ok ∧
    (laterWitness.prepend 0 2).1.isLive 2 = false ∧
    (laterWitness.prepend 0 2).1.value? 1 = some (.text ['x', 'y']) ∧
    (laterWitness.insertBefore 1 2).2 = .ok ∧
    (laterWitness.insertBefore 1 2).1.isLive 2 = false ∧
    (laterWitness.insertBefore 1 2).1.value? 1 = some (.text ['x', 'y']) ∧
    -- the specification with the rule of the property text keeps node 2 instead
    (specMove Keep.earlier (.firstNormalChildOf 0) 2 laterWitness).isLive 2 = true ∧
    -- and both agree once handles are forgotten
    (laterWitness.prepend 0 2).1.content = (specMove Keep.earlier (.firstNormalChildOf 0) 2 laterWitness).content := by
  decide

/-! ### Scope

  `Forest.Inv` is the C04 invariant.  `Forest.Normal f` says: if consolidation is on, the forest
  holds no adjacent text nodes.  It follows from `Forest.Inv` while consolidation has never been
  switched off (`normal_of_never_off`); after `set_text_consolidation(false)` … `(true)` adjacent
  text nodes may exist, xot then merges only the pair that becomes adjacent while the
  specification merges the whole run, so `Normal` is the boundary of the statements below. -/

theorem normal_of_never_off {f : Forest} (inv : f.Inv) (h : f.everOff = false) : f.Normal := by
  intro _
  have := inv.valid
  rw [h] at this
  exact this

/-! ### remove, detach -/

/-- `remove` destroys exactly the targeted subtree; the two text nodes it separated are merged
    into the earlier one (handle for handle, for either survivor rule). -/
theorem C05_remove {f : Forest} {n : Nat} (inv : f.Inv) (norm : f.Normal) (live : f.isLive n = true) :
    (f.remove n).1 = specRemove Keep.earlier n f ∧ (f.remove n).2 = .ok :=
  ⟨remove_spec (Keep.earlier_spec n) inv norm live, rfl⟩

/-- `detach`: the subtree becomes a parentless tree, nothing else changes but the merge of the two
    text nodes it separated. -/
theorem C05_detach {f : Forest} {n : Nat} (inv : f.Inv) (norm : f.Normal) (live : f.isLive n = true) :
    (f.detach n).1 = specDetach Keep.earlier n f ∧ (f.detach n).2 = .ok :=
  ⟨detach_spec (Keep.earlier_spec n) inv norm live, rfl⟩

/-! ### append -/

/-- A successful `append(p, c)` is the specification's move of `c` to the last position under
    `p`, handle for handle: with the survivor rule of the property text (the earlier node) … -/
theorem C05_append_exact {f : Forest} {p c : Nat} (inv : f.Inv) (norm : f.Normal)
    (hok : (f.append p c).2 = .ok) :
    (f.append p c).1 = specMove Keep.earlier (.lastChildOf p) c f :=
  append_spec (Keep.earlier_spec c) inv norm hok

/-- … and, equally, with xot's rule "the moved node never survives" (for `append` they coincide). -/
theorem C05_append_resident {f : Forest} {p c : Nat} (inv : f.Inv) (norm : f.Normal)
    (hok : (f.append p c).2 = .ok) :
    (f.append p c).1 = specMove (Keep.resident c) (.lastChildOf p) c f :=
  append_spec (Keep.resident_spec c) inv norm hok

/-- The statement with handles forgotten. -/
theorem C05_append {f : Forest} {p c : Nat} (inv : f.Inv) (norm : f.Normal)
    (hok : (f.append p c).2 = .ok) :
    (f.append p c).1.content = (specMove Keep.earlier (.lastChildOf p) c f).content := by
  rw [C05_append_exact inv norm hok]

/-- Same position: `append(p, c)` with `c` already the last child of `p` returns the forest itself. -/
theorem C05_samepos_append {f : Forest} {p c : Nat} (hc : f.structureCheck (some p) c = true)
    (h : f.lastChild p = some c) : f.append p c = (f, .ok) := by
  simp [Forest.append, hc, h]

/-- When a text node is appended after a text node, the EARLIER node survives: it keeps its
    handle and carries both data, the appended node is gone. -/
theorem C05_survivor_append_witness :
    let f : Forest := { roots := [.node 0 (.element 2) [.node 1 (.text ['x']) []], .node 2 (.text ['y']) []], next := 3 }
    f.inv = true ∧ (f.append 0 2).2 = .ok ∧ (f.append 0 2).1.isLive 2 = false ∧
      (f.append 0 2).1.value? 1 = some (.text ['x', 'y']) := by
  decide

/-- Non-vacuity of the hypotheses: a forest satisfying `Inv` and `Normal` on which `append` succeeds
    with a merge at the old place (`x<b/>y` loses `b`) and none at the new one. -/
example :
    let f : Forest := { roots := [.node 0 (.element 2) [.node 1 (.text ['x']) [], .node 2 (.element 3) [], .node 3 (.text ['y']) []],
                                  .node 4 (.element 2) []], next := 5 }
    f.inv = true ∧ (f.append 4 2).2 = .ok ∧ (f.append 4 2).1.value? 1 = some (.text ['x', 'y']) ∧
      (f.append 4 2).1.isLive 3 = false := by
  decide

end XotModel.Props
