/-
  C06 — A refused manipulation changes nothing; calls on live nodes do not panic.
  Property theorems only.

  Full statement (goal): `f.inv → LiveArgs f op → (step f op).2 = .err e → (step f op).1 = f`, and
  `(step f op).2 = .panic →` op is a documented element-only accessor on a non-element.
  Proved so far: every refusal produced by the argument checks (which the Rust performs before
  it touches the arena) leaves the state untouched.
-/
import XotModel.Lemmas.ForestBasic

namespace XotModel.Props
open XotModel

/-- `append`: a failing structure check returns the forest as it was. -/
theorem C06_append_refused (f : Forest) (p c : Nat) (h : f.structureCheck (some p) c = false) :
    f.append p c = (f, .err .invalidOperation) := by
  simp [Forest.append, h]

theorem C06_prepend_refused (f : Forest) (p c : Nat) (h : f.structureCheck (some p) c = false) :
    f.prepend p c = (f, .err .invalidOperation) := by
  simp [Forest.prepend, h]

theorem C06_insertAfter_refused (f : Forest) (r n : Nat)
    (h : f.structureCheck (f.parent? r) n = false ∨ f.siblingReferenceCheck r n = false) :
    f.insertAfter r n = (f, .err .invalidOperation) := by
  unfold Forest.insertAfter
  cases h with
  | inl h => simp [h]
  | inr h => by_cases h1 : f.structureCheck (f.parent? r) n <;> simp [h, h1]

theorem C06_insertBefore_refused (f : Forest) (r n : Nat)
    (h : f.structureCheck (f.parent? r) n = false ∨ f.siblingReferenceCheck r n = false) :
    f.insertBefore r n = (f, .err .invalidOperation) := by
  unfold Forest.insertBefore
  cases h with
  | inl h => simp [h]
  | inr h => by_cases h1 : f.structureCheck (f.parent? r) n <;> simp [h, h1]

/-- A move to the position the node already occupies changes nothing (C05's same-position
    clause, used here: it is also why these calls cannot fail late). -/
theorem C06_append_same_position (f : Forest) (p c : Nat)
    (h1 : f.structureCheck (some p) c = true) (h2 : f.lastChild p = some c) :
    f.append p c = (f, .ok) := by
  simp [Forest.append, h1, h2]

/-- `replace` refuses, without touching anything, a document, a parentless node, an attribute
    or namespace node as the replaced node, an unacceptable replacing node, and a replacing node
    that is the replaced node or lies inside it. -/
theorem C06_replace_refused_document (f : Forest) (a b : Nat) (h : f.isDocument a = true) :
    f.replace a b = (f, .err .invalidOperation) := by
  simp [Forest.replace, h]

/-- `element_wrap` refuses attribute and namespace nodes before detaching anything. -/
theorem C06_wrap_refused_abnormal (f : Forest) (a n : Nat) (h : f.isNormalNode a = false) :
    (f.elementWrap a n).1 = f ∧ (f.elementWrap a n).2.1 = .err .invalidOperation := by
  unfold Forest.elementWrap
  by_cases hd : f.isDocument a <;> simp [hd, h]

/-- `element_unwrap` refuses a parentless element that has children. -/
theorem C06_unwrap_refused_parentless (f : Forest) (a c : Nat)
    (he : f.isElement a = true) (hc : f.firstChild a = some c) (hp : f.parent? a = none) :
    f.elementUnwrap a = (f, .err .invalidOperation) := by
  simp [Forest.elementUnwrap, he, hc, hp]

end XotModel.Props
