/-
  C06 — A refused manipulation changes nothing; calls on live nodes do not panic.
  Property theorems only.

  Full statement (goal): `f.inv → LiveArgs f op → (step f op).2 = .err e → (step f op).1 = f`, and
  `(step f op).2 = .panic →` op is a documented element-only accessor on a non-element.
  Proved: every refusal produced by the argument checks (which the Rust performs before it
  touches the arena) leaves the state untouched, and for ALL forests satisfying the invariant
  nothing else can go wrong after the checks: no late `NodeError`, no panic (apart from the
  documented element-only accessors on a non-element), `corrupt` never set (the indextree
  primitives are only used inside their list semantics).  `Forest.C06Clauses f r` bundles the three
  clauses for one call; `C06_<op>` proves them, `C06_<op>_atomic`, `C06_no_panic_<op>` and
  `C06_corrupt_unreachable_<op>` are the separate statements.  The proofs are in
  `Lemmas/Fatom*.lean` and only use the weak invariant `Forest.W` (handles distinct and below
  `next`, only elements and documents have children) — except `element_unwrap`, whose `unwrap`
  on `last_child` needs the child ordering of the full invariant.
  WHICH error in WHICH state: `C06_outcomes` (the answer of every call of `Forest.Call` on live arguments is
  `Call.answer`, a decidable function of the state before the call and the arguments: Model/FrefusalSpec.lean),
  `C06_refusal_iff` (error iff `Call.refusal` names one, and that one), `C06_refused_unchanged`,
  `C06_refusal_table` / `C06_refusal_anyAppend` (the conditions, constructor by constructor).
-/
import XotModel.Lemmas.FatomAll
import XotModel.Lemmas.FatomRefusal
import XotModel.Lemmas.Fcreation
import XotModel.Lemmas.FpxDedup
import XotModel.Lemmas.FhistAtomic
import XotModel.Lemmas.ArenaExamples
import XotModel.Lemmas.ArenaStaleExamples
import XotModel.Lemmas.FparseHistStep
import XotModel.Lemmas.ParseWitness

namespace XotModel.Props
open XotModel

/-- `append`: a failing structure check returns the forest as it was. -/
theorem C06_append_refused (f : Forest) (p c : Nat) (h : f.structureCheck (some p) c = false) :
    f.append p c = (f, .err .invalidOperation) := by
  simp [Forest.append, h]

theorem C06_prepend_refused (f : Forest) (p c : Nat) (h : f.structureCheck (some p) c = false) :
    f.prepend p c = (f, .err .invalidOperation) := by
  simp [Forest.prepend, h]

theorem C06_insertAfter_refused (f : Forest) (r n : Nat)
    (h : f.structureCheck (f.parent? r) n = false ∨ f.siblingReferenceCheck r n = false) :
    f.insertAfter r n = (f, .err .invalidOperation) := by
  unfold Forest.insertAfter
  cases h with
  | inl h => simp [h]
  | inr h => by_cases h1 : f.structureCheck (f.parent? r) n <;> simp [h, h1]

theorem C06_insertBefore_refused (f : Forest) (r n : Nat)
    (h : f.structureCheck (f.parent? r) n = false ∨ f.siblingReferenceCheck r n = false) :
    f.insertBefore r n = (f, .err .invalidOperation) := by
  unfold Forest.insertBefore
  cases h with
  | inl h => simp [h]
  | inr h => by_cases h1 : f.structureCheck (f.parent? r) n <;> simp [h, h1]

/-- A move to the position the node already occupies changes nothing (C05's same-position
    clause, used here: it is also why these calls cannot fail late). -/
theorem C06_append_same_position (f : Forest) (p c : Nat)
    (h1 : f.structureCheck (some p) c = true) (h2 : f.lastChild p = some c) :
    f.append p c = (f, .ok) := by
  simp [Forest.append, h1, h2]

/-- `replace` refuses, without touching anything, a document, a parentless node, an attribute
    or namespace node as the replaced node, an unacceptable replacing node, and a replacing node
    that is the replaced node or lies inside it. -/
theorem C06_replace_refused_document (f : Forest) (a b : Nat) (h : f.isDocument a = true) :
    f.replace a b = (f, .err .invalidOperation) := by
  simp [Forest.replace, h]

/-- `element_wrap` refuses attribute and namespace nodes before detaching anything. -/
theorem C06_wrap_refused_abnormal (f : Forest) (a n : Nat) (h : f.isNormalNode a = false) :
    (f.elementWrap a n).1 = f ∧ (f.elementWrap a n).2.1 = .err .invalidOperation := by
  unfold Forest.elementWrap
  by_cases hd : f.isDocument a <;> simp [hd, h]

/-- `element_unwrap` refuses a parentless element that has children. -/
theorem C06_unwrap_refused_parentless (f : Forest) (a c : Nat)
    (he : f.isElement a = true) (hc : f.firstChild a = some c) (hp : f.parent? a = none) :
    f.elementUnwrap a = (f, .err .invalidOperation) := by
  simp [Forest.elementUnwrap, he, hc, hp]

/-! ## After the checks nothing can go wrong (all forests satisfying the invariant) -/


/-- `append`: refused by the argument checks with the forest unchanged, or carried out; the indextree `checked_*` call cannot be refused (no late `NodeError`), nothing panics, `corrupt` stays false. -/
theorem C06_append (f : Forest) (p c : Nat) (hi : f.Inv) (_hp : f.isLive p = true) (_hc : f.isLive c = true) :
    Forest.C06Clauses f (f.append p c) :=
  (Forest.append_outcome hi.toW p c).clauses hi.notCorrupt

theorem C06_append_atomic (f : Forest) (p c : Nat) (e : XotError) (hi : f.Inv) (_hp : f.isLive p = true) (_hc : f.isLive c = true)
    (h : (f.append p c).2 = .err e) : (f.append p c).1 = f :=
  (C06_append f p c hi _hp _hc).atomic e h

theorem C06_no_panic_append (f : Forest) (p c : Nat) (hi : f.Inv) (_hp : f.isLive p = true) (_hc : f.isLive c = true) :
    (f.append p c).2 ≠ .panic :=
  (C06_append f p c hi _hp _hc).noPanic

theorem C06_corrupt_unreachable_append (f : Forest) (p c : Nat) (hi : f.Inv) (_hp : f.isLive p = true) (_hc : f.isLive c = true) :
    (f.append p c).1.corrupt = false :=
  (C06_append f p c hi _hp _hc).notCorrupt

/-- `prepend`: refused by the argument checks with the forest unchanged, or carried out; the indextree `checked_*` call cannot be refused (no late `NodeError`), nothing panics, `corrupt` stays false. -/
theorem C06_prepend (f : Forest) (p c : Nat) (hi : f.Inv) (_hp : f.isLive p = true) (_hc : f.isLive c = true) :
    Forest.C06Clauses f (f.prepend p c) :=
  (Forest.prepend_outcome hi.toW p c).clauses hi.notCorrupt

theorem C06_prepend_atomic (f : Forest) (p c : Nat) (e : XotError) (hi : f.Inv) (_hp : f.isLive p = true) (_hc : f.isLive c = true)
    (h : (f.prepend p c).2 = .err e) : (f.prepend p c).1 = f :=
  (C06_prepend f p c hi _hp _hc).atomic e h

theorem C06_no_panic_prepend (f : Forest) (p c : Nat) (hi : f.Inv) (_hp : f.isLive p = true) (_hc : f.isLive c = true) :
    (f.prepend p c).2 ≠ .panic :=
  (C06_prepend f p c hi _hp _hc).noPanic

theorem C06_corrupt_unreachable_prepend (f : Forest) (p c : Nat) (hi : f.Inv) (_hp : f.isLive p = true) (_hc : f.isLive c = true) :
    (f.prepend p c).1.corrupt = false :=
  (C06_prepend f p c hi _hp _hc).notCorrupt

/-- `insertAfter`: refused by the argument checks with the forest unchanged, or carried out; the indextree `checked_*` call cannot be refused (no late `NodeError`), nothing panics, `corrupt` stays false. -/
theorem C06_insertAfter (f : Forest) (r n : Nat) (hi : f.Inv) (_hr : f.isLive r = true) (_hn : f.isLive n = true) :
    Forest.C06Clauses f (f.insertAfter r n) :=
  (Forest.insertAfter_outcome hi.toW r n).clauses hi.notCorrupt

theorem C06_insertAfter_atomic (f : Forest) (r n : Nat) (e : XotError) (hi : f.Inv) (_hr : f.isLive r = true) (_hn : f.isLive n = true)
    (h : (f.insertAfter r n).2 = .err e) : (f.insertAfter r n).1 = f :=
  (C06_insertAfter f r n hi _hr _hn).atomic e h

theorem C06_no_panic_insertAfter (f : Forest) (r n : Nat) (hi : f.Inv) (_hr : f.isLive r = true) (_hn : f.isLive n = true) :
    (f.insertAfter r n).2 ≠ .panic :=
  (C06_insertAfter f r n hi _hr _hn).noPanic

theorem C06_corrupt_unreachable_insertAfter (f : Forest) (r n : Nat) (hi : f.Inv) (_hr : f.isLive r = true) (_hn : f.isLive n = true) :
    (f.insertAfter r n).1.corrupt = false :=
  (C06_insertAfter f r n hi _hr _hn).notCorrupt

/-- `insertBefore`: refused by the argument checks with the forest unchanged, or carried out; the indextree `checked_*` call cannot be refused (no late `NodeError`), nothing panics, `corrupt` stays false. -/
theorem C06_insertBefore (f : Forest) (r n : Nat) (hi : f.Inv) (_hr : f.isLive r = true) (_hn : f.isLive n = true) :
    Forest.C06Clauses f (f.insertBefore r n) :=
  (Forest.insertBefore_outcome hi.toW r n).clauses hi.notCorrupt

theorem C06_insertBefore_atomic (f : Forest) (r n : Nat) (e : XotError) (hi : f.Inv) (_hr : f.isLive r = true) (_hn : f.isLive n = true)
    (h : (f.insertBefore r n).2 = .err e) : (f.insertBefore r n).1 = f :=
  (C06_insertBefore f r n hi _hr _hn).atomic e h

theorem C06_no_panic_insertBefore (f : Forest) (r n : Nat) (hi : f.Inv) (_hr : f.isLive r = true) (_hn : f.isLive n = true) :
    (f.insertBefore r n).2 ≠ .panic :=
  (C06_insertBefore f r n hi _hr _hn).noPanic

theorem C06_corrupt_unreachable_insertBefore (f : Forest) (r n : Nat) (hi : f.Inv) (_hr : f.isLive r = true) (_hn : f.isLive n = true) :
    (f.insertBefore r n).1.corrupt = false :=
  (C06_insertBefore f r n hi _hr _hn).notCorrupt

/-- `detach` always succeeds. -/
theorem C06_detach (f : Forest) (n : Nat) (hi : f.Inv) (_hn : f.isLive n = true) :
    Forest.C06Clauses f (f.detach n) :=
  (Forest.detach_ok hi.toW n).clauses hi.notCorrupt

theorem C06_detach_atomic (f : Forest) (n : Nat) (e : XotError) (hi : f.Inv) (_hn : f.isLive n = true)
    (h : (f.detach n).2 = .err e) : (f.detach n).1 = f :=
  (C06_detach f n hi _hn).atomic e h

theorem C06_no_panic_detach (f : Forest) (n : Nat) (hi : f.Inv) (_hn : f.isLive n = true) :
    (f.detach n).2 ≠ .panic :=
  (C06_detach f n hi _hn).noPanic

theorem C06_corrupt_unreachable_detach (f : Forest) (n : Nat) (hi : f.Inv) (_hn : f.isLive n = true) :
    (f.detach n).1.corrupt = false :=
  (C06_detach f n hi _hn).notCorrupt

/-- `remove` always succeeds. -/
theorem C06_remove (f : Forest) (n : Nat) (hi : f.Inv) (_hn : f.isLive n = true) :
    Forest.C06Clauses f (f.remove n) :=
  (Forest.remove_ok hi.toW n).clauses hi.notCorrupt

theorem C06_remove_atomic (f : Forest) (n : Nat) (e : XotError) (hi : f.Inv) (_hn : f.isLive n = true)
    (h : (f.remove n).2 = .err e) : (f.remove n).1 = f :=
  (C06_remove f n hi _hn).atomic e h

theorem C06_no_panic_remove (f : Forest) (n : Nat) (hi : f.Inv) (_hn : f.isLive n = true) :
    (f.remove n).2 ≠ .panic :=
  (C06_remove f n hi _hn).noPanic

theorem C06_corrupt_unreachable_remove (f : Forest) (n : Nat) (hi : f.Inv) (_hn : f.isLive n = true) :
    (f.remove n).1.corrupt = false :=
  (C06_remove f n hi _hn).notCorrupt

/-- `replace`: refused with the forest unchanged (the replaced subtree is only dropped after all checks), or carried out. -/
theorem C06_replace (f : Forest) (a b : Nat) (hi : f.Inv) (_ha : f.isLive a = true) (_hb : f.isLive b = true) :
    Forest.C06Clauses f (f.replace a b) :=
  Forest.clauses_of_outcome hi.notCorrupt (Forest.replace_outcome hi.toW a b)

theorem C06_replace_atomic (f : Forest) (a b : Nat) (e : XotError) (hi : f.Inv) (_ha : f.isLive a = true) (_hb : f.isLive b = true)
    (h : (f.replace a b).2 = .err e) : (f.replace a b).1 = f :=
  (C06_replace f a b hi _ha _hb).atomic e h

theorem C06_no_panic_replace (f : Forest) (a b : Nat) (hi : f.Inv) (_ha : f.isLive a = true) (_hb : f.isLive b = true) :
    (f.replace a b).2 ≠ .panic :=
  (C06_replace f a b hi _ha _hb).noPanic

theorem C06_corrupt_unreachable_replace (f : Forest) (a b : Nat) (hi : f.Inv) (_ha : f.isLive a = true) (_hb : f.isLive b = true) :
    (f.replace a b).1.corrupt = false :=
  (C06_replace f a b hi _ha _hb).notCorrupt

/-- `element_unwrap`: refused with the forest unchanged, or carried out; `last_child` is `Some` whenever `first_child` is (child ordering), so the `unwrap` does not panic. -/
theorem C06_elementUnwrap (f : Forest) (n : Nat) (hi : f.Inv) (_hn : f.isLive n = true) :
    Forest.C06Clauses f (f.elementUnwrap n) :=
  Forest.elementUnwrap_clauses hi n

theorem C06_elementUnwrap_atomic (f : Forest) (n : Nat) (e : XotError) (hi : f.Inv) (_hn : f.isLive n = true)
    (h : (f.elementUnwrap n).2 = .err e) : (f.elementUnwrap n).1 = f :=
  (C06_elementUnwrap f n hi _hn).atomic e h

theorem C06_no_panic_elementUnwrap (f : Forest) (n : Nat) (hi : f.Inv) (_hn : f.isLive n = true) :
    (f.elementUnwrap n).2 ≠ .panic :=
  (C06_elementUnwrap f n hi _hn).noPanic

theorem C06_corrupt_unreachable_elementUnwrap (f : Forest) (n : Nat) (hi : f.Inv) (_hn : f.isLive n = true) :
    (f.elementUnwrap n).1.corrupt = false :=
  (C06_elementUnwrap f n hi _hn).notCorrupt

/-- `text_mut(n).set(s)`. -/
theorem C06_setText (f : Forest) (s : Str) (n : Nat) (hi : f.Inv) (_hn : f.isLive n = true) :
    Forest.C06Clauses f (f.setText n s) :=
  Forest.clauses_of_outcome hi.notCorrupt (Forest.setText_outcome hi.toW n s)

theorem C06_setText_atomic (f : Forest) (s : Str) (n : Nat) (e : XotError) (hi : f.Inv) (_hn : f.isLive n = true)
    (h : (f.setText n s).2 = .err e) : (f.setText n s).1 = f :=
  (C06_setText f s n hi _hn).atomic e h

theorem C06_no_panic_setText (f : Forest) (s : Str) (n : Nat) (hi : f.Inv) (_hn : f.isLive n = true) :
    (f.setText n s).2 ≠ .panic :=
  (C06_setText f s n hi _hn).noPanic

theorem C06_corrupt_unreachable_setText (f : Forest) (s : Str) (n : Nat) (hi : f.Inv) (_hn : f.isLive n = true) :
    (f.setText n s).1.corrupt = false :=
  (C06_setText f s n hi _hn).notCorrupt

/-- `processing_instruction_mut(n).set_data(d)`. -/
theorem C06_setPiData (f : Forest) (d : Option Str) (n : Nat) (hi : f.Inv) (_hn : f.isLive n = true) :
    Forest.C06Clauses f (f.setPiData n d) :=
  Forest.clauses_of_outcome hi.notCorrupt (Forest.setPiData_outcome hi.toW n d)

theorem C06_setPiData_atomic (f : Forest) (d : Option Str) (n : Nat) (e : XotError) (hi : f.Inv) (_hn : f.isLive n = true)
    (h : (f.setPiData n d).2 = .err e) : (f.setPiData n d).1 = f :=
  (C06_setPiData f d n hi _hn).atomic e h

theorem C06_no_panic_setPiData (f : Forest) (d : Option Str) (n : Nat) (hi : f.Inv) (_hn : f.isLive n = true) :
    (f.setPiData n d).2 ≠ .panic :=
  (C06_setPiData f d n hi _hn).noPanic

theorem C06_corrupt_unreachable_setPiData (f : Forest) (d : Option Str) (n : Nat) (hi : f.Inv) (_hn : f.isLive n = true) :
    (f.setPiData n d).1.corrupt = false :=
  (C06_setPiData f d n hi _hn).notCorrupt

/-- `comment_mut(n).set(s)`: the only errors (`InvalidComment`, not a comment) leave the forest
    unchanged. -/
theorem C06_setComment (f : Forest) (s : Str) (n : Nat) (hi : f.Inv) (_hn : f.isLive n = true) :
    Forest.C06Clauses f (f.setComment n s) := by
  rcases Forest.setComment_outcome hi.toW n s with ⟨e, h⟩ | h
  · rw [h]; exact Forest.clauses_refused hi.notCorrupt e
  · exact h.clauses hi.notCorrupt

/-- `element_wrap`: refused with the forest unchanged (nothing is detached before the checks), or carried out: the append into the fresh wrapper and the insertion of the wrapper at the old position cannot fail. -/
theorem C06_elementWrap (f : Forest) (n name : Nat) (hi : f.Inv) (_hn : f.isLive n = true) :
    Forest.C06Clauses f ((f.elementWrap n name).1, (f.elementWrap n name).2.1) :=
  Forest.clauses_of_outcome3 hi.notCorrupt (Forest.elementWrap_outcome hi.toW n name)

theorem C06_elementWrap_atomic (f : Forest) (n name : Nat) (e : XotError) (hi : f.Inv) (_hn : f.isLive n = true)
    (h : (f.elementWrap n name).2.1 = .err e) : (f.elementWrap n name).1 = f :=
  (C06_elementWrap f n name hi _hn).atomic e h

theorem C06_no_panic_elementWrap (f : Forest) (n name : Nat) (hi : f.Inv) (_hn : f.isLive n = true) :
    (f.elementWrap n name).2.1 ≠ .panic :=
  (C06_elementWrap f n name hi _hn).noPanic

theorem C06_corrupt_unreachable_elementWrap (f : Forest) (n name : Nat) (hi : f.Inv) (_hn : f.isLive n = true) :
    (f.elementWrap n name).1.corrupt = false :=
  (C06_elementWrap f n name hi _hn).notCorrupt

/-- `any_append`. -/
theorem C06_anyAppend (f : Forest) (p c : Nat) (hi : f.Inv) (_hp : f.isLive p = true) (_hc : f.isLive c = true) :
    Forest.C06Clauses f ((f.anyAppend p c).1, (f.anyAppend p c).2.1) :=
  Forest.clauses_of_outcome3 hi.notCorrupt (Forest.anyAppend_outcome hi.toW p c _hc)

theorem C06_anyAppend_atomic (f : Forest) (p c : Nat) (e : XotError) (hi : f.Inv) (_hp : f.isLive p = true) (_hc : f.isLive c = true)
    (h : (f.anyAppend p c).2.1 = .err e) : (f.anyAppend p c).1 = f :=
  (C06_anyAppend f p c hi _hp _hc).atomic e h

theorem C06_no_panic_anyAppend (f : Forest) (p c : Nat) (hi : f.Inv) (_hp : f.isLive p = true) (_hc : f.isLive c = true) :
    (f.anyAppend p c).2.1 ≠ .panic :=
  (C06_anyAppend f p c hi _hp _hc).noPanic

theorem C06_corrupt_unreachable_anyAppend (f : Forest) (p c : Nat) (hi : f.Inv) (_hp : f.isLive p = true) (_hc : f.isLive c = true) :
    (f.anyAppend p c).1.corrupt = false :=
  (C06_anyAppend f p c hi _hp _hc).notCorrupt

/-- `append_attribute_node` / `append_namespace_node`: placing the node at the insertion point of the map is never refused by indextree. -/
theorem C06_appendEntryNode (f : Forest) (k : Forest.MapKind) (p c : Nat) (hi : f.Inv) (_hp : f.isLive p = true) (_hc : f.isLive c = true) :
    Forest.C06Clauses f ((f.appendEntryNode k p c).1, (f.appendEntryNode k p c).2.1) :=
  Forest.clauses_of_outcome3 hi.notCorrupt (Forest.appendEntryNode_outcome hi.toW k p c _hc)

theorem C06_appendEntryNode_atomic (f : Forest) (k : Forest.MapKind) (p c : Nat) (e : XotError) (hi : f.Inv) (_hp : f.isLive p = true) (_hc : f.isLive c = true)
    (h : (f.appendEntryNode k p c).2.1 = .err e) : (f.appendEntryNode k p c).1 = f :=
  (C06_appendEntryNode f k p c hi _hp _hc).atomic e h

theorem C06_no_panic_appendEntryNode (f : Forest) (k : Forest.MapKind) (p c : Nat) (hi : f.Inv) (_hp : f.isLive p = true) (_hc : f.isLive c = true) :
    (f.appendEntryNode k p c).2.1 ≠ .panic :=
  (C06_appendEntryNode f k p c hi _hp _hc).noPanic

theorem C06_corrupt_unreachable_appendEntryNode (f : Forest) (k : Forest.MapKind) (p c : Nat) (hi : f.Inv) (_hp : f.isLive p = true) (_hc : f.isLive c = true) :
    (f.appendEntryNode k p c).1.corrupt = false :=
  (C06_appendEntryNode f k p c hi _hp _hc).notCorrupt

/-- `attributes_mut(p).insert(..)` / `namespaces_mut(p).insert(..)`: on an element it never panics (`mapPlace` cannot be refused: the insertion point is a child of the element, the new node a fresh root), never errs, never corrupts; on a non-element it is the documented panic with nothing changed. -/
theorem C06_mapInsert (f : Forest) (k : Forest.MapKind) (entry : Value) (p : Nat) (hi : f.Inv) : Forest.ElementOnly f p (f.mapInsert k p entry) :=
  Forest.elementOnly_of hi.notCorrupt (Forest.mapInsert_outcome hi.toW k p entry)

/-- The documented panic, and only that. -/
theorem C06_panic_mapInsert_iff (f : Forest) (k : Forest.MapKind) (entry : Value) (p : Nat) (hi : f.Inv) :
    (f.mapInsert k p entry).2 = .panic ↔ f.isElement p = false :=
  (C06_mapInsert f k entry p hi).panic_iff

theorem C06_corrupt_unreachable_mapInsert (f : Forest) (k : Forest.MapKind) (entry : Value) (p : Nat) (hi : f.Inv) :
    (f.mapInsert k p entry).1.corrupt = false :=
  (C06_mapInsert f k entry p hi).notCorrupt hi.notCorrupt

/-- `attributes_mut(p).remove(key)`. -/
theorem C06_mapRemove (f : Forest) (k : Forest.MapKind) (p key : Nat) (hi : f.Inv) : Forest.ElementOnly f p (f.mapRemove k p key) :=
  Forest.elementOnly_of hi.notCorrupt (Forest.mapRemove_outcome hi.toW k p key)

/-- The documented panic, and only that. -/
theorem C06_panic_mapRemove_iff (f : Forest) (k : Forest.MapKind) (p key : Nat) (hi : f.Inv) :
    (f.mapRemove k p key).2 = .panic ↔ f.isElement p = false :=
  (C06_mapRemove f k p key hi).panic_iff

theorem C06_corrupt_unreachable_mapRemove (f : Forest) (k : Forest.MapKind) (p key : Nat) (hi : f.Inv) :
    (f.mapRemove k p key).1.corrupt = false :=
  (C06_mapRemove f k p key hi).notCorrupt hi.notCorrupt

/-- `attributes_mut(p).clear()`. -/
theorem C06_mapClear (f : Forest) (k : Forest.MapKind) (p : Nat) (hi : f.Inv) : Forest.ElementOnly f p (f.mapClear k p) :=
  Forest.elementOnly_of hi.notCorrupt (Forest.mapClear_outcome hi.toW k p)

/-- The documented panic, and only that. -/
theorem C06_panic_mapClear_iff (f : Forest) (k : Forest.MapKind) (p : Nat) (hi : f.Inv) :
    (f.mapClear k p).2 = .panic ↔ f.isElement p = false :=
  (C06_mapClear f k p hi).panic_iff

theorem C06_corrupt_unreachable_mapClear (f : Forest) (k : Forest.MapKind) (p : Nat) (hi : f.Inv) :
    (f.mapClear k p).1.corrupt = false :=
  (C06_mapClear f k p hi).notCorrupt hi.notCorrupt

/-- `set_element_name`. -/
theorem C06_setElementName (f : Forest) (n name : Nat) (hi : f.Inv) : Forest.ElementOnly f n (f.setElementName n name) :=
  Forest.elementOnly_of hi.notCorrupt (Forest.setElementName_outcome hi.toW n name)

/-- The documented panic, and only that. -/
theorem C06_panic_setElementName_iff (f : Forest) (n name : Nat) (hi : f.Inv) :
    (f.setElementName n name).2 = .panic ↔ f.isElement n = false :=
  (C06_setElementName f n name hi).panic_iff

theorem C06_corrupt_unreachable_setElementName (f : Forest) (n name : Nat) (hi : f.Inv) :
    (f.setElementName n name).1.corrupt = false :=
  (C06_setElementName f n name hi).notCorrupt hi.notCorrupt


/-- `text_content_mut(n)` + `set(s)`: refused with the forest unchanged, or carried out: on an
    element without normal children the fresh text node is appended and found again as the first
    child, so neither `unwrap` panics. -/
theorem C06_textContentSet (f : Forest) (s : Str) (n : Nat) (hi : f.Inv) (_hn : f.isLive n = true) :
    Forest.C06Clauses f (f.textContentSet n s) :=
  Forest.clauses_of_outcome hi.notCorrupt (Forest.textContentSet_outcome hi.toW n s)

theorem C06_textContentSet_atomic (f : Forest) (s : Str) (n : Nat) (e : XotError) (hi : f.Inv)
    (_hn : f.isLive n = true) (h : (f.textContentSet n s).2 = .err e) : (f.textContentSet n s).1 = f :=
  (C06_textContentSet f s n hi _hn).atomic e h

theorem C06_no_panic_textContentSet (f : Forest) (s : Str) (n : Nat) (hi : f.Inv)
    (_hn : f.isLive n = true) : (f.textContentSet n s).2 ≠ .panic :=
  (C06_textContentSet f s n hi _hn).noPanic

theorem C06_corrupt_unreachable_textContentSet (f : Forest) (s : Str) (n : Nat) (hi : f.Inv)
    (_hn : f.isLive n = true) : (f.textContentSet n s).1.corrupt = false :=
  (C06_textContentSet f s n hi _hn).notCorrupt

/-- `clone_node` of a live node returns a node: none of the `any_append(..).unwrap()` calls of the
    edge replay fails, and the scratch element has a first child. -/
theorem C06_no_panic_cloneNode (f : Forest) (n : Nat) (hi : f.Inv) (hn : f.isLive n = true) :
    (f.cloneNode n).2 ≠ none :=
  (Forest.cloneNode_spec hi hn).1

/-- ... and stays inside the list semantics: the scratch element spliced out at the end is a
    root with exactly one child. -/
theorem C06_corrupt_unreachable_cloneNode (f : Forest) (n : Nat) (hi : f.Inv)
    (hn : f.isLive n = true) : (f.cloneNode n).1.corrupt = false :=
  (Forest.cloneNode_spec hi hn).2

theorem C06_corrupt_unreachable_removeInsignificantWhitespace (f : Forest) (n : Nat) (hi : f.Inv) :
    (f.removeInsignificantWhitespace n).corrupt = false := by
  rw [(Forest.removeInsignificantWhitespace_spec hi.toW n).2]; exact hi.notCorrupt

/-! ## The property for every call at once

`Forest.Call` (Model/FatomSpec.lean) lists the calls of the mutating API with their arguments,
`Call.run` is the model's transition, `Call.liveArgs` says that all node arguments are live,
`Call.documentedPanic` is the documented panic of the element-only accessors on a non-element. -/

/-- ⟦C06_atomic⟧ A call that returns an error has changed nothing. -/
theorem C06_atomic (f : Forest) (c : Forest.Call) (e : XotError) (hi : f.Inv) (hl : c.liveArgs f)
    (h : (c.run f).2 = .err e) : (c.run f).1 = f := by
  rcases Forest.call_clauses hi c hl with ⟨_, h'⟩ | ⟨_, h'⟩
  · exact h'.atomic e h
  · rw [h']

/-- ⟦C06_nopanic⟧ The only panics are the documented ones, and they change nothing. -/
theorem C06_nopanic (f : Forest) (c : Forest.Call) (hi : f.Inv) (hl : c.liveArgs f)
    (h : (c.run f).2 = .panic) : c.documentedPanic f = true ∧ (c.run f).1 = f := by
  rcases Forest.call_clauses hi c hl with ⟨_, h'⟩ | ⟨h1, h'⟩
  · exact absurd h h'.noPanic
  · exact ⟨h1, by rw [h']⟩

/-- The documented panic does happen (so `C06_nopanic` is an equivalence). -/
theorem C06_documentedPanic (f : Forest) (c : Forest.Call) (hi : f.Inv) (hl : c.liveArgs f)
    (h : c.documentedPanic f = true) : (c.run f).2 = .panic := by
  rcases Forest.call_clauses hi c hl with ⟨h1, _⟩ | ⟨_, h'⟩
  · rw [h1] at h; cases h
  · rw [h']

/-- ⟦C06_corrupt_unreachable⟧ No call with live arguments uses an indextree primitive outside
    its list semantics. -/
theorem C06_corrupt_unreachable (f : Forest) (c : Forest.Call) (hi : f.Inv) (hl : c.liveArgs f) :
    (c.run f).1.corrupt = false := by
  rcases Forest.call_clauses hi c hl with ⟨_, h'⟩ | ⟨_, h'⟩
  · exact h'.notCorrupt
  · rw [h']; exact hi.notCorrupt

/-! ### Non-vacuity: a concrete forest satisfying the invariant, with refused and accepted calls -/

/-- `<doc><e xmlns:p=".." a="v">x</e></doc>` plus an unattached comment. -/
def C06_sample : Forest :=
  { roots := [.node 0 .document [.node 1 (.element 2) [.node 2 (.namespace 0 2) [],
      .node 3 (.attribute 3 ['v']) [], .node 4 (.text ['x']) []]], .node 5 (.comment ['c']) []],
    next := 6 }

example : C06_sample.Inv := (Forest.inv_iff _).1 (by decide)
example : C06_sample.isLive 1 = true ∧ C06_sample.isLive 4 = true ∧ C06_sample.isLive 5 = true := by decide
/-- a refused call (append under a text node) -/
example : (C06_sample.append 4 5).2 = .err .invalidOperation := by decide
/-- a refused call (append an element into itself) -/
example : (C06_sample.append 1 1).2 = .err .invalidOperation := by decide
/-- accepted calls -/
example : (C06_sample.append 1 5).2 = .ok := by decide
example : (C06_sample.insertBefore 4 5).2 = .ok := by decide
example : (C06_sample.replace 4 5).2 = .ok := by decide
example : (C06_sample.elementWrap 4 7).2.1 = .ok := by decide
example : (C06_sample.elementUnwrap 1).2 = .ok := by decide
/-- the documented panic -/
example : (C06_sample.mapInsert .attributes 4 (.attribute 9 [])).2 = .panic := by decide
example : (C06_sample.mapInsert .attributes 1 (.attribute 9 [])).2 = .ok := by decide
example : (C06_sample.textContentSet 1 ['y']).2 = .ok := by decide
example : (C06_sample.cloneNode 5).2 = some 6 := by decide
example : (({ roots := [.node 0 (.element 1) [.node 1 (.comment ['a']) []]], next := 2 } : Forest).cloneNode 0).2 = some 3 := by decide
example : (Forest.Call.replace 4 5).liveArgs C06_sample := by
  intro x hx; simp [Forest.Call.args] at hx; rcases hx with h | h <;> subst h <;> decide

/-! ### Which error in which state (`Call.refusal`, Model/FrefusalSpec.lean)

`Call.refusal f c : Option XotError` is a decidable function of the forest and the arguments: the argument checks of
the call in the order the Rust performs them (manipulation.rs, nodemap/core.rs, valueaccess.rs), without the edit.
`Call.answer f c` = `Err(e)` when `refusal f c = some e`, else `panic` when `c.documentedPanic f`, else `Ok`. -/

/-- ⟦C06_outcomes⟧ **What every call of the mutating API answers, exactly**, on live arguments in a forest satisfying
    the invariant: the answer is `Call.answer`, read off the state BEFORE the call and the arguments only.  So, for
    every constructor of `Forest.Call`: the call answers `Err(e)` exactly when its argument checks name `e`
    (`Call.refusal`: `InvalidOperation` everywhere, `InvalidComment` for `comment_mut().set` of a text with `--`);
    it panics exactly on the documented element-only accessors; in every other state it answers `Ok` - after the
    checks nothing fails (no late `NodeError` from indextree, no `unwrap` on `None`). -/
theorem C06_outcomes (f : Forest) (c : Forest.Call) (hi : f.Inv) (hl : c.liveArgs f) :
    (c.run f).2 = c.answer f :=
  Forest.call_answer hi c hl

/-- ⟦C06_refusal_iff⟧ The call answers an error iff `Call.refusal` names one, and it is that error. -/
theorem C06_refusal_iff (f : Forest) (c : Forest.Call) (hi : f.Inv) (hl : c.liveArgs f) :
    ((∃ e, (c.run f).2 = .err e) ↔ (c.refusal f).isSome = true) ∧
    (∀ e, (c.run f).2 = .err e ↔ c.refusal f = some e) := by
  refine ⟨⟨fun ⟨e, h⟩ => ?_, fun h => ?_⟩, Forest.call_refusal_iff hi c hl⟩
  · rw [(Forest.call_refusal_iff hi c hl e).1 h]; rfl
  · cases hr : c.refusal f with
    | none => rw [hr] at h; cases h
    | some e => exact ⟨e, (Forest.call_refusal_iff hi c hl e).2 hr⟩

/-- With C06_atomic: a call whose checks name an error returns the forest it was given, and that error. -/
theorem C06_refused_unchanged (f : Forest) (c : Forest.Call) (e : XotError) (hi : f.Inv) (hl : c.liveArgs f)
    (h : c.refusal f = some e) : c.run f = (f, .err e) := by
  have h2 := ((C06_refusal_iff f c hi hl).2 e).2 h
  have h1 := C06_atomic f c e hi hl h2
  exact Prod.ext h1 h2

/-- The table behind `Call.refusal`, constructor by constructor (each line holds by definition). -/
theorem C06_refusal_table (f : Forest) :
    (∀ p c, Forest.Call.refusal f (.append p c) =
      if f.structureCheck (some p) c then none else some .invalidOperation) ∧
    (∀ p c, Forest.Call.refusal f (.prepend p c) =
      if f.structureCheck (some p) c then none else some .invalidOperation) ∧
    (∀ r n, Forest.Call.refusal f (.insertAfter r n) =
      if f.structureCheck (f.parent? r) n && f.siblingReferenceCheck r n then none else some .invalidOperation) ∧
    (∀ r n, Forest.Call.refusal f (.insertBefore r n) =
      if f.structureCheck (f.parent? r) n && f.siblingReferenceCheck r n then none else some .invalidOperation) ∧
    (∀ n, Forest.Call.refusal f (.detach n) = none ∧ Forest.Call.refusal f (.remove n) = none ∧
      Forest.Call.refusal f (.cloneNode n) = none) ∧
    (∀ a b, Forest.Call.refusal f (.replace a b) =
      if f.isDocument a ||
        (match f.parent? a with
         | none => true
         | some parent => !f.isNormalNode a || !f.structureCheck (some parent) b || (f.ancestors b).contains a)
      then some .invalidOperation else none) ∧
    (∀ n name, Forest.Call.refusal f (.elementWrap n name) =
      if f.isDocument n || !f.isNormalNode n || (f.hasDocumentParent n && !f.isDocumentElement n)
      then some .invalidOperation else none) ∧
    (∀ n, Forest.Call.refusal f (.elementUnwrap n) =
      if !f.isElement n || ((f.firstChild n).isSome && (f.parent? n).isNone) then some .invalidOperation else none) ∧
    (∀ k p c, Forest.Call.refusal f (.appendEntryNode k p c) =
      if !f.isElement p || (match f.value? c with | some v => !k.matches v | none => false)
      then some .invalidOperation else none) ∧
    (∀ k p e key n name, Forest.Call.refusal f (.mapInsert k p e) = none ∧
      Forest.Call.refusal f (.mapRemove k p key) = none ∧ Forest.Call.refusal f (.mapClear k p) = none ∧
      Forest.Call.refusal f (.setElementName n name) = none) ∧
    (∀ n s, Forest.Call.refusal f (.setText n s) = if f.isText n then none else some .invalidOperation) ∧
    (∀ n s, Forest.Call.refusal f (.setComment n s) =
      match f.value? n with
      | some (.comment _) => if Forest.hasDoubleDash s then some .invalidComment else none
      | _ => some .invalidOperation) ∧
    (∀ n d, Forest.Call.refusal f (.setPiData n d) =
      match f.value? n with
      | some (.pi _ _) => none
      | _ => some .invalidOperation) ∧
    (∀ n s, Forest.Call.refusal f (.textContentSet n s) =
      if (match f.firstChild n with
          | some child => (f.nextSibling child).isSome || !f.isText child
          | none => !f.isElement n)
      then some .invalidOperation else none) :=
  ⟨fun _ _ => rfl, fun _ _ => rfl, fun _ _ => rfl, fun _ _ => rfl, fun _ => ⟨rfl, rfl, rfl⟩, fun _ _ => rfl,
   fun _ _ => rfl, fun _ => rfl, fun _ _ _ => rfl, fun _ _ _ _ _ _ => ⟨rfl, rfl, rfl, rfl⟩, fun _ _ => rfl,
   fun _ _ => rfl, fun _ _ => rfl, fun _ _ => rfl⟩

/-- `any_append` dispatches on the child: a namespace / attribute node goes to `append_namespace_node` /
    `append_attribute_node` (refused iff the parent is not an element), everything else to `append`. -/
theorem C06_refusal_anyAppend (f : Forest) (p c : Nat) :
    Forest.Call.refusal f (.anyAppend p c) =
      match f.value? c with
      | some (.namespace _ _) => Forest.Call.refusal f (.appendEntryNode .namespaces p c)
      | some (.attribute _ _) => Forest.Call.refusal f (.appendEntryNode .attributes p c)
      | _ => Forest.Call.refusal f (.append p c) := by
  simp only [Forest.Call.refusal, Forest.entryRefused]
  split <;> rename_i hv <;> simp [hv, Forest.MapKind.matches] <;> cases f.isElement p <;> rfl

/-- Non-vacuity on `C06_sample` (`<doc><e xmlns:p=".." a="v">x</e></doc>` + an unattached comment 5): refusals of
    both error kinds, the accepted calls of the examples above, the documented panic - as `Call.answer` computes
    them and as the model answers. -/
example : (Forest.Call.append 4 5).refusal C06_sample = some .invalidOperation ∧
    (Forest.Call.append 1 1).refusal C06_sample = some .invalidOperation ∧
    (Forest.Call.insertAfter 0 5).refusal C06_sample = some .invalidOperation ∧
    (Forest.Call.insertBefore 3 5).refusal C06_sample = some .invalidOperation ∧
    (Forest.Call.replace 0 5).refusal C06_sample = some .invalidOperation ∧
    (Forest.Call.replace 5 4).refusal C06_sample = some .invalidOperation ∧
    (Forest.Call.replace 3 5).refusal C06_sample = some .invalidOperation ∧
    (Forest.Call.replace 1 4).refusal C06_sample = some .invalidOperation ∧
    (Forest.Call.elementWrap 3 7).refusal C06_sample = some .invalidOperation ∧
    (Forest.Call.elementUnwrap 4).refusal C06_sample = some .invalidOperation ∧
    (Forest.Call.anyAppend 4 3).refusal C06_sample = some .invalidOperation ∧
    (Forest.Call.appendEntryNode .attributes 1 2).refusal C06_sample = some .invalidOperation ∧
    (Forest.Call.setText 5 ['y']).refusal C06_sample = some .invalidOperation ∧
    (Forest.Call.setComment 5 ['a', '-', '-', 'b']).refusal C06_sample = some .invalidComment ∧
    (Forest.Call.setComment 4 ['a']).refusal C06_sample = some .invalidOperation ∧
    (Forest.Call.setPiData 5 none).refusal C06_sample = some .invalidOperation ∧
    (Forest.Call.textContentSet 0 ['y']).refusal C06_sample = some .invalidOperation := by decide
example : (Forest.Call.append 1 5).answer C06_sample = .ok ∧ (Forest.Call.replace 4 5).answer C06_sample = .ok ∧
    (Forest.Call.elementWrap 4 7).answer C06_sample = .ok ∧ (Forest.Call.elementUnwrap 1).answer C06_sample = .ok ∧
    (Forest.Call.setComment 5 ['a', '-', 'b']).answer C06_sample = .ok ∧
    (Forest.Call.textContentSet 1 ['y']).answer C06_sample = .ok ∧
    (Forest.Call.mapInsert .attributes 4 (.attribute 9 [])).answer C06_sample = .panic ∧
    (Forest.Call.mapInsert .attributes 1 (.attribute 9 [])).answer C06_sample = .ok := by decide
example : ((Forest.Call.setComment 5 ['a', '-', '-', 'b']).run C06_sample).2 = .err .invalidComment ∧
    ((Forest.Call.replace 1 4).run C06_sample).2 = .err .invalidOperation ∧
    ((Forest.Call.replace 1 4).run C06_sample).1.allHandles = C06_sample.allHandles := by decide

/-! ### The convenience calls of the public API (`Model/Fcreation.lean`)

  `append_text` / `append_element` / `append_comment` / `append_processing_instruction` /
  `append_namespace` create their node BEFORE they ask `append` / `append_namespace_node`, so a
  refusal is not literally "nothing changed": the fresh node exists, parentless, and no handle to
  it was ever handed out (`COp.refusedState`).  Every node that existed before is where and what
  it was.  `new_document_with_element` tests `is_element` first: its refusal creates nothing, and
  after the test it cannot fail.  The node-map wrappers panic exactly on a non-element
  (documented), the setters through the typed `_mut` accessors never do.  Proved for ALL forests
  satisfying the invariant and ALL arguments (no liveness hypothesis). -/

theorem C06_creation (f : Forest) (c : Forest.COp) (hi : f.Inv) : Forest.CClauses f c :=
  Forest.COp.run_clauses hi c

theorem C06_creation_atomic (f : Forest) (c : Forest.COp) (e : XotError) (hi : f.Inv)
    (h : (c.run f).2 = .err e) : (c.run f).1 = c.refusedState f :=
  (C06_creation f c hi).atomic e h

/-- What a refusal leaves: the store itself, or the store with one more parentless leaf whose
    handle is the fresh `f.next`. -/
theorem C06_creation_refusedState (f : Forest) (c : Forest.COp) :
    c.refusedState f = f ∨ ∃ v, c.refusedState f = { f with roots := f.roots ++ [.node f.next v []], next := f.next + 1 } := by
  cases c <;> first | exact Or.inl rfl | exact Or.inr ⟨_, rfl⟩

theorem C06_panic_creation_iff (f : Forest) (c : Forest.COp) (hi : f.Inv) :
    (c.run f).2 = .panic ↔ c.documentedPanic f = true :=
  (C06_creation f c hi).panic_iff

theorem C06_panic_creation_unchanged (f : Forest) (c : Forest.COp) (hi : f.Inv) (h : (c.run f).2 = .panic) :
    (c.run f).1 = f :=
  (C06_creation f c hi).panic_same h

theorem C06_corrupt_unreachable_creation (f : Forest) (c : Forest.COp) (hi : f.Inv) :
    (c.run f).1.corrupt = false :=
  (C06_creation f c hi).notCorrupt

/-- `new_document_with_element` of an element always succeeds and returns the new document node;
    of anything else it is refused before a node is created. -/
theorem C06_new_document_with_element (f : Forest) (n : Nat) (hi : f.Inv) :
    (f.isElement n = true → (f.newDocumentWithElement n).2 = (.ok, f.next)) ∧
    (f.isElement n = false → f.newDocumentWithElement n = (f, .err .invalidOperation, 0)) := by
  refine ⟨fun he => ?_, fun he => by simp [Forest.newDocumentWithElement, he]⟩
  obtain ⟨h1, h2⟩ := Forest.newDocumentWithElement_ok hi.toW he
  exact Prod.ext h1 h2

/-- Non-vacuity (same forest as above): refusals with and without a node left behind, the
    documented panic, accepted calls. -/
example : (C06_sample.appendText 4 ['q']).2 = .err .invalidOperation ∧
    (C06_sample.appendText 4 ['q']).1.allHandles = C06_sample.allHandles ++ [6] ∧
    (C06_sample.appendText 4 ['q']).1.isRoot 6 = true ∧
    (C06_sample.newDocumentWithElement 4).2 = (.err .invalidOperation, 0) ∧
    (C06_sample.newDocumentWithElement 4).1.next = 6 ∧
    (C06_sample.newDocumentWithElement 1).2 = (.ok, 6) ∧
    (C06_sample.appendNamespace 4 2 3).2.1 = .err .invalidOperation ∧
    (C06_sample.setAttribute 4 9 []).2 = .panic ∧ (C06_sample.setAttribute 1 9 []).2 = .ok ∧
    (C06_sample.attributeSetValue 3 ['w']).2 = .ok ∧ (C06_sample.attributeSetValue 4 ['w']).2 = .err .invalidOperation ∧
    (C06_sample.appendText 1 ['q']).2 = .ok := by decide

/-! =====================================================================================
  ### The arena under the forest: indextree 4.7.2, pointer level (`Model/Arena*.lean`)
  ===================================================================================== -/

/-- A refused `checked_*` call leaves the arena LITERALLY unchanged (every slot, stamp, free-list
    link and both free-list heads) — for every arena, well-formed or not, and every pair of ids,
    live, removed, stale or out of range: all four functions decide before their first write. -/
theorem C06_arena_refusal_unchanged (a a' : Arena) (x y : Arena.NodeId) (e : Arena.NodeError) :
    (Arena.checkedAppend a x y = .done a' (.error e) → a' = a) ∧
    (Arena.checkedPrepend a x y = .done a' (.error e) → a' = a) ∧
    (Arena.checkedInsertAfter a x y = .done a' (.error e) → a' = a) ∧
    (Arena.checkedInsertBefore a x y = .done a' (.error e) → a' = a) :=
  ⟨Arena.checkedAppend_refused a x y a' e, Arena.checkedPrepend_refused a x y a' e,
   Arena.checkedInsertAfter_refused a x y a' e, Arena.checkedInsertBefore_refused a x y a' e⟩

/-- With live arguments on a well-formed arena `checked_append` always ends without panic. -/
theorem C06_arena_append_no_panic (a : Arena) (w : Arena.Wf a) (p x : Arena.NodeId) (hp : Arena.LiveId a p)
    (hx : Arena.LiveId a x) : ∃ a' res, Arena.checkedAppend a p x = .done a' res := by
  obtain ⟨g, r⟩ := w
  rw [hp.eq, hx.eq]
  by_cases hpx : p.index0 = x.index0
  · rw [hpx, Arena.checkedAppend_self]; exact ⟨_, _, rfl⟩
  · by_cases hanc : Arena.Reach g.par p.index0 x.index0
    · rw [r.checkedAppend_ancestor _ _ hp.2.1 hx.2.1 hpx hanc]; exact ⟨_, _, rfl⟩
    · obtain ⟨a2, h2, _, _⟩ := r.checkedAppend_ok _ _ hp.2.1 hx.2.1 hpx hanc
      exact ⟨_, _, h2⟩

/-- `checked_prepend` with live arguments panics in exactly one situation, before any write: the
    new child already is the first child of the parent. -/
theorem C06_arena_prepend_panic_iff (a : Arena) (g : Arena.Shape) (r : Arena.Rep a g) (p i : Nat)
    (hp : Arena.Live a p) (hi : Arena.Live a i) :
    ((g.kids p).head? = some i → Arena.checkedPrepend a (a.idAt p) (a.idAt i) = .panic a) ∧
    ((g.kids p).head? ≠ some i → ∃ a' res, Arena.checkedPrepend a (a.idAt p) (a.idAt i) = .done a' res) := by
  constructor
  · intro hf
    have hmem : i ∈ g.kids p := List.mem_of_mem_head? hf
    have hpar := (r.kidsLive p i hmem).2.2
    have hne : p ≠ i := r.par_ne hpar
    exact r.checkedPrepend_first_panics p i hp hi hne (fun h => r.acyclic i p hpar h) hf
  · intro hf
    by_cases hpi : p = i
    · rw [hpi, Arena.checkedPrepend_self]; exact ⟨_, _, rfl⟩
    · by_cases hanc : Arena.Reach g.par p i
      · rw [r.checkedPrepend_ancestor p i hp hi hpi hanc]; exact ⟨_, _, rfl⟩
      · obtain ⟨a2, h2, _, _⟩ := r.checkedPrepend_ok p i hp hi hpi hanc hf
        exact ⟨_, _, h2⟩

/-- Non-vacuity: refusals of each kind on closed arenas (self, ancestor, removed id), the
    documented panic, an accepted call — and what is NOT refused: the stale id `2:0` (its slot has
    been reused as `2:1`) passes the `Removed` check, which looks at the slot only; the call moves the
    new occupant and stores the stale id in the neighbour's pointer (the arena is no longer
    well-formed). -/
example : Arena.checkedAppend Arena.sampleB ⟨4, 0⟩ ⟨1, 0⟩ = .done Arena.sampleB (.error .appendAncestor) ∧
    Arena.checkedPrepend Arena.sampleB ⟨4, 0⟩ ⟨2, 0⟩ = .done Arena.sampleB (.error .prependAncestor) ∧
    Arena.checkedInsertAfter Arena.sampleB ⟨3, 0⟩ ⟨3, 0⟩ = .done Arena.sampleB (.error .insertAfterSelf) ∧
    (match Arena.checkedInsertBefore Arena.sampleC ⟨3, 0⟩ ⟨2, 0⟩ with
     | .done a' (.ok ()) => !a'.wf && (a'.get ⟨3, 0⟩).map (·.prev) == some (some ⟨2, 0⟩)
     | _ => false) = true ∧
    Arena.checkedAppend (Arena.sampleB.after (Arena.remove · ⟨3, 0⟩)) ⟨1, 0⟩ ⟨3, 0⟩ =
      .done (Arena.sampleB.after (Arena.remove · ⟨3, 0⟩)) (.error .removed) ∧
    Arena.checkedPrepend Arena.sampleB ⟨1, 0⟩ ⟨2, 0⟩ = .panic Arena.sampleB ∧
    (match Arena.checkedPrepend Arena.sampleB ⟨1, 0⟩ ⟨3, 0⟩ with
     | .done a' (.ok ()) => a'.wf && Arena.children a' ⟨1, 0⟩ 9 == .done a' [⟨3, 0⟩, ⟨2, 0⟩]
     | _ => false) = true := by decide

end XotModel.Props

/-! # ================================================================================================
    # PREFIXES (branch wt-misc): `create_missing_prefixes` / `deduplicate_namespaces` at forest level
    # ================================================================================================

  Model/FatomSpec2.lean: both functions walk the subtree read-only (the tree-level models of C10 / C15 on
  the erased root tree) and then change the store only through `namespaces_mut(h).insert` / `.remove`,
  i.e. through `Forest.Call`s run in the Rust's order (`Forest.runCalls`).  For EVERY forest with the
  invariant, every vocabulary and every node argument (live or not):

    C06_create_missing_prefixes_outcome   the three cases: `NotElement` / `NoElementAtTopLevel` with forest
                                          and interning tables returned as they were, `Ok` otherwise
    C06_create_missing_prefixes_atomic    a refused call changes nothing (both refusals precede the first call)
    C06_no_panic_create_missing_prefixes  never panics (walk: `pushed.pop().unwrap()` unreachable; prefix loop
                                          ends: C10's fuel lemma; every insertion meets an element)
    C06_deduplicate_namespaces_total      never fails, never panics; EVERY pass of its loop issues only `remove`
                                          calls on elements (`dedupCalls` is the call list of one pass, on
                                          whatever forest with the invariant the pass starts from)
    C06_deduplicate_namespaces_passes     the loop `while pass(node) {}` cut off after ANY number of rounds has
                                          neither failed nor panicked and left a forest with the invariant
-/

namespace XotModel.Props
open XotModel

/-- The outcome of `create_missing_prefixes(node)`, case by case. -/
theorem C06_create_missing_prefixes_outcome (f : Forest) (hi : f.Inv) (env : Env) (node : Nat) :
    (f.isDocument node = false → f.isElement node = false →
      f.createMissingPrefixes env node = (f, env, .err .notElement)) ∧
    (f.isDocument node = true → (∀ t, f.get? node = some t → ∀ k ∈ t.kids, k.value.isElement = false) →
      f.createMissingPrefixes env node = (f, env, .err .noElementAtTopLevel)) ∧
    ((f.isElement node = true ∨ (f.isDocument node = true ∧
        ∃ t k, f.get? node = some t ∧ k ∈ t.kids ∧ k.value.isElement = true)) →
      (f.createMissingPrefixes env node).2.2 = .ok) :=
  Forest.fpx_createMissingPrefixes hi env node

/-- The three cases are exhaustive: the outcome is `Ok` or one of the two refusals with NOTHING changed. -/
theorem C06_create_missing_prefixes_cases (f : Forest) (hi : f.Inv) (env : Env) (node : Nat) :
    (f.createMissingPrefixes env node).2.2 = .ok ∨
    f.createMissingPrefixes env node = (f, env, .err .notElement) ∨
    f.createMissingPrefixes env node = (f, env, .err .noElementAtTopLevel) := by
  obtain ⟨h1, h2, h3⟩ := C06_create_missing_prefixes_outcome f hi env node
  cases hd : f.isDocument node with
  | false =>
    cases he : f.isElement node with
    | false => exact Or.inr (Or.inl (h1 hd he))
    | true => exact Or.inl (h3 (Or.inl he))
  | true =>
    by_cases hk : ∃ t k, f.get? node = some t ∧ k ∈ t.kids ∧ k.value.isElement = true
    · exact Or.inl (h3 (Or.inr ⟨hd, hk⟩))
    · refine Or.inr (Or.inr (h2 hd (fun t hg k hkm => ?_)))
      cases hv : k.value.isElement with
      | false => rfl
      | true => exact absurd ⟨t, k, hg, hkm, hv⟩ hk

/-- **A refused `create_missing_prefixes` changes nothing**: if the call answers `Err(e)`, the forest and
    the interning tables are the ones it was called with (and `e` is `NotElement` or
    `NoElementAtTopLevel`: both refusals precede the first `namespaces_mut` call). -/
theorem C06_create_missing_prefixes_atomic (f : Forest) (hi : f.Inv) (env : Env) (node : Nat) (e : XotError)
    (h : (f.createMissingPrefixes env node).2.2 = .err e) :
    (f.createMissingPrefixes env node).1 = f ∧ (f.createMissingPrefixes env node).2.1 = env ∧
    (e = .notElement ∨ e = .noElementAtTopLevel) := by
  rcases C06_create_missing_prefixes_cases f hi env node with h1 | h1 | h1
  · rw [h1] at h; cases h
  · rw [h1] at h ⊢; injection h with h; exact ⟨rfl, rfl, Or.inl h.symm⟩
  · rw [h1] at h ⊢; injection h with h; exact ⟨rfl, rfl, Or.inr h.symm⟩

/-- `create_missing_prefixes` never panics, for every node argument. -/
theorem C06_no_panic_create_missing_prefixes (f : Forest) (hi : f.Inv) (env : Env) (node : Nat) :
    (f.createMissingPrefixes env node).2.2 ≠ .panic := by
  rcases C06_create_missing_prefixes_cases f hi env node with h1 | h1 | h1 <;> rw [h1] <;> exact fun h => by cases h

/-- The calls `create_missing_prefixes_for_element` issues on an element: they exist (no panic before
    the first one) and are namespace insertions on elements of the forest. -/
theorem C06_create_missing_prefixes_calls (f : Forest) (hi : f.Inv) (env : Env) (node : Nat)
    (he : f.isElement node = true) :
    ∃ env' cs, f.repairCalls env node = some (env', cs) ∧ ∀ c ∈ cs, c.isNsEdit f :=
  Forest.fpx_repairCalls hi env he

/-- **`deduplicate_namespaces` never fails and never panics**, for every node argument; the calls of a
    pass (of EVERY pass: `f` is any forest with the invariant, and every pass leaves one,
    `C06_deduplicate_namespaces_passes`) are `namespaces_mut(h).remove(prefix)` on elements `h` of the
    forest (live, hence not removed). -/
theorem C06_deduplicate_namespaces_total (f : Forest) (hi : f.Inv) (env : Env) (node : Nat) :
    (f.deduplicateNamespaces env node).2 = .ok ∧
    (∀ c ∈ f.dedupCalls env node, ∃ h pfx, c = .mapRemove .namespaces h pfx ∧ f.isElement h = true ∧
      f.isLive h = true) := by
  refine ⟨(Forest.fpx_deduplicateNamespaces hi env node).1, fun c hc => ?_⟩
  obtain ⟨h1, h, pfx, rfl⟩ := Forest.fpx_dedupCalls hi env node c hc
  exact ⟨h, pfx, rfl, h1, Forest.fpx_isLive_of_isElement h1⟩

/-- The loop after any number of rounds (induction on the fuel over the per-pass statement): no
    error, no panic, the invariant holds (so the next pass meets the hypothesis of
    `C06_deduplicate_namespaces_total` again), every node is of the kind it was. -/
theorem C06_deduplicate_namespaces_passes (f : Forest) (hi : f.Inv) (env : Env) (node fuel : Nat) :
    (Forest.dedupLoop env node fuel f).2 = .ok ∧ (Forest.dedupLoop env node fuel f).1.Inv ∧
    ∀ x, (Forest.dedupLoop env node fuel f).1.isElement x = f.isElement x :=
  Forest.fpx_dedupLoop env node fuel hi

/-- Both calls leave every node's kind alone (element stays element, non-element stays non-element). -/
theorem C06_prefix_calls_keep_elements (f : Forest) (hi : f.Inv) (env : Env) (node x : Nat) :
    (f.deduplicateNamespaces env node).1.isElement x = f.isElement x :=
  (Forest.fpx_deduplicateNamespaces hi env node).2.2 x

/-- Non-vacuity on `pfxForest'` = `<a:e xmlns:p="urn:u"><a:e xmlns:p="urn:u"/></a:e>`: accepted on the
    element, refused with nothing changed on its namespace node; dedup removes the inner duplicate. -/
def c06PfxEnv : Env :=
  { namespaces := [[], ['x'], ['u'], ['w']], prefixes := [[], ['x','m','l'], ['p']],
    names := [(['s'], 1), (['e'], 3)] }
def c06PfxForest : Forest := { roots := [.node 0 (.element 1) [.node 1 (.namespace 2 2) [],
  .node 2 (.element 1) [.node 3 (.namespace 2 2) []]], .node 4 .document [.node 5 (.comment ['c']) []]], next := 6 }
example : c06PfxForest.inv = true := by decide
example : (c06PfxForest.createMissingPrefixes c06PfxEnv 0).2.2 = .ok ∧
    (c06PfxForest.createMissingPrefixes c06PfxEnv 1).2.2 = .err .notElement ∧
    (c06PfxForest.createMissingPrefixes c06PfxEnv 4).2.2 = .err .noElementAtTopLevel ∧
    (c06PfxForest.createMissingPrefixes c06PfxEnv 4).1.allHandles = c06PfxForest.allHandles ∧
    (c06PfxForest.dedupCalls c06PfxEnv 0).length = 1 ∧
    (c06PfxForest.deduplicateNamespaces c06PfxEnv 0).2 = .ok := by decide +kernel

end XotModel.Props

/-! # ================================================================================================
    # EXTENDED HISTORIES (branch wt-hist): C06 for the composite calls as steps of the histories
    # ================================================================================================

  `Forest.XCall` (Model/FhistSpec.lean): a call of `Forest.Call`, node creation, set_text_consolidation,
  remove_insignificant_whitespace, `create_missing_prefixes`, `deduplicate_namespaces`,
  `clone_with_prefixes` (for ANY iteration order of the inherited prefixes); `XCall.run` on a `Store`
  (forest + interning tables) gives the state reached and the outcome.  `XCall.liveArgs`: every node
  argument is live.  `XCall.documentedPanic`: the documented panics of `Forest.Call` (`attributes_mut` /
  `namespaces_mut` / `set_element_name` on a non-element) — the other steps and the composites have none.

  What the composites do, exactly (`C06_outcomes_ext`): `create_missing_prefixes` refuses `NotElement`
  (node neither element nor document) / `NoElementAtTopLevel` (document without an element child)
  BEFORE touching anything — forest and interning tables are returned as they were — and answers `Ok`
  otherwise; `deduplicate_namespaces` never fails; `clone_with_prefixes` of a live node returns a node;
  node creation, set_text_consolidation, remove_insignificant_whitespace return nothing that can fail. -/

namespace XotModel.Props
open XotModel

/-- ⟦C06_atomic_ext⟧ **An extended call on live arguments that answers an error has changed nothing**:
    neither the forest nor the interning tables. -/
theorem C06_atomic_ext (s : Store) (c : Forest.XCall) (e : XotError) (hi : s.forest.Inv)
    (hl : c.liveArgs s.forest) (h : (c.run s).2 = .err e) : (c.run s).1 = s := by
  rcases Forest.xcall_clauses hi c hl with ⟨_, h'⟩ | ⟨_, h'⟩
  · exact h'.atomic e h
  · rw [h']

/-- ⟦C06_nopanic_ext⟧ **The only panics of extended calls on live arguments are the documented ones**
    (of the element-only accessors on a non-element), and they change nothing.  In particular the
    composites never panic: `pushed.pop().unwrap()` in the walk of `create_missing_prefixes` is
    unreachable and its prefix loop ends, every `namespaces_mut(h)` of both composites meets an
    element, the `unwrap`s inside `clone_node` cannot fail and the insertions of `clone_with_prefixes`
    are made on the clone only if it is an element. -/
theorem C06_nopanic_ext (s : Store) (c : Forest.XCall) (hi : s.forest.Inv) (hl : c.liveArgs s.forest)
    (h : (c.run s).2 = .panic) : c.documentedPanic s.forest = true ∧ (c.run s).1 = s := by
  rcases Forest.xcall_clauses hi c hl with ⟨_, h'⟩ | ⟨h1, h'⟩
  · exact absurd h h'.noPanic
  · exact ⟨h1, by rw [h']⟩

/-- The documented panic does happen (so `C06_nopanic_ext` is an equivalence). -/
theorem C06_documentedPanic_ext (s : Store) (c : Forest.XCall) (hi : s.forest.Inv)
    (hl : c.liveArgs s.forest) (h : c.documentedPanic s.forest = true) : (c.run s).2 = .panic := by
  rcases Forest.xcall_clauses hi c hl with ⟨h1, _⟩ | ⟨_, h'⟩
  · rw [h1] at h; cases h
  · rw [h']

/-- No extended call with live arguments uses an indextree primitive outside its list semantics. -/
theorem C06_corrupt_unreachable_ext (s : Store) (c : Forest.XCall) (hi : s.forest.Inv)
    (hl : c.liveArgs s.forest) : (c.run s).1.forest.corrupt = false := by
  rcases Forest.xcall_clauses hi c hl with ⟨_, h'⟩ | ⟨_, h'⟩
  · exact h'.notCorrupt
  · rw [h']; exact hi.notCorrupt

/-- ⟦C06_outcomes_ext⟧ What the steps that are not calls of `Forest.Call` answer, exactly.  Node
    creation, `set_text_consolidation`, `remove_insignificant_whitespace`, `deduplicate_namespaces`:
    `Ok` for EVERY argument, live or not (and the interning tables are the same).
    `clone_with_prefixes`: `Ok` on a live node, for every iteration order.
    `create_missing_prefixes`, for EVERY argument: `Ok`, or `NotElement` exactly when the node is
    neither an element nor a document, or `NoElementAtTopLevel` exactly when it is a document none of
    whose children is an element — and in both refusals the store (forest AND tables) is returned as
    it was: the refusals precede the first `namespaces_mut` call and the first `add_prefix`. -/
theorem C06_outcomes_ext (s : Store) (hi : s.forest.Inv) :
    (∀ v, ((Forest.XCall.newNode v).run s).2 = .ok) ∧
    (∀ b, ((Forest.XCall.setConsolidation b).run s).2 = .ok) ∧
    (∀ n, ((Forest.XCall.removeInsignificantWhitespace n).run s).2 = .ok) ∧
    (∀ n, ((Forest.XCall.deduplicateNamespaces n).run s).2 = .ok ∧
      ((Forest.XCall.deduplicateNamespaces n).run s).1.env = s.env) ∧
    (∀ n order, s.forest.isLive n = true → ((Forest.XCall.cloneWithPrefixes n order).run s).2 = .ok ∧
      ((Forest.XCall.cloneWithPrefixes n order).run s).1.env = s.env) ∧
    (∀ n, ((Forest.XCall.createMissingPrefixes n).run s).2 = .ok ∨
      (s.forest.isDocument n = false ∧ s.forest.isElement n = false ∧
        (Forest.XCall.createMissingPrefixes n).run s = (s, .err .notElement)) ∨
      (s.forest.isDocument n = true ∧
        (∀ t, s.forest.get? n = some t → ∀ k ∈ t.kids, k.value.isElement = false) ∧
        (Forest.XCall.createMissingPrefixes n).run s = (s, .err .noElementAtTopLevel))) :=
  Forest.xcall_outcomes hi

/-- `clone_with_prefixes` of a live node cannot panic, whatever the iteration order (proved here from
    the C06 lemmas: `clone_node` returns a node, every insertion meets an element). -/
theorem C06_no_panic_cloneWithPrefixes (f : Forest) (hi : f.Inv) (n : Nat) (hn : f.isLive n = true)
    (order : List (Nat × Nat)) : (f.cloneWithPrefixes n order).2 ≠ none := by
  have := Forest.cloneWithPrefixes_isSome hi hn order
  intro h; rw [h] at this; cases this

/-- Along histories: after ANY well-kinded extended history from the empty store (any vocabulary),
    the next extended call with live arguments is atomic and panics only as documented — the
    invariant the step theorems need holds at every point of time (`C04_reach_ext`). -/
theorem C06_atomic_nopanic_reach_ext (env : Env) (pre : List Forest.XCall) (hw : ∀ c ∈ pre, c.wellKinded)
    (c : Forest.XCall) (hl : c.liveArgs ((⟨Forest.init, env⟩ : Store).xrun pre).forest) :
    (∀ e, (c.run ((⟨Forest.init, env⟩ : Store).xrun pre)).2 = .err e →
      (c.run ((⟨Forest.init, env⟩ : Store).xrun pre)).1 = (⟨Forest.init, env⟩ : Store).xrun pre) ∧
    ((c.run ((⟨Forest.init, env⟩ : Store).xrun pre)).2 = .panic →
      c.documentedPanic ((⟨Forest.init, env⟩ : Store).xrun pre).forest = true ∧
      (c.run ((⟨Forest.init, env⟩ : Store).xrun pre)).1 = (⟨Forest.init, env⟩ : Store).xrun pre) := by
  have hi : ((⟨Forest.init, env⟩ : Store).xrun pre).forest.Inv :=
    Store.xrun_inv pre ((Forest.inv_iff _).mp (show Forest.init.inv = true by decide)) hw
  exact ⟨fun e h => C06_atomic_ext _ c e hi hl h, fun h => C06_nopanic_ext _ c hi hl h⟩

/-- Non-vacuity on `c06PfxForest` (`<a:e xmlns:p="urn:u"><a:e xmlns:p="urn:u"/></a:e>` and a document
    holding only a comment): live arguments; an accepted repair, the two refusals of
    `create_missing_prefixes` with forest and tables as they were, a dedup, a clone with prefixes, the
    documented panic; and a mixed history with its outcomes. -/
def c06XStore : Store := ⟨c06PfxForest, c06PfxEnv⟩
def c06XCalls : List Forest.XCall :=
  [.call (.append 4 2), .createMissingPrefixes 4, .deduplicateNamespaces 4, .cloneWithPrefixes 2 [(2, 2)],
   .createMissingPrefixes 5, .call (.detach 2), .createMissingPrefixes 4, .call (.mapClear .namespaces 5),
   .removeInsignificantWhitespace 0, .deduplicateNamespaces 0]
example : c06XStore.forest.Inv := (Forest.inv_iff _).1 (by decide)
example : (Forest.XCall.createMissingPrefixes 0).liveArgs c06XStore.forest ∧
    (Forest.XCall.createMissingPrefixes 1).liveArgs c06XStore.forest ∧
    (Forest.XCall.createMissingPrefixes 4).liveArgs c06XStore.forest ∧
    (Forest.XCall.cloneWithPrefixes 2 [(2, 2)]).liveArgs c06XStore.forest := by
  refine ⟨?_, ?_, ?_, ?_⟩ <;> intro x hx <;>
    simp only [Forest.XCall.args, List.mem_singleton] at hx <;> subst hx <;> decide
example : ((Forest.XCall.createMissingPrefixes 0).run c06XStore).2 = .ok ∧
    ((Forest.XCall.createMissingPrefixes 0).run c06XStore).1.env.prefixes = [[], ['x','m','l'], ['p'], ['n', '0']] ∧
    ((Forest.XCall.createMissingPrefixes 1).run c06XStore).2 = .err .notElement ∧
    ((Forest.XCall.createMissingPrefixes 1).run c06XStore).1.forest.allHandles = c06XStore.forest.allHandles ∧
    ((Forest.XCall.createMissingPrefixes 1).run c06XStore).1.env.prefixes = c06XStore.env.prefixes ∧
    ((Forest.XCall.createMissingPrefixes 4).run c06XStore).2 = .err .noElementAtTopLevel ∧
    ((Forest.XCall.deduplicateNamespaces 0).run c06XStore).2 = .ok ∧
    ((Forest.XCall.deduplicateNamespaces 0).run c06XStore).1.forest.allHandles = [0, 1, 2, 4, 5] ∧
    ((Forest.XCall.cloneWithPrefixes 2 [(2, 2)]).run c06XStore).2 = .ok ∧
    ((Forest.XCall.call (.mapClear .namespaces 5)).run c06XStore).2 = .panic ∧
    (Forest.XCall.call (.mapClear .namespaces 5)).documentedPanic c06XStore.forest = true := by
  decide +kernel
example : (∀ c ∈ c06XCalls, c.wellKinded) ∧
    c06XStore.xouts c06XCalls = [.ok, .ok, .ok, .ok, .err .notElement, .ok, .err .noElementAtTopLevel, .panic,
      .ok, .ok] ∧
    (c06XStore.xrun c06XCalls).forest.inv = true := by decide +kernel

end XotModel.Props

/-! # ================================================================================================
    # STALE IDS (branch wt-stale): which arena calls with removed / foreign ids change nothing
    # ================================================================================================

  Classes of ids and the slot-level conditions `Freed` / `Stale` / `FreedArg` / `OutOfRangeArg`:
  Lemmas/ArenaStale.lean, ArenaStaleChecked.lean; `Slot.Unlinked`: Lemmas/ArenaStaleMut.lean; the full
  account of what each call does is in `Props/C04` (section STALE IDS).

  Unchanged — literally the same arena, hence still well-formed — for EVERY arena:
    * every read accessor and every iterator, whatever the id and the limit, also when it panics;
    * `checked_*` and the unchecked wrappers with a freed id in either position (`Err(Removed)` resp. the
      wrapper's `expect` panic), with an id beyond the slot vector (index panic), with the same id twice;
    * `detach` of an id whose slot has no parent / sibling pointers.
  NOT unchanged (no refusal exists in indextree 4.7.2, the functions never look at a stamp):
    * `detach` of an id freed inside a removed subtree (stale pointers are followed and rewritten);
    * `remove`, `remove_subtree` of a freed id (double free); a STALE id in any call (the new occupant
      of the slot is operated on and the stale id is stored in its neighbours).
-/

namespace XotModel.Props
open XotModel

/-- ⟦C06_arena_stale_unchanged⟧ The calls with removed or foreign ids that change nothing. -/
theorem C06_arena_stale_unchanged (a : Arena) (x y : Arena.NodeId) (limit : Nat) :
    -- reads and iterators, every id
    ((Arena.isRemoved a x).arena = a ∧ (Arena.value a x).arena = a ∧
      (Arena.ancestors a x limit).arena = a ∧ (Arena.children a x limit).arena = a ∧
      (Arena.reverseChildren a x limit).arena = a ∧ (Arena.followingSiblings a x limit).arena = a ∧
      (Arena.precedingSiblings a x limit).arena = a ∧ (Arena.traverse a x limit).arena = a ∧
      (Arena.reverseTraverse a x limit).arena = a ∧ (Arena.descendants a x limit).arena = a) ∧
    -- a freed id in either position
    (y ≠ x → Arena.FreedArg a x y →
      Arena.checkedAppend a x y = .done a (.error .removed) ∧ Arena.checkedPrepend a x y = .done a (.error .removed) ∧
      Arena.checkedInsertAfter a x y = .done a (.error .removed) ∧
      Arena.checkedInsertBefore a x y = .done a (.error .removed) ∧
      Arena.append a x y = .panic a ∧ Arena.prepend a x y = .panic a ∧ Arena.insertAfter a x y = .panic a ∧
      Arena.insertBefore a x y = .panic a) ∧
    -- an id beyond the slot vector
    (y ≠ x → Arena.OutOfRangeArg a x y →
      Arena.checkedAppend a x y = .panic a ∧ Arena.checkedPrepend a x y = .panic a ∧
      Arena.checkedInsertAfter a x y = .panic a ∧ Arena.checkedInsertBefore a x y = .panic a) ∧
    -- the same id twice, whatever it is
    (Arena.checkedAppend a x x = .done a (.error .appendSelf) ∧ Arena.checkedPrepend a x x = .done a (.error .prependSelf) ∧
      Arena.checkedInsertAfter a x x = .done a (.error .insertAfterSelf) ∧
      Arena.checkedInsertBefore a x x = .done a (.error .insertBeforeSelf)) ∧
    -- `detach` of an id whose slot has no parent and no siblings
    (∀ s, a.slot x.index0 = some s → s.Unlinked → Arena.detach a x = .done a ()) := by
  obtain ⟨h3, _, h5, _, h7, h8, h9, h10, h11, h12⟩ := Arena.iterators_arena a x limit
  refine ⟨⟨Arena.isRemoved_arena a x, Arena.value_arena a x, h3, h5, h7, h8, h9, h10, h11, h12⟩,
    fun hne hf => ?_, fun hne ho => ?_,
    ⟨Arena.checkedAppend_self a x, Arena.checkedPrepend_self a x, Arena.checkedInsertAfter_self a x,
     Arena.checkedInsertBefore_self a x⟩, fun s hs hu => Arena.detach_unlinked a x s hs hu⟩
  · exact ⟨Arena.checkedAppend_freed hne hf, Arena.checkedPrepend_freed hne hf, Arena.checkedInsertAfter_freed hne hf,
      Arena.checkedInsertBefore_freed hne hf, Arena.append_freed hne hf, Arena.prepend_freed hne hf,
      Arena.insertAfter_freed hne hf, Arena.insertBefore_freed hne hf⟩
  · exact ⟨Arena.checkedAppend_out_of_range hne ho, Arena.checkedPrepend_out_of_range hne ho,
      Arena.checkedInsertAfter_out_of_range hne ho, Arena.checkedInsertBefore_out_of_range hne ho⟩

/-- Hence a well-formed arena is still well-formed after any of these calls (it is the same arena). -/
theorem C06_arena_stale_stays_wf (a : Arena) (w : Arena.Wf a) (x y : Arena.NodeId) (limit : Nat) :
    Arena.Wf (Arena.isRemoved a x).arena ∧ Arena.Wf (Arena.value a x).arena ∧
    Arena.Wf (Arena.ancestors a x limit).arena ∧ Arena.Wf (Arena.children a x limit).arena ∧
    Arena.Wf (Arena.descendants a x limit).arena ∧ Arena.Wf (Arena.traverse a x limit).arena ∧
    Arena.Wf (Arena.reverseTraverse a x limit).arena ∧
    (y ≠ x → (Arena.FreedArg a x y ∨ Arena.OutOfRangeArg a x y) →
      Arena.Wf (Arena.checkedAppend a x y).arena ∧ Arena.Wf (Arena.checkedPrepend a x y).arena ∧
      Arena.Wf (Arena.checkedInsertAfter a x y).arena ∧ Arena.Wf (Arena.checkedInsertBefore a x y).arena) ∧
    (∀ s, a.slot x.index0 = some s → s.Unlinked → Arena.Wf (Arena.detach a x).arena) := by
  obtain ⟨⟨h1, h2, h3, h4, _, _, _, h8, h9, h10⟩, hf, ho, _, hd⟩ := C06_arena_stale_unchanged a x y limit
  refine ⟨by rw [h1]; exact w, by rw [h2]; exact w, by rw [h3]; exact w, by rw [h4]; exact w, by rw [h10]; exact w,
    by rw [h8]; exact w, by rw [h9]; exact w, fun hne h => ?_, fun s hs hu => by rw [hd s hs hu]; exact w⟩
  rcases h with h | h
  · obtain ⟨e1, e2, e3, e4, _⟩ := hf hne h
    rw [e1, e2, e3, e4]; exact ⟨w, w, w, w⟩
  · obtain ⟨e1, e2, e3, e4⟩ := ho hne h
    rw [e1, e2, e3, e4]; exact ⟨w, w, w, w⟩

/-- Full-strength statement (FALSE): every mutating call with a removed id leaves the arena unchanged. -/
def C06_arena_stale_unchanged_Statement : Prop :=
  ∀ (a : Arena) (x : Arena.NodeId), Arena.Wf a → Arena.Removed a x →
    (Arena.detach a x).arena = a ∧ (Arena.remove a x).arena = a ∧ (Arena.removeSubtree a x).arena = a

/-- It fails for each of the three calls: `detach(4:0)` on `sampleG` / `sampleH` (a slot freed inside a
    removed subtree), `remove(3:0)` / `remove_subtree(3:0)` on `sampleF` (double free). -/
theorem C06_arena_stale_unchanged_Statement_false :
    ¬ C06_arena_stale_unchanged_Statement ∧
    (Arena.detach Arena.sampleG ⟨4, 0⟩).arena ≠ Arena.sampleG ∧ (Arena.detach Arena.sampleH ⟨4, 0⟩).arena ≠ Arena.sampleH ∧
    (Arena.remove Arena.sampleF ⟨3, 0⟩).arena ≠ Arena.sampleF ∧
    (Arena.removeSubtree Arena.sampleF ⟨3, 0⟩).arena ≠ Arena.sampleF := by
  refine ⟨fun h => ?_, by decide, by decide, by decide, by decide⟩
  have := (h Arena.sampleF ⟨3, 0⟩ Arena.sampleF_wf (by decide)).2.1
  revert this
  decide

/-- Non-vacuity: the hypotheses on closed reachable arenas, and the calls evaluated. -/
example : Arena.Wf Arena.sampleF ∧ Arena.FreedArg Arena.sampleF ⟨1, 0⟩ ⟨3, 0⟩ ∧ Arena.FreedArg Arena.sampleF ⟨3, 0⟩ ⟨1, 0⟩ ∧
    Arena.OutOfRangeArg Arena.sampleF ⟨9, 0⟩ ⟨1, 0⟩ ∧
    (∃ s, Arena.sampleF.slot 2 = some s ∧ s.Unlinked) :=
  ⟨Arena.sampleF_wf, Or.inr ⟨⟨_, rfl, by decide⟩, ⟨_, rfl, by decide⟩⟩, Or.inl ⟨_, rfl, by decide⟩, Or.inl rfl,
   ⟨_, rfl, by decide⟩⟩

example : Arena.checkedInsertAfter Arena.sampleF ⟨1, 0⟩ ⟨3, 0⟩ = .done Arena.sampleF (.error .removed) ∧
    Arena.checkedPrepend Arena.sampleF ⟨3, 0⟩ ⟨1, 0⟩ = .done Arena.sampleF (.error .removed) ∧
    Arena.checkedInsertBefore Arena.sampleF ⟨9, 0⟩ ⟨1, 0⟩ = .panic Arena.sampleF ∧
    Arena.insertBefore Arena.sampleF ⟨1, 0⟩ ⟨3, 0⟩ = .panic Arena.sampleF ∧
    Arena.detach Arena.sampleF ⟨3, 0⟩ = .done Arena.sampleF () ∧
    Arena.detach Arena.sampleG ⟨2, 0⟩ = .done Arena.sampleG () := by decide

/-- A STALE id is not refused, in either position (`sampleC`: slot 1 reused, `2:0` stale, `2:1` live): as
    `self` of `checked_append` the new occupant `2:1` receives the child, whose `parent` pointer is the
    stale id; as the new sibling (`checked_insert_before`, example further up) the new occupant is
    moved and the stale id is stored in the neighbour — the arena is no longer well-formed. -/
example : Arena.eitherRemoved Arena.sampleC ⟨2, 0⟩ ⟨3, 0⟩ = .done Arena.sampleC false ∧
    (match Arena.checkedAppend Arena.sampleC ⟨2, 0⟩ ⟨3, 0⟩ with
     | .done a' (.ok ()) => !a'.wf && (a'.get ⟨3, 0⟩).map (·.parent) == some (some ⟨2, 0⟩) &&
         (a'.get ⟨2, 1⟩).map (·.first) == some (some ⟨3, 0⟩)
     | _ => false) = true := by decide

end XotModel.Props

/-! # ================================================================================================
    # FULL HISTORIES (branch wt-parsehist): C06 for histories that PARSE and edit
    # ================================================================================================

  `PCall` (Model/FparseHist.lean): an extended API call (`Forest.XCall`) or `parse mode text` (the text through the
  reference tokenizer and the builder, on the interning tables of the store; an accepted tree installed with
  `IdStore.parseInto`).  State `PStore` = forest + interning tables + xml:id index.

  A refused step — an API call that answers an error, a text that is rejected — leaves the FOREST and the
  xml:id INDEX exactly as they were (`C06_atomic_full`); an API call leaves the interning tables too
  (`C06_atomic_full_api`: the whole store is unchanged).  A rejected TEXT does not: the names, prefixes and
  namespaces the builder interned before it hit the error stay in the tables
  (`C06_rejected_parse_tables_Statement` is false of the code as it is: `<a><b></a>` leaves `a` and `b`
  behind); nothing observable through a node handle depends on that — interning only appends, ids already
  handed out keep their meaning.  The parser itself never panics (`C06_parse_outcomes_full`, from
  `C03_string_nopanic`). -/

namespace XotModel.Props
open XotModel

/-- ⟦C06_atomic_full⟧ **A refused step changes neither the forest nor the xml:id index**: an extended API
    call on live arguments that answers an error, or the parse of a text that is rejected (every `?` and
    `return Err` of `_parse` and of the epilogues of `parse` / `parse_fragment`: the half-built tree is
    reachable from no handle, `id_nodes_map.insert` is not reached). -/
theorem C06_atomic_full (s : PStore) (c : PCall) (hi : s.forest.Inv) (hl : c.liveArgs s.forest)
    (h : PCall.refused (c.run s).2) : (c.run s).1.forest = s.forest ∧ (c.run s).1.index = s.index :=
  PStore.fph_refused s c hi hl h

/-- An API step that answers an error has changed NOTHING: forest, interning tables, index. -/
theorem C06_atomic_full_api (s : PStore) (c : Forest.XCall) (e : XotError) (hi : s.forest.Inv)
    (hl : c.liveArgs s.forest) (h : ((PCall.api c).run s).2 = .api (.err e)) : ((PCall.api c).run s).1 = s :=
  PStore.fph_api_refused s c e hi hl h

/-- A parse step that answers an error: the text was rejected with that error (no hypothesis on the
    store at all), the store is as it was except for the interning tables, which are the ones the
    builder left. -/
theorem C06_atomic_full_parse (s : PStore) (m : Mode) (text : Str) (e : ParseErr)
    (h : ((PCall.parse m text).run s).2 = .rejected e) :
    ∃ env', parseString m s.env text = .err e env' ∧ ((PCall.parse m text).run s).1 = { s with env := env' } :=
  PStore.fph_parse_rejected s m text e h

/-- ⟦C06_parse_outcomes_full⟧ A parse step answers a document node — the store's next handle — or a parse
    error; never a panic. -/
theorem C06_parse_outcomes_full (s : PStore) (m : Mode) (text : Str) :
    (∃ p, parseString m s.env text = .ok p ∧ ((PCall.parse m text).run s).2 = .parsed s.forest.next) ∨
    (∃ e env', parseString m s.env text = .err e env' ∧ ((PCall.parse m text).run s).2 = .rejected e) := by
  rcases PStore.fph_parseString_cases m s.env text with ⟨p, hp⟩ | ⟨e, env', hp⟩
  · exact Or.inl ⟨p, hp, by rw [PStore.fph_run_parse_ok s hp]; rfl⟩
  · exact Or.inr ⟨e, env', hp, by rw [PStore.fph_run_parse_err s hp]⟩

/-- The only panics of the steps of a full history (on live arguments) are the documented ones of the
    element-only accessors, and they change nothing. -/
theorem C06_nopanic_full (s : PStore) (c : Forest.XCall) (hi : s.forest.Inv) (hl : c.liveArgs s.forest)
    (h : ((PCall.api c).run s).2 = .api .panic) :
    c.documentedPanic s.forest = true ∧ ((PCall.api c).run s).1 = s :=
  PStore.fph_api_panic s c hi hl h

/-- Along histories: after ANY well-kinded history of parses and API calls from `Xot::new()` (any
    vocabulary), the next step, if refused, has changed neither forest nor index — the invariant the step
    theorems need holds at every point of time (`C04_reach_full`). -/
theorem C06_atomic_reach_full (env : Env) (pre : List PCall) (hw : ∀ c ∈ pre, c.wellKinded)
    (c : PCall) (hl : c.liveArgs ((PStore.init env).run pre).forest)
    (h : PCall.refused (c.run ((PStore.init env).run pre)).2) :
    (c.run ((PStore.init env).run pre)).1.forest = ((PStore.init env).run pre).forest ∧
    (c.run ((PStore.init env).run pre)).1.index = ((PStore.init env).run pre).index :=
  C06_atomic_full _ c (PStore.fph_run_inv pre (PStore.fph_init_inv env) hw) hl h

/-- The clause at full strength for the tables: a rejected parse leaves the WHOLE store as it was. -/
def C06_rejected_parse_tables_Statement : Prop :=
  ∀ (s : PStore) (m : Mode) (text : Str) (e : ParseErr),
    ((PCall.parse m text).run s).2 = .rejected e → ((PCall.parse m text).run s).1 = s

def c06RejectedText : Str := "<a><b></a>".toList

/-- It does not hold of the code as it is: `<a><b></a>` is rejected (`InvalidCloseTag`) after `a` and `b`
    were interned (`DocumentBuilder::open_element` → `add_name`): the name table has grown by two. -/
theorem C06_rejected_parse_tables_false : ¬ C06_rejected_parse_tables_Statement := by
  intro hall
  have h1 : ∃ e, ((PCall.parse .document c06RejectedText).run (PStore.init Env.fresh)).2 = .rejected e := by
    rcases C06_parse_outcomes_full (PStore.init Env.fresh) .document c06RejectedText with ⟨p, hp, _⟩ | ⟨e, _, _, h⟩
    · have : (parseString .document Env.fresh c06RejectedText).err?.isSome = true := by decide +kernel
      rw [show (PStore.init Env.fresh).env = Env.fresh from rfl] at hp
      rw [hp] at this; cases this
    · exact ⟨e, h⟩
  obtain ⟨e, he⟩ := h1
  have h2 := congrArg (fun s => s.env.names.length) (hall _ _ _ e he)
  have h3 : ((PCall.parse .document c06RejectedText).run (PStore.init Env.fresh)).1.env.names.length = 4 := by
    decide +kernel
  simp only [h3] at h2
  cases h2

/-- Non-vacuity, closed (from `Xot::new()`): the accepted text of Props/C04's `fullCalls`, then a refused
    `create_missing_prefixes` on a text node, a rejected text, the documented panic of `attributes_mut` on a
    text node; forest and index as after the parse. -/
def c06FullPre : List PCall := [.parse .document "<r><e xml:id=\"i\">t</e></r>".toList]
example : (∀ c ∈ c06FullPre, c.wellKinded) ∧
    ((PStore.init Env.fresh).run c06FullPre).forest.allHandles = [0, 1, 2, 3, 4] ∧
    ((PStore.init Env.fresh).run c06FullPre).index = [((0, ['i']), 2)] := by decide +kernel
example :
    let s := (PStore.init Env.fresh).run c06FullPre
    PCall.refused ((PCall.api (.createMissingPrefixes 4)).run s).2 ∧
    PCall.refused ((PCall.parse .document c06RejectedText).run s).2 ∧
    ((PCall.parse .document c06RejectedText).run s).1.forest.allHandles = [0, 1, 2, 3, 4] ∧
    ((PCall.parse .document c06RejectedText).run s).1.index = [((0, ['i']), 2)] ∧
    ((PCall.parse .fragment ['x']).run s).1.forest.allHandles = [0, 1, 2, 3, 4, 5, 6] := by
  decide +kernel

end XotModel.Props
