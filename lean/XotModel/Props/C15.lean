/-
  C15 — deduplicate_namespaces only removes redundant declarations.
  Property theorems only; for every tree, every path, every environment.

    C15_subset            per node (raw document order, namespace nodes themselves not counted) the
                          declarations after are a sublist of the declarations before: nothing is
                          added, altered or reordered
    C15_frame             the tree without its namespace nodes is unchanged: element names,
                          attributes (names, values, order), text, comments, PIs, shape
    C15_same_nodes        the per-node comparison of C15_subset is between the same nodes
    C15_idem_false        "a second call removes nothing" is FALSE as written: closed witness
                          <r xmlns:q="C" xmlns:p="A"><m xmlns:q="A"><n xmlns:r="C"/></m></r>
    C15_recursive_form    deduplicate_namespaces(root) = the recursive rebuild `rbWalk` (traverse + fix-up
                          list + removal loops discharged once; Lemmas/ScopeRebuild.lean)
    C15_serialises_partial  under NoShadowing (no prefix declared twice on any root-to-node path, xml
                          not declared, only elements carry declarations): if every name could be
                          written before deduplicate_namespaces(root), every name can be written after
    C15_serialises_false  "a tree that serialised before still serialises" is FALSE as written:
                          closed witness <a xmlns:q="A"><b xmlns:p="A" xmlns:q="B"><p:a/></b></a>
                          (namesWritable = to_string does not fail with MissingPrefix; tied to the
                          implementation by the `scope writable` requests)
-/
import XotModel.Lemmas.ScopeDedup
import XotModel.Lemmas.ScopeKeepNames

namespace XotModel.Props
open XotModel

/-- Declarations after ⊆ before, node by node; none added, none altered, order kept. -/
theorem C15_subset (env : Env) (t t' : Tree) (path : Path)
    (h : deduplicateNamespaces env t path = some t') : AllSub (declsOf t') (declsOf t) :=
  (NsShrink.deduplicateNamespaces env t t' path h).decls

/-- The node lists compared by `C15_subset` have the same length (they are the same nodes: see
    `C15_frame`). -/
theorem C15_same_nodes (env : Env) (t t' : Tree) (path : Path)
    (h : deduplicateNamespaces env t path = some t') : (declsOf t').length = (declsOf t).length :=
  (C15_subset env t t' path h).length_eq

/-- Names, attributes and content untouched: only namespace-node children are deleted. -/
theorem C15_frame (env : Env) (t t' : Tree) (path : Path)
    (h : deduplicateNamespaces env t path = some t') : stripNs t' = stripNs t ∧ t'.value = t.value :=
  ⟨(NsShrink.deduplicateNamespaces env t t' path h).strip,
   (NsShrink.deduplicateNamespaces env t t' path h).value⟩

/-- A second call removes nothing (as the property states it). -/
def C15_idem_statement : Prop :=
  ∀ (env : Env) (t t1 : Tree) (path : Path),
    deduplicateNamespaces env t path = some t1 → deduplicateNamespaces env t1 path = some t1

def c15IdemWitness : Tree :=
  .node (.element 0) [.node (.namespace 3 4) [], .node (.namespace 2 2) [],
    .node (.element 0) [.node (.namespace 3 2) [],
      .node (.element 0) [.node (.namespace 4 4) []]]]

/-- FALSE as written. In `<r xmlns:q="C" xmlns:p="A"><m xmlns:q="A"><n xmlns:r="C"/></m></r>` the
    first call removes `xmlns:q="A"` from `m` (A is known through `p`); that un-shadows `q ↦ C`,
    so the second call finds `C` known at `n` and removes `xmlns:r="C"` too. -/
theorem C15_idem_false : ¬ C15_idem_statement := by
  intro h
  have key : ((deduplicateNamespaces {} c15IdemWitness []).bind fun t1 =>
      (deduplicateNamespaces {} t1 []).map declsOf) ≠
      (deduplicateNamespaces {} c15IdemWitness []).map declsOf := by decide
  apply key
  cases hd : deduplicateNamespaces {} c15IdemWitness [] with
  | none => rfl
  | some t1 => simp [h {} c15IdemWitness t1 [] hd]

/-- A tree whose names could all be written before can still be written afterwards. -/
def C15_serialises_statement : Prop :=
  ∀ (env : Env) (t t' : Tree),
    deduplicateNamespaces env t [] = some t' → namesWritable env t [] = some true →
    namesWritable env t' [] = some true

def c15SerWitness : Tree :=
  .node (.element 0) [.node (.namespace 3 2) [],
    .node (.element 0) [.node (.namespace 2 2) [], .node (.namespace 3 3) [],
      .node (.element 1) []]]

def c15SerEnv : Env := { namespaces := [], prefixes := [], names := [(['a'], 0), (['a'], 2)] }

/-- FALSE as written. `<a xmlns:q="A"><b xmlns:p="A" xmlns:q="B"><p:a/></b></a>`: `xmlns:p="A"` on
    `b` is dropped because `A` is known above through `q`, but `q` is redeclared on `b` itself, so
    `{A}a` is left without a prefix and `to_string` fails with `MissingPrefix`. -/
theorem C15_serialises_false : ¬ C15_serialises_statement := by
  intro h
  have key : ((deduplicateNamespaces c15SerEnv c15SerWitness []).bind fun t' =>
      namesWritable c15SerEnv t' []) = some false := by decide
  have hw : namesWritable c15SerEnv c15SerWitness [] = some true := by decide
  cases hd : deduplicateNamespaces c15SerEnv c15SerWitness [] with
  | none => simp [hd] at key
  | some t' =>
    have := h c15SerEnv c15SerWitness t' hd hw
    simp [hd, this] at key

/-- The three loops of `deduplicate_namespaces` (edge traversal with name stack and tracker,
    fix-up list, removal by prefix) amount to one recursive rebuild of the tree. -/
theorem C15_recursive_form (env : Env) (t : Tree) :
    deduplicateNamespaces env t [] = some (rbWalk env [] t []).2 :=
  deduplicateNamespaces_root env t

/-- The boundary of the defect: no prefix is declared twice on any root-to-node path (so nothing
    is shadowed), `xml` is not declared, and only elements carry declarations. -/
def NoShadowing (t : Tree) : Prop := noShadow [Env.xmlPrefix] t

/-- Without shadowing, `deduplicate_namespaces(root)` keeps every name writable: if `to_string`
    found a prefix for every element and attribute name before, it does after. (Elements keep
    the outermost declaration of their namespace; attributes keep a non-empty prefix because the
    DeduplicateTracker refuses the removal whenever the namespace is otherwise only the default
    namespace and an attribute below uses it.) -/
theorem C15_serialises_partial (env : Env) (t t' : Tree)
    (hd : deduplicateNamespaces env t [] = some t') (hg : NoShadowing t)
    (hw : namesWritable env t [] = some true) : namesWritable env t' [] = some true :=
  namesWritable_dedup_root env t t' hd hg hw

/-! ### Non-vacuity -/

/-- `<a xmlns="A" xmlns:p="B"><b xmlns:q="A" q:x=""><c xmlns:r="B"/></b></a>` (a, b in A; x in A;
    c in B): no shadowing, writable, and dedup removes `r` but must keep `q` (the attribute). -/
def c15PartialWitness : Tree :=
  .node (.element 0) [.node (.namespace 0 2) [], .node (.namespace 2 3) [],
    .node (.element 0) [.node (.namespace 3 2) [], .node (.attribute 1 []) [],
      .node (.element 2) [.node (.namespace 4 3) []]]]

def c15PartialEnv : Env := { namespaces := [], prefixes := [], names := [(['a'], 2), (['x'], 2), (['c'], 3)] }

example : NoShadowing c15PartialWitness := by
  simp [NoShadowing, c15PartialWitness, noShadow, noShadow.noShadowList, nsDecls_node, declsOfKids,
    Tree.value, Env.xmlPrefix]

example : namesWritable c15PartialEnv c15PartialWitness [] = some true := by decide

example : (deduplicateNamespaces c15PartialEnv c15PartialWitness []).map declsOf =
    some [[(0, 2), (2, 3)], [(3, 2)], [], []] := by decide


/-- `<a xmlns:p="A"><b xmlns:p="A"/></a>`: the redundant declaration on `b` goes, nothing else. -/
example : (deduplicateNamespaces {} (.node (.element 0) [.node (.namespace 2 2) [],
      .node (.element 0) [.node (.namespace 2 2) []]]) []).map declsOf = some [[(2, 2)], []] := by decide

end XotModel.Props
