/-
  C15 — deduplicate_namespaces only removes redundant declarations.
  Property theorems only; for every tree, every path, every environment.

    C15_subset            per node (raw document order, namespace nodes themselves not counted) the
                          declarations after are a sublist of the declarations before: nothing is
                          added, altered or reordered
    C15_frame             the tree without its namespace nodes is unchanged: element names,
                          attributes (names, values, order), text, comments, PIs, shape
    C15_same_nodes        the per-node comparison of C15_subset is between the same nodes
    C15_idem_false        "a second call removes nothing" is FALSE as written: closed witness
                          <r xmlns:q="C" xmlns:p="A"><m xmlns:q="A"><n xmlns:r="C"/></m></r>
    C15_recursive_form    deduplicate_namespaces(root) = the recursive rebuild `rbWalk` (traverse + fix-up
                          list + removal loops discharged once; Lemmas/ScopeRebuild.lean)
    C15_serialises_partial  under NoShadowing (no prefix declared twice on any root-to-node path, xml
                          not declared, only elements carry declarations): if every name could be
                          written before deduplicate_namespaces(root), every name can be written after
    C15_serialises_false  "a tree that serialised before still serialises" is FALSE as written:
                          closed witness <a xmlns:q="A"><b xmlns:p="A" xmlns:q="B"><p:a/></b></a>
                          (namesWritable = to_string does not fail with MissingPrefix; tied to the
                          implementation by the `scope writable` requests)
    C15_recursive_form_inner   deduplicate_namespaces(node) for ANY node = the same rebuild of the subtree,
                          started from an EMPTY name stack and tracker, put back at the node's place
    C15_serialises_partial_inner   C15_serialises_partial for a call on ANY node
    C15_keeps_undeclarations   no binding to the no-namespace id (xmlns="", xmlns:p="") is ever removed, node
                          by node, any call node, given unique prefixes per element in the call's subtree
                          (C15_keeps_undeclarations_unique_needed: closed witness without it)
    C15_idem_partial      a second call removes nothing when, in the call's subtree, no prefix is ever
                          re-bound to another namespace further down a path (noRebind; repeating the same
                          declaration is allowed) and no attribute is in a namespace declared as default
                          namespace on its element or above (noFlag); C15_idem_needs_noRebind /
                          C15_idem_needs_noFlag: each guard alone does not suffice (closed witnesses)
    C15_representable     the call keeps a tree inside the C01 domain (`Representable`, decidable)
    C15_reparses_deep_equal   "… to text that reparses deep-equal to the original", FULL strength: whenever
                          the tree after the call serialises, the text parses back to exactly that tree,
                          which is deep_equal to the tree before the call (corollary of C01_roundtrip)
    C15_roundtrip_partial under NoShadowing (the boundary of C15_serialises_false): a representable tree
                          that serialised before serialises after, and the text reparses deep_equal
-/
import XotModel.Lemmas.ScopeDedup
import XotModel.Lemmas.ScopeKeepNames
import XotModel.Lemmas.ScopeInner
import XotModel.Lemmas.ScopeUndecl
import XotModel.Lemmas.ScopeIdem
import XotModel.Lemmas.ScopeIdemGuards
import XotModel.Lemmas.ScopeRoundTrip
import XotModel.Props.C01

namespace XotModel.Props
open XotModel

/-- Declarations after ⊆ before, node by node; none added, none altered, order kept. -/
theorem C15_subset (env : Env) (t t' : Tree) (path : Path)
    (h : deduplicateNamespaces env t path = some t') : AllSub (declsOfTree t') (declsOfTree t) :=
  (NsShrink.deduplicateNamespaces env t t' path h).decls

/-- The node lists compared by `C15_subset` have the same length (they are the same nodes: see
    `C15_frame`). -/
theorem C15_same_nodes (env : Env) (t t' : Tree) (path : Path)
    (h : deduplicateNamespaces env t path = some t') : (declsOfTree t').length = (declsOfTree t).length :=
  (C15_subset env t t' path h).length_eq

/-- Names, attributes and content untouched: only namespace-node children are deleted. -/
theorem C15_frame (env : Env) (t t' : Tree) (path : Path)
    (h : deduplicateNamespaces env t path = some t') : stripNs t' = stripNs t ∧ t'.value = t.value :=
  ⟨(NsShrink.deduplicateNamespaces env t t' path h).strip,
   (NsShrink.deduplicateNamespaces env t t' path h).value⟩

/-- A second call removes nothing (as the property states it). -/
def C15_idem_statement : Prop :=
  ∀ (env : Env) (t t1 : Tree) (path : Path),
    deduplicateNamespaces env t path = some t1 → deduplicateNamespaces env t1 path = some t1

def c15IdemWitness : Tree :=
  .node (.element 0) [.node (.namespace 3 4) [], .node (.namespace 2 2) [],
    .node (.element 0) [.node (.namespace 3 2) [],
      .node (.element 0) [.node (.namespace 4 4) []]]]

/-- FALSE as written. In `<r xmlns:q="C" xmlns:p="A"><m xmlns:q="A"><n xmlns:r="C"/></m></r>` the
    first call removes `xmlns:q="A"` from `m` (A is known through `p`); that un-shadows `q ↦ C`,
    so the second call finds `C` known at `n` and removes `xmlns:r="C"` too. -/
theorem C15_idem_false : ¬ C15_idem_statement := by
  intro h
  have key : ((deduplicateNamespaces {} c15IdemWitness []).bind fun t1 =>
      (deduplicateNamespaces {} t1 []).map declsOfTree) ≠
      (deduplicateNamespaces {} c15IdemWitness []).map declsOfTree := by decide
  apply key
  cases hd : deduplicateNamespaces {} c15IdemWitness [] with
  | none => rfl
  | some t1 => simp [h {} c15IdemWitness t1 [] hd]

/-- A tree whose names could all be written before can still be written afterwards. -/
def C15_serialises_statement : Prop :=
  ∀ (env : Env) (t t' : Tree),
    deduplicateNamespaces env t [] = some t' → namesWritable env t [] = some true →
    namesWritable env t' [] = some true

def c15SerWitness : Tree :=
  .node (.element 0) [.node (.namespace 3 2) [],
    .node (.element 0) [.node (.namespace 2 2) [], .node (.namespace 3 3) [],
      .node (.element 1) []]]

def c15SerEnv : Env := { namespaces := [], prefixes := [], names := [(['a'], 0), (['a'], 2)] }

/-- FALSE as written. `<a xmlns:q="A"><b xmlns:p="A" xmlns:q="B"><p:a/></b></a>`: `xmlns:p="A"` on
    `b` is dropped because `A` is known above through `q`, but `q` is redeclared on `b` itself, so
    `{A}a` is left without a prefix and `to_string` fails with `MissingPrefix`. -/
theorem C15_serialises_false : ¬ C15_serialises_statement := by
  intro h
  have key : ((deduplicateNamespaces c15SerEnv c15SerWitness []).bind fun t' =>
      namesWritable c15SerEnv t' []) = some false := by decide
  have hw : namesWritable c15SerEnv c15SerWitness [] = some true := by decide
  cases hd : deduplicateNamespaces c15SerEnv c15SerWitness [] with
  | none => simp [hd] at key
  | some t' =>
    have := h c15SerEnv c15SerWitness t' hd hw
    simp [hd, this] at key

/-- The three loops of `deduplicate_namespaces` (edge traversal with name stack and tracker,
    fix-up list, removal by prefix) amount to one recursive rebuild of the tree. -/
theorem C15_recursive_form (env : Env) (t : Tree) :
    deduplicateNamespaces env t [] = some (rbWalk env [] t []).2 :=
  deduplicateNamespaces_root env t

/-- The boundary of the defect: no prefix is declared twice on any root-to-node path (so nothing
    is shadowed), `xml` is not declared, and only elements carry declarations. -/
def NoShadowing (t : Tree) : Prop := noShadow [Env.xmlPrefix] t

/-- Without shadowing, `deduplicate_namespaces(root)` keeps every name writable: if `to_string`
    found a prefix for every element and attribute name before, it does after. (Elements keep
    the outermost declaration of their namespace; attributes keep a non-empty prefix because the
    DeduplicateTracker refuses the removal whenever the namespace is otherwise only the default
    namespace and an attribute below uses it.) -/
theorem C15_serialises_partial (env : Env) (t t' : Tree)
    (hd : deduplicateNamespaces env t [] = some t') (hg : NoShadowing t)
    (hw : namesWritable env t [] = some true) : namesWritable env t' [] = some true :=
  namesWritable_dedup_root env t t' hd hg hw

/-! ### Calls on an inner node -/

/-- `deduplicate_namespaces(node)` for any node: the subtree at the node is rebuilt by the same
    recursive function as for a root call — name stack and tracker start EMPTY at the node, no
    declaration above it is looked at — and everything outside the subtree is untouched. -/
theorem C15_recursive_form_inner (env : Env) (t : Tree) (path : Path) (sub : Tree)
    (hs : t.at? path = some sub) :
    deduplicateNamespaces env t path =
      some (scopeModifyAt (fun s => (rbWalk env [] s []).2) t path) :=
  deduplicateNamespaces_inner env t path sub hs

/-- `C15_serialises_partial` for a call on ANY node of the tree: under `NoShadowing` of the whole
    tree, every name `to_string(root)` could write before `deduplicate_namespaces(node)` it can
    write afterwards.  (The call knows nothing about the declarations above `node`; it can only
    remove a declaration whose namespace is bound by an ancestor INSIDE the subtree, and without
    shadowing that binding still reaches the name.) -/
theorem C15_serialises_partial_inner (env : Env) (t t' : Tree) (path : Path)
    (hd : deduplicateNamespaces env t path = some t') (hg : NoShadowing t)
    (hw : namesWritable env t [] = some true) : namesWritable env t' [] = some true :=
  namesWritable_dedup_inner env t t' path hd hg hw

/-! ### Undeclarations are never removed -/

/-- For every tree and every call node: node by node (the nodes are the same before and after:
    `C15_frame`, `C15_same_nodes`; `declsOfTree` lists the declarations of every non-namespace node in
    raw document order), every binding to the no-namespace id — `xmlns=""`, and `xmlns:p=""`
    which `Xot` accepts — that was there before is there afterwards.
    Hypothesis: no element of the call's subtree declares a prefix twice (the removal loop goes by
    prefix and deletes the FIRST namespace node with that key). -/
theorem C15_keeps_undeclarations (env : Env) (t t' : Tree) (path : Path) (sub : Tree)
    (hs : t.at? path = some sub) (hu : UniqueDeclsBelow sub)
    (h : deduplicateNamespaces env t path = some t') : AllKeep (declsOfTree t') (declsOfTree t) :=
  dedup_keeps_undeclarations env t t' path sub hs hu h

/-- `AllKeep` read at the `i`-th node: each pair `(p, no-namespace)` declared there before is
    declared there after. -/
theorem C15_keeps_undeclarations_at (env : Env) (t t' : Tree) (path : Path) (sub : Tree)
    (hs : t.at? path = some sub) (hu : UniqueDeclsBelow sub)
    (h : deduplicateNamespaces env t path = some t') (i : Nat) (before after : List (Nat × Nat))
    (hb : (declsOfTree t)[i]? = some before) (ha : (declsOfTree t')[i]? = some after) (p : Nat)
    (hm : (p, Env.noNamespace) ∈ before) : (p, Env.noNamespace) ∈ after :=
  (C15_keeps_undeclarations env t t' path sub hs hu h).get i after before ha hb _ hm rfl

def c15UndeclWitness : Tree :=
  .node (.element 0) [.node (.namespace 3 2) [],
    .node (.element 0) [.node (.namespace 2 0) [], .node (.namespace 2 2) []]]

/-- The hypothesis is needed: `<a xmlns:q="A"><b xmlns:p="" xmlns:p="A"/></a>` (a prefix declared
    twice on `b`; not constructible through the namespace map of the API): `A` is to be removed
    from `b`, the loop removes "the declaration of `p`", which is `xmlns:p=""`. -/
theorem C15_keeps_undeclarations_unique_needed :
    ¬ ∀ (env : Env) (t t' : Tree), deduplicateNamespaces env t [] = some t' →
        AllKeep (declsOfTree t') (declsOfTree t) := by
  intro h
  have hd : (deduplicateNamespaces {} c15UndeclWitness []).map declsOfTree = some [[(3, 2)], [(2, 2)]] := by
    decide
  cases hx : deduplicateNamespaces {} c15UndeclWitness [] with
  | none => simp [hx] at hd
  | some t' =>
    have hk := h {} c15UndeclWitness t' hx
    simp only [hx, Option.map_some, Option.some.injEq] at hd
    have := hk.get 1 [(2, 2)] [(2, 0), (2, 2)] (by rw [hd]; rfl) (by decide) (2, 0) (by simp) rfl
    simp at this

/-! ### Idempotence -/

/-- A second call removes nothing — under two guards on the subtree the call is made on:
    `noRebind []`: no element declares a prefix twice, and a prefix that is declared again further
    down a path is bound to the same namespace there (so no removal can un-shadow a different
    binding; the typical redundancy `xmlns:p="A"` repeated below `xmlns:p="A"` is allowed);
    `noFlag env []`: no attribute name is in a namespace that is declared as the DEFAULT
    namespace on the attribute's element or on an element above it (the DeduplicateTracker never
    sets a flag, so no declaration owes its survival to a flag that a removal can strand).
    Both are needed: `C15_idem_needs_noRebind`, `C15_idem_needs_noFlag`.  Exhaustive evaluation
    of the model over 1 062 882 three-element trees (chains and forks, three prefixes incl. the
    default, two namespaces, optional namespaced attribute per element): 55 068 are not
    idempotent; 9 880 of those satisfy noFlag, 60 have no prefix declared twice on a path at all;
    none of the 100 354 trees with both guards is among them. -/
theorem C15_idem_partial (env : Env) (t t1 : Tree) (path : Path) (sub : Tree)
    (hs : t.at? path = some sub) (hg : noRebind [] sub) (hf : noFlag env [] sub)
    (h1 : deduplicateNamespaces env t path = some t1) :
    deduplicateNamespaces env t1 path = some t1 :=
  dedup_idem env t t1 path sub hs hg hf h1

/-- The guards stated once for the whole tree serve every call node. -/
theorem C15_idem_partial_tree (env : Env) (t t1 : Tree) (path : Path)
    (hg : noRebind [] t) (hf : noFlag env [] t)
    (h1 : deduplicateNamespaces env t path = some t1) :
    deduplicateNamespaces env t1 path = some t1 := by
  obtain ⟨sub, hs⟩ := deduplicateNamespaces_isSome env t t1 path h1
  exact dedup_idem env t t1 path sub hs (noRebind_at path t sub _ hs hg)
    (noFlag_at env path t sub _ hs hf) h1

/-- `NoShadowing` (the guard of `C15_serialises_partial`) is a special case of `noRebind`. -/
theorem C15_idem_partial_noShadowing (env : Env) (t t1 : Tree) (path : Path)
    (hg : NoShadowing t) (hf : noFlag env [] t)
    (h1 : deduplicateNamespaces env t path = some t1) :
    deduplicateNamespaces env t1 path = some t1 :=
  C15_idem_partial_tree env t t1 path
    (noRebind_of_noShadow t [Env.xmlPrefix] [] (by simp) hg) hf h1

/-- `noFlag` alone does not do: the witness of `C15_idem_false` has no attributes at all
    (and re-binds `q` from `C` to `A`). -/
theorem C15_idem_needs_noRebind :
    ¬ ∀ (env : Env) (t t1 : Tree), noFlag env [] t →
        deduplicateNamespaces env t [] = some t1 → deduplicateNamespaces env t1 [] = some t1 := by
  intro h
  have key : ((deduplicateNamespaces {} c15IdemWitness []).bind fun t1 =>
      (deduplicateNamespaces {} t1 []).map declsOfTree) ≠
      (deduplicateNamespaces {} c15IdemWitness []).map declsOfTree := by decide
  apply key
  have hf : noFlag {} [] c15IdemWitness := by
    simp [c15IdemWitness, noFlag, noFlag.noFlagList, Tree.attrs, Tree.attributeNodes, Tree.kids,
      Tree.value, Value.category]
  cases hd : deduplicateNamespaces {} c15IdemWitness [] with
  | none => rfl
  | some t2 => simp [h {} c15IdemWitness t2 hf hd]

def c15IdemWitness2 : Tree :=
  .node (.element 0) [.node (.namespace 2 2) [],
    .node (.element 0) [.node (.namespace 0 2) [],
      .node (.element 0) [.node (.namespace 3 2) [], .node (.attribute 1 []) []]]]

def c15IdemEnv2 : Env := { namespaces := [], prefixes := [], names := [(['a'], 0), (['x'], 2)] }

/-- `noRebind` (even `noShadow`) alone does not do:
    `<r xmlns:p="A"><a xmlns="A"><b xmlns:q="A" q:x=""/></a></r>`.
    The first call keeps `xmlns:q` (the attribute flagged the entry of `xmlns="A"`) and removes
    `xmlns="A"`; the second call finds nothing flagged and removes `xmlns:q`. -/
theorem C15_idem_needs_noFlag :
    ¬ ∀ (env : Env) (t t1 : Tree), noShadow [] t → noRebind [] t →
        deduplicateNamespaces env t [] = some t1 → deduplicateNamespaces env t1 [] = some t1 := by
  intro h
  have key : ((deduplicateNamespaces c15IdemEnv2 c15IdemWitness2 []).bind fun t1 =>
      (deduplicateNamespaces c15IdemEnv2 t1 []).map declsOfTree) ≠
      (deduplicateNamespaces c15IdemEnv2 c15IdemWitness2 []).map declsOfTree := by decide
  apply key
  have hg : noShadow [] c15IdemWitness2 := by
    simp [c15IdemWitness2, noShadow, noShadow.noShadowList, nsDecls_node, declsOfKids, Tree.value]
  cases hd : deduplicateNamespaces c15IdemEnv2 c15IdemWitness2 [] with
  | none => rfl
  | some t2 =>
    simp [h c15IdemEnv2 c15IdemWitness2 t2 hg (noRebind_of_noShadow _ [] [] (by simp) hg) hd]

/-! ### Non-vacuity -/

/-- `<a xmlns="A" xmlns:p="B"><b xmlns:q="A" q:x=""><c xmlns:r="B"/></b></a>` (a, b in A; x in A;
    c in B): no shadowing, writable, and dedup removes `r` but must keep `q` (the attribute). -/
def c15PartialWitness : Tree :=
  .node (.element 0) [.node (.namespace 0 2) [], .node (.namespace 2 3) [],
    .node (.element 0) [.node (.namespace 3 2) [], .node (.attribute 1 []) [],
      .node (.element 2) [.node (.namespace 4 3) []]]]

def c15PartialEnv : Env := { namespaces := [], prefixes := [], names := [(['a'], 2), (['x'], 2), (['c'], 3)] }

example : NoShadowing c15PartialWitness := by
  simp [NoShadowing, c15PartialWitness, noShadow, noShadow.noShadowList, nsDecls_node, declsOfKids,
    Tree.value, Env.xmlPrefix]

example : namesWritable c15PartialEnv c15PartialWitness [] = some true := by decide

example : (deduplicateNamespaces c15PartialEnv c15PartialWitness []).map declsOfTree =
    some [[(0, 2), (2, 3)], [(3, 2)], [], []] := by decide


/-- `<a xmlns:p="A"><b xmlns:p="A"/></a>`: the redundant declaration on `b` goes, nothing else. -/
example : (deduplicateNamespaces {} (.node (.element 0) [.node (.namespace 2 2) [],
      .node (.element 0) [.node (.namespace 2 2) []]]) []).map declsOfTree = some [[(2, 2)], []] := by decide

/-- Inner call on `b` (path `[2]`) of `c15PartialWitness`: only `xmlns:r="B"`… stays (B is not
    bound inside `b`'s subtree), and `xmlns:q` stays; the tree is still writable. -/
example : (deduplicateNamespaces c15PartialEnv c15PartialWitness [2]).map declsOfTree =
    some [[(0, 2), (2, 3)], [(3, 2)], [], [(4, 3)]] := by decide

/-- `<a xmlns:p="A"><b><c xmlns:q="A"/><d xmlns=""/></b></a>`, call on `b` (path `[1]`): nothing
    is known inside `b`, nothing goes; call on the root: `xmlns:q` goes, `xmlns=""` stays. -/
def c15InnerWitness : Tree :=
  .node (.element 0) [.node (.namespace 2 2) [],
    .node (.element 0) [.node (.element 0) [.node (.namespace 3 2) []],
      .node (.element 0) [.node (.namespace 0 0) []]]]

example : (deduplicateNamespaces {} c15InnerWitness [1]).map declsOfTree =
    some [[(2, 2)], [], [(3, 2)], [(0, 0)]] := by decide
example : (deduplicateNamespaces {} c15InnerWitness []).map declsOfTree =
    some [[(2, 2)], [], [], [(0, 0)]] := by decide
example : UniqueDeclsBelow c15InnerWitness := uniqueDeclsB_sound _ (by decide)
example : NoShadowing c15InnerWitness := by
  simp [NoShadowing, c15InnerWitness, noShadow, noShadow.noShadowList, nsDecls_node, declsOfKids,
    Tree.value, Env.xmlPrefix]
example : noFlag {} [] c15InnerWitness := by
  simp [c15InnerWitness, noFlag, noFlag.noFlagList, Tree.attrs, Tree.attributeNodes, Tree.kids,
    Tree.value, Value.category]

/-- The guards of `C15_idem_partial` with attributes present: `c15PartialWitness` has `q:x` in `A`
    under `xmlns="A"` — flagged, so NOT `noFlag`; with the attribute in `B` instead it is. -/
example : noFlag { namespaces := [], prefixes := [], names := [(['a'], 2), (['x'], 3), (['c'], 3)] } []
    c15PartialWitness := by
  simp [c15PartialWitness, noFlag, noFlag.noFlagList, Tree.attrs, Tree.attributeNodes, Tree.kids,
    Tree.value, Value.category, Tree.getNamespace, nsDecls_node, declsOfKids, Env.emptyPrefix,
    Env.nsOfName]

/-- `<a xmlns:p="A"><b xmlns:p="A"><c xmlns:q="A"/></b></a>`: `p` is declared twice on a path (not
    `NoShadowing`) but never re-bound: both guards of `C15_idem_partial` hold, the first call removes
    two declarations, the second none. -/
def c15RebindWitness : Tree :=
  .node (.element 0) [.node (.namespace 2 2) [],
    .node (.element 0) [.node (.namespace 2 2) [], .node (.element 0) [.node (.namespace 3 2) []]]]

example : noRebind [] c15RebindWitness := by
  simp [c15RebindWitness, noRebind, noRebind.noRebindList, nsDecls_node, declsOfKids, Tree.value]
example : noFlag {} [] c15RebindWitness := by
  simp [c15RebindWitness, noFlag, noFlag.noFlagList, Tree.attrs, Tree.attributeNodes, Tree.kids,
    Tree.value, Value.category]
example : (deduplicateNamespaces {} c15RebindWitness []).map declsOfTree = some [[(2, 2)], [], []] := by decide

/-! ### "… to text that reparses deep-equal to the original" (corollaries of C01_roundtrip) -/

/-- The call keeps a tree inside the C01 domain: removing namespace nodes keeps every clause of
    `Representable` (structure, lexical conditions, unique `xml:id`s, one top-level element). -/
theorem C15_representable (env : Env) (t t' : Tree) (path : Path) (hr : Representable env t = true)
    (h : deduplicateNamespaces env t path = some t') : Representable env t' = true :=
  representable_deduplicateNamespaces t t' path hr h

/-- … and the fragment domain (`parse_fragment`). -/
theorem C15_representable_fragment (env : Env) (t t' : Tree) (path : Path)
    (hr : RepresentableFragment env t = true) (h : deduplicateNamespaces env t path = some t') :
    RepresentableFragment env t' = true :=
  representableFragment_deduplicateNamespaces t t' path hr h

/-- The second half of the sentence at FULL strength (no `NoShadowing`): for a representable document
    and a call on ANY node, whenever the tree after the call serialises, the text parses back (same
    `Xot`) to exactly the tree after the call, interning nothing, and that tree is `deep_equal` to the
    tree BEFORE the call.  What can go wrong is only the first half (`C15_serialises_false`). -/
theorem C15_reparses_deep_equal (env : Env) (t t' : Tree) (path : Path) (hr : Representable env t = true)
    (h : deduplicateNamespaces env t path = some t') (s : Str) (hs : toXmlString env t' [] = .ok s) :
    ∃ p, parseString .document env s = .ok p ∧ p.tree = t' ∧ p.env = env ∧ deepEqual p.tree t = true := by
  have hr' := C15_representable env t t' path hr h
  obtain ⟨p, h1, h2, h3, _⟩ := C01_roundtrip_identical env t' hr' s hs
  refine ⟨p, h1, h2, h3, ?_⟩
  have ok : ∀ x, Representable env x = true → x.allNodes (nodeOK env) = true := by
    intro x hx
    simp only [Representable, Bool.and_eq_true] at hx
    exact ((representableFragment_iff env x).mp hx.1).2.2.1
  rw [h2]
  exact deepEqual_of_stripNs (ok t' hr') (ok t hr) (C15_frame env t t' path h).1

/-- **C15_roundtrip_partial**: the whole sentence under `NoShadowing` (the boundary of the defect
    `C15_serialises_false`): a representable document every name of which `to_string` could write
    before `deduplicate_namespaces(node)` — any node — serialises afterwards, and the text parses back
    to the tree after the call, which is `deep_equal` to the original. -/
theorem C15_roundtrip_partial (env : Env) (t t' : Tree) (path : Path) (hr : Representable env t = true)
    (hd : deduplicateNamespaces env t path = some t') (hg : NoShadowing t)
    (hw : namesWritable env t [] = some true) :
    ∃ s p, toXmlString env t' [] = .ok s ∧ parseString .document env s = .ok p ∧ p.tree = t' ∧
      p.env = env ∧ deepEqual p.tree t = true := by
  have hr' := C15_representable env t t' path hr hd
  have hw' := C15_serialises_partial_inner env t t' path hd hg hw
  have hfrag : RepresentableFragment env t' = true := by
    simp only [Representable, Bool.and_eq_true] at hr'; exact hr'.1
  obtain ⟨s, hs⟩ := (C01_serialises env t' hfrag).mpr hw'
  obtain ⟨p, h1, h2, h3, h4⟩ := C15_reparses_deep_equal env t t' path hr hd s hs
  exact ⟨s, p, hs, h1, h2, h3, h4⟩

/-- With "serialised before" as the property words it (`to_string` returned a text). -/
theorem C15_roundtrip_partial_text (env : Env) (t t' : Tree) (path : Path) (hr : Representable env t = true)
    (hd : deduplicateNamespaces env t path = some t') (hg : NoShadowing t) (s0 : Str)
    (hs0 : toXmlString env t [] = .ok s0) :
    ∃ s p, toXmlString env t' [] = .ok s ∧ parseString .document env s = .ok p ∧ p.tree = t' ∧
      p.env = env ∧ deepEqual p.tree t = true := by
  have hfrag : RepresentableFragment env t = true := by
    simp only [Representable, Bool.and_eq_true] at hr; exact hr.1
  exact C15_roundtrip_partial env t t' path hr hd hg ((C01_serialises env t hfrag).mp ⟨s0, hs0⟩)

/-- Non-vacuity, closed: `<r xmlns="urn:a" xmlns:p="urn:b"><p:c xmlns:q="urn:b"/></r>` — `xmlns:q` is
    redundant and removed; the hypotheses hold, the result serialises to
    `<r xmlns="urn:a" xmlns:p="urn:b"><p:c/></r>`. -/
def c15RtEnv : Env where
  namespaces := [[], xmlNamespaceUri, ['u', 'r', 'n', ':', 'a'], ['u', 'r', 'n', ':', 'b']]
  prefixes := [[], ['x', 'm', 'l'], ['p'], ['q']]
  names := [(['s', 'p', 'a', 'c', 'e'], 1), (['i', 'd'], 1), (['r'], 2), (['c'], 3)]

def c15RtDoc : Tree :=
  .node .document [.node (.element 2) [.node (.namespace 0 2) [], .node (.namespace 2 3) [],
    .node (.element 3) [.node (.namespace 3 3) []]]]

example : Representable c15RtEnv c15RtDoc = true ∧ namesWritable c15RtEnv c15RtDoc [] = some true ∧
    (deduplicateNamespaces c15RtEnv c15RtDoc []).map (fun t' => (declsOfTree t', toXmlString c15RtEnv t' [])) =
      some ([[], [(0, 2), (2, 3)], []],
        .ok "<r xmlns=\"urn:a\" xmlns:p=\"urn:b\"><p:c/></r>".toList) := by decide

theorem C15_rt_witness_noShadowing : NoShadowing c15RtDoc := by
  simp [NoShadowing, c15RtDoc, noShadow, noShadow.noShadowList, nsDecls_node, declsOfKids,
    Tree.value, Env.xmlPrefix]

example : ∃ t' s p, deduplicateNamespaces c15RtEnv c15RtDoc [] = some t' ∧
    toXmlString c15RtEnv t' [] = .ok s ∧ parseString .document c15RtEnv s = .ok p ∧ p.tree = t' ∧
    deepEqual p.tree c15RtDoc = true := by
  cases hd : deduplicateNamespaces c15RtEnv c15RtDoc [] with
  | none =>
    have : (deduplicateNamespaces c15RtEnv c15RtDoc []).isSome = true := by decide
    rw [hd] at this; cases this
  | some t' =>
    obtain ⟨s, p, h1, h2, h3, _, h5⟩ := C15_roundtrip_partial c15RtEnv c15RtDoc t' [] (by decide) hd
      C15_rt_witness_noShadowing (by decide)
    exact ⟨t', s, p, rfl, h1, h2, h3, h5⟩

end XotModel.Props
